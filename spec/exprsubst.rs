// ---------------------------------------------------------------------------
// spec/exprsubst.rs -- unit `exprsubst` (expression-level core of C10 / C12).
//
//   es_wf(e)        the expression is WELL-SIZED as P-Code demands per operation (C12): operands of same-size
//                   operations have equal sizes, boolean operations work on single bytes, extension targets are not
//                   smaller than their operand, a subpiece lies inside its operand, constants are whole bytes, and
//                   every size is between 1 and MAXBYTES (32 MiB; keeps `size * 8` far from overflow).
//   es_eval(e, env) the VALUE of the expression under a valuation of its variables: recursion over the real
//                   `Expression` enum with the P-Code oracle of unit `bitvector` (spec/pcode.rs: pcode_bin, pcode_un,
//                   pcode_cast, pcode_subpiece -- mathematical integers).  None = P-Code gives no integer value:
//                   `Unknown`, floating point, division by zero, a variable whose valuation has not the variable's
//                   size, and a boolean operation (BOOL_AND / BOOL_OR / BOOL_XOR / BOOL_NEGATE: "boolean inputs" in the
//                   P-Code reference manual) on a byte other than 0 / 1.
//   es_same(old, new)  what C10 / C12 ask of ONE rewrite of ONE expression: `new` is well-sized, has the size of `old`,
//                   and has the value of `old` under EVERY valuation under which `old` has a value.
// Written from the property statements and the P-Code manual, not from the rewriter.
// ---------------------------------------------------------------------------

pub type EsEnv = spec_fn(Variable) -> Bitvector;

pub open spec fn es_is_boolop(op: BinOpType) -> bool { op is BoolAnd || op is BoolOr || op is BoolXOr }
pub open spec fn es_is_boolval(a: Bitvector) -> bool { a.w@ == 8 && a.u@ <= 1 }

pub open spec fn es_wf(e: Expression) -> bool
    decreases e
{
    match e {
        Expression::Var(v) => 1 <= v.size.0 <= MAXBYTES(),
        Expression::Const(b) => b.wf() && b.w@ % 8 == 0,
        Expression::BinOp { op, lhs, rhs } => {
            &&& es_wf(*lhs) && es_wf(*rhs)
            &&& if op is Piece { expr_bytes(*lhs) + expr_bytes(*rhs) <= MAXBYTES() }
                else if is_shift_binop(op) { true }
                else if es_is_boolop(op) { expr_bytes(*lhs) == 1 && expr_bytes(*rhs) == 1 }
                else { expr_bytes(*lhs) == expr_bytes(*rhs) }
        },
        Expression::UnOp { op, arg } => es_wf(*arg) && (op is BoolNegate ==> expr_bytes(*arg) == 1),
        Expression::Cast { op, size, arg } => {
            &&& es_wf(*arg) && 1 <= size.0 <= MAXBYTES()
            &&& (op is IntZExt || op is IntSExt) ==> size.0 >= expr_bytes(*arg)
        },
        Expression::Unknown { description, size } => 1 <= size.0 <= MAXBYTES(),
        Expression::Subpiece { low_byte, size, arg } => es_wf(*arg) && 1 <= size.0 && low_byte.0 + size.0 <= expr_bytes(*arg),
    }
}

/// operand condition of a binary operation on VALUES: the oracle's `wellsized_bin` + booleans for the boolean operations
pub open spec fn es_bin_ok(op: BinOpType, a: Bitvector, b: Bitvector) -> bool {
    wellsized_bin(op, a, b) && (es_is_boolop(op) ==> es_is_boolval(a) && es_is_boolval(b))
}
pub open spec fn es_bin(op: BinOpType, a: Bitvector, b: Bitvector) -> Option<Bitvector> {
    if es_bin_ok(op, a, b) { pcode_bin(op, a, b) } else { None }
}
pub open spec fn es_un(op: UnOpType, a: Bitvector) -> Option<Bitvector> {
    if wellsized_un(op, a) { pcode_un(op, a) } else { None }
}
pub open spec fn es_cast(op: CastOpType, a: Bitvector, size: ByteSize) -> Option<Bitvector> {
    if wellsized_cast(op, a, (size.0 * 8) as nat) { pcode_cast(op, a, (size.0 * 8) as nat) } else { None }
}
pub open spec fn es_sub(a: Bitvector, low: ByteSize, size: ByteSize) -> Option<Bitvector> {
    if a.wf() && 1 <= size.0 && (low.0 + size.0) * 8 <= a.w@ { Some(pcode_subpiece(a, (low.0 * 8) as nat, (size.0 * 8) as nat)) } else { None }
}

pub open spec fn es_eval(e: Expression, env: EsEnv) -> Option<Bitvector>
    decreases e
{
    match e {
        Expression::Var(v) => if env(v).wf() && env(v).w@ == v.size.0 * 8 { Some(env(v)) } else { None },
        Expression::Const(b) => Some(b),
        Expression::BinOp { op, lhs, rhs } => match (es_eval(*lhs, env), es_eval(*rhs, env)) {
            (Some(a), Some(b)) => es_bin(op, a, b),
            _ => None,
        },
        Expression::UnOp { op, arg } => match es_eval(*arg, env) {
            Some(a) => es_un(op, a),
            None => None,
        },
        Expression::Cast { op, size, arg } => match es_eval(*arg, env) {
            Some(a) => es_cast(op, a, size),
            None => None,
        },
        Expression::Unknown { description, size } => None,
        Expression::Subpiece { low_byte, size, arg } => match es_eval(*arg, env) {
            Some(a) => es_sub(a, low_byte, size),
            None => None,
        },
    }
}

/// value clause for one valuation
pub open spec fn es_val_kept(old: Expression, new: Expression, env: EsEnv) -> bool {
    es_eval(old, env) is Some ==> es_eval(new, env) == es_eval(old, env)
}

/// THE contract of one rewrite (C12: well-sized, size kept; C10: value kept under every valuation that gives `old` a value)
pub open spec fn es_same(old: Expression, new: Expression) -> bool {
    &&& es_wf(new)
    &&& expr_bytes(new) == expr_bytes(old)
    &&& forall |env: EsEnv| #[trigger] es_val_kept(old, new, env)
}

// constructors (Box::new is not a spec function)
pub open spec fn es_c(w: nat, u: nat) -> Expression { Expression::Const(bv(w, u)) }
