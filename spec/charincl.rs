// ---------------------------------------------------------------------------
// spec/charincl.rs -- the oracle of unit `charincl` (property C06, character-inclusion domain).
// Written from the module documentation of abstract_domain/character_inclusion.rs and from Costantini, Ferrara,
// Cortesi, "Static Analysis of String Values" (ICFEM 2011), section "Character inclusion":
//   an abstract value is a pair (C, MC) of "certainly contained" and "maybe contained" characters and
//       gamma(C, MC) = { s | C  subseteq  chars(s)  subseteq  MC };
//   in the code each of the two components is a `CharacterSet`, either an explicit finite set or `Top` = "all allowed
//   characters"; the domain value `Top` "stands for an empty set of certainly contained characters and the whole
//   alphabet for the possibly contained characters", i.e. represents every string.
// A concrete string is a `Seq<char>`; chars(s) is `{ c | s.contains(c) }`.
// ---------------------------------------------------------------------------

impl CharacterSet {
    /// the character `c` belongs to the described character set
    pub open spec fn ci_has(&self, c: char) -> bool {
        match *self {
            CharacterSet::Top => true,
            CharacterSet::Value(set) => set@.contains(c),
        }
    }

    /// same described set, same shape (what derive(PartialEq) decides, what derive(Clone) preserves)
    pub open spec fn ci_same(&self, other: &CharacterSet) -> bool {
        match (*self, *other) {
            (CharacterSet::Top, CharacterSet::Top) => true,
            (CharacterSet::Value(a), CharacterSet::Value(b)) => a@ == b@,
            _ => false,
        }
    }
}

impl CharacterInclusionDomain {
    /// THE CONCRETISATION: the string `s` is represented by the value
    pub open spec fn ci_gamma(&self, s: Seq<char>) -> bool {
        match *self {
            CharacterInclusionDomain::Top => true,
            CharacterInclusionDomain::Value((certain, possible)) =>
                ci_between(certain, possible, s),
        }
    }

    /// `c` is certainly contained in every represented string ("Top stands for an empty set of certainly contained characters")
    pub open spec fn ci_certain_has(&self, c: char) -> bool {
        match *self {
            CharacterInclusionDomain::Top => false,
            CharacterInclusionDomain::Value((certain, possible)) => certain.ci_has(c),
        }
    }

    /// `c` may occur in a represented string ("... and the whole alphabet for the possibly contained characters")
    pub open spec fn ci_possible_has(&self, c: char) -> bool {
        match *self {
            CharacterInclusionDomain::Top => true,
            CharacterInclusionDomain::Value((certain, possible)) => possible.ci_has(c),
        }
    }

    pub open spec fn ci_same(&self, other: &CharacterInclusionDomain) -> bool {
        match (*self, *other) {
            (CharacterInclusionDomain::Top, CharacterInclusionDomain::Top) => true,
            (CharacterInclusionDomain::Value((c1, p1)), CharacterInclusionDomain::Value((c2, p2))) => c1.ci_same(&c2) && p1.ci_same(&p2),
            _ => false,
        }
    }
}

/// certain  subseteq  chars(s)  subseteq  possible
pub open spec fn ci_between(certain: CharacterSet, possible: CharacterSet, s: Seq<char>) -> bool {
    &&& forall |c: char| #![trigger certain.ci_has(c)] #![trigger s.contains(c)] certain.ci_has(c) ==> s.contains(c)
    &&& forall |c: char| #![trigger s.contains(c)] #![trigger possible.ci_has(c)] s.contains(c) ==> possible.ci_has(c)
}
