// ---------------------------------------------------------------------------
// spec/mem_region.rs -- specification vocabulary of unit `mem_region` (property C05).
// Written from the property statement: "no two stored cells overlap and no stored cell is the unknown
// value", "a read returns the value last written there with exactly that offset and size unless a later
// operation touched an overlapping byte", "a merge keeps only cells that both inputs hold at the same offset
// with the same size (merged) or that overlap nothing in the other input".
// A region is seen as its cell map  Map<i64, T>  (offset -> value; the size of a cell is the bytesize of
// its value).  Nothing here is trusted: these are definitions.  The hypotheses on the value domain T are
// the predicate `mr_domain_ok` (relative to T's value invariant), listed in the `requires` of every contract that needs them.
// ---------------------------------------------------------------------------

/// size in bytes of a value
pub open spec fn mr_size<T: SizedDomain>(v: T) -> int { v.bytesize_spec() as int }

/// the cell at offset k with size ksz and the byte range [p, p+s) have a byte in common
pub open spec fn mr_meets(k: int, ksz: int, p: int, s: int) -> bool { k < p + s && p < k + ksz }

/// HYPOTHESES of property C05 on the value domain T, RELATIVE TO T's VALUE INVARIANT `inv_spec` (restated traits, contracts/mem_region.vc)
/// and T's merge precondition `merge_pre_spec`: they speak about well-formed values only, because `forall v: T` ranges over every
/// inhabitant of the Rust type (a `Top` or a `DataDomain` whose size field is 2^60 is one).  Every value handed to a region must
/// satisfy inv_spec (`requires`), every stored cell does (`mr_cells_inv`, part of `ok()`).
///   (pre)   a well-formed value may be asked for its size and its top (`bytesize` / `top` have a precondition in some domains),
///   (size)  sizes fit: bytesize <= 2^25 (so `u64::from(bytesize) as i64` is exact and size sums cannot overflow u64),
///   (merge) merge of two well-formed values of equal size (under merge_pre_spec) is well-formed and keeps the size,
///   (top)   top() of a well-formed value is a well-formed top value of the same size, and may be merged with that value,
///   (new)   new_top(s) for 1 <= s <= 2^25 is a well-formed top value of size s; a well-formed value may be merged with the
///           new_top of its own size,
///   (clone) clone() returns its argument.
/// (`bytesize > 0` is NOT a hypothesis: insert_at_byte_index asserts it, stored cells have it by `mr_cells_ok`.)
/// HISTORY: until the instantiation units were written these were UNCONDITIONAL `forall`s, and the (new) clause ranged over every
/// `s: ByteSize`; together with (size) that made the predicate UNSATISFIABLE (new_top(ByteSize(2^25 + 1))).  SATISFIABILITY is now
/// machine-checked: `lemma_mr_toy_hyps` (contracts/mem_region.vc) and the real instantiations in unit instantiate_mem_region.
pub open spec fn mr_domain_ok<T: AbstractDomain + SizedDomain + HasTop>() -> bool {
    &&& forall |v: T| #[trigger] v.inv_spec() ==> v.bytesize_pre_spec() && v.top_pre_spec()
    &&& forall |v: T| v.inv_spec() ==> (#[trigger] v.bytesize_spec()) <= MAXBYTES()
    &&& forall |a: T, b: T| a.inv_spec() && b.inv_spec() && a.merge_pre_spec(&b) && a.bytesize_spec() == b.bytesize_spec()
            ==> (#[trigger] a.merge_spec(&b)).bytesize_spec() == a.bytesize_spec() && a.merge_spec(&b).inv_spec()
    &&& forall |a: T| a.inv_spec() ==> (#[trigger] a.top_spec()).is_top_spec() && a.top_spec().bytesize_spec() == a.bytesize_spec()
            && a.top_spec().inv_spec() && a.merge_pre_spec(&a.top_spec())
    &&& forall |s: ByteSize| 1 <= s.0 <= MAXBYTES() ==> (#[trigger] T::new_top_spec(s)).is_top_spec() && T::new_top_spec(s).bytesize_spec() == s.0
            && T::new_top_spec(s).inv_spec()
    &&& forall |a: T| #[trigger] a.inv_spec() ==> a.merge_pre_spec(&T::new_top_spec(ByteSize(a.bytesize_spec() as u64)))
    &&& forall |a: T, b: T| #[trigger] call_ensures(T::clone, (&a,), b) ==> a == b
}

/// Additional HYPOTHESES needed only by `MemRegion::merge` (which returns `self.clone()` when `self == other`):
/// `==` on values decides specification equality; and -- only for the clause that states the fast path through the merge rule --
/// merge is idempotent on well-formed values.
pub open spec fn mr_eq_is_spec_eq<T: AbstractDomain + SizedDomain + HasTop>() -> bool {
    &&& T::obeys_eq_spec()
    &&& forall |a: T, b: T| #[trigger] a.eq_spec(&b) <==> a == b
}

pub open spec fn mr_merge_idem<T: AbstractDomain + SizedDomain + HasTop>() -> bool {
    forall |a: T| a.inv_spec() ==> #[trigger] a.merge_spec(&a) == a
}

/// every stored cell satisfies the value invariant of T (part of `ok()`)
pub open spec fn mr_cells_inv<T: AbstractDomain + SizedDomain + HasTop>(m: Map<i64, T>) -> bool {
    forall |k: i64| #[trigger] m.contains_key(k) ==> m[k].inv_spec()
}

/// T::merge's precondition holds on every pair of cells that `merge_inner` merges: the two cells at an offset both regions hold,
/// when they have the same size
pub open spec fn mr_merge_pre<T: AbstractDomain + SizedDomain + HasTop>(a: Map<i64, T>, b: Map<i64, T>) -> bool {
    forall |k: i64| #![trigger a.contains_key(k)] #![trigger b.contains_key(k)]
        a.contains_key(k) && b.contains_key(k) && a[k].bytesize_spec() == b[k].bytesize_spec() ==> a[k].merge_pre_spec(&b[k])
}

/// THE INVARIANT of the property: no stored cell is the unknown value (and no cell is empty),
/// no two stored cells overlap.
pub open spec fn mr_cells_ok<T: AbstractDomain + SizedDomain + HasTop>(m: Map<i64, T>) -> bool {
    &&& forall |k: i64| #[trigger] m.contains_key(k) ==> !m[k].is_top_spec() && m[k].bytesize_spec() > 0
    &&& forall |k1: i64, k2: i64| #[trigger] m.contains_key(k1) && #[trigger] m.contains_key(k2) && k1 < k2
            ==> k1 + m[k1].bytesize_spec() <= k2
}

/// machine arithmetic: every stored cell ends at or below i64::MAX (`prev_pos + prev_size`, `index + size`
/// cannot overflow).  Established and kept by the operations themselves, given their argument preconditions.
pub open spec fn mr_in_range<T: AbstractDomain + SizedDomain + HasTop>(m: Map<i64, T>) -> bool {
    forall |k: i64| #[trigger] m.contains_key(k) ==> k + m[k].bytesize_spec() <= i64::MAX
}

/// the cell stored at k meets [p, p+s)
pub open spec fn mr_cell_meets<T: AbstractDomain + SizedDomain + HasTop>(m: Map<i64, T>, k: i64, p: int, s: int) -> bool {
    mr_meets(k as int, mr_size(m[k]), p, s)
}

/// m restricted to the cells that do not meet [p, p+s)
pub open spec fn mr_cleared<T: AbstractDomain + SizedDomain + HasTop>(m: Map<i64, T>, p: int, s: int) -> Map<i64, T> {
    Map::new(m.dom().filter(|k: i64| !mr_cell_meets(m, k, p, s)), |k: i64| m[k])
}

/// the effect of writing v at p: cells meeting [p, p+size(v)) go away, v is stored unless it is the unknown value
pub open spec fn mr_written<T: AbstractDomain + SizedDomain + HasTop>(m: Map<i64, T>, p: i64, v: T) -> Map<i64, T> {
    if v.is_top_spec() { mr_cleared(m, p as int, mr_size(v)) } else { mr_cleared(m, p as int, mr_size(v)).insert(p, v) }
}

/// what a read at offset p with size s returns
pub open spec fn mr_read<T: AbstractDomain + SizedDomain + HasTop>(m: Map<i64, T>, p: i64, s: ByteSize) -> T {
    if m.contains_key(p) && m[p].bytesize_spec() == s.0 { m[p] } else { T::new_top_spec(s) }
}

/// a value merged with the unknown value of its family (`value.merge(&value.top())`)
pub open spec fn mr_with_top<T: AbstractDomain + SizedDomain + HasTop>(v: T) -> T { v.merge_spec(&v.top_spec()) }

/// a value merged with the unknown value of its size (`elem.merge(&T::new_top(elem.bytesize()))`)
pub open spec fn mr_with_new_top<T: AbstractDomain + SizedDomain>(v: T) -> T {
    v.merge_spec(&T::new_top_spec(ByteSize(v.bytesize_spec() as u64)))
}

/// every cell meeting [p, p+s) is replaced by merge(cell, top), or removed if that is the unknown value;
/// all other cells are unchanged
pub open spec fn mr_topped<T: AbstractDomain + SizedDomain + HasTop>(m: Map<i64, T>, p: int, s: int) -> Map<i64, T> {
    Map::new(
        m.dom().filter(|k: i64| mr_cell_meets(m, k, p, s) ==> !mr_with_top(m[k]).is_top_spec()),
        |k: i64| if mr_cell_meets(m, k, p, s) { mr_with_top(m[k]) } else { m[k] },
    )
}

/// the LAYOUT part of the invariant: no stored cell is empty, no two stored cells overlap.  Says nothing about unknown
/// values: it is what `values_mut()` / the first loop of mark_all_values_as_top leave behind (they may turn cells into the
/// unknown value but -- for a size-preserving change -- move no cell).  mr_cells_ok = mr_layout_ok + "no cell is unknown".
pub open spec fn mr_layout_ok<T: AbstractDomain + SizedDomain + HasTop>(m: Map<i64, T>) -> bool {
    &&& forall |k: i64| #[trigger] m.contains_key(k) ==> m[k].bytesize_spec() > 0
    &&& forall |k1: i64, k2: i64| #[trigger] m.contains_key(k1) && #[trigger] m.contains_key(k2) && k1 < k2
            ==> k1 + m[k1].bytesize_spec() <= k2
}

/// clear_top_values: exactly the cells that are not the unknown value, unchanged
pub open spec fn mr_without_tops<T: AbstractDomain + SizedDomain + HasTop>(m: Map<i64, T>) -> Map<i64, T> {
    Map::new(m.dom().filter(|k: i64| !m[k].is_top_spec()), |k: i64| m[k])
}

/// the first loop of mark_all_values_as_top: the same offsets, every cell merged with the unknown value of its family
pub open spec fn mr_all_with_top<T: AbstractDomain + SizedDomain + HasTop>(m: Map<i64, T>) -> Map<i64, T> {
    Map::new(m.dom(), |k: i64| mr_with_top(m[k]))
}

/// mark_all_values_as_top: EVERY cell is replaced by merge(cell, top), or removed if that is the unknown value
/// (= mr_topped for a range that every cell meets: lemma_mr_all_topped_is_topped)
pub open spec fn mr_all_topped<T: AbstractDomain + SizedDomain + HasTop>(m: Map<i64, T>) -> Map<i64, T> {
    Map::new(m.dom().filter(|k: i64| !mr_with_top(m[k]).is_top_spec()), |k: i64| mr_with_top(m[k]))
}

/// l lists the offsets of m, each exactly once, in ascending order (verif_mr_keys)
pub open spec fn mr_keys_of<V>(l: Seq<i64>, m: Map<i64, V>) -> bool {
    &&& forall |i: int| 0 <= i < l.len() ==> m.contains_key(#[trigger] l[i])
    &&& forall |i: int, j: int| 0 <= i < j < l.len() ==> (#[trigger] l[i]) < (#[trigger] l[j])
    &&& forall |k: i64| m.contains_key(k) ==> exists |i: int| 0 <= i < l.len() && #[trigger] l[i] == k
}

/// the offset k lies before position n of such a list (said arithmetically: the list is ascending)
pub open spec fn mr_keys_visited(l: Seq<i64>, n: int, k: i64) -> bool { n < l.len() ==> k < l[n] }

/// merge_write_top: a cell stored at p with exactly the size s is merged with the unknown value (and dropped if the
/// result is the unknown value); otherwise every cell meeting [p, p+s) is removed
pub open spec fn mr_write_topped<T: AbstractDomain + SizedDomain + HasTop>(m: Map<i64, T>, p: i64, s: ByteSize) -> Map<i64, T> {
    if m.contains_key(p) && m[p].bytesize_spec() == s.0 {
        if mr_with_top(m[p]).is_top_spec() { m.remove(p) } else { m.insert(p, mr_with_top(m[p])) }
    } else {
        mr_cleared(m, p as int, s.0 as int)
    }
}

/// r is m with all offsets shifted by o (the whole of r is determined: its keys are exactly the shifted keys)
pub open spec fn mr_is_shifted<T: AbstractDomain + SizedDomain + HasTop>(m: Map<i64, T>, r: Map<i64, T>, o: int) -> bool {
    &&& forall |k: i64| #[trigger] r.contains_key(k) <==> i64::MIN <= k - o <= i64::MAX && m.contains_key((k - o) as i64)
    &&& forall |k: i64| #[trigger] m.contains_key(k) ==> r[(k + o) as i64] == m[k]
}

/// no cell of m meets [p, p+s)
pub open spec fn mr_free<T: AbstractDomain + SizedDomain + HasTop>(m: Map<i64, T>, p: int, s: int) -> bool {
    forall |j: i64| #[trigger] m.contains_key(j) ==> !mr_cell_meets(m, j, p, s)
}

/// merge_or_merge_with_top: both present -> merged if the sizes agree and the result is not the unknown value;
/// one present -> merged with the unknown value of its size, unless the result is the unknown value
pub open spec fn mr_merge_pair<T: AbstractDomain + SizedDomain>(l: Option<&T>, r: Option<&T>) -> Option<T> {
    match (l, r) {
        (Some(a), Some(b)) => if a.bytesize_spec() == b.bytesize_spec() && !a.merge_spec(b).is_top_spec() { Some(a.merge_spec(b)) } else { None },
        (Some(a), None) => if !mr_with_new_top(*a).is_top_spec() { Some(mr_with_new_top(*a)) } else { None },
        (None, Some(b)) => if !mr_with_new_top(*b).is_top_spec() { Some(mr_with_new_top(*b)) } else { None },
        (None, None) => None,
    }
}

/// compute_range_end: offset plus the larger of the sizes present
pub open spec fn mr_range_end<T: SizedDomain>(index: int, l: Option<&T>, r: Option<&T>) -> int {
    match (l, r) {
        (Some(a), Some(b)) => if a.bytesize_spec() <= b.bytesize_spec() { index + b.bytesize_spec() } else { index + a.bytesize_spec() },
        (Some(a), None) => index + a.bytesize_spec(),
        (None, Some(b)) => index + b.bytesize_spec(),
        (None, None) => index,
    }
}

/// THE MERGE RULE of the property: the offset k is kept by merge(a, b)
pub open spec fn mr_merge_keeps<T: AbstractDomain + SizedDomain + HasTop>(a: Map<i64, T>, b: Map<i64, T>, k: i64) -> bool {
    if a.contains_key(k) && b.contains_key(k) {
        // both inputs hold a cell at k: same size, and the merged value is not the unknown value
        a[k].bytesize_spec() == b[k].bytesize_spec() && !a[k].merge_spec(&b[k]).is_top_spec()
    } else if a.contains_key(k) {
        // only a: the cell overlaps nothing in b; it is merged with the unknown value
        mr_free(b, k as int, mr_size(a[k])) && !mr_with_new_top(a[k]).is_top_spec()
    } else if b.contains_key(k) {
        mr_free(a, k as int, mr_size(b[k])) && !mr_with_new_top(b[k]).is_top_spec()
    } else {
        false
    }
}

/// ... and the value it gets
pub open spec fn mr_merge_val<T: AbstractDomain + SizedDomain + HasTop>(a: Map<i64, T>, b: Map<i64, T>, k: i64) -> T {
    if a.contains_key(k) && b.contains_key(k) { a[k].merge_spec(&b[k]) }
    else if a.contains_key(k) { mr_with_new_top(a[k]) }
    else { mr_with_new_top(b[k]) }
}

pub open spec fn mr_merged<T: AbstractDomain + SizedDomain + HasTop>(a: Map<i64, T>, b: Map<i64, T>) -> Map<i64, T> {
    Map::new((a.dom() + b.dom()).filter(|k: i64| mr_merge_keeps(a, b, k)), |k: i64| mr_merge_val(a, b, k))
}

/// l lists, in ascending order of the offsets, the cells of m with lo <= offset < hi, each merged with the unknown value
pub open spec fn mr_range_list<T: AbstractDomain + SizedDomain + HasTop>(l: Seq<(i64, T)>, m: Map<i64, T>, lo: int, hi: int) -> bool {
    &&& forall |i: int| 0 <= i < l.len() ==> m.contains_key((#[trigger] l[i]).0) && lo <= l[i].0 < hi && l[i].1 == mr_with_top(m[l[i].0])
    &&& forall |i: int, j: int| 0 <= i < j < l.len() ==> (#[trigger] l[i]).0 < (#[trigger] l[j]).0
    &&& forall |k: i64| m.contains_key(k) && lo <= k < hi ==> exists |i: int| 0 <= i < l.len() && (#[trigger] l[i]).0 == k
}

/// the offset k has been visited by a loop over such a list that stands at position n
pub open spec fn mr_visited<T>(l: Seq<(i64, T)>, n: int, k: i64, lo: int, hi: int) -> bool {
    lo <= k < hi && (n < l.len() ==> k < l[n].0)
}

/// the ghost sequence of `BTreeMap::iter()` (vstd: all entries, keys increasing), read as a predicate
pub open spec fn mr_keys_sorted<V>(s: Seq<(&i64, &V)>) -> bool {
    forall |i: int, j: int| 0 <= i < j < s.len() ==> *(#[trigger] s[i]).0 < *(#[trigger] s[j]).0
}

pub open spec fn mr_iter_of<V>(s: Seq<(&i64, &V)>, m: Map<i64, V>) -> bool {
    &&& forall |i: int| 0 <= i < s.len() ==> m.contains_key(*(#[trigger] s[i]).0) && m[*s[i].0] == *s[i].1
    &&& mr_keys_sorted(s)
    &&& forall |k: i64| m.contains_key(k) ==> exists |i: int| 0 <= i < s.len() && *(#[trigger] s[i]).0 == k
}

/// the offset k lies before position n of the (ascending) iteration s
pub open spec fn mr_iter_visited<V>(s: Seq<(&i64, &V)>, n: int, k: i64) -> bool {
    exists |j: int| 0 <= j < n && *(#[trigger] s[j]).0 == k
}

/// the entry of the `zipped` map of merge_inner at offset k
pub open spec fn mr_zip_entry<'a, T>(a: Map<i64, T>, b: Map<i64, T>, k: i64) -> (Option<&'a T>, Option<&'a T>) {
    (if a.contains_key(k) { Some(&a[k]) } else { None }, if b.contains_key(k) { Some(&b[k]) } else { None })
}

/// every cell of m at an offset before position n of the iteration s ends at or below e
pub open spec fn mr_ends_below<T: AbstractDomain + SizedDomain + HasTop, V>(m: Map<i64, T>, s: Seq<(&i64, &V)>, n: int, e: int) -> bool {
    forall |k: i64| #[trigger] m.contains_key(k) && mr_iter_visited(s, n, k) ==> k + m[k].bytesize_spec() <= e
}

/// some cell of m at an offset before position n of the iteration s ends exactly at e
pub open spec fn mr_end_attained<T: AbstractDomain + SizedDomain + HasTop, V>(m: Map<i64, T>, s: Seq<(&i64, &V)>, n: int, e: int) -> bool {
    exists |k: i64| #[trigger] m.contains_key(k) && mr_iter_visited(s, n, k) && k + m[k].bytesize_spec() == e
}

/// no cell of m at an offset above x starts below e
pub open spec fn mr_no_later<T: AbstractDomain + SizedDomain + HasTop>(m: Map<i64, T>, x: i64, e: int) -> bool {
    forall |k: i64| #[trigger] m.contains_key(k) && k > x ==> k >= e
}

/// what merge_inner needs of its two inputs for T's preconditions (value invariant of all cells, merge precondition on the pairs that are
/// merged) -- OPAQUE: carried through the zipped loop as one atom and opened per offset by lemma_mr_merge_call_pre (keeps the
/// quantifiers out of the loop's context; a failing obligation of the loop is then reported as such instead of as a resource limit)
#[verifier::opaque]
pub open spec fn mr_merge_inputs_inv<T: AbstractDomain + SizedDomain + HasTop>(a: Map<i64, T>, b: Map<i64, T>) -> bool {
    mr_cells_inv(a) && mr_cells_inv(b) && mr_merge_pre(a, b)
}

impl<T: AbstractDomain + SizedDomain + HasTop> MemRegion<T> {
    /// the cell map of the region
    #[verifier::inline]
    pub open spec fn cells(&self) -> Map<i64, T> { self.inner.values@ }
    /// invariant + machine-arithmetic range + every cell satisfies T's value invariant
    #[verifier::inline]
    pub open spec fn ok(&self) -> bool { mr_cells_ok(self.inner.values@) && mr_in_range(self.inner.values@) && mr_cells_inv(self.inner.values@) }
}
