// ---------------------------------------------------------------------------
// spec/fixpoint.rs -- specification vocabulary of unit `fixpoint` (property C07).
// Written from the property statement: "closed under all edge transfers", "contains the
// start values", "no node is processed more often than the bound".  Nothing here is trusted:
// these are definitions; the hypotheses of the property (join lattice) are the predicate
// `lattice_ok`, which every contract lists under `requires`.
// ---------------------------------------------------------------------------

/// The algebraic half of the property's hypothesis "join lattice": merge is associative,
/// commutative and idempotent.  Opaque: used only through the lemmas of lemmas/fixpoint.rs.
#[verifier::opaque]
pub open spec fn merge_laws<T: Context>(c: T) -> bool {
    &&& forall |a: T::NodeValue, b: T::NodeValue| #[trigger] c.merge_spec(a, b) == c.merge_spec(b, a)
    &&& forall |a: T::NodeValue| #[trigger] c.merge_spec(a, a) == a
    &&& forall |a: T::NodeValue, b: T::NodeValue, d: T::NodeValue|
            #[trigger] c.merge_spec(c.merge_spec(a, b), d) == c.merge_spec(a, c.merge_spec(b, d))
}

/// The other half: `==` / `!=` on node values (the `PartialEq` impl the solver calls) decides
/// specification equality.
pub open spec fn eq_is_spec_eq<V: PartialEq>() -> bool {
    &&& V::obeys_eq_spec()
    &&& forall |a: V, b: V| #[trigger] a.eq_spec(&b) <==> a == b
}

/// HYPOTHESES of property C07 on the transfer system (listed in every `requires`).
pub open spec fn lattice_ok<T: Context>(c: T) -> bool {
    merge_laws(c) && eq_is_spec_eq::<T::NodeValue>()
}

/// `a` is below `b` in the order induced by merge (join): merge(a, b) == b.
pub open spec fn leq<T: Context>(c: T, a: T::NodeValue, b: T::NodeValue) -> bool {
    c.merge_spec(a, b) == b
}

impl<T: Context> Computation<T> {
    pub open spec fn graph(&self) -> DiGraph<T::NodeLabel, T::EdgeLabel> { self.fp_context.graph_spec() }
    /// number of nodes
    pub open spec fn nn(&self) -> nat { self.graph().node_count_spec() }
    pub open spec fn edges(&self) -> Seq<(NodeIndex, NodeIndex)> { self.graph().edge_seq() }
    pub open spec fn valid_edge(&self, e: int) -> bool { 0 <= e < self.edges().len() }
    pub open spec fn src(&self, e: int) -> NodeIndex { self.edges()[e].0 }
    pub open spec fn tgt(&self, e: int) -> NodeIndex { self.edges()[e].1 }
    pub open spec fn has(&self, node: NodeIndex) -> bool { self.node_values@.contains_key(node) }
    pub open spec fn val(&self, node: NodeIndex) -> T::NodeValue { self.node_values@[node] }
    /// priority of a node
    pub open spec fn prio(&self, node: NodeIndex) -> usize { self.node_priority_list@[node.i as int] }

    /// Representation invariant: the two lists are inverse permutations of 0..n,
    /// every key of node_values and every worklist entry is < n.
    pub open spec fn wf(&self) -> bool {
        &&& self.node_priority_list@.len() == self.nn()
        &&& self.priority_to_node_list@.len() == self.nn()
        &&& forall |i: int| 0 <= i < self.nn() ==>
                (#[trigger] self.node_priority_list@[i]) < self.nn()
                && self.priority_to_node_list@[self.node_priority_list@[i] as int].i == i
        &&& forall |p: int| 0 <= p < self.nn() ==>
                (#[trigger] self.priority_to_node_list@[p]).i < self.nn()
                && self.node_priority_list@[self.priority_to_node_list@[p].i as int] == p
        &&& forall |k: NodeIndex| #[trigger] self.node_values@.contains_key(k) ==> k.i < self.nn()
        &&& forall |p: usize| #[trigger] self.worklist@.contains(p) ==> p < self.nn()
    }

    /// everything but node values and worklist is the same
    pub open spec fn same_frame(&self, o: Self) -> bool {
        &&& self.fp_context == o.fp_context
        &&& self.node_priority_list == o.node_priority_list
        &&& self.priority_to_node_list == o.priority_to_node_list
    }

    /// The edge `e` is absorbed: if its source has a value v and the transfer yields Some(x),
    /// the target has a value t with merge(x, t) == t.
    pub open spec fn edge_ok(&self, e: int) -> bool {
        self.has(self.src(e)) ==>
            match self.fp_context.update_edge_spec(self.val(self.src(e)), EdgeIndex { i: e as usize }) {
                Some(x) => self.has(self.tgt(e)) && leq(self.fp_context, x, self.val(self.tgt(e))),
                None => true,
            }
    }

    /// node has a value and all its outgoing edges are absorbed
    pub open spec fn closed_at(&self, node: NodeIndex) -> bool {
        &&& self.has(node)
        &&& forall |e: int| self.valid_edge(e) && self.src(e) == node ==> #[trigger] self.edge_ok(e)
    }

    /// every node with a value whose priority is not in `s` is closed
    pub open spec fn closed_off(&self, s: Set<usize>) -> bool {
        forall |node: NodeIndex| self.has(node) && !s.contains(self.prio(node)) ==> #[trigger] self.closed_at(node)
    }

    /// the same, edge by edge (equivalent under wf: lemma_closed_off_edges)
    pub open spec fn closed_off_e(&self, s: Set<usize>) -> bool {
        forall |e: int| self.valid_edge(e) && !s.contains(self.prio(self.src(e))) ==> #[trigger] self.edge_ok(e)
    }

    /// THE closure statement of the property, unfolded: for every edge e = (a, b) of the graph,
    /// if a has the value v and the transfer of e maps v to Some(x), then b has a value t >= x.
    pub open spec fn all_closed(&self) -> bool {
        forall |e: int| 0 <= e < self.graph().edge_seq().len() ==> {
            let a = (#[trigger] self.graph().edge_seq()[e]).0;
            let b = self.graph().edge_seq()[e].1;
            self.node_values@.contains_key(a) ==>
                match self.fp_context.update_edge_spec(self.node_values@[a], EdgeIndex { i: e as usize }) {
                    Some(x) => self.node_values@.contains_key(b)
                        && self.fp_context.merge_spec(x, self.node_values@[b]) == self.node_values@[b],
                    None => true,
                }
        }
    }

    /// every node that has a value is on the worklist (state after construction + set_node_value)
    pub open spec fn all_on_worklist(&self) -> bool {
        forall |k: NodeIndex| #[trigger] self.has(k) ==> self.worklist@.contains(self.prio(k))
    }

    /// (b) every value of `self` is below the value of the same node in `later`
    pub open spec fn below(&self, later: Self) -> bool {
        forall |k: NodeIndex| #[trigger] self.has(k) ==> later.has(k) && leq(self.fp_context, self.val(k), later.val(k))
    }

    /// all node values except the one of `node` are the same
    pub open spec fn same_except(&self, o: Self, node: NodeIndex) -> bool {
        forall |k: NodeIndex| k != node ==> (#[trigger] self.has(k) == o.has(k)) && (self.has(k) ==> self.val(k) == o.val(k))
    }

    /// absorbed edges stay absorbed from `self` to `later`, except possibly those leaving `node`
    pub open spec fn keeps_edges_except(&self, later: Self, node: NodeIndex) -> bool {
        forall |e: int| self.valid_edge(e) && #[trigger] self.edge_ok(e)
            && (self.src(e) != node || later.node_values@ == self.node_values@) ==> later.edge_ok(e)
    }
}
