// ---------------------------------------------------------------------------
// spec/fixpoint.rs -- specification vocabulary of unit `fixpoint` (property C07).
// Written from the property statement: "closed under all edge transfers", "contains the
// start values", "no node is processed more often than the bound".  Nothing here is trusted:
// these are definitions; the hypotheses of the property (join lattice) are the predicate
// `lattice_ok`, which every contract lists under `requires`.
// ---------------------------------------------------------------------------

/// The algebraic half of the property's hypothesis "join lattice": merge is associative,
/// commutative and idempotent.  Opaque: used only through the lemmas of lemmas/fixpoint.rs.
#[verifier::opaque]
pub open spec fn merge_laws<T: Context>(c: T) -> bool {
    &&& forall |a: T::NodeValue, b: T::NodeValue| #[trigger] c.merge_spec(a, b) == c.merge_spec(b, a)
    &&& forall |a: T::NodeValue| #[trigger] c.merge_spec(a, a) == a
    &&& forall |a: T::NodeValue, b: T::NodeValue, d: T::NodeValue|
            #[trigger] c.merge_spec(c.merge_spec(a, b), d) == c.merge_spec(a, c.merge_spec(b, d))
}

/// The other half: `==` / `!=` on node values (the `PartialEq` impl the solver calls) decides
/// specification equality.
pub open spec fn eq_is_spec_eq<V: PartialEq>() -> bool {
    &&& V::obeys_eq_spec()
    &&& forall |a: V, b: V| #[trigger] a.eq_spec(&b) <==> a == b
}

/// HYPOTHESES of property C07 on the transfer system (listed in every `requires`).
pub open spec fn lattice_ok<T: Context>(c: T) -> bool {
    merge_laws(c) && eq_is_spec_eq::<T::NodeValue>()
}

/// `a` is below `b` in the order induced by merge (join): merge(a, b) == b.
pub open spec fn leq<T: Context>(c: T, a: T::NodeValue, b: T::NodeValue) -> bool {
    c.merge_spec(a, b) == b
}

/// The edge `e` is absorbed by the assignment `vals`: if its source has a value v and the transfer
/// yields Some(x), the target has a value t with merge(x, t) == t.
pub open spec fn edge_ok_c<T: Context>(c: T, vals: Map<NodeIndex, T::NodeValue>, e: int) -> bool {
    let s = c.graph_spec().edge_seq()[e].0;
    let t = c.graph_spec().edge_seq()[e].1;
    vals.contains_key(s) ==>
        match c.update_edge_spec(vals[s], EdgeIndex { i: e as usize }) {
            Some(x) => vals.contains_key(t) && leq(c, x, vals[t]),
            None => true,
        }
}

/// node has a value and all its outgoing edges are absorbed
pub open spec fn closed_at_c<T: Context>(c: T, vals: Map<NodeIndex, T::NodeValue>, node: NodeIndex) -> bool {
    &&& vals.contains_key(node)
    &&& forall |e: int| 0 <= e < c.graph_spec().edge_seq().len() && c.graph_spec().edge_seq()[e].0 == node
            ==> #[trigger] edge_ok_c(c, vals, e)
}

/// every node with a value whose priority is not in `s` is closed
pub open spec fn closed_off_c<T: Context>(c: T, prios: Seq<usize>, vals: Map<NodeIndex, T::NodeValue>, s: Set<usize>) -> bool {
    forall |node: NodeIndex| vals.contains_key(node) && !s.contains(prios[node.i as int]) ==> #[trigger] closed_at_c(c, vals, node)
}

/// the same, edge by edge (equivalent: lemma_closed_off_edges)
pub open spec fn closed_off_e_c<T: Context>(c: T, prios: Seq<usize>, vals: Map<NodeIndex, T::NodeValue>, s: Set<usize>) -> bool {
    forall |e: int| 0 <= e < c.graph_spec().edge_seq().len() && !s.contains(prios[c.graph_spec().edge_seq()[e].0.i as int])
        ==> #[trigger] edge_ok_c(c, vals, e)
}

// The predicates on a `Computation` are thin (inlined) readings of the component-level ones above, so
// that a change of the worklist alone visibly leaves them alone.
impl<T: Context> Computation<T> {
    #[verifier::inline]
    pub open spec fn graph(&self) -> DiGraph<T::NodeLabel, T::EdgeLabel> { self.fp_context.graph_spec() }
    /// number of nodes
    #[verifier::inline]
    pub open spec fn nn(&self) -> nat { self.fp_context.graph_spec().node_count_spec() }
    #[verifier::inline]
    pub open spec fn edges(&self) -> Seq<(NodeIndex, NodeIndex)> { self.fp_context.graph_spec().edge_seq() }
    #[verifier::inline]
    pub open spec fn valid_edge(&self, e: int) -> bool { 0 <= e < self.fp_context.graph_spec().edge_seq().len() }
    #[verifier::inline]
    pub open spec fn src(&self, e: int) -> NodeIndex { self.fp_context.graph_spec().edge_seq()[e].0 }
    #[verifier::inline]
    pub open spec fn tgt(&self, e: int) -> NodeIndex { self.fp_context.graph_spec().edge_seq()[e].1 }
    #[verifier::inline]
    pub open spec fn has(&self, node: NodeIndex) -> bool { self.node_values@.contains_key(node) }
    #[verifier::inline]
    pub open spec fn val(&self, node: NodeIndex) -> T::NodeValue { self.node_values@[node] }
    /// priority of a node
    #[verifier::inline]
    pub open spec fn prio(&self, node: NodeIndex) -> usize { self.node_priority_list@[node.i as int] }

    /// Representation invariant: the two lists are inverse permutations of 0..n,
    /// every key of node_values and every worklist entry is < n.
    pub open spec fn wf(&self) -> bool {
        &&& self.node_priority_list@.len() == self.nn()
        &&& self.priority_to_node_list@.len() == self.nn()
        &&& forall |i: int| 0 <= i < self.nn() ==>
                (#[trigger] self.node_priority_list@[i]) < self.nn()
                && self.priority_to_node_list@[self.node_priority_list@[i] as int].i == i
        &&& forall |p: int| 0 <= p < self.nn() ==>
                (#[trigger] self.priority_to_node_list@[p]).i < self.nn()
                && self.node_priority_list@[self.priority_to_node_list@[p].i as int] == p
        &&& forall |k: NodeIndex| #[trigger] self.node_values@.contains_key(k) ==> k.i < self.nn()
        &&& forall |p: usize| #[trigger] self.worklist@.contains(p) ==> p < self.nn()
    }

    /// everything but node values and worklist is the same
    pub open spec fn same_frame(&self, o: Self) -> bool {
        &&& self.fp_context == o.fp_context
        &&& self.node_priority_list == o.node_priority_list
        &&& self.priority_to_node_list == o.priority_to_node_list
    }

    #[verifier::inline]
    pub open spec fn edge_ok(&self, e: int) -> bool { edge_ok_c(self.fp_context, self.node_values@, e) }

    #[verifier::inline]
    pub open spec fn closed_at(&self, node: NodeIndex) -> bool { closed_at_c(self.fp_context, self.node_values@, node) }

    /// every node with a value whose priority is not in `s` is closed
    #[verifier::inline]
    pub open spec fn closed_off(&self, s: Set<usize>) -> bool {
        closed_off_c(self.fp_context, self.node_priority_list@, self.node_values@, s)
    }

    #[verifier::inline]
    pub open spec fn closed_off_e(&self, s: Set<usize>) -> bool {
        closed_off_e_c(self.fp_context, self.node_priority_list@, self.node_values@, s)
    }

    /// THE closure statement of the property, unfolded: for every edge e = (a, b) of the graph,
    /// if a has the value v and the transfer of e maps v to Some(x), then b has a value t >= x.
    pub open spec fn all_closed(&self) -> bool {
        forall |e: int| 0 <= e < self.fp_context.graph_spec().edge_seq().len() ==> {
            let a = (#[trigger] self.fp_context.graph_spec().edge_seq()[e]).0;
            let b = self.fp_context.graph_spec().edge_seq()[e].1;
            self.node_values@.contains_key(a) ==>
                match self.fp_context.update_edge_spec(self.node_values@[a], EdgeIndex { i: e as usize }) {
                    Some(x) => self.node_values@.contains_key(b)
                        && self.fp_context.merge_spec(x, self.node_values@[b]) == self.node_values@[b],
                    None => true,
                }
        }
    }

    /// every node that has a value is on the worklist (state after construction + set_node_value)
    pub open spec fn all_on_worklist(&self) -> bool {
        forall |k: NodeIndex| #[trigger] self.has(k) ==> self.worklist@.contains(self.prio(k))
    }

    /// (b) every value of `self` is below the value of the same node in `later`
    pub open spec fn below(&self, later: Self) -> bool {
        forall |k: NodeIndex| #[trigger] self.has(k) ==> later.has(k) && leq(self.fp_context, self.val(k), later.val(k))
    }

    /// all node values except the one of `node` are the same
    pub open spec fn same_except(&self, o: Self, node: NodeIndex) -> bool {
        forall |k: NodeIndex| k != node ==> (#[trigger] self.has(k) == o.has(k)) && (self.has(k) ==> self.val(k) == o.val(k))
    }

    /// absorbed edges stay absorbed from `self` to `later`, except possibly those leaving `node`
    pub open spec fn keeps_edges_except(&self, later: Self, node: NodeIndex) -> bool {
        forall |e: int| self.valid_edge(e) && #[trigger] self.edge_ok(e)
            && (self.src(e) != node || later.node_values@ == self.node_values@) ==> later.edge_ok(e)
    }
}

/// some entry of `s` is the node with index v
pub open spec fn takes_value(s: Seq<NodeIndex>, v: int) -> bool {
    exists |j: int| 0 <= j < s.len() && (#[trigger] s[j]).i == v
}

/// `nodes` (position = priority, entry = node) is a permutation of the n node indices
pub open spec fn is_node_permutation(nodes: Seq<NodeIndex>, n: nat) -> bool {
    &&& nodes.len() == n
    &&& forall |i: int| 0 <= i < n ==> (#[trigger] nodes[i]).i < n
    &&& forall |i: int, j: int| 0 <= i < j < n ==> (#[trigger] nodes[i]).i != (#[trigger] nodes[j]).i
    &&& forall |k: int| 0 <= k < n ==> #[trigger] takes_value(nodes, k)
}

/// (c) the remaining step budget of `compute_with_max_steps`: sum over all nodes of max_steps - steps[n]
pub open spec fn steps_left(steps: Seq<u64>, max: u64) -> int
    decreases steps.len()
{
    if steps.len() == 0 { 0 } else { steps_left(steps.drop_last(), max) + (max - steps.last()) }
}
