// ---------------------------------------------------------------------------
// spec/data_domain.rs -- specification vocabulary of unit `data_domain` (properties C03 and C04 for
// pointer/value sets `DataDomain<T>`).  Written from the doc comments of abstract_domain/data.rs and the property
// statements, not from the function bodies:
//   "An abstract domain representing a set of base values plus offsets or an absolute value (or both).  The base values
//    are represented as abstract IDs [...].  For each base value the offset is given by an abstract domain T [...].  If the
//    domain also represents absolute values, then the values are given by a single instance of the abstract domain T.
//    The domain also contains a flag to indicate that it includes Top values, i.e. values of fully unknown origin and
//    offset."
// Nothing here is trusted: these are definitions.  The hypotheses on the value domain T are named predicates
// (`dd_merge_hyp`, `dd_refine_hyp`, `dd_hints_hyp`, `dd_intersect_hyp`) that appear in the `requires` of the contracts.
// ---------------------------------------------------------------------------

/// A concrete run-time value in the sense of DataDomain: an absolute bitvector, or a pointer = base object + offset.
pub enum DdConcrete {
    Abs(Bitvector),
    Rel(AbstractIdentifier, Bitvector),
}

/// THE REPRESENTED SET, over the components of a DataDomain (so that a statement changing one field visibly keeps
/// what depends on the others): the value `c` is represented iff the domain contains Top values (then everything is),
/// or c is an absolute value represented by the absolute part, or c is a pointer into `id` whose offset is
/// represented by the offset stored for `id`.
pub open spec fn dd_gamma_c<T: RegisterDomain>(rel: Map<AbstractIdentifier, T>, abs: Option<T>, top: bool, c: DdConcrete) -> bool {
    top || match c {
        DdConcrete::Abs(v) => abs is Some && abs->Some_0.gamma_spec(v),
        DdConcrete::Rel(id, off) => rel.contains_key(id) && rel[id].gamma_spec(off),
    }
}

impl<T: RegisterDomain> DataDomain<T> {
    /// gamma: the concrete value c is represented by self
    pub open spec fn gamma(&self, c: DdConcrete) -> bool {
        dd_gamma_c(self.relative_values@, self.absolute_value, self.contains_top_values, c)
    }

    /// the absolute bitvector v is represented by the ABSOLUTE PART of self (C04 quantifies over these)
    pub open spec fn abs_gamma(&self, v: Bitvector) -> bool {
        self.absolute_value is Some && self.absolute_value->Some_0.gamma_spec(v)
    }

    /// every stored component has the byte size of the domain ("you cannot merge values of different bytesizes")
    #[verifier::inline]
    pub open spec fn sized(&self) -> bool { dd_sized_c(self.relative_values@, self.absolute_value, self.size.0 as nat) }

    /// the precondition of T::merge holds wherever DataDomain::merge calls it (see dd_merge_pre_c)
    #[verifier::inline]
    pub open spec fn merge_pre(&self, other: &DataDomain<T>) -> bool {
        dd_merge_pre_c(self.relative_values@, self.absolute_value, other.relative_values@, other.absolute_value)
    }
}

/// the precondition of T::merge holds wherever DataDomain::merge calls it: on the two offsets of every target
/// that both operands hold, and on the two absolute parts if both have one
pub open spec fn dd_merge_pre_c<T: RegisterDomain>(ar: Map<AbstractIdentifier, T>, aa: Option<T>, br: Map<AbstractIdentifier, T>, ba: Option<T>) -> bool {
    &&& forall |id: AbstractIdentifier| #![trigger ar.contains_key(id)] #![trigger br.contains_key(id)]
            ar.contains_key(id) && br.contains_key(id) ==> ar[id].merge_pre_spec(&br[id])
    &&& (aa is Some && ba is Some) ==> aa->Some_0.merge_pre_spec(&ba->Some_0)
}

/// every stored component has byte size n
pub open spec fn dd_sized_c<T: RegisterDomain>(rel: Map<AbstractIdentifier, T>, abs: Option<T>, n: nat) -> bool {
    &&& forall |id: AbstractIdentifier| #[trigger] rel.contains_key(id) ==> rel[id].bytesize_spec() == n
    &&& abs is Some ==> abs->Some_0.bytesize_spec() == n
}

/// HYPOTHESIS on the key type: `Ord` on AbstractIdentifier (derived, lexicographic over Tid / location data) is a
/// lawful total order that agrees with `==`.  vstd's BTreeMap specifications are stated under it.
pub open spec fn dd_id_ok() -> bool { vstd::laws_cmp::obeys_cmp::<AbstractIdentifier>() }

/// HYPOTHESES of property C03 on the value domain T (what "merge" of the element domain must satisfy for the
/// pointer/value-set merge to satisfy C03).  DISCHARGED for T = IntervalDomain by units interval_domain /
/// interval_arith (`AbstractDomain for IntervalDomain::merge`: the three `forall` clauses of its contract, under
/// its precondition = `merge_pre_spec`; `r.w() == self.w()` gives the size clause).  (For T = BitvectorDomain unit
/// bitvector proves the structural contract "equal operands -> that operand, different operands -> Top of that size",
/// from which the clauses follow for the obvious gamma; they are not stated there in gamma form.)
///   (over)   merge over-approximates both operands,
///   (stable) merging with something already absorbed does not enlarge the represented set,
///   (clone)  clone() returns its argument,
///   (size)   the merge of two values of equal byte size has that byte size.
pub open spec fn dd_merge_hyp<T: RegisterDomain>() -> bool {
    &&& forall |a: T, b: T, v: Bitvector| #![trigger a.merge_spec(&b).gamma_spec(v)]
            a.merge_pre_spec(&b) && (a.gamma_spec(v) || b.gamma_spec(v)) ==> a.merge_spec(&b).gamma_spec(v)
    &&& forall |a: T, b: T| #![trigger a.merge_spec(&b)]
            a.merge_pre_spec(&b) && (forall |v: Bitvector| b.gamma_spec(v) ==> a.gamma_spec(v))
            ==> (forall |v: Bitvector| #[trigger] a.merge_spec(&b).gamma_spec(v) ==> a.gamma_spec(v))
    &&& forall |a: T, b: T| #[trigger] call_ensures(T::clone, (&a,), b) ==> a == b
    &&& forall |a: T, b: T| #![trigger a.merge_spec(&b)]
            a.merge_pre_spec(&b) && a.bytesize_spec() == b.bytesize_spec() ==> a.merge_spec(&b).bytesize_spec() == a.bytesize_spec()
}

/// the offset stored for `k` by the merge of the target maps a and b
pub open spec fn dd_merged_val<T: RegisterDomain>(a: Map<AbstractIdentifier, T>, b: Map<AbstractIdentifier, T>, k: AbstractIdentifier) -> T {
    if a.contains_key(k) && b.contains_key(k) { a[k].merge_spec(&b[k]) } else if a.contains_key(k) { a[k] } else { b[k] }
}

/// the merged target map: the targets of either operand; a common target gets the merge of the two offsets
pub open spec fn dd_merged_rel<T: RegisterDomain>(a: Map<AbstractIdentifier, T>, b: Map<AbstractIdentifier, T>) -> Map<AbstractIdentifier, T> {
    Map::new(a.dom().union(b.dom()), |k: AbstractIdentifier| dd_merged_val(a, b, k))
}

/// the merged absolute part
pub open spec fn dd_merged_abs<T: RegisterDomain>(a: Option<T>, b: Option<T>) -> Option<T> {
    match (a, b) {
        (Some(x), Some(y)) => Some(x.merge_spec(&y)),
        (Some(x), None) => Some(x),
        (None, Some(y)) => Some(y),
        (None, None) => None,
    }
}

/// `s` is the ghost sequence of `m.iter()`: every element is an entry of m, every key of m occurs, no entry twice
pub open spec fn dd_iter_of<K, V>(s: Seq<(&K, &V)>, m: Map<K, V>) -> bool {
    &&& forall |i: int| 0 <= i < s.len() ==> m.contains_key(*(#[trigger] s[i]).0) && m[*s[i].0] == *s[i].1
    &&& forall |k: K| m.contains_key(k) ==> exists |i: int| 0 <= i < s.len() && *(#[trigger] s[i]).0 == k
    &&& s.no_duplicates()
}

/// the key k occurs before position n of the iteration s
pub open spec fn dd_iter_visited<K, V>(s: Seq<(&K, &V)>, n: int, k: K) -> bool {
    exists |j: int| 0 <= j < n && *(#[trigger] s[j]).0 == k
}

// ---------------------------------------------------------------------------------------------------------------
// C04
// ---------------------------------------------------------------------------------------------------------------

/// the five comparisons against a constant of property C04
pub enum DdCmp { SLe, ULe, SGe, UGe, Ne }

/// the concrete value v satisfies `v CMP bound`
pub open spec fn dd_cmp_holds(cmp: DdCmp, v: Bitvector, bound: Bitvector) -> bool {
    match cmp {
        DdCmp::SLe => v.s() <= bound.s(),
        DdCmp::ULe => v.u@ <= bound.u@,
        DdCmp::SGe => v.s() >= bound.s(),
        DdCmp::UGe => v.u@ >= bound.u@,
        DdCmp::Ne => v.u@ != bound.u@,
    }
}

/// the result of the refinement `cmp` of the value domain T (Some(r) for Ok(r), None for Err)
pub open spec fn dd_refined<T: SpecializeByConditional + RegisterDomain>(cmp: DdCmp, a: T, bound: Bitvector) -> Option<T> {
    match cmp {
        DdCmp::SLe => a.add_signed_less_equal_bound_spec(bound),
        DdCmp::ULe => a.add_unsigned_less_equal_bound_spec(bound),
        DdCmp::SGe => a.add_signed_greater_equal_bound_spec(bound),
        DdCmp::UGe => a.add_unsigned_greater_equal_bound_spec(bound),
        DdCmp::Ne => a.add_not_equal_bound_spec(bound),
    }
}

/// HYPOTHESES of property C04 on the value domain T, one instance per comparison: under T's own precondition
/// (`refine_pre_spec`), Ok(r) keeps every member satisfying the comparison and adds none, Err only if no member
/// satisfies it.  These are EXACTLY the contracts proved for T = IntervalDomain in unit interval_domain
/// (`SpecializeByConditional for IntervalDomain::add_*_bound`; refine_pre_spec = inv, narrow, bound.wf, equal widths
/// <= 64 bit).
pub open spec fn dd_refine_hyp<T: SpecializeByConditional + RegisterDomain>() -> bool {
    forall |cmp: DdCmp, a: T, bound: Bitvector| #![trigger dd_refined(cmp, a, bound)] a.refine_pre_spec(bound) ==>
        match dd_refined(cmp, a, bound) {
            Some(r) => (forall |v: Bitvector| #![trigger r.gamma_spec(v)] #![trigger a.gamma_spec(v)]
                            a.gamma_spec(v) && dd_cmp_holds(cmp, v, bound) ==> r.gamma_spec(v))
                       && (forall |v: Bitvector| #[trigger] r.gamma_spec(v) ==> a.gamma_spec(v)),
            None => forall |v: Bitvector| #[trigger] a.gamma_spec(v) ==> !dd_cmp_holds(cmp, v, bound),
        }
}

/// THE C04 CONTRACT of the five DataDomain wrappers, in three parts (`r` = the returned Result).
/// (1) SOUND -- "every concrete member of the original value that satisfies the condition is still represented":
///   Ok(n):  targets, Top flag and size unchanged; every ABSOLUTE member of self satisfying the comparison is an
///           absolute member of n; hence every member of self that can satisfy it is a member of n (pointers and Top
///           values are kept as they are).
pub open spec fn dd_refine_sound<T: SpecializeByConditional + RegisterDomain>(cmp: DdCmp, d: DataDomain<T>, bound: Bitvector, r: Result<DataDomain<T>, Error>) -> bool {
    r is Ok ==> {
        let n = r->Ok_0;
        &&& n.relative_values@ == d.relative_values@
        &&& n.contains_top_values == d.contains_top_values
        &&& n.size == d.size
        &&& forall |v: Bitvector| #![trigger n.abs_gamma(v)] #![trigger d.abs_gamma(v)] d.abs_gamma(v) && dd_cmp_holds(cmp, v, bound) ==> n.abs_gamma(v)
        &&& forall |c: DdConcrete| #![trigger n.gamma(c)] #![trigger d.gamma(c)] d.gamma(c) && (c is Abs ==> dd_cmp_holds(cmp, c->Abs_0, bound)) ==> n.gamma(c)
    }
}

/// (2) UNSAT -- "refinement reports 'unsatisfiable' only when no represented concrete value can satisfy the condition":
///   Err:    self has no pointer targets and no Top values (either could satisfy the comparison) and no absolute
///           member satisfies it.
pub open spec fn dd_refine_unsat<T: SpecializeByConditional + RegisterDomain>(cmp: DdCmp, d: DataDomain<T>, bound: Bitvector, r: Result<DataDomain<T>, Error>) -> bool {
    r is Err ==> {
        &&& d.relative_values@.len() == 0
        &&& !d.contains_top_values
        &&& forall |v: Bitvector| #[trigger] d.abs_gamma(v) ==> !dd_cmp_holds(cmp, v, bound)
    }
}

/// (3) TIGHT -- beyond the property (precision, not soundness): Ok(n) adds nothing (n's members are members of self),
///   its absolute part is exactly T's refinement of the old absolute part (dropped when that is Err), and n is not the
///   empty value.
pub open spec fn dd_refine_tight<T: SpecializeByConditional + RegisterDomain>(cmp: DdCmp, d: DataDomain<T>, bound: Bitvector, r: Result<DataDomain<T>, Error>) -> bool {
    r is Ok ==> {
        let n = r->Ok_0;
        &&& forall |v: Bitvector| #[trigger] n.abs_gamma(v) ==> d.abs_gamma(v)
        &&& forall |c: DdConcrete| #[trigger] n.gamma(c) ==> d.gamma(c)
        &&& n.absolute_value == (if d.absolute_value is Some { dd_refined(cmp, d.absolute_value->Some_0, bound) } else { None::<T> })
        &&& !(n.relative_values@.len() == 0 && n.absolute_value is None && !n.contains_top_values)
    }
}

/// HYPOTHESIS on T for without_widening_hints: removing widening hints does not change the represented set
/// (unit interval_domain: `r.interval == self.interval`, and gamma reads the interval only) nor the byte size.
pub open spec fn dd_hints_hyp<T: SpecializeByConditional + RegisterDomain>() -> bool {
    &&& forall |a: T, v: Bitvector| #![trigger a.without_widening_hints_spec().gamma_spec(v)]
            a.without_widening_hints_spec().gamma_spec(v) == a.gamma_spec(v)
    &&& forall |a: T, b: T| #[trigger] call_ensures(T::clone, (&a,), b) ==> a == b
}

/// the target map with widening hints removed from every offset
pub open spec fn dd_unhinted_rel<T: SpecializeByConditional + RegisterDomain>(a: Map<AbstractIdentifier, T>) -> Map<AbstractIdentifier, T> {
    Map::new(a.dom(), |k: AbstractIdentifier| a[k].without_widening_hints_spec())
}

/// HYPOTHESIS of property C04 on the value domain T for `intersect` (unit interval_domain proves it for IntervalDomain;
/// intersect_pre_spec = inv, equal widths <= 64 bit, lcm of the strides <= u64::MAX for 33..64 bit values):
/// Ok(r) keeps every common member, Err only when there is no common member.
pub open spec fn dd_intersect_hyp<T: SpecializeByConditional + RegisterDomain>() -> bool {
    forall |a: T, b: T| #![trigger a.intersect_spec(&b)] a.intersect_pre_spec(&b) ==>
        match a.intersect_spec(&b) {
            Some(r) => forall |v: Bitvector| #![trigger r.gamma_spec(v)] a.gamma_spec(v) && b.gamma_spec(v) ==> r.gamma_spec(v),
            None => forall |v: Bitvector| #![trigger a.gamma_spec(v)] #![trigger b.gamma_spec(v)] !(a.gamma_spec(v) && b.gamma_spec(v)),
        }
}

/// the target k survives the intersection of the target maps: both hold it and the offsets intersect
pub open spec fn dd_intersect_keeps<T: SpecializeByConditional + RegisterDomain>(a: Map<AbstractIdentifier, T>, b: Map<AbstractIdentifier, T>, k: AbstractIdentifier) -> bool {
    a.contains_key(k) && b.contains_key(k) && a[k].intersect_spec(&b[k]) is Some
}

/// the intersected target map
pub open spec fn dd_intersected_rel<T: SpecializeByConditional + RegisterDomain>(a: Map<AbstractIdentifier, T>, b: Map<AbstractIdentifier, T>) -> Map<AbstractIdentifier, T> {
    Map::new(a.dom().filter(|k: AbstractIdentifier| dd_intersect_keeps(a, b, k)), |k: AbstractIdentifier| a[k].intersect_spec(&b[k])->Some_0)
}

/// what the closure of intersect_relative_values yields for one common target
pub open spec fn dd_intersect_entry<T: SpecializeByConditional + RegisterDomain>(id: AbstractIdentifier, a: T, b: T) -> Option<(AbstractIdentifier, T)> {
    match a.intersect_spec(&b) { Some(x) => Some((id, x)), None => None }
}

// ---- intersect -------------------------------------------------------------------------------------------------
/// the absolute part after the field-wise step of `intersect` (before the two optional merges)
pub open spec fn dd_isect_core_abs<T: SpecializeByConditional + RegisterDomain>(at: bool, aa: Option<T>, bt: bool, ba: Option<T>) -> Option<T> {
    if at && !bt { ba } else if !at && bt { aa }
    else if aa is Some && ba is Some { aa->Some_0.intersect_spec(&ba->Some_0) } else { None }
}

/// the target map after the field-wise step of `intersect`
pub open spec fn dd_isect_core_rel<T: SpecializeByConditional + RegisterDomain>(at: bool, ar: Map<AbstractIdentifier, T>, bt: bool, br: Map<AbstractIdentifier, T>) -> Map<AbstractIdentifier, T> {
    if at && !bt { br } else if !at && bt { ar } else { dd_intersected_rel(ar, br) }
}

/// "If one domain contains relative values and the other absolute values, then we have to assume that the relative values
/// could represent any of the absolute values": first other's absolute part is merged in when self has targets ...
pub open spec fn dd_isect_abs1<T: SpecializeByConditional + RegisterDomain>(at: bool, ar: Map<AbstractIdentifier, T>, aa: Option<T>, bt: bool, ba: Option<T>) -> Option<T> {
    if ar.len() != 0 && ba is Some { dd_merged_abs(dd_isect_core_abs(at, aa, bt, ba), ba) } else { dd_isect_core_abs(at, aa, bt, ba) }
}

/// ... then self's absolute part when other has targets
pub open spec fn dd_isect_abs2<T: SpecializeByConditional + RegisterDomain>(at: bool, ar: Map<AbstractIdentifier, T>, aa: Option<T>, bt: bool, br: Map<AbstractIdentifier, T>, ba: Option<T>) -> Option<T> {
    if aa is Some && br.len() != 0 { dd_merged_abs(dd_isect_abs1(at, ar, aa, bt, ba), aa) } else { dd_isect_abs1(at, ar, aa, bt, ba) }
}

/// the preconditions of the calls of T::intersect and T::merge that DataDomain::intersect makes
pub open spec fn dd_isect_pre<T: SpecializeByConditional + RegisterDomain>(at: bool, ar: Map<AbstractIdentifier, T>, aa: Option<T>, bt: bool, br: Map<AbstractIdentifier, T>, ba: Option<T>) -> bool {
    &&& forall |id: AbstractIdentifier| #![trigger ar.contains_key(id)] #![trigger br.contains_key(id)]
            ar.contains_key(id) && br.contains_key(id) ==> ar[id].intersect_pre_spec(&br[id])
    &&& (aa is Some && ba is Some) ==> aa->Some_0.intersect_pre_spec(&ba->Some_0)
    &&& (ar.len() != 0 && ba is Some && dd_isect_core_abs(at, aa, bt, ba) is Some)
            ==> dd_isect_core_abs(at, aa, bt, ba)->Some_0.merge_pre_spec(&ba->Some_0)
    &&& (aa is Some && br.len() != 0 && dd_isect_abs1(at, ar, aa, bt, ba) is Some)
            ==> dd_isect_abs1(at, ar, aa, bt, ba)->Some_0.merge_pre_spec(&aa->Some_0)
}
