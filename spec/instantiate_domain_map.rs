// ---------------------------------------------------------------------------
// spec/instantiate_domain_map.rs -- vocabulary of unit `instantiate_domain_map`: the value domains V = BitvectorDomain (unit
// bitvector; `DomainMap<AbstractIdentifier, BitvectorDomain, UnionMergeStrategy>` = the object bounds of checker CWE-119) and
// V = Taint (unit taint; `RegisterTaint = DomainMap<Variable, Taint, UnionMergeStrategy>`) as instances of the traits RESTATED by
// unit domain_map.  Nothing here is trusted: these are definitions.
// ---------------------------------------------------------------------------

/// THE represented set of a BitvectorDomain ("a single value or Top of a byte size"): Top(s) stands for every bitvector of s
/// bytes, Value(b) for b
pub open spec fn inst_bvd_gamma(d: BitvectorDomain, v: Bitvector) -> bool {
    match d {
        BitvectorDomain::Top(s) => v.wf() && (v.w@ + 7) / 8 == s.0,
        BitvectorDomain::Value(b) => v == b,
    }
}

/// precondition of BitvectorDomain::merge / merge_with as proved in unit bitvector (both well-formed) PLUS equal byte sizes:
/// without it merge(Value(x), Top(s)) = Top(size of x) does not over-approximate Top(s)
pub open spec fn inst_bvd_merge_pre(a: BitvectorDomain, b: BitvectorDomain) -> bool {
    a.wf() && b.wf() && a.bytes() == b.bytes()
}

/// the contract of BitvectorDomain::merge of unit bitvector, as a function
pub open spec fn inst_bvd_merge(a: BitvectorDomain, b: BitvectorDomain) -> BitvectorDomain {
    if a == b { a } else { BitvectorDomain::Top(ByteSize(a.bytes() as u64)) }
}

/// the contract of Taint::merge of unit taint, as a function
pub open spec fn inst_taint_merge(a: Taint, b: Taint) -> Taint {
    if a.tainted() || b.tainted() { Taint::Tainted(a.size()) } else { Taint::Top(a.size()) }
}

/// the V half of hypothesis dm_eq_ok::<K, V>(): `==` on values decides specification equality
pub open spec fn inst_dm_eq_ok_v<V: AbstractDomain>() -> bool {
    &&& V::obeys_eq_spec()
    &&& forall |a: V, b: V| #[trigger] a.eq_spec(&b) <==> a == b
}

/// the K half of hypothesis dm_eq_ok::<K, V>() (stays a hypothesis: the key types Variable / AbstractIdentifier are opaque here)
pub open spec fn inst_dm_eq_ok_k<K: Ord + Clone>() -> bool {
    &&& K::obeys_eq_spec()
    &&& forall |a: K, b: K| #[trigger] a.eq_spec(&b) <==> a == b
}
