// ---------------------------------------------------------------------------
// spec/interval_domain.rs -- IntervalDomain = Interval + widening hints + delay.
// The represented set is the set of the underlying interval: widening hints never
// change it (that they do not is an obligation of every function touching them).
// (included after the extraction of `struct IntervalDomain`)
// ---------------------------------------------------------------------------

pub open spec fn hint_ok(h: Option<Bitvector>, w: nat) -> bool {
    h is Some ==> h->Some_0.wf() && h->Some_0.w@ == w
}

impl IntervalDomain {
    #[verifier::inline]
    pub open spec fn w(&self) -> nat { self.interval.start.w@ }

    pub open spec fn inv(&self) -> bool {
        &&& self.interval.inv() && byte_w(self.interval.w())
        &&& hint_ok(self.widening_lower_bound, self.interval.w())
        &&& hint_ok(self.widening_upper_bound, self.interval.w())
    }

    #[verifier::inline]
    pub open spec fn gamma(&self, v: Bitvector) -> bool { self.interval.gamma(v) }

    /// machine-arithmetic side condition of the stride rounding code (`(end - start) as u64` on i64):
    /// only relevant for 8-byte values with stride >= 2 spanning more than half of the value range
    pub open spec fn narrow(&self) -> bool {
        self.interval.stride >= 2 ==> self.interval.end.s() - self.interval.start.s() <= i64::MAX
    }
}

/// provenance of a widening hint set by update_widening_lower_bound / upper_bound: the bound rounded
/// to the stride of the interval, strictly outside the interval
pub open spec fn lower_hint_from(i: Interval, b: Bitvector, h: Bitvector) -> bool {
    &&& h.wf() && h.w@ == i.w() && b.s() <= h.s() < i.start.s()
    &&& ((i.stride == 0 || i.w() > 64) ==> h == b)
    &&& ((i.stride > 0 && i.w() <= 64) ==> on_stride(i.stride, h.s() - i.start.s()) && h.s() - b.s() < i.stride)
}
pub open spec fn upper_hint_from(i: Interval, b: Bitvector, h: Bitvector) -> bool {
    &&& h.wf() && h.w@ == i.w() && i.end.s() < h.s() <= b.s()
    &&& ((i.stride == 0 || i.w() > 64) ==> h == b)
    &&& ((i.stride > 0 && i.w() <= 64) ==> on_stride(i.stride, h.s() - i.start.s()) && b.s() - h.s() < i.stride)
}
