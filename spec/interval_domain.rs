// ---------------------------------------------------------------------------
// spec/interval_domain.rs -- IntervalDomain = Interval + widening hints + delay.
// The represented set is the set of the underlying interval: widening hints never
// change it (that they do not is an obligation of every function touching them).
// (included after the extraction of `struct IntervalDomain`)
// ---------------------------------------------------------------------------

pub open spec fn hint_ok(h: Option<Bitvector>, w: nat) -> bool {
    h is Some ==> h->Some_0.wf() && h->Some_0.w@ == w
}

impl IntervalDomain {
    #[verifier::inline]
    pub open spec fn w(&self) -> nat { self.interval.start.w@ }

    pub open spec fn inv(&self) -> bool {
        &&& self.interval.inv() && byte_w(self.interval.w())
        &&& hint_ok(self.widening_lower_bound, self.interval.w())
        &&& hint_ok(self.widening_upper_bound, self.interval.w())
    }

    #[verifier::inline]
    pub open spec fn gamma(&self, v: Bitvector) -> bool { self.interval.gamma(v) }

    /// machine-arithmetic side condition of the stride rounding code (`(end - start) as u64` on i64):
    /// only relevant for 8-byte values with stride >= 2 spanning more than half of the value range
    pub open spec fn narrow(&self) -> bool {
        self.interval.stride >= 2 ==> self.interval.end.s() - self.interval.start.s() <= i64::MAX
    }
}

/// provenance of a widening hint set by update_widening_lower_bound / upper_bound: the bound rounded
/// to the stride of the interval, strictly outside the interval
pub open spec fn lower_hint_from(i: Interval, b: Bitvector, h: Bitvector) -> bool {
    &&& h.wf() && h.w@ == i.w() && b.s() <= h.s() < i.start.s()
    &&& ((i.stride == 0 || i.w() > 64) ==> h == b)
    &&& ((i.stride > 0 && i.w() <= 64) ==> on_stride(i.stride, h.s() - i.start.s()) && h.s() - b.s() < i.stride)
}
pub open spec fn upper_hint_from(i: Interval, b: Bitvector, h: Bitvector) -> bool {
    &&& h.wf() && h.w@ == i.w() && i.end.s() < h.s() <= b.s()
    &&& ((i.stride == 0 || i.w() > 64) ==> h == b)
    &&& ((i.stride > 0 && i.w() <= 64) ==> on_stride(i.stride, h.s() - i.start.s()) && b.s() - h.s() < i.stride)
}

pub open spec fn opt_min(h: Option<Bitvector>, x: int) -> int { if h is Some && h->Some_0.s() < x { h->Some_0.s() } else { x } }
pub open spec fn opt_max(h: Option<Bitvector>, x: int) -> int { if h is Some && h->Some_0.s() > x { h->Some_0.s() } else { x } }

/// distance between the lowest and the highest bound / widening hint of two domains
pub open spec fn merge_span(a: IntervalDomain, b: IntervalDomain) -> int {
    let lo0 = if a.interval.start.s() <= b.interval.start.s() { a.interval.start.s() } else { b.interval.start.s() };
    let hi0 = if a.interval.end.s() >= b.interval.end.s() { a.interval.end.s() } else { b.interval.end.s() };
    opt_max(a.widening_upper_bound, opt_max(b.widening_upper_bound, hi0)) - opt_min(a.widening_lower_bound, opt_min(b.widening_lower_bound, lo0))
}

/// hints produced by update_widening_*: strictly outside the interval and (<= 8 bytes) on its stride
pub open spec fn hints_outside(d: IntervalDomain) -> bool {
    &&& d.widening_lower_bound is Some ==> d.widening_lower_bound->Some_0.s() < d.interval.start.s()
            && ((d.interval.stride > 0 && d.interval.w() <= 64) ==> on_stride(d.interval.stride, d.widening_lower_bound->Some_0.s() - d.interval.start.s()))
    &&& d.widening_upper_bound is Some ==> d.widening_upper_bound->Some_0.s() > d.interval.end.s()
            && ((d.interval.stride > 0 && d.interval.w() <= 64) ==> on_stride(d.interval.stride, d.widening_upper_bound->Some_0.s() - d.interval.start.s()))
}
