// ---------------------------------------------------------------------------
// spec/bwd_fixpoint.rs -- specification vocabulary of unit `bwd_fixpoint` (property C07: the transfer system that the
// adapter `GeneralizedContext` of analysis/backward_interprocedural_fixpoint/mod.rs hands to the worklist solver).
// Nothing here is trusted: definitions only.  The graph is the REVERSED control flow graph ("get_graph: The return value is
// expected to be the reversed CFG"): the source of an edge here is the target of the edge in the CFG of graph.rs.
// `bf_update_edge` is written from the doc comments of the trait `Context` of that file where they say something (Block: "iteratively
// applying this function ... for each Def term ... short-circuits and returns None"; update_callsite: "The target value is
// coming in via the call edge from the BlkStart node of the called subroutine and the return_value is coming in via the call
// stub edge from the returned-to node of the caller"; split_call_stub / split_return_stub: "decides which data is transferred
// along the Call Stub Edge / Return Stub Edge") and from the comments inside update_edge for the rest (which slot, which term):
// for the backward adapter the documentation is thinner than for the forward one, so part of this specification RESTATES the
// code (said so at the arms).
// ---------------------------------------------------------------------------

/// Block edge, backward: update_def applied to the defs of the block from the LAST to the first, None as soon as one yields
/// None -- the value after the last `n` defs have been processed.
pub open spec fn bf_fold_defs<'a, T: Context<'a>>(c: T, v: T::Value, defs: Seq<Term<Def>>, n: int) -> Option<T::Value>
    decreases n
{
    if n <= 0 {
        Some(v)
    } else {
        match bf_fold_defs(c, v, defs, n - 1) {
            Some(acc) => c.update_def_spec(acc, defs[defs.len() - n]),
            None => None,
        }
    }
}

/// the callsite block / calling function of a CallSource node
pub open spec fn bf_call_blk<'a>(n: Node<'a>) -> &'a Term<Blk> { n->CallSource_source.0 }
pub open spec fn bf_call_sub<'a>(n: Node<'a>) -> &'a Term<Sub> { n->CallSource_source.1 }

/// THE TRANSFER SYSTEM handed to the solver by the backward adapter.
pub open spec fn bf_update_edge<'a, T: Context<'a>>(c: T, nv: NodeValue<T::Value>, e: int) -> Option<NodeValue<T::Value>> {
    let g = c.graph_spec();
    let src = g.node_weight(g.edge_seq()[e].0.i as int);
    let dst = g.node_weight(g.edge_seq()[e].1.i as int);
    match g.edge_weight(e) {
        // BlkEnd -> BlkStart: all Defs of the block, last to first, None as soon as one of them yields None      (documentation)
        Edge::Block => ff_wrap(bf_fold_defs(c, ff_val(nv), cfg_blk(src).term.defs@, cfg_blk(src).term.defs@.len() as int)),
        // return site -> CallReturn: handed on unchanged                                                        (code)
        Edge::ReturnCombine(call) => Some(NodeValue::Value(ff_val(nv))),
        // BlkStart of the callee -> CallSource: the "target value" slot                                          (documentation of update_callsite)
        Edge::Call(call) => Some(NodeValue::CallFlowCombinator { call_stub: None, interprocedural_flow: Some(ff_val(nv)) }),
        // CallReturn -> CallSource: the "return value" slot, filtered by split_call_stub.  A None of split_call_stub does NOT block
        // the edge: the combinator with two empty slots is handed on                                              (code)
        Edge::CrCallStub => Some(NodeValue::CallFlowCombinator { call_stub: c.split_call_stub_spec(ff_val(nv)), interprocedural_flow: None }),
        // CallReturn -> BlkEnd of the returning block: split_return_stub with the function that is returned from  (documentation)
        Edge::CrReturnStub => ff_wrap(c.split_return_stub_spec(ff_val(nv), *cfg_sub(dst))),
        // CallSource -> callsite: update_callsite(target value, return value, calling function, FIRST jump of the callsite block,
        // the term carried by the edge)                                                                           (code)
        Edge::CallCombine(term) => ff_wrap(c.update_callsite_spec(
            nv->CallFlowCombinator_interprocedural_flow, nv->CallFlowCombinator_call_stub, *bf_call_sub(src),
            bf_call_blk(src).term.jmps@[0], *term)),
        // return site -> callsite of a call to a function outside the binary                                      (documentation)
        Edge::ExternCallStub(call) => ff_wrap(c.update_call_stub_spec(ff_val(nv), *call)),
        // jump target -> jumpsite: update_jumpsite with the block of the jumpsite; NO conditional specialisation  (code: the trait's
        // specialize_conditional is never applied by the backward adapter)
        Edge::Jump(jump, untaken) => ff_wrap(c.update_jumpsite_spec(ff_val(nv), *jump, ff_opt_deref(untaken), *cfg_blk(dst))),
    }
}

/// PRECONDITION of the backward edge transfer = what the `panic!` arms, `unwrap_value`, `get_block`, the index `jmps[0]` and the
/// `unwrap()`s of the body demand.
pub open spec fn bf_edge_pre<'a, V: PartialEq + Eq + Clone>(g: Graph<'a>, nv: NodeValue<V>, e: int) -> bool {
    let src = g.node_weight(g.edge_seq()[e].0.i as int);
    let dst = g.node_weight(g.edge_seq()[e].1.i as int);
    &&& 0 <= e < g.edge_seq().len()
    &&& match g.edge_weight(e) {
            Edge::Block => nv is Value && ff_is_blk(src),
            Edge::ReturnCombine(call) => nv is Value,
            Edge::Call(call) => nv is Value,
            Edge::CrCallStub => nv is Value,
            Edge::CrReturnStub => nv is Value && dst is BlkEnd,
            Edge::CallCombine(term) => nv is CallFlowCombinator && src is CallSource && bf_call_blk(src).term.jmps@.len() > 0,
            Edge::ExternCallStub(call) => nv is Value,
            Edge::Jump(jump, untaken) => nv is Value && ff_is_blk(dst),
        }
}

/// the node value variant that belongs to a node kind in the BACKWARD analysis: the artificial CallSource nodes carry a
/// CallFlowCombinator, every other node a plain Value
pub open spec fn bf_shape<V: PartialEq + Eq + Clone>(n: Node, nv: NodeValue<V>) -> bool {
    if n is CallSource { nv is CallFlowCombinator } else { nv is Value }
}

/// edge `e` of the REVERSED graph connects node kinds as the reversal of a CFG of graph.rs does
pub open spec fn bf_edge_kinds_ok<'a>(g: Graph<'a>, e: int) -> bool {
    let src = g.node_weight(g.edge_seq()[e].0.i as int);
    let dst = g.node_weight(g.edge_seq()[e].1.i as int);
    match g.edge_weight(e) {
        Edge::Block => src is BlkEnd && dst is BlkStart,
        Edge::ReturnCombine(call) => src is BlkStart && dst is CallReturn,
        Edge::Call(call) => src is BlkStart && dst is CallSource,
        Edge::CrCallStub => src is CallReturn && dst is CallSource,
        Edge::CrReturnStub => src is CallReturn && dst is BlkEnd,
        Edge::CallCombine(term) => src is CallSource && dst is BlkEnd && bf_call_blk(src).term.jmps@.len() > 0,
        Edge::ExternCallStub(call) => src is BlkStart && dst is BlkEnd,
        Edge::Jump(jump, untaken) => src is BlkStart && dst is BlkEnd,
    }
}

/// `merge_option` / THE MERGE of the backward adapter (same text as in the forward adapter)
pub open spec fn bf_merge_option<'a, T: Context<'a>>(c: T, a: Option<T::Value>, b: Option<T::Value>) -> Option<T::Value> {
    match (a, b) {
        (Some(x), Some(y)) => Some(c.merge_spec(x, y)),
        (Some(x), None) => Some(x),
        (None, Some(y)) => Some(y),
        (None, None) => None,
    }
}

pub open spec fn bf_merge<'a, T: Context<'a>>(c: T, a: NodeValue<T::Value>, b: NodeValue<T::Value>) -> NodeValue<T::Value> {
    match (a, b) {
        (NodeValue::Value(x), NodeValue::Value(y)) => NodeValue::Value(c.merge_spec(x, y)),
        (NodeValue::CallFlowCombinator { call_stub: c1, interprocedural_flow: r1 },
         NodeValue::CallFlowCombinator { call_stub: c2, interprocedural_flow: r2 }) =>
            NodeValue::CallFlowCombinator {
                call_stub: bf_merge_option(c, c1, c2),
                interprocedural_flow: bf_merge_option(c, r1, r2),
            },
        _ => arbitrary(),   // excluded by the precondition
    }
}
