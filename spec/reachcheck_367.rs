// ---------------------------------------------------------------------------
// spec/reachcheck_367.rs -- specification vocabulary of unit `reachcheck_367` (property C17, TOCTOU check).
// Definitions only, nothing trusted.  Written from the property statement:
//   "The TOCTOU check reports a (check, use) pair at a call to the check function exactly when a call to the use function is
//    reachable from it along intraprocedural control flow without passing another call to the check function."
// A POSITION is (p, e): configured pair number p, graph edge number e.
// ---------------------------------------------------------------------------

/// the warning `generate_cwe_warning(source, sink, source_callsite, sink_callsite, sub_name)` of cwe_367.rs builds (text
/// formatting: not modelled), as a function of its arguments
pub uninterp spec fn rc367_warning(source: Seq<char>, sink: Seq<char>, source_callsite: Tid, sink_callsite: Tid, sub_name: Seq<char>) -> CweWarning;

/// the tid the check finds for a configured name
pub open spec fn rc367_check_tid(m: Map<Tid, ExternSymbol>, pairs: Seq<(String, String)>, p: int) -> Option<Tid> {
    rc_symbol_key(m, pairs[p].0@)
}
pub open spec fn rc367_use_tid(m: Map<Tid, ExternSymbol>, pairs: Seq<(String, String)>, p: int) -> Option<Tid> {
    rc_symbol_key(m, pairs[p].1@)
}

/// THE PROPERTY'S DECISION for position (p, e): both functions of pair p are imported, edge e is a call to the check
/// function, and a call to the use function is reachable from it (from the node the call returns to) along intraprocedural
/// control flow without passing another call to the check function
pub open spec fn rc367_reports<'a, N>(g: DiGraph<N, Edge<'a>>, m: Map<Tid, ExternSymbol>, pairs: Seq<(String, String)>, p: int, e: int) -> bool {
    &&& rc367_check_tid(m, pairs, p) is Some
    &&& rc367_use_tid(m, pairs, p) is Some
    &&& cg_valid(g, e)
    &&& rc_calls(g.edge_weight(e), rc367_check_tid(m, pairs, p)->Some_0)
    &&& rc_sink_reachable(g, cg_tgt(g, e), rc367_check_tid(m, pairs, p)->Some_0, rc367_use_tid(m, pairs, p)->Some_0)
}

/// block and function of a BlkStart node
pub open spec fn rc_blkstart<'a>(w: Node<'a>) -> Option<(&'a Term<Blk>, &'a Term<Sub>)> {
    match w {
        Node::BlkStart(blk, sub) => Some((blk, sub)),
        _ => None,
    }
}

/// `x` is a warning for position (p, e): it names the pair, the block the check call returns to, the function, and the
/// jump of SOME reachable call to the use function (which one: iteration order of petgraph)
pub open spec fn rc367_warning_ok<'a>(g: DiGraph<Node<'a>, Edge<'a>>, m: Map<Tid, ExternSymbol>, pairs: Seq<(String, String)>, p: int, e: int, x: CweWarning) -> bool {
    let ret = g.node_weight(cg_tgt(g, e).i as int);
    exists |h: int| #[trigger] rc_sink_hit(g, cg_tgt(g, e), rc367_check_tid(m, pairs, p)->Some_0, rc367_use_tid(m, pairs, p)->Some_0, h)
        && x == rc367_warning(pairs[p].0@, pairs[p].1@, rc_blkstart(ret)->Some_0.0.tid, rc_edge_tid(g, h), rc_blkstart(ret)->Some_0.1.term.name@)
}

/// `w` is a correct list of warnings for all positions that come before (p, e) in the order "pairs in configured order,
/// within a pair the edges in index order": one warning per reporting position, none for the others
pub open spec fn rc367_list<'a>(g: DiGraph<Node<'a>, Edge<'a>>, m: Map<Tid, ExternSymbol>, pairs: Seq<(String, String)>, p: int, e: int, w: Seq<CweWarning>) -> bool
    decreases p, e
{
    if e > 0 {
        if rc367_reports(g, m, pairs, p, e - 1) {
            w.len() > 0 && rc367_warning_ok(g, m, pairs, p, e - 1, w.last()) && rc367_list(g, m, pairs, p, e - 1, w.drop_last())
        } else {
            rc367_list(g, m, pairs, p, e - 1, w)
        }
    } else if p > 0 {
        rc367_list(g, m, pairs, p - 1, g.edge_seq().len() as int, w)
    } else {
        w.len() == 0
    }
}

/// PRECONDITION of cwe_367::check_cwe (no panic): the target of every reporting check call is a BlkStart node.  (A fact
/// about the CFG builder -- property C08: ExternCallStub edges lead to the BlkStart node of the return block.)
pub open spec fn rc367_pre<'a>(g: DiGraph<Node<'a>, Edge<'a>>, m: Map<Tid, ExternSymbol>, pairs: Seq<(String, String)>) -> bool {
    forall |p: int, e: int| #![trigger pairs[p], g.edge_weight(e)] 0 <= p < pairs.len() && rc367_reports(g, m, pairs, p, e)
        ==> rc_blkstart(g.node_weight(cg_tgt(g, e).i as int)) is Some
}
