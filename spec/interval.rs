// ---------------------------------------------------------------------------
// spec/interval.rs -- vocabulary of C02/C03/C04 for the strided interval type,
// written from the property statement:
//   inv:   bounds, stride and width well-formed (start <= end, members lie on the
//          stride, stride 0 exactly for singletons)
//   gamma: the concrete values an interval represents
// (included after the extraction of `struct Interval`)
// ---------------------------------------------------------------------------

/// d is a multiple of the stride (stride 0: d == 0) -- "members lie on the stride"
pub open spec fn on_stride(stride: u64, d: int) -> bool {
    if stride == 0 { d == 0 } else { d % (stride as int) == 0 }
}

impl Interval {
    pub open spec fn w(&self) -> nat { self.start.w@ }

    pub open spec fn inv(&self) -> bool {
        &&& self.start.wf() && self.end.wf() && self.start.w@ == self.end.w@
        &&& self.start.s() <= self.end.s()
        &&& (self.stride == 0) == (self.start.s() == self.end.s())
        &&& on_stride(self.stride, self.end.s() - self.start.s())
    }

    /// v is a member of the interval
    pub open spec fn gamma(&self, v: Bitvector) -> bool {
        &&& v.wf() && v.w@ == self.start.w@
        &&& self.start.s() <= v.s() <= self.end.s()
        &&& on_stride(self.stride, v.s() - self.start.s())
    }

    /// the interval represents every value of its width
    pub open spec fn is_full(&self) -> bool {
        self.start.s() == smin(self.w()) && self.end.s() == smax(self.w()) && self.stride == 1
    }
}

/// sizes in bytes that the value analysis uses (whole bytes)
pub open spec fn byte_w(w: nat) -> bool { w % 8 == 0 && 8 <= w <= MAXW() }
