// ---------------------------------------------------------------------------
// spec/logcollect.rs -- the oracle of unit `logcollect` (property C25), written from the property statement.
// `s` is the delivery history of the channel, `n` the length of its prefix h that counts ("up to, not including, the
// first Terminate, or all of it when the channel disconnects").  All notions are over the pair (s, n): h = s[0..n).
// ---------------------------------------------------------------------------

/// HYPOTHESIS on the key type under which vstd states its specification of `BTreeMap<String, _>::insert`: `Ord for String`
/// is a lawful total order that agrees with `==` (true of std's lexicographic byte order; vstd does not state it).
pub open spec fn lc_key_hyp() -> bool { vstd::laws_cmp::obeys_cmp::<String>() }

/// The deduplication key of a message.  `cwe == false`: the address of an addressed log message (`location` is
/// `Some(tid)`: `tid.address`).  `cwe == true`: the FIRST address of a warning.  `None`: the message is not of that kind.
pub open spec fn lc_key(m: LogThreadMsg, cwe: bool) -> Option<String> {
    match m {
        LogThreadMsg::Log(l) => if !cwe && l.location is Some { Some(l.location->0.address) } else { None },
        LogThreadMsg::Cwe(w) => if cwe && w.addresses@.len() > 0 { Some(w.addresses@[0]) } else { None },
        LogThreadMsg::Terminate => None,
    }
}

/// s[i] is an address-less ("general") log message.
pub open spec fn lc_is_general(m: LogThreadMsg) -> bool {
    m is Log && m->Log_0.location is None
}

/// Position of the first `Terminate` at or after `i`, `s.len()` when there is none.
pub open spec fn lc_ft(s: Seq<LogThreadMsg>, i: int) -> int
    decreases s.len() - i
{
    if i >= s.len() || i < 0 { s.len() as int } else if s[i] is Terminate { i } else { lc_ft(s, i + 1) }
}

/// Length of h.
pub open spec fn lc_hlen(s: Seq<LogThreadMsg>) -> int { lc_ft(s, 0) }

/// n is the length of h: no Terminate before n, and n is the end of the history or the position of a Terminate.
pub open spec fn lc_is_hlen(s: Seq<LogThreadMsg>, n: int) -> bool {
    &&& 0 <= n <= s.len()
    &&& forall |i: int| 0 <= i < n ==> !(#[trigger] s[i] is Terminate)
    &&& n < s.len() ==> s[n] is Terminate
}

/// s[i] (i < n) carries a key and no later message of h carries the same key: "the LAST log / warning for its address".
pub open spec fn lc_is_last(s: Seq<LogThreadMsg>, n: int, i: int, cwe: bool) -> bool {
    &&& 0 <= i < n
    &&& lc_key(s[i], cwe) is Some
    &&& forall |j: int| i < j < n ==> lc_key(#[trigger] s[j], cwe) != lc_key(s[i], cwe)
}

/// The address-less log messages of s[0..k), in their order.
pub open spec fn lc_general(s: Seq<LogThreadMsg>, k: int) -> Seq<LogMessage>
    decreases k
{
    if k <= 0 { Seq::empty() }
    else if lc_is_general(s[k - 1]) { lc_general(s, k - 1).push(s[k - 1]->Log_0) }
    else { lc_general(s, k - 1) }
}

/// m is the last message of h for its key.
pub open spec fn lc_some_last(s: Seq<LogThreadMsg>, n: int, m: LogThreadMsg, cwe: bool) -> bool {
    exists |i: int| #[trigger] lc_is_last(s, n, i, cwe) && s[i] == m
}

pub open spec fn lc_wrap_log() -> spec_fn(LogMessage) -> LogThreadMsg { |l: LogMessage| LogThreadMsg::Log(l) }
pub open spec fn lc_wrap_cwe() -> spec_fn(CweWarning) -> LogThreadMsg { |w: CweWarning| LogThreadMsg::Cwe(w) }
pub open spec fn lc_addr_of(cwe: bool) -> spec_fn(LogThreadMsg) -> String { |m: LogThreadMsg| lc_key(m, cwe)->0 }

/// `part` (messages of one kind) is h deduplicated by key, last one wins:
///   every element is the last message of h for its key; the last message of every key occurs; one element per key;
///   the elements are in strictly ascending order of their keys (the BTreeMap's order).
pub open spec fn lc_dedup_ok(s: Seq<LogThreadMsg>, n: int, part: Seq<LogThreadMsg>, cwe: bool) -> bool {
    &&& forall |j: int| 0 <= j < part.len() ==> lc_some_last(s, n, #[trigger] part[j], cwe)
    &&& forall |i: int| #[trigger] lc_is_last(s, n, i, cwe) ==> exists |j: int| 0 <= j < part.len() && #[trigger] part[j] == s[i]
    &&& forall |j1: int, j2: int| 0 <= j1 < j2 < part.len() ==> lc_key(#[trigger] part[j1], cwe) != lc_key(#[trigger] part[j2], cwe)
    &&& vstd::std_specs::btree::increasing_seq(part.map_values(lc_addr_of(cwe)))
}

/// clause (a): the returned logs = the addressed logs of h deduplicated (last wins), then the address-less logs of h in order.
pub open spec fn lc_logs_ok(s: Seq<LogThreadMsg>, n: int, logs: Seq<LogMessage>) -> bool {
    let g = lc_general(s, n);
    let d = logs.len() - g.len();
    &&& d >= 0
    &&& logs.skip(d) == g
    &&& lc_dedup_ok(s, n, logs.take(d).map_values(lc_wrap_log()), false)
}

/// clause (b): the returned warnings = the warnings of h deduplicated by first address (last wins), nothing else.
pub open spec fn lc_cwes_ok(s: Seq<LogThreadMsg>, n: int, cwes: Seq<CweWarning>) -> bool {
    lc_dedup_ok(s, n, cwes.map_values(lc_wrap_cwe()), true)
}

/// clause (c): every message of h is accounted for.  (d, second half): h holds no warning without an address.
pub open spec fn lc_accounted(s: Seq<LogThreadMsg>, n: int, logs: Seq<LogMessage>, cwes: Seq<CweWarning>) -> bool {
    forall |i: int| 0 <= i < n ==> match #[trigger] s[i] {
        LogThreadMsg::Log(l) => (l.location is None || lc_is_last(s, n, i, false)) ==> logs.contains(l),
        LogThreadMsg::Cwe(w) => w.addresses@.len() > 0 && (lc_is_last(s, n, i, true) ==> cwes.contains(w)),
        LogThreadMsg::Terminate => false,
    }
}

/// THE POSTCONDITION of the collector function for a channel with delivery history s (property C25, clauses a-d).
pub open spec fn lc_post(s: Seq<LogThreadMsg>, logs: Seq<LogMessage>, cwes: Seq<CweWarning>) -> bool {
    let n = lc_hlen(s);
    &&& lc_is_hlen(s, n)
    &&& lc_logs_ok(s, n, logs)
    &&& lc_cwes_ok(s, n, cwes)
    &&& lc_accounted(s, n, logs, cwes)
}

// ---- state of the collector loop (helper notions, derived from the code) ------------------------------------------

/// Largest i < k with key(s[i]) == a, or -1.
pub open spec fn lc_last_idx(s: Seq<LogThreadMsg>, k: int, a: String, cwe: bool) -> int
    decreases k
{
    if k <= 0 { -1 } else if lc_key(s[k - 1], cwe) == Some(a) { k - 1 } else { lc_last_idx(s, k - 1, a, cwe) }
}

/// The map holds, for exactly the keys seen in s[0..k), the payload of the last message with that key.
pub open spec fn lc_map_ok<V>(m: Map<String, V>, wrap: spec_fn(V) -> LogThreadMsg, s: Seq<LogThreadMsg>, k: int, cwe: bool) -> bool {
    &&& forall |a: String| #[trigger] m.contains_key(a) <==> lc_last_idx(s, k, a, cwe) >= 0
    &&& forall |a: String| #[trigger] m.contains_key(a) ==> s[lc_last_idx(s, k, a, cwe)] == wrap(m[a])
}

/// No Terminate and no address-less warning in s[0..k).
pub open spec fn lc_clean(s: Seq<LogThreadMsg>, k: int) -> bool {
    forall |i: int| 0 <= i < k ==> !(#[trigger] s[i] is Terminate) && (s[i] is Cwe ==> s[i]->Cwe_0.addresses@.len() > 0)
}

/// What holds when the loop is left: the three containers describe h.
pub open spec fn lc_state_ok(s: Seq<LogThreadMsg>, n: int, lm: Map<String, LogMessage>, gl: Seq<LogMessage>, cm: Map<String, CweWarning>) -> bool {
    &&& lc_is_hlen(s, n)
    &&& lc_clean(s, n)
    &&& lc_map_ok(lm, lc_wrap_log(), s, n, false)
    &&& lc_map_ok(cm, lc_wrap_cwe(), s, n, true)
    &&& gl == lc_general(s, n)
}

// ---- the thread wrapper ---------------------------------------------------------------------------------------------

/// What `LogThread::spawn(f)` returns: a live handle; whatever the thread returns satisfies f's postcondition for a
/// receiver of the very channel `msg_sender` sends into.
pub open spec fn lc_spawned<F: FnOnce(Receiver<LogThreadMsg>) -> (Vec<LogMessage>, Vec<CweWarning>)>(t: LogThread, f: F) -> bool {
    &&& t.thread_handle is Some
    &&& forall |v: (Vec<LogMessage>, Vec<CweWarning>)| #[trigger] t.thread_handle->0.predicate(v) ==>
            exists |rcv: Receiver<LogThreadMsg>| rcv.chan() == t.msg_sender.chan() && #[trigger] f.ensures((rcv,), v)
}

/// A LogThread whose collector is `collect_and_deduplicate`: whatever the thread returns satisfies C25's postcondition
/// for the delivery history of the channel `msg_sender` sends into.
pub open spec fn lc_thread_ok(t: LogThread) -> bool {
    t.thread_handle is Some ==>
        forall |v: (Vec<LogMessage>, Vec<CweWarning>)| #[trigger] t.thread_handle->0.predicate(v) ==>
            lc_post(lc_chan_history::<LogThreadMsg>(t.msg_sender.chan()), v.0@, v.1@)
}
