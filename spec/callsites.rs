// spec/callsites.rs (draft)
pub ghost struct CsHit { pub sub_name: Seq<char>, pub jmp_tid: Tid, pub target: Tid }

pub open spec fn cs_key_hyp() -> bool {
    &&& vstd::laws_cmp::obeys_cmp::<Tid>()
    &&& vstd::std_specs::hash::obeys_key_model::<&Tid>()
}

pub open spec fn cs_jmp_hit(sub_name: Seq<char>, j: Term<Jmp>, p: spec_fn(Tid) -> bool) -> Seq<CsHit> {
    match cgb_call_target(j.term) {
        Some(t) => if p(t) { seq![CsHit { sub_name: sub_name, jmp_tid: j.tid, target: t }] } else { Seq::empty() },
        None => Seq::empty(),
    }
}

pub open spec fn cs_jmps_hits(sub_name: Seq<char>, jmps: Seq<Term<Jmp>>, p: spec_fn(Tid) -> bool, n: int) -> Seq<CsHit>
    decreases n
{
    if n <= 0 { Seq::empty() } else { cs_jmps_hits(sub_name, jmps, p, n - 1) + cs_jmp_hit(sub_name, jmps[n - 1], p) }
}

pub open spec fn cs_blk_hits(sub_name: Seq<char>, b: Term<Blk>, p: spec_fn(Tid) -> bool) -> Seq<CsHit> {
    cs_jmps_hits(sub_name, b.term.jmps@, p, b.term.jmps@.len() as int)
}

pub open spec fn cs_blks_hits(sub_name: Seq<char>, blks: Seq<Term<Blk>>, p: spec_fn(Tid) -> bool, n: int) -> Seq<CsHit>
    decreases n
{
    if n <= 0 { Seq::empty() } else { cs_blks_hits(sub_name, blks, p, n - 1) + cs_blk_hits(sub_name, blks[n - 1], p) }
}

pub open spec fn cs_sub_hits(sub: Term<Sub>, p: spec_fn(Tid) -> bool) -> Seq<CsHit> {
    cs_blks_hits(sub.term.name@, sub.term.blocks@, p, sub.term.blocks@.len() as int)
}

pub open spec fn cs_in_syms<'a>(m: Map<&'a Tid, &'a str>) -> spec_fn(Tid) -> bool {
    |t: Tid| m.contains_key(&t)
}

/// the call list `v` stands for the hit list `h` under the symbol map `m`
pub open spec fn cs_calls_are<'a>(v: Seq<(&'a str, &'a Tid, &'a str)>, h: Seq<CsHit>, m: Map<&'a Tid, &'a str>) -> bool {
    &&& v.len() == h.len()
    &&& forall |i: int| 0 <= i < v.len() ==> {
            &&& (#[trigger] v[i]).0@ == h[i].sub_name
            &&& *v[i].1 == h[i].jmp_tid
            &&& m.contains_key(&h[i].target)
            &&& v[i].2 == m[&h[i].target]
        }
}

// ---- find_symbol -------------------------------------------------------------------------------------------------

/// strictly less in the derived `Ord` of `Tid` (the order of the BTreeMap keys)
pub open spec fn cs_tid_lt(a: Tid, b: Tid) -> bool {
    vstd::std_specs::cmp::OrdSpec::cmp_spec(&a, &b) == core::cmp::Ordering::Less
}

/// `k` is the FIRST key (least in key order) of an extern symbol named `name`
pub open spec fn cs_first_named(m: Map<Tid, ExternSymbol>, name: Seq<char>, k: Tid) -> bool {
    &&& m.contains_key(k)
    &&& m[k].name@ == name
    &&& forall |k2: Tid| m.contains_key(k2) && #[trigger] m[k2].name@ == name && k2 != k ==> cs_tid_lt(k, k2)
}

/// some extern symbol is named `name`
pub open spec fn cs_named(m: Map<Tid, ExternSymbol>, name: Seq<char>) -> bool {
    exists |k: Tid| m.contains_key(k) && #[trigger] m[k].name@ == name
}

pub open spec fn cs_find_symbol_post<'a>(m: Map<Tid, ExternSymbol>, name: Seq<char>, r: Option<(&'a Tid, &'a str)>) -> bool {
    match r {
        None => !cs_named(m, name),
        Some((t, n)) => exists |k: Tid| #[trigger] cs_first_named(m, name, k) && *t == m[k].tid && n@ == name,
    }
}

/// iteration over a BTreeMap<Tid, V>: entries of the map, all of them, ascending keys
pub open spec fn cs_keys_sorted<V>(s: Seq<(&Tid, &V)>) -> bool {
    forall |i: int, j: int| 0 <= i < j < s.len() ==> cs_tid_lt(*(#[trigger] s[i]).0, *(#[trigger] s[j]).0)
}

pub open spec fn cs_iter_of<V>(s: Seq<(&Tid, &V)>, m: Map<Tid, V>) -> bool {
    &&& forall |i: int| 0 <= i < s.len() ==> m.contains_key(*(#[trigger] s[i]).0) && m[*s[i].0] == *s[i].1
    &&& forall |k: Tid| m.contains_key(k) ==> exists |i: int| 0 <= i < s.len() && *(#[trigger] s[i]).0 == k
    &&& cs_keys_sorted(s)
}
