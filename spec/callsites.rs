// ---------------------------------------------------------------------------
// spec/callsites.rs -- specification vocabulary of the units `callsites*` (property C16).  Definitions only, nothing trusted.
// Written from the property statement: a HIT is a position of the program (function, block, jump) holding a DIRECT call
// `Jmp::Call { target, .. }` whose target satisfies a predicate p ("is an imported symbol on the list", "is ioctl", ..).
// Hit lists are defined by recursion over jumps, blocks and functions IN PROGRAM ORDER: one entry per position, nothing else.
// ---------------------------------------------------------------------------

/// a hit: name of the calling function, tid of the calling jump, tid the call targets
pub ghost struct CsHit { pub sub_name: Seq<char>, pub jmp_tid: Tid, pub target: Tid }

pub open spec fn cs_key_hyp() -> bool {
    &&& vstd::laws_cmp::obeys_cmp::<Tid>()
    &&& vstd::std_specs::hash::obeys_key_model::<&Tid>()
}

pub open spec fn cs_jmp_hit(sub_name: Seq<char>, j: Term<Jmp>, p: spec_fn(Tid) -> bool) -> Seq<CsHit> {
    match cgb_call_target(j.term) {
        Some(t) => if p(t) { seq![CsHit { sub_name: sub_name, jmp_tid: j.tid, target: t }] } else { Seq::empty() },
        None => Seq::empty(),
    }
}

pub open spec fn cs_jmps_hits(sub_name: Seq<char>, jmps: Seq<Term<Jmp>>, p: spec_fn(Tid) -> bool, n: int) -> Seq<CsHit>
    decreases n
{
    if n <= 0 { Seq::empty() } else { cs_jmps_hits(sub_name, jmps, p, n - 1) + cs_jmp_hit(sub_name, jmps[n - 1], p) }
}

pub open spec fn cs_blk_hits(sub_name: Seq<char>, b: Term<Blk>, p: spec_fn(Tid) -> bool) -> Seq<CsHit> {
    cs_jmps_hits(sub_name, b.term.jmps@, p, b.term.jmps@.len() as int)
}

pub open spec fn cs_blks_hits(sub_name: Seq<char>, blks: Seq<Term<Blk>>, p: spec_fn(Tid) -> bool, n: int) -> Seq<CsHit>
    decreases n
{
    if n <= 0 { Seq::empty() } else { cs_blks_hits(sub_name, blks, p, n - 1) + cs_blk_hits(sub_name, blks[n - 1], p) }
}

pub open spec fn cs_sub_hits(sub: Term<Sub>, p: spec_fn(Tid) -> bool) -> Seq<CsHit> {
    cs_blks_hits(sub.term.name@, sub.term.blocks@, p, sub.term.blocks@.len() as int)
}

pub open spec fn cs_in_syms<'a>(m: Map<&'a Tid, &'a str>) -> spec_fn(Tid) -> bool {
    |t: Tid| m.contains_key(&t)
}

/// the call list `v` stands for the hit list `h` under the symbol map `m`
pub open spec fn cs_calls_are<'a>(v: Seq<(&'a str, &'a Tid, &'a str)>, h: Seq<CsHit>, m: Map<&'a Tid, &'a str>) -> bool {
    &&& v.len() == h.len()
    &&& forall |i: int| 0 <= i < v.len() ==> {
            &&& (#[trigger] v[i]).0@ == h[i].sub_name
            &&& *v[i].1 == h[i].jmp_tid
            &&& m.contains_key(&h[i].target)
            &&& v[i].2 == m[&h[i].target]
        }
}

// ---- find_symbol -------------------------------------------------------------------------------------------------

/// strictly less in the derived `Ord` of `Tid` (the order of the BTreeMap keys)
pub open spec fn cs_tid_lt(a: Tid, b: Tid) -> bool {
    vstd::std_specs::cmp::OrdSpec::cmp_spec(&a, &b) == core::cmp::Ordering::Less
}

/// `k` is the FIRST key (least in key order) of an extern symbol named `name`
pub open spec fn cs_first_named(m: Map<Tid, ExternSymbol>, name: Seq<char>, k: Tid) -> bool {
    &&& m.contains_key(k)
    &&& m[k].name@ == name
    &&& forall |k2: Tid| m.contains_key(k2) && #[trigger] m[k2].name@ == name && k2 != k ==> cs_tid_lt(k, k2)
}

/// some extern symbol is named `name`
pub open spec fn cs_named(m: Map<Tid, ExternSymbol>, name: Seq<char>) -> bool {
    exists |k: Tid| m.contains_key(k) && #[trigger] m[k].name@ == name
}

pub open spec fn cs_find_symbol_post<'a>(m: Map<Tid, ExternSymbol>, name: Seq<char>, r: Option<(&'a Tid, &'a str)>) -> bool {
    match r {
        None => !cs_named(m, name),
        Some((t, n)) => exists |k: Tid| #[trigger] cs_first_named(m, name, k) && *t == m[k].tid && n@ == name,
    }
}

/// iteration over a BTreeMap<Tid, V>: entries of the map, all of them, ascending keys
pub open spec fn cs_keys_sorted<V>(s: Seq<(&Tid, &V)>) -> bool {
    forall |i: int, j: int| 0 <= i < j < s.len() ==> cs_tid_lt(*(#[trigger] s[i]).0, *(#[trigger] s[j]).0)
}

pub open spec fn cs_iter_of<V>(s: Seq<(&Tid, &V)>, m: Map<Tid, V>) -> bool {
    &&& forall |i: int| 0 <= i < s.len() ==> m.contains_key(*(#[trigger] s[i]).0) && m[*s[i].0] == *s[i].1
    &&& forall |k: Tid| m.contains_key(k) ==> exists |i: int| 0 <= i < s.len() && *(#[trigger] s[i]).0 == k
    &&& cs_keys_sorted(s)
}

// ---- whole programs: the functions in the order of an (ascending) iteration over program.term.subs -----------------------

pub open spec fn cs_subs_hits(s: Seq<(&Tid, &Term<Sub>)>, p: spec_fn(Tid) -> bool, n: int) -> Seq<CsHit>
    decreases n
{
    if n <= 0 { Seq::empty() } else { cs_subs_hits(s, p, n - 1) + cs_sub_hits(*s[n - 1].1, p) }
}

/// `s` is the ascending iteration over `subs`, and the call list `v` stands for all hits of the program in that order
pub open spec fn cs_prog_calls_wit<'a>(s: Seq<(&Tid, &Term<Sub>)>, v: Seq<(&'a str, &'a Tid, &'a str)>, subs: Map<Tid, Term<Sub>>, m: Map<&'a Tid, &'a str>) -> bool {
    &&& cs_iter_of(s, subs)
    &&& cs_calls_are(v, cs_subs_hits(s, cs_in_syms(m), s.len() as int), m)
}

pub open spec fn cs_prog_calls_post<'a>(v: Seq<(&'a str, &'a Tid, &'a str)>, subs: Map<Tid, Term<Sub>>, m: Map<&'a Tid, &'a str>) -> bool {
    exists |s: Seq<(&Tid, &Term<Sub>)>| #[trigger] cs_prog_calls_wit(s, v, subs, m)
}

// ---- warnings ------------------------------------------------------------------------------------------------------

/// C16 "observed at the CweWarning lists (addresses, tids, symbols)": the warning for the call site `jmp_tid` in function `sub_name`
pub open spec fn cs_warn_for(w: CweWarning, sub_name: Seq<char>, jmp_tid: Tid) -> bool {
    &&& w.addresses@.len() == 1 && w.addresses@[0]@ == jmp_tid.address@
    &&& w.tids@.len() == 1 && w.tids@[0]@ == cs_tid_fmt(jmp_tid)
    &&& w.symbols@.len() == 1 && w.symbols@[0]@ == sub_name
}

/// one warning per entry of the call list, in the same order
pub open spec fn cs_warns_for_calls<'a>(ws: Seq<CweWarning>, v: Seq<(&'a str, &'a Tid, &'a str)>) -> bool {
    &&& ws.len() == v.len()
    &&& forall |i: int| 0 <= i < ws.len() ==> cs_warn_for(#[trigger] ws[i], v[i].0@, *v[i].1)
}

/// one warning per hit, in the same order
pub open spec fn cs_warns_for_hits(ws: Seq<CweWarning>, h: Seq<CsHit>) -> bool {
    &&& ws.len() == h.len()
    &&& forall |i: int| 0 <= i < ws.len() ==> cs_warn_for(#[trigger] ws[i], h[i].sub_name, h[i].jmp_tid)
}

// ---- cwe_676::resolve_symbols ------------------------------------------------------------------------------------------

/// the name `n` is on the configured list
pub open spec fn cs_on_list(l: Seq<String>, n: Seq<char>) -> bool {
    exists |j: int| 0 <= j < l.len() && (#[trigger] l[j])@ == n
}

/// (loop invariant) the String `x` is among the first `n` entries of the list
pub open spec fn cs_str_among(l: Seq<String>, n: int, x: String) -> bool {
    exists |j: int| 0 <= j < n && #[trigger] l[j] == x
}

/// (loop invariant) the key `t` lies before position `n` of the iteration `s`
pub open spec fn cs_visited<V>(s: Seq<(&Tid, &V)>, n: int, t: Tid) -> bool {
    exists |j: int| 0 <= j < n && *(#[trigger] s[j]).0 == t
}

/// THE RESULT of resolve_symbols: the keys (as stored in the BTreeMap) of exactly the extern symbols whose NAME is on the list,
/// each mapped to (a string with the characters of) that name
pub open spec fn cs_resolved<'a>(r: Map<&'a Tid, &'a str>, ext: Map<Tid, ExternSymbol>, l: Seq<String>) -> bool {
    &&& forall |t: Tid| #[trigger] r.contains_key(&t) <==> ext.contains_key(t) && cs_on_list(l, ext[t].name@)
    &&& forall |t: Tid| #[trigger] r.contains_key(&t) ==> r[&t]@ == ext[t].name@
}

/// (loop invariant of resolve_symbols) after `n` entries of the iteration `s` over the extern symbols
pub open spec fn cs_resolved_partial<'a>(r: Map<&'a Tid, &'a str>, ext: Map<Tid, ExternSymbol>, l: Seq<String>, s: Seq<(&Tid, &ExternSymbol)>, n: int) -> bool {
    &&& forall |t: Tid| #[trigger] r.contains_key(&t) <==> cs_visited(s, n, t) && cs_str_among(l, l.len() as int, ext[t].name)
    &&& forall |t: Tid| #[trigger] r.contains_key(&t) ==> r[&t]@ == ext[t].name@
}

// ---- C16, first clause: the dangerous-function check --------------------------------------------------------------------

/// "an imported symbol on the configured list": `t` is (the key of) an extern symbol whose NAME is on the list `l`
pub open spec fn cs_dangerous(ext: Map<Tid, ExternSymbol>, l: Seq<String>) -> spec_fn(Tid) -> bool {
    |t: Tid| ext.contains_key(t) && cs_on_list(l, ext[t].name@)
}

/// one warning per direct call to such a symbol, in program order (functions in ascending key order, then blocks, then jumps),
/// each carrying the address / tid of the calling jump and the name of the calling function
pub open spec fn cs_warns_per_call_wit(s: Seq<(&Tid, &Term<Sub>)>, ws: Seq<CweWarning>, subs: Map<Tid, Term<Sub>>, p: spec_fn(Tid) -> bool) -> bool {
    &&& cs_iter_of(s, subs)
    &&& cs_warns_for_hits(ws, cs_subs_hits(s, p, s.len() as int))
}

pub open spec fn cs_warns_per_call(ws: Seq<CweWarning>, subs: Map<Tid, Term<Sub>>, p: spec_fn(Tid) -> bool) -> bool {
    exists |s: Seq<(&Tid, &Term<Sub>)>| #[trigger] cs_warns_per_call_wit(s, ws, subs, p)
}

// ---- C16, second clause: the ioctl check ---------------------------------------------------------------------------------

/// the predicate "is the tid x"
pub open spec fn cs_is_tid(x: Tid) -> spec_fn(Tid) -> bool {
    |t: Tid| t == x
}

/// THE POSTCONDITION of cwe_782::check_cwe: no warning when no extern symbol is named `name`; otherwise one warning per direct
/// call whose target is the tid of the FIRST extern symbol with that name, in program order
pub open spec fn cs_warns_calls_to_named(ws: Seq<CweWarning>, subs: Map<Tid, Term<Sub>>, ext: Map<Tid, ExternSymbol>, name: Seq<char>) -> bool {
    &&& !cs_named(ext, name) ==> ws.len() == 0
    &&& cs_named(ext, name) ==> exists |k: Tid| #[trigger] cs_first_named(ext, name, k) && cs_warns_per_call(ws, subs, cs_is_tid(ext[k].tid))
}

// ---- C16, third clause: the untrusted-search-path check ---------------------------------------------------------------------

/// `t` is the tid of the symbol find_symbol finds for `name` (the first extern symbol with that name)
pub open spec fn cs_found_tid(ext: Map<Tid, ExternSymbol>, name: Seq<char>, t: Tid) -> bool {
    exists |k: Tid| #[trigger] cs_first_named(ext, name, k) && t == ext[k].tid
}

pub open spec fn cs_found(ext: Map<Tid, ExternSymbol>, name: Seq<char>) -> spec_fn(Tid) -> bool {
    |t: Tid| cs_found_tid(ext, name, t)
}

/// `t` is the tid of the symbol found for one of the first `n` names of the list
pub open spec fn cs_found_any_tid(ext: Map<Tid, ExternSymbol>, l: Seq<String>, n: int, t: Tid) -> bool {
    exists |j: int| 0 <= j < n && cs_found_tid(ext, (#[trigger] l[j])@, t)
}

pub open spec fn cs_found_any(ext: Map<Tid, ExternSymbol>, l: Seq<String>) -> spec_fn(Tid) -> bool {
    |t: Tid| cs_found_any_tid(ext, l, l.len() as int, t)
}

/// one of the first `n` names of the list is the name of an extern symbol
pub open spec fn cs_any_named(ext: Map<Tid, ExternSymbol>, l: Seq<String>, n: int) -> bool {
    exists |j: int| 0 <= j < n && cs_named(ext, (#[trigger] l[j])@)
}

/// the function contains a direct call to a `p1` symbol AND a direct call to a `p2` symbol
pub open spec fn cs_sub_flagged(sub: Term<Sub>, p1: spec_fn(Tid) -> bool, p2: spec_fn(Tid) -> bool) -> bool {
    cs_sub_hits(sub, p1).len() > 0 && cs_sub_hits(sub, p2).len() > 0
}

/// the flagged functions among the first `n` of the iteration, in that order
pub open spec fn cs_flagged(s: Seq<(&Tid, &Term<Sub>)>, p1: spec_fn(Tid) -> bool, p2: spec_fn(Tid) -> bool, n: int) -> Seq<Term<Sub>>
    decreases n
{
    if n <= 0 { Seq::empty() } else {
        cs_flagged(s, p1, p2, n - 1) + (if cs_sub_flagged(*s[n - 1].1, p1, p2) { seq![*s[n - 1].1] } else { Seq::empty() })
    }
}

/// one warning per listed function: its address, its tid, its name
pub open spec fn cs_warns_for_subs(ws: Seq<CweWarning>, fs: Seq<Term<Sub>>) -> bool {
    &&& ws.len() == fs.len()
    &&& forall |i: int| 0 <= i < ws.len() ==> cs_warn_for(#[trigger] ws[i], fs[i].term.name@, fs[i].tid)
}

pub open spec fn cs_warns_per_sub_wit(s: Seq<(&Tid, &Term<Sub>)>, ws: Seq<CweWarning>, subs: Map<Tid, Term<Sub>>, p1: spec_fn(Tid) -> bool, p2: spec_fn(Tid) -> bool) -> bool {
    &&& cs_iter_of(s, subs)
    &&& cs_warns_for_subs(ws, cs_flagged(s, p1, p2, s.len() as int))
}

pub open spec fn cs_warns_per_sub(ws: Seq<CweWarning>, subs: Map<Tid, Term<Sub>>, p1: spec_fn(Tid) -> bool, p2: spec_fn(Tid) -> bool) -> bool {
    exists |s: Seq<(&Tid, &Term<Sub>)>| #[trigger] cs_warns_per_sub_wit(s, ws, subs, p1, p2)
}

/// THE POSTCONDITION of cwe_426::check_cwe.  No warning when "system" or every configured name is absent (then no function
/// can be flagged); otherwise exactly the flagged functions, in ascending key order.
pub open spec fn cs_426_post(ws: Seq<CweWarning>, subs: Map<Tid, Term<Sub>>, ext: Map<Tid, ExternSymbol>, l: Seq<String>) -> bool {
    if cs_named(ext, "system"@) && cs_any_named(ext, l, l.len() as int) {
        cs_warns_per_sub(ws, subs, cs_found(ext, "system"@), cs_found_any(ext, l))
    } else {
        ws.len() == 0
    }
}

// ---- C16, fourth clause: the PRNG check -------------------------------------------------------------------------------------

/// "a configured (initializer, generator) pair whose generator is imported while the initializer is not"
pub open spec fn cs_pair_flagged(ext: Map<Tid, ExternSymbol>, pair: (String, String)) -> bool {
    cs_named(ext, pair.1@) && !cs_named(ext, pair.0@)
}

/// the flagged pairs among the first `n` configured pairs, in configuration order (with multiplicity)
pub open spec fn cs_pairs_flagged(ext: Map<Tid, ExternSymbol>, pairs: Seq<(String, String)>, n: int) -> Seq<(String, String)>
    decreases n
{
    if n <= 0 { Seq::empty() } else {
        cs_pairs_flagged(ext, pairs, n - 1) + (if cs_pair_flagged(ext, pairs[n - 1]) { seq![pairs[n - 1]] } else { Seq::empty() })
    }
}

/// a CWE332 warning: it carries no address, no tid and no symbol (the pair is only named in the description TEXT, which
/// is not specified)
pub open spec fn cs_warn_bare(w: CweWarning) -> bool {
    w.addresses@.len() == 0 && w.tids@.len() == 0 && w.symbols@.len() == 0 && w.other@.len() == 0
}

/// THE POSTCONDITION of cwe_332::check_cwe: one (bare) warning per flagged pair
pub open spec fn cs_332_post(ws: Seq<CweWarning>, ext: Map<Tid, ExternSymbol>, pairs: Seq<(String, String)>) -> bool {
    &&& ws.len() == cs_pairs_flagged(ext, pairs, pairs.len() as int).len()
    &&& forall |i: int| 0 <= i < ws.len() ==> cs_warn_bare(#[trigger] ws[i])
}
