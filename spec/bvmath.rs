// ---------------------------------------------------------------------------
// spec/bvmath.rs -- mathematical vocabulary for fixed-width bitvectors.
// Pure definitions (no axioms).  A bitvector value is a pair (w, u) with
// 1 <= w and 0 <= u < 2^w.
// ---------------------------------------------------------------------------

pub open spec fn p2(n: nat) -> nat { vstd::arithmetic::power2::pow2(n) }

/// Largest bit width the contracts talk about (keeps `usize` width arithmetic overflow free).
pub open spec fn MAXW() -> nat { 0x1000_0000 }

/// x reduced modulo 2^w to the range [0, 2^w).
pub open spec fn trunc(w: nat, x: int) -> nat { (x % (p2(w) as int)) as nat }

/// two's-complement reading of (w,u).
pub open spec fn sval(w: nat, u: nat) -> int {
    if w >= 1 && u >= p2((w - 1) as nat) { u as int - p2(w) as int } else { u as int }
}

pub open spec fn smin(w: nat) -> int { -(p2((w - 1) as nat) as int) }
pub open spec fn smax(w: nat) -> int { p2((w - 1) as nat) as int - 1 }

pub open spec fn popcount(u: nat) -> nat
    decreases u
{
    if u == 0 { 0 } else { (u % 2) + popcount(u / 2) }
}

/// number of bits needed to write u (0 for 0).
pub open spec fn bitlen(u: nat) -> nat
    decreases u
{
    if u == 0 { 0 } else { 1 + bitlen(u / 2) }
}

/// truncating (round-towards-zero) signed quotient and remainder, as P-Code INT_SDIV / INT_SREM.
pub open spec fn tdiv(a: int, b: int) -> int
    recommends b != 0
{
    if a >= 0 && b > 0 { a / b }
    else if a >= 0 && b < 0 { -(a / (-b)) }
    else if a < 0 && b > 0 { -((-a) / b) }
    else { (-a) / (-b) }
}
pub open spec fn trem(a: int, b: int) -> int
    recommends b != 0
{
    a - b * tdiv(a, b)
}

// Bitwise operations, defined bit by bit over the naturals (all widths, no axioms).
pub open spec fn bits_and(a: nat, b: nat) -> nat
    decreases a
{
    if a == 0 { 0 } else { (if a % 2 == 1 && b % 2 == 1 { 1nat } else { 0nat }) + 2 * bits_and(a / 2, b / 2) }
}
pub open spec fn bits_or(a: nat, b: nat) -> nat
    decreases a + b
{
    if a == 0 && b == 0 { 0 } else { (if a % 2 == 1 || b % 2 == 1 { 1nat } else { 0nat }) + 2 * bits_or(a / 2, b / 2) }
}
pub open spec fn bits_xor(a: nat, b: nat) -> nat
    decreases a + b
{
    if a == 0 && b == 0 { 0 } else { (if (a % 2 == 1) != (b % 2 == 1) { 1nat } else { 0nat }) + 2 * bits_xor(a / 2, b / 2) }
}
/// bitwise complement within w bits (pure arithmetic: 2^w - 1 - u).
pub open spec fn bits_not(w: nat, a: nat) -> nat { (p2(w) - 1 - a) as nat }
