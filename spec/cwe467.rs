// ---------------------------------------------------------------------------
// spec/cwe467.rs -- the C18 predicate "parameter `arg` of the call in `block` equals the pointer size",
// written from the property statement.  The evaluated value of the parameter is the ASSUMED part
// (c467_block_end_state / c467_param_value / c467_known_value of shim/cwe467.rs).
// ---------------------------------------------------------------------------

/// The evaluation of `arg` at the end of `block` succeeds, is a single known bitvector value `v`, and the NUMERIC
/// (unsigned) value of `v` -- whatever the bit width of `v` -- fits a u64 and equals the pointer size in bytes.
pub open spec fn c467_param_is_pointer_sized(project: Project, block: Term<Blk>, arg: Arg) -> bool {
    match c467_param_value(c467_block_end_state(project, block), arg, project.runtime_memory_image) {
        Some(d) => match c467_known_value(d) {
            Some(v) => v.u@ < p2(64) && v.u@ == project.stack_pointer_register.size.0,
            None => false,
        },
        None => false,
    }
}
