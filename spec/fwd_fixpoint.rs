// ---------------------------------------------------------------------------
// spec/fwd_fixpoint.rs -- specification vocabulary of unit `fwd_fixpoint` (property C07: the transfer system that the
// adapter `GeneralizedContext` of analysis/forward_interprocedural_fixpoint.rs hands to the worklist solver).
// Nothing here is trusted: definitions only.  `ff_update_edge` is written from the MODULE DOCUMENTATION of
// forward_interprocedural_fixpoint.rs (doc comments of the trait `Context`: which method is applied on which edge kind,
// "All edge transition functions can return None to indicate that no information flows through the edge", "The iteration
// short-circuits and returns None if update_def returns None at any point") and of graph.rs (edge kinds), NOT from the body.
// ---------------------------------------------------------------------------

/// HYPOTHESIS on the value type of the analysis: `clone()` returns its argument (derived / lawful Clone).
pub open spec fn ff_clone_ok<V: Clone>() -> bool {
    forall |a: V, b: V| #[trigger] call_ensures(V::clone, (&a,), b) ==> a == b
}

/// `Option<&V>` as handed to `update_return`, read as the `Option<V>` it refers to
pub open spec fn ff_opt_deref<V>(o: Option<&V>) -> Option<V> {
    match o { Some(v) => Some(*v), None => None }
}

/// `.map(NodeValue::Value)`
pub open spec fn ff_wrap<V: PartialEq + Eq + Clone>(o: Option<V>) -> Option<NodeValue<V>> {
    match o { Some(v) => Some(NodeValue::Value(v)), None => None }
}

/// the plain value of a non-combinator node value (`unwrap_value`; meaningful for `Value(..)` only)
pub open spec fn ff_val<V: PartialEq + Eq + Clone>(nv: NodeValue<V>) -> V {
    nv->Value_0
}

/// "The transition function for a basic block is computed by iteratively applying [update_def] to the starting value for
/// each Def term in the basic block.  The iteration short-circuits and returns None if update_def returns None at any point."
/// -- the value after the first `n` defs.
pub open spec fn ff_fold_defs<'a, T: Context<'a>>(c: T, v: T::Value, defs: Seq<Term<Def>>, n: int) -> Option<T::Value>
    decreases n
{
    if n <= 0 {
        Some(v)
    } else {
        match ff_fold_defs(c, v, defs, n - 1) {
            Some(acc) => c.update_def_spec(acc, defs[n - 1]),
            None => None,
        }
    }
}

/// The value that enters `update_jump` on a Jump(jump, untaken) edge leaving `block`:
///   a conditional jump is TAKEN: the value specialised with its condition being true;
///   an unconditional jump that follows an UNTAKEN conditional jump: the value specialised with that condition being false;
///   otherwise the value itself.
/// None (= the branch is unsatisfiable) means that the edge is not taken.
pub open spec fn ff_specialized<'a, T: Context<'a>>(c: T, v: T::Value, jump: Term<Jmp>, untaken: Option<&Term<Jmp>>, block: Term<Blk>) -> Option<T::Value> {
    match jump.term {
        Jmp::CBranch { target, condition } => c.specialize_conditional_spec(v, condition, block, true),
        _ => match untaken {
            Some(u) => match u.term {
                Jmp::CBranch { target, condition } => c.specialize_conditional_spec(v, condition, block, false),
                _ => arbitrary(),   // excluded by ff_edge_pre ("Malformed control flow graph")
            },
            None => Some(v),
        },
    }
}

/// the returned-from block / function of a CallReturn node
pub open spec fn ff_return_blk<'a>(n: Node<'a>) -> &'a Term<Blk> { n->CallReturn_return_.0 }
pub open spec fn ff_return_sub<'a>(n: Node<'a>) -> &'a Term<Sub> { n->CallReturn_return_.1 }

/// THE TRANSFER SYSTEM handed to the solver: the edge transfer of edge `e` applied to the node value `nv` of its source.
pub open spec fn ff_update_edge<'a, T: Context<'a>>(c: T, nv: NodeValue<T::Value>, e: int) -> Option<NodeValue<T::Value>> {
    let g = c.graph_spec();
    let src = g.node_weight(g.edge_seq()[e].0.i as int);
    let dst = g.node_weight(g.edge_seq()[e].1.i as int);
    match g.edge_weight(e) {
        // BlkStart -> BlkEnd: all Defs of the block, in order, None as soon as one of them yields None
        Edge::Block => ff_wrap(ff_fold_defs(c, ff_val(nv), cfg_blk(src).term.defs@, cfg_blk(src).term.defs@.len() as int)),
        // artificial edge callsite -> CallSource: the value is handed on unchanged
        Edge::CallCombine(call) => Some(NodeValue::Value(ff_val(nv))),
        // CallSource -> first block of the callee
        Edge::Call(call) => ff_wrap(c.update_call_spec(ff_val(nv), *call, dst, cfg_sub(dst).term.calling_convention)),
        // CallSource -> CallReturn: the value before the call goes into the call_stub slot
        Edge::CrCallStub => Some(NodeValue::CallFlowCombinator { call_stub: Some(ff_val(nv)), interprocedural_flow: None }),
        // end of the callee -> CallReturn: the value at the return goes into the interprocedural_flow slot
        Edge::CrReturnStub => Some(NodeValue::CallFlowCombinator { call_stub: None, interprocedural_flow: Some(ff_val(nv)) }),
        // CallReturn -> return site
        Edge::ReturnCombine(call_term) => ff_wrap(c.update_return_spec(
            nv->CallFlowCombinator_interprocedural_flow, nv->CallFlowCombinator_call_stub, *call_term,
            ff_return_blk(src).term.jmps@[0], ff_return_sub(src).term.calling_convention)),
        // callsite -> return site of a call to a function outside the binary
        Edge::ExternCallStub(call) => ff_wrap(c.update_call_stub_spec(ff_val(nv), *call)),
        // intraprocedural jump
        Edge::Jump(jump, untaken) => match ff_specialized(c, ff_val(nv), *jump, untaken, *cfg_blk(src)) {
            Some(v) => ff_wrap(c.update_jump_spec(v, *jump, ff_opt_deref(untaken), *cfg_blk(dst))),
            None => None,
        },
    }
}

pub open spec fn ff_is_blk(n: Node) -> bool { n is BlkStart || n is BlkEnd }

/// PRECONDITION of the edge transfer = exactly what the `panic!` arms, `unwrap_value`, `get_block` / `get_sub`, the index
/// `jmps[0]` and the `unwrap()`s of the body demand: the edge exists, the node value has the variant that belongs to the kind
/// of the source node, and the nodes at the ends of the edge have the kinds the edge label promises.
pub open spec fn ff_edge_pre<'a, V: PartialEq + Eq + Clone>(g: Graph<'a>, nv: NodeValue<V>, e: int) -> bool {
    let src = g.node_weight(g.edge_seq()[e].0.i as int);
    let dst = g.node_weight(g.edge_seq()[e].1.i as int);
    &&& 0 <= e < g.edge_seq().len()
    &&& match g.edge_weight(e) {
            Edge::Block => nv is Value && ff_is_blk(src),
            Edge::CallCombine(call) => nv is Value,
            Edge::Call(call) => nv is Value && ff_is_blk(dst),
            Edge::CrCallStub => nv is Value,
            Edge::CrReturnStub => nv is Value,
            Edge::ReturnCombine(call_term) => nv is CallFlowCombinator && src is CallReturn && ff_return_blk(src).term.jmps@.len() > 0,
            Edge::ExternCallStub(call) => nv is Value,
            Edge::Jump(jump, untaken) => nv is Value && ff_is_blk(dst)
                && ((jump.term is CBranch || untaken is Some) ==> ff_is_blk(src))
                && (!(jump.term is CBranch) && untaken is Some ==> untaken->Some_0.term is CBranch),
        }
}

// ---- the shape invariant under which ff_edge_pre holds during a whole solver run -------------------------------------

/// the node value variant that belongs to a node kind: the artificial CallReturn nodes carry a CallFlowCombinator,
/// every other node a plain Value
pub open spec fn ff_shape<V: PartialEq + Eq + Clone>(n: Node, nv: NodeValue<V>) -> bool {
    if n is CallReturn { nv is CallFlowCombinator } else { nv is Value }
}

/// edge `e` connects node kinds as the CFG builder of graph.rs produces them (unit cfgbuild: cfg_add_block, cfg_intra,
/// cfg_jump_edge, cfg_call_return)
pub open spec fn ff_edge_kinds_ok<'a>(g: Graph<'a>, e: int) -> bool {
    let src = g.node_weight(g.edge_seq()[e].0.i as int);
    let dst = g.node_weight(g.edge_seq()[e].1.i as int);
    match g.edge_weight(e) {
        Edge::Block => src is BlkStart && dst is BlkEnd,
        Edge::CallCombine(call) => src is BlkEnd && dst is CallSource,
        Edge::Call(call) => src is CallSource && dst is BlkStart,
        Edge::CrCallStub => src is CallSource && dst is CallReturn,
        Edge::CrReturnStub => src is BlkEnd && dst is CallReturn,
        Edge::ReturnCombine(call_term) => src is CallReturn && dst is BlkStart && ff_return_blk(src).term.jmps@.len() > 0,
        Edge::ExternCallStub(call) => src is BlkEnd && dst is BlkStart,
        Edge::Jump(jump, untaken) => src is BlkEnd && dst is BlkStart
            && (!(jump.term is CBranch) && untaken is Some ==> untaken->Some_0.term is CBranch),
    }
}

// ---- merge -----------------------------------------------------------------------------------------------------------

/// `merge_option`: "Merges (Some(x), None) to Some(x)"; two values are merged with the given function
pub open spec fn ff_merge_option<'a, T: Context<'a>>(c: T, a: Option<T::Value>, b: Option<T::Value>) -> Option<T::Value> {
    match (a, b) {
        (Some(x), Some(y)) => Some(c.merge_spec(x, y)),
        (Some(x), None) => Some(x),
        (None, Some(y)) => Some(y),
        (None, None) => None,
    }
}

/// THE MERGE handed to the solver: plain values with the merge of the analysis, combinators slot by slot
pub open spec fn ff_merge<'a, T: Context<'a>>(c: T, a: NodeValue<T::Value>, b: NodeValue<T::Value>) -> NodeValue<T::Value> {
    match (a, b) {
        (NodeValue::Value(x), NodeValue::Value(y)) => NodeValue::Value(c.merge_spec(x, y)),
        (NodeValue::CallFlowCombinator { call_stub: c1, interprocedural_flow: r1 },
         NodeValue::CallFlowCombinator { call_stub: c2, interprocedural_flow: r2 }) =>
            NodeValue::CallFlowCombinator {
                call_stub: ff_merge_option(c, c1, c2),
                interprocedural_flow: ff_merge_option(c, r1, r2),
            },
        _ => arbitrary(),   // excluded by the precondition (both values have the shape of the same node)
    }
}

// ---- worklists ---------------------------------------------------------------------------------------------------------

/// some entry of `s` is the node with index v                       (= takes_value of spec/fixpoint.rs)
pub open spec fn ff_takes_value(s: Seq<NodeIndex>, v: int) -> bool {
    exists |j: int| 0 <= j < s.len() && (#[trigger] s[j]).i == v
}

/// `nodes` is a permutation of the n node indices                   (= is_node_permutation of spec/fixpoint.rs, the
/// `requires` of Computation::from_node_priority_list; restated because unit fixpoint lives on another petgraph shim)
pub open spec fn ff_is_node_permutation(nodes: Seq<NodeIndex>, n: nat) -> bool {
    &&& nodes.len() == n
    &&& forall |i: int| 0 <= i < n ==> (#[trigger] nodes[i]).i < n
    &&& forall |i: int, j: int| 0 <= i < j < n ==> (#[trigger] nodes[i]).i != (#[trigger] nodes[j]).i
    &&& forall |k: int| 0 <= k < n ==> #[trigger] ff_takes_value(nodes, k)
}
