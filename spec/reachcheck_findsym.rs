// ---------------------------------------------------------------------------
// spec/reachcheck_findsym.rs -- specification vocabulary for utils/symbol_utils.rs::find_symbol inside unit `reachcheck_243`
// (property C17).  Definitions only, nothing trusted.  Same meaning as the find_symbol part of spec/callsites.rs (unit
// callsites, C16), names prefixed rc_ so that the files can coexist.
//
// `rc_find_symbol(m, name)` -- the function the specifications of the chroot check (spec/reachcheck_243.rs) are written
// over -- used to be UNINTERPRETED (constrained only by the trusted contract of an @nobody find_symbol).  It is now DEFINED:
// the `tid` field of the FIRST extern symbol (least key in the derived Ord of Tid) whose name is `name`, None when there is
// no such symbol; and the real find_symbol is proved to return it (rc_find_symbol_post, text unchanged).
// ---------------------------------------------------------------------------

/// HYPOTHESIS of find_symbol and of cwe_243::check_cwe: the derived `Ord` of `Tid` is a lawful total order that agrees with
/// `==` (vstd states `BTreeMap::iter` -- every entry, ascending keys -- only under it).  Not about the inputs.
pub open spec fn rc_tid_ord_hyp() -> bool {
    vstd::laws_cmp::obeys_cmp::<Tid>()
}

/// strictly less in the derived `Ord` of `Tid` (the order of the BTreeMap keys)
pub open spec fn rc_tid_lt(a: Tid, b: Tid) -> bool {
    vstd::std_specs::cmp::OrdSpec::cmp_spec(&a, &b) == core::cmp::Ordering::Less
}

/// `k` is the FIRST key (least in key order) of an extern symbol named `name`
pub open spec fn rc_first_named(m: Map<Tid, ExternSymbol>, name: Seq<char>, k: Tid) -> bool {
    &&& m.contains_key(k)
    &&& m[k].name@ == name
    &&& forall |k2: Tid| m.contains_key(k2) && #[trigger] m[k2].name@ == name && k2 != k ==> rc_tid_lt(k, k2)
}

/// what find_symbol returns, as it comes out of the loop (the contract unit callsites proves: cs_find_symbol_post):
/// None iff no extern symbol has the name; Some((t, n)): t is the `tid` FIELD of the first symbol of that name, n its name
pub open spec fn rc_first_found_post<'a>(m: Map<Tid, ExternSymbol>, name: Seq<char>, r: Option<(&'a Tid, &'a str)>) -> bool {
    match r {
        None => !rc_imported(m, name),
        Some((t, n)) => exists |k: Tid| #[trigger] rc_first_named(m, name, k) && *t == m[k].tid && n@ == name,
    }
}

/// THE LOOKUP the chroot check's specification speaks of: the tid recorded IN the first extern symbol (in key order) whose
/// name is `name`; None iff no extern symbol has that name.  (Opaque: the lemmas of lemmas/reachcheck_243.rs use it as a
/// function symbol only; lemma_rc_find_symbol_bridge reveals it.)
#[verifier::opaque]
pub open spec fn rc_find_symbol(m: Map<Tid, ExternSymbol>, name: Seq<char>) -> Option<Tid> {
    if exists |k: Tid| rc_first_named(m, name, k) {
        Some(m[choose |k: Tid| rc_first_named(m, name, k)].tid)
    } else {
        None
    }
}

/// CONTRACT of find_symbol as the chroot check uses it (text unchanged from the time it was an assumption)
pub open spec fn rc_find_symbol_post<'a>(m: Map<Tid, ExternSymbol>, name: Seq<char>, r: Option<(&'a Tid, &'a str)>) -> bool {
    &&& r is None <==> !rc_imported(m, name)
    &&& r is None <==> rc_find_symbol(m, name) is None
    &&& r is Some ==> rc_find_symbol(m, name) == Some(*r->Some_0.0)
            && exists |k: Tid| m.contains_key(k) && (#[trigger] m[k]).name@ == name && m[k].tid == *r->Some_0.0
}

/// iteration over a BTreeMap<Tid, V>: ascending keys
pub open spec fn rc_keys_sorted<V>(s: Seq<(&Tid, &V)>) -> bool {
    forall |i: int, j: int| 0 <= i < j < s.len() ==> rc_tid_lt(*(#[trigger] s[i]).0, *(#[trigger] s[j]).0)
}

/// iteration over a BTreeMap<Tid, V>: entries of the map, all of them, ascending keys
pub open spec fn rc_iter_of<V>(s: Seq<(&Tid, &V)>, m: Map<Tid, V>) -> bool {
    &&& forall |i: int| 0 <= i < s.len() ==> m.contains_key(*(#[trigger] s[i]).0) && m[*s[i].0] == *s[i].1
    &&& forall |k: Tid| m.contains_key(k) ==> exists |i: int| 0 <= i < s.len() && *(#[trigger] s[i]).0 == k
    &&& rc_keys_sorted(s)
}
