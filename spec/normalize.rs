// ---------------------------------------------------------------------------
// spec/normalize.rs -- specification vocabulary of unit `normalize` (property C09: basic normalization establishes the IR
// invariants analyses rely on).  Definitions only; nothing here is trusted.  The program is read directly through the views
// of the real data structures (`subs@ : Map<Tid, Term<Sub>>`, `blocks@ : Seq<Term<Blk>>`, ...), as in spec/cfgbuild.rs,
// whose well-formedness predicates (cfg_sub_tids_unique, cfg_blk_tids_unique, cfg_blocks_wf) this unit ESTABLISHES.
// ---------------------------------------------------------------------------

/// `s` is an iteration over the entries of `m`: what vstd knows about `m.iter()` at loop entry
pub open spec fn nz_iter_of<V>(s: Seq<(&Tid, &V)>, m: Map<Tid, V>) -> bool {
    &&& forall |i: int| 0 <= i < s.len() ==> m.contains_key(*(#[trigger] s[i]).0) && m[*s[i].0] == *s[i].1
    &&& forall |k: Tid| m.contains_key(k) ==> exists |i: int| 0 <= i < s.len() && *(#[trigger] s[i]).0 == k
    &&& s.no_duplicates()
}

// ---- what exists in a program -------------------------------------------------------------------------------------------

/// `t` is the tid of a function of the program
pub open spec fn nz_is_sub(subs: Map<Tid, Term<Sub>>, t: Tid) -> bool {
    exists |k: Tid| #[trigger] subs.contains_key(k) && subs[k].tid == t
}

/// `t` is the tid of block number `i` of the function stored under `k`
pub open spec fn nz_blk_at(subs: Map<Tid, Term<Sub>>, k: Tid, i: int, t: Tid) -> bool {
    subs.contains_key(k) && 0 <= i < subs[k].term.blocks@.len() && subs[k].term.blocks@[i].tid == t
}

/// `t` is the tid of a block of the program
pub open spec fn nz_is_blk(subs: Map<Tid, Term<Sub>>, t: Tid) -> bool {
    exists |k: Tid, i: int| #[trigger] nz_blk_at(subs, k, i, t)
}

/// the set `find_all_jump_targets` has to compute: tids of functions, of blocks, and of extern symbols
pub open spec fn nz_known(subs: Map<Tid, Term<Sub>>, ext: Map<Tid, ExternSymbol>, t: Tid) -> bool {
    nz_is_sub(subs, t) || nz_is_blk(subs, t) || ext.contains_key(t)
}

/// ... restricted to the first `n` functions of the iteration `s` (and the first `m` blocks of function number `n`)
pub open spec fn nz_known_n(s: Seq<(&Tid, &Term<Sub>)>, n: int, m: int, t: Tid) -> bool {
    ||| exists |j: int| 0 <= j < n && (#[trigger] s[j]).1.tid == t
    ||| exists |j: int, i: int| 0 <= j < n && 0 <= i < (#[trigger] s[j]).1.term.blocks@.len() && #[trigger] s[j].1.term.blocks@[i].tid == t
    ||| (0 <= n < s.len() && m >= 0 && s[n].1.tid == t)
    ||| exists |i: int| 0 <= n < s.len() && 0 <= i < m && i < s[n].1.term.blocks@.len() && (#[trigger] s[n].1.term.blocks@[i]).tid == t
}
