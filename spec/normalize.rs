// ---------------------------------------------------------------------------
// spec/normalize.rs -- specification vocabulary of unit `normalize` (property C09: basic normalization establishes the IR
// invariants analyses rely on).  Definitions only; nothing here is trusted.  The program is read directly through the views
// of the real data structures (`subs@ : Map<Tid, Term<Sub>>`, `blocks@ : Seq<Term<Blk>>`, ...), as in spec/cfgbuild.rs,
// whose well-formedness predicates (cfg_sub_tids_unique, cfg_blk_tids_unique, cfg_blocks_wf) this unit ESTABLISHES.
// ---------------------------------------------------------------------------

/// `s` is an iteration over the entries of `m`: what vstd knows about `m.iter()` at loop entry
pub open spec fn nz_iter_of<V>(s: Seq<(&Tid, &V)>, m: Map<Tid, V>) -> bool {
    &&& forall |i: int| 0 <= i < s.len() ==> m.contains_key(*(#[trigger] s[i]).0) && m[*s[i].0] == *s[i].1
    &&& forall |k: Tid| m.contains_key(k) ==> exists |i: int| 0 <= i < s.len() && *(#[trigger] s[i]).0 == k
    &&& s.no_duplicates()
}

// ---- what exists in a program -------------------------------------------------------------------------------------------

/// `t` is the tid of a function of the program
pub open spec fn nz_is_sub(subs: Map<Tid, Term<Sub>>, t: Tid) -> bool {
    exists |k: Tid| #[trigger] subs.contains_key(k) && subs[k].tid == t
}

/// `t` is the tid of block number `i` of the function stored under `k`
pub open spec fn nz_blk_at(subs: Map<Tid, Term<Sub>>, k: Tid, i: int, t: Tid) -> bool {
    subs.contains_key(k) && 0 <= i < subs[k].term.blocks@.len() && subs[k].term.blocks@[i].tid == t
}

/// `t` is the tid of a block of the program
pub open spec fn nz_is_blk(subs: Map<Tid, Term<Sub>>, t: Tid) -> bool {
    exists |k: Tid, i: int| #[trigger] nz_blk_at(subs, k, i, t)
}

/// the set `find_all_jump_targets` has to compute: tids of functions, of blocks, and of extern symbols
pub open spec fn nz_known(subs: Map<Tid, Term<Sub>>, ext: Map<Tid, ExternSymbol>, t: Tid) -> bool {
    nz_is_sub(subs, t) || nz_is_blk(subs, t) || ext.contains_key(t)
}

/// ... restricted to the first `n` functions of the iteration `s` (and the first `m` blocks of function number `n`)
pub open spec fn nz_known_n(s: Seq<(&Tid, &Term<Sub>)>, n: int, m: int, t: Tid) -> bool {
    ||| exists |j: int| 0 <= j < n && (#[trigger] s[j]).1.tid == t
    ||| exists |j: int, i: int| 0 <= j < n && 0 <= i < (#[trigger] s[j]).1.term.blocks@.len() && #[trigger] s[j].1.term.blocks@[i].tid == t
    ||| (0 <= n < s.len() && m >= 0 && s[n].1.tid == t)
    ||| exists |i: int| 0 <= n < s.len() && 0 <= i < m && i < s[n].1.term.blocks@.len() && (#[trigger] s[n].1.term.blocks@[i]).tid == t
}

/// `ks` lists every key of `m` exactly once
pub open spec fn nz_keys_of<V>(ks: Seq<Tid>, m: Map<Tid, V>) -> bool {
    &&& ks.no_duplicates()
    &&& forall |i: int| 0 <= i < ks.len() ==> m.contains_key(#[trigger] ks[i])
    &&& forall |k: Tid| m.contains_key(k) ==> exists |i: int| 0 <= i < ks.len() && #[trigger] ks[i] == k
}

// ---- pass: references to nonexisting tids ------------------------------------------------------------------------------------

/// THE RULE for one jump (property: "targets that existed are unchanged; the others point to the artificial sink block / the
/// artificial sink sub"): `known` = the tids that exist.
///   Branch / CBranch to an unknown tid      -> the artificial sink block (of the artificial sink sub)
///   Call to an unknown tid                  -> a call of the artificial sink sub WITHOUT return target
///   Call / CallInd / CallOther returning to an unknown tid -> returns to the artificial sink block
///   everything else                         -> unchanged
pub open spec fn nz_retarget(j: Jmp, known: Set<Tid>) -> Jmp {
    match j {
        Jmp::Branch(t) => if !known.contains(t) { Jmp::Branch(nz_sink_blk(Seq::<char>::empty())) } else { j },
        Jmp::CBranch { target, condition } => if !known.contains(target) { Jmp::CBranch { target: nz_sink_blk(Seq::<char>::empty()), condition } } else { j },
        Jmp::Call { target, return_ } =>
            if !known.contains(target) { Jmp::Call { target: nz_sink_sub(), return_: None } }
            else if return_ is Some && !known.contains(return_->Some_0) { Jmp::Call { target, return_: Some(nz_sink_blk(Seq::<char>::empty())) } }
            else { j },
        Jmp::CallInd { target, return_ } =>
            if return_ is Some && !known.contains(return_->Some_0) { Jmp::CallInd { target, return_: Some(nz_sink_blk(Seq::<char>::empty())) } } else { j },
        Jmp::CallOther { description, return_ } =>
            if return_ is Some && !known.contains(return_->Some_0) { Jmp::CallOther { description, return_: Some(nz_sink_blk(Seq::<char>::empty())) } } else { j },
        Jmp::BranchInd(e) => j,
        Jmp::Return(e) => j,
    }
}

/// the first `n` indirect-jump target hints, without those that do not exist (order kept)
pub open spec fn nz_keep(h: Seq<Tid>, known: Set<Tid>, n: int) -> Seq<Tid>
    decreases n
{
    if n <= 0 { Seq::empty() } else {
        let r = nz_keep(h, known, n - 1);
        if known.contains(h[n - 1]) { r.push(h[n - 1]) } else { r }
    }
}

/// block `b1` is block `b0` after the pass: same tid, same defs, same jumps with retargeted targets, hints filtered
pub open spec fn nz_refs_blk(b0: Term<Blk>, b1: Term<Blk>, known: Set<Tid>) -> bool {
    &&& b1.tid == b0.tid
    &&& b1.term.defs == b0.term.defs
    &&& b1.term.jmps@.len() == b0.term.jmps@.len()
    &&& forall |j: int| 0 <= j < b0.term.jmps@.len() ==> (#[trigger] b1.term.jmps@[j]).tid == b0.term.jmps@[j].tid
            && b1.term.jmps@[j].term == nz_retarget(b0.term.jmps@[j].term, known)
    &&& b1.term.indirect_jmp_targets@ == nz_keep(b0.term.indirect_jmp_targets@, known, b0.term.indirect_jmp_targets@.len() as int)
}

/// function `s1` is function `s0` after the pass
pub open spec fn nz_refs_sub(s0: Term<Sub>, s1: Term<Sub>, known: Set<Tid>) -> bool {
    &&& s1.tid == s0.tid
    &&& s1.term.name == s0.term.name
    &&& s1.term.calling_convention == s0.term.calling_convention
    &&& s1.term.blocks@.len() == s0.term.blocks@.len()
    &&& forall |i: int| 0 <= i < s0.term.blocks@.len() ==> nz_refs_blk(s0.term.blocks@[i], #[trigger] s1.term.blocks@[i], known)
}

/// the whole pass
pub open spec fn nz_refs_post(subs0: Map<Tid, Term<Sub>>, subs1: Map<Tid, Term<Sub>>, known: Set<Tid>) -> bool {
    &&& subs1.dom() =~= subs0.dom()
    &&& forall |k: Tid| #[trigger] subs0.contains_key(k) ==> nz_refs_sub(subs0[k], subs1[k], known)
}

/// `known` is the set of tids that exist in the program (functions, blocks, extern symbols)
pub open spec fn nz_known_set(known: Set<Tid>, subs: Map<Tid, Term<Sub>>, ext: Map<Tid, ExternSymbol>) -> bool {
    forall |t: Tid| #[trigger] known.contains(t) <==> nz_known(subs, ext, t)
}

/// what no pass changes: everything of the project but the functions
pub open spec fn nz_frame(p0: Project, p1: Project) -> bool {
    &&& p1.program.tid == p0.program.tid
    &&& p1.program.term.extern_symbols == p0.program.term.extern_symbols
    &&& p1.program.term.entry_points == p0.program.term.entry_points
    &&& p1.program.term.address_base_offset == p0.program.term.address_base_offset
    &&& p1.cpu_architecture == p0.cpu_architecture
    &&& p1.stack_pointer_register == p0.stack_pointer_register
    &&& p1.calling_conventions == p0.calling_conventions
    &&& p1.register_set == p0.register_set
    &&& p1.datatype_properties == p0.datatype_properties
    &&& p1.runtime_memory_image == p0.runtime_memory_image
}

// ---- the artificial sinks ---------------------------------------------------------------------------------------------------

/// `b` is an artificial sink block with the given name suffix: no defs, no jumps, no hints
pub open spec fn nz_is_sink_block_term(b: Term<Blk>, suffix: Seq<char>) -> bool {
    &&& b.tid == nz_sink_blk(suffix)
    &&& b.term.defs@.len() == 0
    &&& b.term.jmps@.len() == 0
    &&& b.term.indirect_jmp_targets@.len() == 0
}

/// `s` is the artificial sink function: its tid, ONE block, the artificial sink block without suffix
pub open spec fn nz_is_sink_sub_term(s: Term<Sub>) -> bool {
    &&& s.tid == nz_sink_sub()
    &&& s.term.blocks@.len() == 1
    &&& nz_is_sink_block_term(s.term.blocks@[0], Seq::<char>::empty())
}

/// add_artifical_sink: the artificial sink function is stored under its tid; nothing else changes
pub open spec fn nz_sink_added(subs0: Map<Tid, Term<Sub>>, subs1: Map<Tid, Term<Sub>>) -> bool {
    &&& subs1.dom() =~= subs0.dom().insert(nz_sink_sub())
    &&& nz_is_sink_sub_term(subs1[nz_sink_sub()])
    &&& forall |k: Tid| #[trigger] subs0.contains_key(k) && k != nz_sink_sub() ==> subs1[k] == subs0[k]
}

// ---- positions of terms, uniqueness of term identifiers ------------------------------------------------------------------------

/// where a term sits: the program, the function stored under key k, its block number i, def / jump number j of that block
pub ghost enum NzPos {
    Prog,
    Sub(Tid),
    Blk(Tid, int),
    Def(Tid, int, int),
    Jmp(Tid, int, int),
}

/// the position exists in the program
pub open spec fn nz_pos_ok(subs: Map<Tid, Term<Sub>>, p: NzPos) -> bool {
    match p {
        NzPos::Prog => true,
        NzPos::Sub(k) => subs.contains_key(k),
        NzPos::Blk(k, i) => subs.contains_key(k) && 0 <= i < subs[k].term.blocks@.len(),
        NzPos::Def(k, i, j) => subs.contains_key(k) && 0 <= i < subs[k].term.blocks@.len() && 0 <= j < subs[k].term.blocks@[i].term.defs@.len(),
        NzPos::Jmp(k, i, j) => subs.contains_key(k) && 0 <= i < subs[k].term.blocks@.len() && 0 <= j < subs[k].term.blocks@[i].term.jmps@.len(),
    }
}

/// the term identifier at a position
pub open spec fn nz_tid_at(prog: Tid, subs: Map<Tid, Term<Sub>>, p: NzPos) -> Tid {
    match p {
        NzPos::Prog => prog,
        NzPos::Sub(k) => subs[k].tid,
        NzPos::Blk(k, i) => subs[k].term.blocks@[i].tid,
        NzPos::Def(k, i, j) => subs[k].term.blocks@[i].term.defs@[j].tid,
        NzPos::Jmp(k, i, j) => subs[k].term.blocks@[i].term.jmps@[j].tid,
    }
}

/// PROPERTY CLAUSE "all term identifiers are unique": two positions (program, function, block, def, jump) with the same
/// term identifier are the same position
pub open spec fn nz_unique(prog: Tid, subs: Map<Tid, Term<Sub>>) -> bool {
    forall |p: NzPos, q: NzPos| #[trigger] nz_pos_ok(subs, p) && #[trigger] nz_pos_ok(subs, q) && nz_tid_at(prog, subs, p) == nz_tid_at(prog, subs, q) ==> p == q
}

/// proof device: `owner` sends the tid of every position to that position (then the tids are unique)
pub open spec fn nz_owner_of(owner: Map<Tid, NzPos>, prog: Tid, subs: Map<Tid, Term<Sub>>) -> bool {
    forall |p: NzPos| #[trigger] nz_pos_ok(subs, p) ==> owner.contains_key(nz_tid_at(prog, subs, p)) && owner[nz_tid_at(prog, subs, p)] == p
}
