// ---------------------------------------------------------------------------
// spec/normalize.rs -- specification vocabulary of unit `normalize` (property C09: basic normalization establishes the IR
// invariants analyses rely on).  Definitions only; nothing here is trusted.  The program is read directly through the views
// of the real data structures (`subs@ : Map<Tid, Term<Sub>>`, `blocks@ : Seq<Term<Blk>>`, ...), as in spec/cfgbuild.rs,
// whose well-formedness predicates (cfg_sub_tids_unique, cfg_blk_tids_unique, cfg_blocks_wf) this unit ESTABLISHES.
// ---------------------------------------------------------------------------

/// `s` is an iteration over the entries of `m`: what vstd knows about `m.iter()` at loop entry
pub open spec fn nz_iter_of<V>(s: Seq<(&Tid, &V)>, m: Map<Tid, V>) -> bool {
    &&& forall |i: int| 0 <= i < s.len() ==> m.contains_key(*(#[trigger] s[i]).0) && m[*s[i].0] == *s[i].1
    &&& forall |k: Tid| m.contains_key(k) ==> exists |i: int| 0 <= i < s.len() && *(#[trigger] s[i]).0 == k
    &&& s.no_duplicates()
}

// ---- what exists in a program -------------------------------------------------------------------------------------------

/// `t` is the tid of a function of the program
pub open spec fn nz_is_sub(subs: Map<Tid, Term<Sub>>, t: Tid) -> bool {
    exists |k: Tid| #[trigger] subs.contains_key(k) && subs[k].tid == t
}

/// `t` is the tid of block number `i` of the function stored under `k`
pub open spec fn nz_blk_at(subs: Map<Tid, Term<Sub>>, k: Tid, i: int, t: Tid) -> bool {
    subs.contains_key(k) && 0 <= i < subs[k].term.blocks@.len() && subs[k].term.blocks@[i].tid == t
}

/// `t` is the tid of a block of the program
pub open spec fn nz_is_blk(subs: Map<Tid, Term<Sub>>, t: Tid) -> bool {
    exists |k: Tid, i: int| #[trigger] nz_blk_at(subs, k, i, t)
}

/// the set `find_all_jump_targets` has to compute: tids of functions, of blocks, and of extern symbols
pub open spec fn nz_known(subs: Map<Tid, Term<Sub>>, ext: Map<Tid, ExternSymbol>, t: Tid) -> bool {
    nz_is_sub(subs, t) || nz_is_blk(subs, t) || ext.contains_key(t)
}

/// ... restricted to the first `n` functions of the iteration `s` (and the first `m` blocks of function number `n`)
pub open spec fn nz_known_n(s: Seq<(&Tid, &Term<Sub>)>, n: int, m: int, t: Tid) -> bool {
    ||| exists |j: int| 0 <= j < n && (#[trigger] s[j]).1.tid == t
    ||| exists |j: int, i: int| 0 <= j < n && 0 <= i < (#[trigger] s[j]).1.term.blocks@.len() && #[trigger] s[j].1.term.blocks@[i].tid == t
    ||| (0 <= n < s.len() && m >= 0 && s[n].1.tid == t)
    ||| exists |i: int| 0 <= n < s.len() && 0 <= i < m && i < s[n].1.term.blocks@.len() && (#[trigger] s[n].1.term.blocks@[i]).tid == t
}

/// `ks` lists every key of `m` exactly once
pub open spec fn nz_keys_of<V>(ks: Seq<Tid>, m: Map<Tid, V>) -> bool {
    &&& ks.no_duplicates()
    &&& forall |i: int| 0 <= i < ks.len() ==> m.contains_key(#[trigger] ks[i])
    &&& forall |k: Tid| m.contains_key(k) ==> exists |i: int| 0 <= i < ks.len() && #[trigger] ks[i] == k
}

// ---- pass: references to nonexisting tids ------------------------------------------------------------------------------------

/// THE RULE for one jump (property: "targets that existed are unchanged; the others point to the artificial sink block / the
/// artificial sink sub"): `known` = the tids that exist.
///   Branch / CBranch to an unknown tid      -> the artificial sink block (of the artificial sink sub)
///   Call to an unknown tid                  -> a call of the artificial sink sub WITHOUT return target
///   Call / CallInd / CallOther returning to an unknown tid -> returns to the artificial sink block
///   everything else                         -> unchanged
pub open spec fn nz_retarget(j: Jmp, known: Set<Tid>) -> Jmp {
    match j {
        Jmp::Branch(t) => if !known.contains(t) { Jmp::Branch(nz_sink_blk(Seq::<char>::empty())) } else { j },
        Jmp::CBranch { target, condition } => if !known.contains(target) { Jmp::CBranch { target: nz_sink_blk(Seq::<char>::empty()), condition } } else { j },
        Jmp::Call { target, return_ } =>
            if !known.contains(target) { Jmp::Call { target: nz_sink_sub(), return_: None } }
            else if return_ is Some && !known.contains(return_->Some_0) { Jmp::Call { target, return_: Some(nz_sink_blk(Seq::<char>::empty())) } }
            else { j },
        Jmp::CallInd { target, return_ } =>
            if return_ is Some && !known.contains(return_->Some_0) { Jmp::CallInd { target, return_: Some(nz_sink_blk(Seq::<char>::empty())) } } else { j },
        Jmp::CallOther { description, return_ } =>
            if return_ is Some && !known.contains(return_->Some_0) { Jmp::CallOther { description, return_: Some(nz_sink_blk(Seq::<char>::empty())) } } else { j },
        Jmp::BranchInd(e) => j,
        Jmp::Return(e) => j,
    }
}

/// the first `n` indirect-jump target hints, without those that do not exist (order kept)
pub open spec fn nz_keep(h: Seq<Tid>, known: Set<Tid>, n: int) -> Seq<Tid>
    decreases n
{
    if n <= 0 { Seq::empty() } else {
        let r = nz_keep(h, known, n - 1);
        if known.contains(h[n - 1]) { r.push(h[n - 1]) } else { r }
    }
}

/// block `b1` is block `b0` after the pass: same tid, same defs, same jumps with retargeted targets, hints filtered
pub open spec fn nz_refs_blk(b0: Term<Blk>, b1: Term<Blk>, known: Set<Tid>) -> bool {
    &&& b1.tid == b0.tid
    &&& b1.term.defs == b0.term.defs
    &&& b1.term.jmps@.len() == b0.term.jmps@.len()
    &&& forall |j: int| 0 <= j < b0.term.jmps@.len() ==> (#[trigger] b1.term.jmps@[j]).tid == b0.term.jmps@[j].tid
            && b1.term.jmps@[j].term == nz_retarget(b0.term.jmps@[j].term, known)
    &&& b1.term.indirect_jmp_targets@ == nz_keep(b0.term.indirect_jmp_targets@, known, b0.term.indirect_jmp_targets@.len() as int)
}

/// function `s1` is function `s0` after the pass
pub open spec fn nz_refs_sub(s0: Term<Sub>, s1: Term<Sub>, known: Set<Tid>) -> bool {
    &&& s1.tid == s0.tid
    &&& s1.term.name == s0.term.name
    &&& s1.term.calling_convention == s0.term.calling_convention
    &&& s1.term.blocks@.len() == s0.term.blocks@.len()
    &&& forall |i: int| 0 <= i < s0.term.blocks@.len() ==> nz_refs_blk(s0.term.blocks@[i], #[trigger] s1.term.blocks@[i], known)
}

/// the whole pass
pub open spec fn nz_refs_post(subs0: Map<Tid, Term<Sub>>, subs1: Map<Tid, Term<Sub>>, known: Set<Tid>) -> bool {
    &&& subs1.dom() =~= subs0.dom()
    &&& forall |k: Tid| #[trigger] subs0.contains_key(k) ==> nz_refs_sub(subs0[k], subs1[k], known)
}

/// `known` is the set of tids that exist in the program (functions, blocks, extern symbols)
pub open spec fn nz_known_set(known: Set<Tid>, subs: Map<Tid, Term<Sub>>, ext: Map<Tid, ExternSymbol>) -> bool {
    forall |t: Tid| #[trigger] known.contains(t) <==> nz_known(subs, ext, t)
}

/// what no pass changes: everything of the project but the functions
pub open spec fn nz_frame(p0: Project, p1: Project) -> bool {
    &&& p1.program.tid == p0.program.tid
    &&& p1.program.term.extern_symbols == p0.program.term.extern_symbols
    &&& p1.program.term.entry_points == p0.program.term.entry_points
    &&& p1.program.term.address_base_offset == p0.program.term.address_base_offset
    &&& p1.cpu_architecture == p0.cpu_architecture
    &&& p1.stack_pointer_register == p0.stack_pointer_register
    &&& p1.calling_conventions == p0.calling_conventions
    &&& p1.register_set == p0.register_set
    &&& p1.datatype_properties == p0.datatype_properties
    &&& p1.runtime_memory_image == p0.runtime_memory_image
}

// ---- the artificial sinks ---------------------------------------------------------------------------------------------------

/// `b` is an artificial sink block with the given name suffix: no defs, no jumps, no hints
pub open spec fn nz_is_sink_block_term(b: Term<Blk>, suffix: Seq<char>) -> bool {
    &&& b.tid == nz_sink_blk(suffix)
    &&& b.term.defs@.len() == 0
    &&& b.term.jmps@.len() == 0
    &&& b.term.indirect_jmp_targets@.len() == 0
}

/// `s` is the artificial sink function: its tid, ONE block, the artificial sink block without suffix
pub open spec fn nz_is_sink_sub_term(s: Term<Sub>) -> bool {
    &&& s.tid == nz_sink_sub()
    &&& s.term.blocks@.len() == 1
    &&& nz_is_sink_block_term(s.term.blocks@[0], Seq::<char>::empty())
}

/// add_artifical_sink: the artificial sink function is stored under its tid; nothing else changes
pub open spec fn nz_sink_added(subs0: Map<Tid, Term<Sub>>, subs1: Map<Tid, Term<Sub>>) -> bool {
    &&& subs1.dom() =~= subs0.dom().insert(nz_sink_sub())
    &&& nz_is_sink_sub_term(subs1[nz_sink_sub()])
    &&& forall |k: Tid| #[trigger] subs0.contains_key(k) && k != nz_sink_sub() ==> subs1[k] == subs0[k]
}

// ---- positions of terms, uniqueness of term identifiers ------------------------------------------------------------------------

/// where a term sits: the program, the function stored under key k, its block number i, def / jump number j of that block
pub ghost enum NzPos {
    Prog,
    Sub(Tid),
    Blk(Tid, int),
    Def(Tid, int, int),
    Jmp(Tid, int, int),
}

/// the position exists in the program
pub open spec fn nz_pos_ok(subs: Map<Tid, Term<Sub>>, p: NzPos) -> bool {
    match p {
        NzPos::Prog => true,
        NzPos::Sub(k) => subs.contains_key(k),
        NzPos::Blk(k, i) => subs.contains_key(k) && 0 <= i < subs[k].term.blocks@.len(),
        NzPos::Def(k, i, j) => subs.contains_key(k) && 0 <= i < subs[k].term.blocks@.len() && 0 <= j < subs[k].term.blocks@[i].term.defs@.len(),
        NzPos::Jmp(k, i, j) => subs.contains_key(k) && 0 <= i < subs[k].term.blocks@.len() && 0 <= j < subs[k].term.blocks@[i].term.jmps@.len(),
    }
}

/// the term identifier at a position
pub open spec fn nz_tid_at(prog: Tid, subs: Map<Tid, Term<Sub>>, p: NzPos) -> Tid {
    match p {
        NzPos::Prog => prog,
        NzPos::Sub(k) => subs[k].tid,
        NzPos::Blk(k, i) => subs[k].term.blocks@[i].tid,
        NzPos::Def(k, i, j) => subs[k].term.blocks@[i].term.defs@[j].tid,
        NzPos::Jmp(k, i, j) => subs[k].term.blocks@[i].term.jmps@[j].tid,
    }
}

/// PROPERTY CLAUSE "all term identifiers are unique": two positions (program, function, block, def, jump) with the same
/// term identifier are the same position
pub open spec fn nz_unique(prog: Tid, subs: Map<Tid, Term<Sub>>) -> bool {
    forall |p: NzPos, q: NzPos| #[trigger] nz_pos_ok(subs, p) && #[trigger] nz_pos_ok(subs, q) && nz_tid_at(prog, subs, p) == nz_tid_at(prog, subs, q) ==> p == q
}

/// proof device: `owner` sends the tid of every position to that position (then the tids are unique)
pub open spec fn nz_owner_of(owner: Map<Tid, NzPos>, prog: Tid, subs: Map<Tid, Term<Sub>>) -> bool {
    forall |p: NzPos| #[trigger] nz_pos_ok(subs, p) ==> owner.contains_key(nz_tid_at(prog, subs, p)) && owner[nz_tid_at(prog, subs, p)] == p
}

// ---- pass: duplicate term identifiers ----------------------------------------------------------------------------------------

/// `a` is an order-preserving selection of `b`: a[i] == b[emb[i]], emb strictly increasing
pub open spec fn nz_sel<T>(a: Seq<T>, b: Seq<T>, emb: Seq<int>) -> bool {
    &&& emb.len() == a.len()
    &&& forall |i: int| 0 <= i < a.len() ==> 0 <= #[trigger] emb[i] < b.len() && a[i] == b[emb[i]]
    &&& forall |i: int, j: int| 0 <= i < j < a.len() ==> #[trigger] emb[i] < #[trigger] emb[j]
}

pub open spec fn nz_selected<T>(a: Seq<T>, b: Seq<T>) -> bool {
    exists |emb: Seq<int>| #[trigger] nz_sel(a, b, emb)
}

/// block `b1` is block `b0` with some defs and some jumps removed (order kept, the kept ones unchanged); nothing else changed
pub open spec fn nz_dedup_blk(b0: Term<Blk>, b1: Term<Blk>) -> bool {
    &&& b1.tid == b0.tid
    &&& b1.term.indirect_jmp_targets == b0.term.indirect_jmp_targets
    &&& nz_selected(b1.term.defs@, b0.term.defs@)
    &&& nz_selected(b1.term.jmps@, b0.term.jmps@)
}

/// the blocks `l1` are an order-preserving selection of the blocks `l0`, each with some defs / jumps removed
pub open spec fn nz_dedup_blks(l0: Seq<Term<Blk>>, l1: Seq<Term<Blk>>, emb: Seq<int>) -> bool {
    &&& emb.len() == l1.len()
    &&& forall |i: int| 0 <= i < l1.len() ==> 0 <= #[trigger] emb[i] < l0.len() && nz_dedup_blk(l0[emb[i]], l1[i])
    &&& forall |i: int, j: int| 0 <= i < j < l1.len() ==> #[trigger] emb[i] < #[trigger] emb[j]
}

/// function `s1` is function `s0` with some blocks / defs / jumps removed
pub open spec fn nz_dedup_sub(s0: Term<Sub>, s1: Term<Sub>) -> bool {
    &&& s1.tid == s0.tid
    &&& s1.term.name == s0.term.name
    &&& s1.term.calling_convention == s0.term.calling_convention
    &&& exists |emb: Seq<int>| #[trigger] nz_dedup_blks(s0.term.blocks@, s1.term.blocks@, emb)
}

/// the pass only REMOVES blocks, defs and jumps (frame: every function is still there, everything kept is unchanged and in order)
pub open spec fn nz_dedup_post(subs0: Map<Tid, Term<Sub>>, subs1: Map<Tid, Term<Sub>>) -> bool {
    &&& subs1.dom() =~= subs0.dom()
    &&& forall |k: Tid| #[trigger] subs0.contains_key(k) ==> nz_dedup_sub(subs0[k], subs1[k])
}

/// proof device: the tids of block `b` = block number `i` of the function under `k`, of its defs and of its jumps are owned by their positions
pub open spec fn nz_blk_owned(owner: Map<Tid, NzPos>, k: Tid, i: int, b: Term<Blk>) -> bool {
    &&& owner.contains_key(b.tid) && owner[b.tid] == NzPos::Blk(k, i)
    &&& forall |d: int| 0 <= d < b.term.defs@.len() ==> owner.contains_key((#[trigger] b.term.defs@[d]).tid) && owner[b.term.defs@[d].tid] == NzPos::Def(k, i, d)
    &&& forall |j: int| 0 <= j < b.term.jmps@.len() ==> owner.contains_key((#[trigger] b.term.jmps@[j]).tid) && owner[b.term.jmps@[j].tid] == NzPos::Jmp(k, i, j)
}

pub open spec fn nz_sub_owned(owner: Map<Tid, NzPos>, k: Tid, s: Term<Sub>) -> bool {
    &&& owner.contains_key(s.tid) && owner[s.tid] == NzPos::Sub(k)
    &&& forall |i: int| 0 <= i < s.term.blocks@.len() ==> nz_blk_owned(owner, k, i, #[trigger] s.term.blocks@[i])
}

/// the tid at position `q` of the program occurs at NO other position (program, function, block, def, jump)
pub open spec fn nz_alone(prog: Tid, subs: Map<Tid, Term<Sub>>, q: NzPos) -> bool {
    &&& nz_pos_ok(subs, q)
    &&& forall |p: NzPos| #[trigger] nz_pos_ok(subs, p) && p != q ==> nz_tid_at(prog, subs, p) != nz_tid_at(prog, subs, q)
}

/// PRECONDITION of the duplicate removal (otherwise it panics "Duplicate of TID .. encountered"): the tid of a FUNCTION is not
/// used by any other term
pub open spec fn nz_sub_tids_alone(prog: Tid, subs: Map<Tid, Term<Sub>>) -> bool {
    forall |k: Tid| #[trigger] subs.contains_key(k) ==> nz_alone(prog, subs, NzPos::Sub(k))
}

/// proof device: the functions number n.. of the key order have not been visited: a function tid / entry-block tid among them
/// that occurs nowhere else is not among the known tids
pub open spec fn nz_later_fresh(known: Set<Tid>, prog: Tid, subs0: Map<Tid, Term<Sub>>, ks: Seq<Tid>, n: int) -> bool {
    forall |j: int| n <= j < ks.len() ==>
        (nz_alone(prog, subs0, NzPos::Sub(#[trigger] ks[j])) ==> !known.contains(subs0[ks[j]].tid))
        && (nz_alone(prog, subs0, NzPos::Blk(ks[j], 0)) ==> !known.contains(subs0[ks[j]].term.blocks@[0].tid))
}

/// `p` is not a function position / entry-block position of the functions number n..
pub open spec fn nz_not_later(p: NzPos, ks: Seq<Tid>, n: int) -> bool {
    forall |j: int| n <= j < ks.len() ==> p != NzPos::Sub(#[trigger] ks[j]) && p != NzPos::Blk(ks[j], 0)
}

/// PROPERTY CLAUSE "every function still starts with its original entry block", as the duplicate removal keeps it: the entry
/// block survives (as the first block, with its tid and its hints) WHEN ITS TID OCCURS NOWHERE ELSE in the input
pub open spec fn nz_dedup_entries(prog: Tid, subs0: Map<Tid, Term<Sub>>, subs1: Map<Tid, Term<Sub>>) -> bool {
    forall |k: Tid| #[trigger] subs0.contains_key(k) && nz_alone(prog, subs0, NzPos::Blk(k, 0)) ==>
        subs1[k].term.blocks@.len() > 0 && nz_dedup_blk(subs0[k].term.blocks@[0], subs1[k].term.blocks@[0])
}

// ---- pass: calls to non-returning functions ------------------------------------------------------------------------------------

/// the jump list contains a return instruction
pub open spec fn nz_jmps_return(jmps: Seq<Term<Jmp>>) -> bool {
    exists |j: int| 0 <= j < jmps.len() && (#[trigger] jmps[j]).term is Return
}

/// some block of the list contains a return instruction
pub open spec fn nz_blocks_return(blocks: Seq<Term<Blk>>) -> bool {
    exists |i: int| 0 <= i < blocks.len() && nz_jmps_return((#[trigger] blocks[i]).term.jmps@)
}

/// `t` is the tid of a NON-RETURNING function of the program: a function without any return instruction (the artificial sink
/// function does not count)
pub open spec fn nz_nonret(subs: Map<Tid, Term<Sub>>, t: Tid) -> bool {
    exists |k: Tid| #[trigger] subs.contains_key(k) && subs[k].tid == t && !nz_blocks_return(subs[k].term.blocks@) && t != nz_sink_sub()
}

/// ... among the first `n` functions of the iteration `s`
pub open spec fn nz_nonret_n(s: Seq<(&Tid, &Term<Sub>)>, n: int, t: Tid) -> bool {
    exists |j: int| 0 <= j < n && (#[trigger] s[j]).1.tid == t && !nz_blocks_return(s[j].1.term.blocks@) && t != nz_sink_sub()
}

/// some block of the list carries the name of an artificial sink block with this suffix
pub open spec fn nz_has_sink(blocks: Seq<Term<Blk>>, suffix: Seq<char>) -> bool {
    exists |i: int| 0 <= i < blocks.len() && nz_is_sink_blk((#[trigger] blocks[i]).tid, suffix)
}

/// THE RULE for one jump of function `f` (property: "calls to non-returning functions return to the caller's artificial sink"):
/// a direct call WITH a return target that does not already return to the sink of `f`, and whose target is an extern symbol
/// flagged no_return or (no extern symbol and) a non-returning function, returns to the artificial sink block of `f`;
/// everything else is unchanged.
pub open spec fn nz_noret(j: Jmp, f: Tid, ext: Map<Tid, ExternSymbol>, nr: Set<Tid>) -> Jmp {
    match j {
        Jmp::Call { target, return_: Some(r) } =>
            if nz_is_sink_blk(r, nz_sfx(f)) { j }
            else if ext.contains_key(target) { if ext[target].no_return { Jmp::Call { target, return_: Some(nz_sink_blk(nz_sfx(f))) } } else { j } }
            else if nr.contains(target) { Jmp::Call { target, return_: Some(nz_sink_blk(nz_sfx(f))) } }
            else { j },
        _ => j,
    }
}

pub open spec fn nz_noret_blk(b0: Term<Blk>, b1: Term<Blk>, f: Tid, ext: Map<Tid, ExternSymbol>, nr: Set<Tid>) -> bool {
    &&& b1.tid == b0.tid
    &&& b1.term.defs == b0.term.defs
    &&& b1.term.indirect_jmp_targets == b0.term.indirect_jmp_targets
    &&& b1.term.jmps@.len() == b0.term.jmps@.len()
    &&& forall |j: int| 0 <= j < b0.term.jmps@.len() ==> (#[trigger] b1.term.jmps@[j]).tid == b0.term.jmps@[j].tid
            && b1.term.jmps@[j].term == nz_noret(b0.term.jmps@[j].term, f, ext, nr)
}

/// some jump of the first `n` blocks (and the first `m` jumps of block number `n`) was retargeted by the rule
pub open spec fn nz_noret_changed(blocks: Seq<Term<Blk>>, f: Tid, ext: Map<Tid, ExternSymbol>, nr: Set<Tid>, n: int, m: int) -> bool {
    ||| exists |i: int, j: int| 0 <= i < n && i < blocks.len() && 0 <= j < (#[trigger] blocks[i]).term.jmps@.len()
            && nz_noret((#[trigger] blocks[i].term.jmps@[j]).term, f, ext, nr) != blocks[i].term.jmps@[j].term
    ||| exists |j: int| 0 <= n < blocks.len() && 0 <= j < m && j < blocks[n].term.jmps@.len()
            && nz_noret((#[trigger] blocks[n].term.jmps@[j]).term, f, ext, nr) != blocks[n].term.jmps@[j].term
}

/// function `s1` is function `s0` after the pass: the same blocks with the rule applied to every jump, and -- iff a jump was
/// retargeted and no block carried the name of the function's artificial sink -- ONE more block at the end: that sink
pub open spec fn nz_noret_sub(s0: Term<Sub>, s1: Term<Sub>, ext: Map<Tid, ExternSymbol>, nr: Set<Tid>) -> bool {
    let n0 = s0.term.blocks@.len() as int;
    let changed = nz_noret_changed(s0.term.blocks@, s0.tid, ext, nr, n0, 0);
    let add = changed && !nz_has_sink(s0.term.blocks@, nz_sfx(s0.tid));
    &&& s1.tid == s0.tid
    &&& s1.term.name == s0.term.name
    &&& s1.term.calling_convention == s0.term.calling_convention
    &&& s1.term.blocks@.len() == (if add { n0 + 1 } else { n0 })
    &&& forall |i: int| 0 <= i < n0 ==> nz_noret_blk(s0.term.blocks@[i], #[trigger] s1.term.blocks@[i], s0.tid, ext, nr)
    &&& add ==> nz_is_sink_block_term(s1.term.blocks@[n0], nz_sfx(s0.tid))
}

/// the whole pass: every function but the artificial sink function
pub open spec fn nz_noret_post(subs0: Map<Tid, Term<Sub>>, subs1: Map<Tid, Term<Sub>>, ext: Map<Tid, ExternSymbol>, nr: Set<Tid>) -> bool {
    &&& subs1.dom() =~= subs0.dom()
    &&& forall |k: Tid| #[trigger] subs0.contains_key(k) ==>
            if subs0[k].tid == nz_sink_sub() { subs1[k] == subs0[k] } else { nz_noret_sub(subs0[k], subs1[k], ext, nr) }
}

/// `nr` is the set of the tids of the non-returning functions
pub open spec fn nz_nonret_set(nr: Set<Tid>, subs: Map<Tid, Term<Sub>>) -> bool {
    forall |t: Tid| #[trigger] nr.contains(t) <==> nz_nonret(subs, t)
}

// ---- pass: blocks contained in several functions ----------------------------------------------------------------------------------

/// the block tid a jump names inside its function: target of a (conditional) branch, return target of a call
pub open spec fn nz_intra_target(j: Jmp) -> Option<Tid> {
    match j {
        Jmp::Branch(t) => Some(t),
        Jmp::CBranch { target, condition } => Some(target),
        Jmp::Call { target, return_ } => return_,
        Jmp::CallInd { target, return_ } => return_,
        Jmp::CallOther { description, return_ } => return_,
        Jmp::BranchInd(e) => None,
        Jmp::Return(e) => None,
    }
}

/// block `b1` is a copy of block `b0` with `suffix` appended to the tid of the block, of its defs and of its jumps;
/// the instructions themselves, all jump / return targets and the hints are those of `b0`
pub open spec fn nz_clone_sfx(b0: Term<Blk>, b1: Term<Blk>, suffix: Seq<char>) -> bool {
    &&& b1.tid == nz_with(b0.tid, suffix)
    &&& b1.term.indirect_jmp_targets == b0.term.indirect_jmp_targets
    &&& b1.term.defs@.len() == b0.term.defs@.len()
    &&& forall |d: int| 0 <= d < b0.term.defs@.len() ==> (#[trigger] b1.term.defs@[d]).tid == nz_with(b0.term.defs@[d].tid, suffix)
            && b1.term.defs@[d].term == b0.term.defs@[d].term
    &&& b1.term.jmps@.len() == b0.term.jmps@.len()
    &&& forall |j: int| 0 <= j < b0.term.jmps@.len() ==> (#[trigger] b1.term.jmps@[j]).tid == nz_with(b0.term.jmps@[j].tid, suffix)
            && b1.term.jmps@[j].term == b0.term.jmps@[j].term
}

/// THE RULE for one block tid named inside function `f` (a target of a branch, a return target, a hint): a tid that the map
/// `home` (term tid -> tid of the function that lists the term) does not send to `f` gets the suffix of `f`
pub open spec fn nz_fix(t: Tid, f: Tid, home: Map<Tid, Tid>) -> Tid {
    if home.contains_key(t) && home[t] == f { t } else { nz_with(t, nz_sfx(f)) }
}

pub open spec fn nz_fix_opt(r: Option<Tid>, f: Tid, home: Map<Tid, Tid>) -> Option<Tid> {
    match r { Some(t) => Some(nz_fix(t, f, home)), None => None }
}

/// ... for one jump: targets of Branch / CBranch, return targets of Call / CallInd / CallOther; call targets are NOT touched
pub open spec fn nz_resfx(j: Jmp, f: Tid, home: Map<Tid, Tid>) -> Jmp {
    match j {
        Jmp::Branch(t) => Jmp::Branch(nz_fix(t, f, home)),
        Jmp::CBranch { target, condition } => Jmp::CBranch { target: nz_fix(target, f, home), condition },
        Jmp::Call { target, return_ } => Jmp::Call { target, return_: nz_fix_opt(return_, f, home) },
        Jmp::CallInd { target, return_ } => Jmp::CallInd { target, return_: nz_fix_opt(return_, f, home) },
        Jmp::CallOther { description, return_ } => Jmp::CallOther { description, return_: nz_fix_opt(return_, f, home) },
        Jmp::BranchInd(e) => j,
        Jmp::Return(e) => j,
    }
}

pub open spec fn nz_resfx_blk(b0: Term<Blk>, b1: Term<Blk>, f: Tid, home: Map<Tid, Tid>) -> bool {
    &&& b1.tid == b0.tid
    &&& b1.term.defs == b0.term.defs
    &&& b1.term.jmps@.len() == b0.term.jmps@.len()
    &&& forall |j: int| 0 <= j < b0.term.jmps@.len() ==> (#[trigger] b1.term.jmps@[j]).tid == b0.term.jmps@[j].tid
            && b1.term.jmps@[j].term == nz_resfx(b0.term.jmps@[j].term, f, home)
    &&& b1.term.indirect_jmp_targets@.len() == b0.term.indirect_jmp_targets@.len()
    &&& forall |h: int| 0 <= h < b0.term.indirect_jmp_targets@.len() ==> #[trigger] b1.term.indirect_jmp_targets@[h] == nz_fix(b0.term.indirect_jmp_targets@[h], f, home)
}

pub open spec fn nz_resfx_sub(s0: Term<Sub>, s1: Term<Sub>, home: Map<Tid, Tid>) -> bool {
    &&& s1.tid == s0.tid
    &&& s1.term.name == s0.term.name
    &&& s1.term.calling_convention == s0.term.calling_convention
    &&& s1.term.blocks@.len() == s0.term.blocks@.len()
    &&& forall |i: int| 0 <= i < s0.term.blocks@.len() ==> nz_resfx_blk(s0.term.blocks@[i], #[trigger] s1.term.blocks@[i], s0.tid, home)
}

pub open spec fn nz_resfx_post(subs0: Map<Tid, Term<Sub>>, subs1: Map<Tid, Term<Sub>>, home: Map<Tid, Tid>) -> bool {
    &&& subs1.dom() =~= subs0.dom()
    &&& forall |k: Tid| #[trigger] subs0.contains_key(k) ==> nz_resfx_sub(subs0[k], subs1[k], home)
}

/// the key of the function a position lies in
pub open spec fn nz_pos_key(p: NzPos) -> Tid {
    match p {
        NzPos::Prog => arbitrary(),
        NzPos::Sub(k) => k,
        NzPos::Blk(k, i) => k,
        NzPos::Def(k, i, j) => k,
        NzPos::Jmp(k, i, j) => k,
    }
}

/// generate_tid_to_sub_tid_map: the tid of every function, block, def and jump is mapped to the tid of the function it lies in
pub open spec fn nz_home_ok(home: Map<Tid, Tid>, prog: Tid, subs: Map<Tid, Term<Sub>>) -> bool {
    forall |p: NzPos| #[trigger] nz_pos_ok(subs, p) && !(p is Prog) ==>
        home.contains_key(nz_tid_at(prog, subs, p)) && home[nz_tid_at(prog, subs, p)] == subs[nz_pos_key(p)].tid
}

/// proof device: every entry of the map is the tid of some position, mapped to the tid of that position's function
pub open spec fn nz_home_entries(home: Map<Tid, Tid>, prog: Tid, subs: Map<Tid, Term<Sub>>) -> bool {
    forall |t: Tid| #[trigger] home.contains_key(t) ==> exists |p: NzPos| #[trigger] nz_pos_ok(subs, p) && !(p is Prog) && nz_tid_at(prog, subs, p) == t
        && home[t] == subs[nz_pos_key(p)].tid
}

/// proof device: the tids of a block / a function and of everything below it are keys of the map
pub open spec fn nz_cover_blk<V>(m: Map<Tid, V>, b: Term<Blk>) -> bool {
    &&& m.contains_key(b.tid)
    &&& forall |d: int| 0 <= d < b.term.defs@.len() ==> m.contains_key((#[trigger] b.term.defs@[d]).tid)
    &&& forall |j: int| 0 <= j < b.term.jmps@.len() ==> m.contains_key((#[trigger] b.term.jmps@[j]).tid)
}

pub open spec fn nz_cover_sub<V>(m: Map<Tid, V>, s: Term<Sub>) -> bool {
    &&& m.contains_key(s.tid)
    &&& forall |i: int| 0 <= i < s.term.blocks@.len() ==> nz_cover_blk(m, #[trigger] s.term.blocks@[i])
}

pub open spec fn nz_grows<V>(m0: Map<Tid, V>, m1: Map<Tid, V>) -> bool {
    forall |t: Tid| #[trigger] m0.contains_key(t) ==> m1.contains_key(t)
}

/// generate_block_tid_to_block_term_map: every block tid is a key; every entry is a block of the program with that tid
pub open spec fn nz_blkmap_ok(bm: Map<Tid, &Term<Blk>>, subs: Map<Tid, Term<Sub>>) -> bool {
    &&& forall |k: Tid, i: int| #[trigger] nz_blk_at(subs, k, i, subs[k].term.blocks@[i].tid) ==> bm.contains_key(subs[k].term.blocks@[i].tid)
    &&& forall |t: Tid| #[trigger] bm.contains_key(t) ==> exists |k: Tid, i: int| #[trigger] nz_blk_at(subs, k, i, t) && *bm[t] == subs[k].term.blocks@[i]
}

/// block `b` names the block tid `u`: `u` is the target of a branch / the return target of a call among its jumps, or one of
/// its indirect-jump target hints
pub open spec fn nz_names(b: Term<Blk>, u: Tid) -> bool {
    ||| exists |j: int| 0 <= j < b.term.jmps@.len() && nz_intra_target((#[trigger] b.term.jmps@[j]).term) == Some(u)
    ||| exists |h: int| 0 <= h < b.term.indirect_jmp_targets@.len() && #[trigger] b.term.indirect_jmp_targets@[h] == u
}

/// `path` starts at a block listed in function `s` and every tid on it names the next one (through the block map `bm`)
pub open spec fn nz_path(s: Term<Sub>, bm: Map<Tid, &Term<Blk>>, path: Seq<Tid>) -> bool {
    &&& path.len() > 0
    &&& exists |i: int| 0 <= i < s.term.blocks@.len() && (#[trigger] s.term.blocks@[i]).tid == path[0]
    &&& forall |n: int| 0 <= n < path.len() - 1 ==> bm.contains_key(#[trigger] path[n]) && nz_names(*bm[path[n]], path[n + 1])
}

/// block tid `t` is CONTAINED in function `s`: reachable from a listed block through jumps, returns from calls and hints
pub open spec fn nz_reachable(s: Term<Sub>, bm: Map<Tid, &Term<Blk>>, t: Tid) -> bool {
    exists |path: Seq<Tid>| #[trigger] nz_path(s, bm, path) && path.last() == t
}

pub open spec fn nz_in(w: Seq<Tid>, u: Tid) -> bool {
    exists |i: int| 0 <= i < w.len() && #[trigger] w[i] == u
}

/// `set` is the set of the block tids contained in function `s`: it has the listed blocks, is closed under "names", and
/// has nothing that is not reachable
pub open spec fn nz_contained_ok(set: Set<Tid>, s: Term<Sub>, bm: Map<Tid, &Term<Blk>>) -> bool {
    &&& forall |i: int| 0 <= i < s.term.blocks@.len() ==> set.contains((#[trigger] s.term.blocks@[i]).tid)
    &&& forall |t: Tid, u: Tid| set.contains(t) && bm.contains_key(t) && #[trigger] nz_names(*bm[t], u) ==> set.contains(u)
    &&& forall |t: Tid| #[trigger] set.contains(t) ==> nz_reachable(s, bm, t)
}

/// generate_sub_tid_to_contained_block_tids_map: per function tid the set of contained block tids
pub open spec fn nz_submap_ok(m: Map<Tid, HashSet<Tid>>, subs: Map<Tid, Term<Sub>>, bm: Map<Tid, &Term<Blk>>) -> bool {
    forall |k: Tid| #[trigger] subs.contains_key(k) ==> m.contains_key(subs[k].tid) && nz_contained_ok(m[subs[k].tid]@, subs[k], bm)
}

/// two functions stored under different keys have different tids
pub open spec fn nz_sub_tids_distinct(subs: Map<Tid, Term<Sub>>) -> bool {
    forall |k1: Tid, k2: Tid| #[trigger] subs.contains_key(k1) && #[trigger] subs.contains_key(k2) && subs[k1].tid == subs[k2].tid ==> k1 == k2
}

/// worklist invariant: `t` is done (in the set) or waiting (on the worklist)
pub open spec fn nz_seen(set: Set<Tid>, w: Seq<Tid>, t: Tid) -> bool {
    set.contains(t) || nz_in(w, t)
}

/// worklist invariant, for the function `s`: listed blocks seen; what a done block other than `cur` names is seen; everything seen is reachable
#[verifier::opaque]
pub open spec fn nz_wl_inv(set: Set<Tid>, w: Seq<Tid>, s: Term<Sub>, bm: Map<Tid, &Term<Blk>>, cur: Option<Tid>) -> bool {
    &&& forall |i: int| 0 <= i < s.term.blocks@.len() ==> nz_seen(set, w, (#[trigger] s.term.blocks@[i]).tid)
    &&& forall |t: Tid, u: Tid| set.contains(t) && Some(t) != cur && bm.contains_key(t) && #[trigger] nz_names(*bm[t], u) ==> nz_seen(set, w, u)
    &&& forall |t: Tid| #[trigger] nz_seen(set, w, t) ==> nz_reachable(s, bm, t)
}

/// the map `home` sends the tid `t` to the function tid `f`
pub open spec fn nz_home_is(home: Map<Tid, Tid>, t: Tid, f: Tid) -> bool {
    home.contains_key(t) && home[t] == f
}

/// the blocks `v` are, in some order and each exactly once, the copies (with the suffix of function `f`) of the blocks whose
/// tid is contained in `f` (set `contained`) but not at home in `f`; `src` lists the tids of the originals
pub open spec fn nz_additional(v: Seq<Term<Blk>>, src: Seq<Tid>, contained: Set<Tid>, f: Tid, home: Map<Tid, Tid>, bm: Map<Tid, &Term<Blk>>) -> bool {
    &&& src.len() == v.len()
    &&& forall |i: int, j: int| 0 <= i < j < src.len() ==> #[trigger] src[i] != #[trigger] src[j]
    &&& forall |i: int| 0 <= i < src.len() ==> contained.contains(#[trigger] src[i]) && !nz_home_is(home, src[i], f)
            && bm.contains_key(src[i]) && nz_clone_sfx(*bm[src[i]], v[i], nz_sfx(f))
    &&& forall |t: Tid| contained.contains(t) && !nz_home_is(home, t, f) ==> nz_in(src, t)
}

pub open spec fn nz_additional_ok(v: Seq<Term<Blk>>, contained: Set<Tid>, f: Tid, home: Map<Tid, Tid>, bm: Map<Tid, &Term<Blk>>) -> bool {
    exists |src: Seq<Tid>| #[trigger] nz_additional(v, src, contained, f, home, bm)
}

/// duplicate_blocks_contained_in_several_subs: per function tid the list of the new blocks
pub open spec fn nz_addmap_ok(m: Map<Tid, Vec<Term<Blk>>>, subs: Map<Tid, Term<Sub>>, sm: Map<Tid, HashSet<Tid>>, home: Map<Tid, Tid>, bm: Map<Tid, &Term<Blk>>) -> bool {
    forall |k: Tid| #[trigger] subs.contains_key(k) ==> m.contains_key(subs[k].tid)
        && nz_additional_ok(m[subs[k].tid]@, sm[subs[k].tid]@, subs[k].tid, home, bm)
}

/// PRECONDITION of duplicate_blocks_contained_in_several_subs (its two `unwrap()`s): every function tid is a key of the map of
/// contained blocks, and every contained tid that is not at home in the function is the tid of a block
pub open spec fn nz_dup_pre(subs: Map<Tid, Term<Sub>>, sm: Map<Tid, HashSet<Tid>>, home: Map<Tid, Tid>, bm: Map<Tid, &Term<Blk>>) -> bool {
    forall |k: Tid| #[trigger] subs.contains_key(k) ==> sm.contains_key(subs[k].tid)
        && forall |t: Tid| #[trigger] sm[subs[k].tid]@.contains(t) && !nz_home_is(home, t, subs[k].tid) ==> bm.contains_key(t)
}

/// loop invariant of the inner loop: after the first `n` elements of the iteration `it` over the set
pub open spec fn nz_additional_n(v: Seq<Term<Blk>>, src: Seq<Tid>, pos: Seq<int>, it: Seq<&Tid>, n: int, f: Tid, home: Map<Tid, Tid>, bm: Map<Tid, &Term<Blk>>) -> bool {
    &&& src.len() == v.len() && pos.len() == v.len()
    &&& forall |i: int| 0 <= i < pos.len() ==> 0 <= #[trigger] pos[i] < n && pos[i] < it.len() && *it[pos[i]] == src[i]
    &&& forall |i: int, j: int| 0 <= i < j < pos.len() ==> #[trigger] pos[i] < #[trigger] pos[j]
    &&& forall |i: int| 0 <= i < src.len() ==> !nz_home_is(home, #[trigger] src[i], f) && bm.contains_key(src[i]) && nz_clone_sfx(*bm[src[i]], v[i], nz_sfx(f))
    &&& forall |j: int| 0 <= j < n && j < it.len() && !nz_home_is(home, *#[trigger] it[j], f) ==> nz_in(src, *it[j])
}

/// `s` is an iteration over the elements of `set` (every element of the sequence is a member, every member occurs, once)
pub open spec fn nz_set_iter_of(s: Seq<&Tid>, set: Set<Tid>) -> bool {
    &&& s.no_duplicates()
    &&& forall |i: int| 0 <= i < s.len() ==> set.contains(*#[trigger] s[i])
    &&& forall |k: Tid| set.contains(k) ==> exists |i: int| 0 <= i < s.len() && *#[trigger] s[i] == k
}

pub open spec fn nz_resfx_blks(l0: Seq<Term<Blk>>, l1: Seq<Term<Blk>>, f: Tid, home: Map<Tid, Tid>) -> bool {
    &&& l1.len() == l0.len()
    &&& forall |i: int| 0 <= i < l0.len() ==> nz_resfx_blk(l0[i], #[trigger] l1[i], f, home)
}

/// function `s1` is function `s0` after make_block_to_sub_mapping_unique: the listed blocks, then (in some order, each once) the
/// suffixed copies of the blocks contained in `s0` that are not at home there; in ALL of them the block tids named by jumps,
/// returns and hints are redirected to the copies (rule nz_fix)
pub open spec fn nz_uniq_sub(s0: Term<Sub>, s1: Term<Sub>, contained: Set<Tid>, home: Map<Tid, Tid>, bm: Map<Tid, &Term<Blk>>) -> bool {
    &&& s1.tid == s0.tid
    &&& s1.term.name == s0.term.name
    &&& s1.term.calling_convention == s0.term.calling_convention
    &&& exists |add: Seq<Term<Blk>>| #[trigger] nz_additional_ok(add, contained, s0.tid, home, bm)
            && nz_resfx_blks(s0.term.blocks@ + add, s1.term.blocks@, s0.tid, home)
}

/// make_block_to_sub_mapping_unique, in terms of: `home` (term tid -> tid of its function), `bm` (block tid -> block),
/// `sm` (function tid -> set of the block tids contained in the function)
pub open spec fn nz_uniq_shape(subs0: Map<Tid, Term<Sub>>, subs1: Map<Tid, Term<Sub>>, home: Map<Tid, Tid>, bm: Map<Tid, &Term<Blk>>, sm: Map<Tid, HashSet<Tid>>) -> bool {
    &&& subs1.dom() =~= subs0.dom()
    &&& forall |k: Tid| #[trigger] subs0.contains_key(k) ==> nz_uniq_sub(subs0[k], subs1[k], sm[subs0[k].tid]@, home, bm)
}

/// PRECONDITION of make_block_to_sub_mapping_unique (else `block_tid_to_block_map.get(block_tid).unwrap()` panics): every tid a
/// block names (branch target, return target, hint) is the tid of a block of the program
pub open spec fn nz_names_closed(subs: Map<Tid, Term<Sub>>) -> bool {
    forall |k: Tid, i: int, u: Tid| #[trigger] nz_blk_at(subs, k, i, subs[k].term.blocks@[i].tid) && #[trigger] nz_names(subs[k].term.blocks@[i], u) ==> nz_is_blk(subs, u)
}

/// THE POSTCONDITION of make_block_to_sub_mapping_unique
pub open spec fn nz_uniq_post(prog: Tid, subs0: Map<Tid, Term<Sub>>, subs1: Map<Tid, Term<Sub>>) -> bool {
    exists |home: Map<Tid, Tid>, bm: Map<Tid, &Term<Blk>>, sm: Map<Tid, HashSet<Tid>>|
        nz_home_ok(home, prog, subs0) && nz_blkmap_ok(bm, subs0) && nz_submap_ok(sm, subs0, bm) && #[trigger] nz_uniq_shape(subs0, subs1, home, bm, sm)
}

/// loop of make_block_to_sub_mapping_unique: function `s1` is `s0` with the additional blocks `add` appended
pub open spec fn nz_appended(s0: Term<Sub>, s1: Term<Sub>, add: Seq<Term<Blk>>) -> bool {
    &&& s1.tid == s0.tid
    &&& s1.term.name == s0.term.name
    &&& s1.term.calling_convention == s0.term.calling_convention
    &&& s1.term.blocks@ =~= s0.term.blocks@ + add
}

// ---- the composition: hypotheses on the input of normalize_basic ---------------------------------------------------------------------

/// HYPOTHESIS (names): no term of the program carries the name of the artificial sink function or of the artificial sink block
pub open spec fn nz_no_sink_names(prog: Tid, subs: Map<Tid, Term<Sub>>) -> bool {
    forall |p: NzPos| #[trigger] nz_pos_ok(subs, p) ==> nz_tid_at(prog, subs, p) != nz_sink_sub() && nz_tid_at(prog, subs, p) != nz_sink_blk(Seq::<char>::empty())
}

/// HYPOTHESIS (name spaces of the extractor): a tid that a block names (branch target, return target, hint) is never the tid of
/// a function or of an extern symbol, nor the name of the artificial sink function
pub open spec fn nz_namespace(subs: Map<Tid, Term<Sub>>, ext: Map<Tid, ExternSymbol>) -> bool {
    forall |k: Tid, i: int, u: Tid| #[trigger] nz_blk_at(subs, k, i, subs[k].term.blocks@[i].tid) && #[trigger] nz_names(subs[k].term.blocks@[i], u)
        ==> !nz_is_sub(subs, u) && !ext.contains_key(u) && u != nz_sink_sub()
}

/// the key of a function is its tid (how the extractor fills the map)
pub open spec fn nz_keys_are_tids(subs: Map<Tid, Term<Sub>>) -> bool {
    forall |k: Tid| #[trigger] subs.contains_key(k) ==> subs[k].tid == k
}

/// every term tid of `subs1` is a term tid of `subs0`; every function of `subs1` is a function of `subs0` with the same tid;
/// what a block of `subs1` names, a block of `subs0` names
pub open spec fn nz_sub_program(prog: Tid, subs0: Map<Tid, Term<Sub>>, subs1: Map<Tid, Term<Sub>>) -> bool {
    &&& subs1.dom() =~= subs0.dom()
    &&& forall |k: Tid| #[trigger] subs1.contains_key(k) ==> subs1[k].tid == subs0[k].tid
    &&& forall |p: NzPos| #[trigger] nz_pos_ok(subs1, p) ==> exists |q: NzPos| #[trigger] nz_pos_ok(subs0, q) && nz_tid_at(prog, subs0, q) == nz_tid_at(prog, subs1, p)
    &&& forall |k: Tid, i: int, u: Tid| #[trigger] nz_blk_at(subs1, k, i, subs1[k].term.blocks@[i].tid) && #[trigger] nz_names(subs1[k].term.blocks@[i], u)
            ==> exists |k0: Tid, i0: int| #[trigger] nz_blk_at(subs0, k0, i0, subs0[k0].term.blocks@[i0].tid) && nz_names(subs0[k0].term.blocks@[i0], u)
}

/// normalize_basic as the chain of its five passes (each with its postcondition): `s1` .. `s4` are the programs in between
pub open spec fn nz_chain(prog: Tid, s0: Map<Tid, Term<Sub>>, ext: Map<Tid, ExternSymbol>, s1: Map<Tid, Term<Sub>>, s2: Map<Tid, Term<Sub>>,
                          s3: Map<Tid, Term<Sub>>, s4: Map<Tid, Term<Sub>>, s5: Map<Tid, Term<Sub>>, known: Set<Tid>, nr: Set<Tid>) -> bool {
    // 1. duplicate term identifiers are removed
    &&& nz_dedup_post(s0, s1) && nz_unique(prog, s1) && nz_dedup_entries(prog, s0, s1)
    // 2. the artificial sink function is added
    &&& nz_sink_added(s1, s2)
    // 3. references to tids that do not exist go to the artificial sinks
    &&& nz_known_set(known, s2, ext) && nz_refs_post(s2, s3, known) && nz_unique(prog, s3) && nz_names_closed(s3)
    // 4. blocks contained in several functions are copied
    &&& nz_uniq_post(prog, s3, s4)
    // 5. calls to non-returning functions return to the artificial sink block of the caller
    &&& nz_nonret_set(nr, s4) && nz_noret_post(s4, s5, ext, nr)
}

pub open spec fn nz_basic_post(prog: Tid, s0: Map<Tid, Term<Sub>>, ext: Map<Tid, ExternSymbol>, s5: Map<Tid, Term<Sub>>) -> bool {
    exists |s1: Map<Tid, Term<Sub>>, s2: Map<Tid, Term<Sub>>, s3: Map<Tid, Term<Sub>>, s4: Map<Tid, Term<Sub>>, known: Set<Tid>, nr: Set<Tid>|
        #[trigger] nz_chain(prog, s0, ext, s1, s2, s3, s4, s5, known, nr)
}

// ---- property clauses on the result ------------------------------------------------------------------------------------------------

/// PROPERTY CLAUSE "every intraprocedural target is a block of the same function" (and so "every direct jump and return
/// target exists"): whatever a block of a function names -- target of a (conditional) branch, return target of a call,
/// indirect-jump target hint -- is the tid of a block listed in THAT function
pub open spec fn nz_intra_ok(subs: Map<Tid, Term<Sub>>) -> bool {
    forall |k: Tid, i: int, u: Tid| #[trigger] nz_blk_at(subs, k, i, subs[k].term.blocks@[i].tid) && #[trigger] nz_names(subs[k].term.blocks@[i], u)
        ==> exists |i2: int| #[trigger] nz_blk_at(subs, k, i2, u)
}

/// PROPERTY CLAUSE "every function still starts with its original entry block", for the functions whose entry-block tid
/// occurs nowhere else in the input
pub open spec fn nz_entries_kept(prog: Tid, subs0: Map<Tid, Term<Sub>>, subs5: Map<Tid, Term<Sub>>) -> bool {
    forall |k: Tid| #[trigger] subs0.contains_key(k) && nz_alone(prog, subs0, NzPos::Blk(k, 0)) ==>
        subs5.contains_key(k) && subs5[k].term.blocks@.len() > 0 && subs5[k].term.blocks@[0].tid == subs0[k].term.blocks@[0].tid
}

/// ... after the last pass: what a block names is a block of the same function, or it is the name of the function's artificial
/// sink block and the function lists a block carrying an artificial-sink name with the function's suffix.  (That such a block IS
/// the sink block -- no other block of the function has a name of this shape -- is a fact about names that is not decided here.)
pub open spec fn nz_intra_ok_mod_sink(subs: Map<Tid, Term<Sub>>) -> bool {
    forall |k: Tid, i: int, u: Tid| #[trigger] nz_blk_at(subs, k, i, subs[k].term.blocks@[i].tid) && #[trigger] nz_names(subs[k].term.blocks@[i], u)
        ==> (exists |i2: int| #[trigger] nz_blk_at(subs, k, i2, u))
            || (u == nz_sink_blk(nz_sfx(subs[k].tid)) && nz_has_sink(subs[k].term.blocks@, nz_sfx(subs[k].tid)))
}

/// PROPERTY CLAUSE "calls to non-returning functions return to the caller's artificial sink": in every function but the
/// artificial sink function, a direct call with a return target whose target is an extern symbol flagged no_return, or (no
/// extern symbol and) a function without any return instruction, returns to a tid carrying the artificial-sink name of the caller
pub open spec fn nz_noret_ok(subs: Map<Tid, Term<Sub>>, ext: Map<Tid, ExternSymbol>) -> bool {
    forall |k: Tid, i: int, j: int| #[trigger] nz_pos_ok(subs, NzPos::Jmp(k, i, j)) && subs[k].tid != nz_sink_sub() ==>
        match subs[k].term.blocks@[i].term.jmps@[j].term {
            Jmp::Call { target, return_: Some(r) } =>
                ((ext.contains_key(target) && ext[target].no_return) || (!ext.contains_key(target) && nz_nonret(subs, target)))
                    ==> nz_is_sink_blk(r, nz_sfx(subs[k].tid)),
            _ => true,
        }
}
