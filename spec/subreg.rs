// ---------------------------------------------------------------------------
// spec/subreg.rs -- the ORACLE of unit `subreg` (property C11, sub-register substitution of the P-Code lifting).
//
// Written from the property statement: "... the same final contents of all base registers (where sub-registers alias
// bytes of their base register), the same memory writes, the same branch decisions and jump targets".
//
//   * a machine state maps NAMES to bit vectors (`SrEnv`), holds an abstract memory and the log of memory writes;
//   * reading a variable (name, size) in the ALIASING reading: if the name is a register of the table with
//     (base_register, lsb), the value is bytes [lsb, lsb + size) of the cell of the base register -- `pcode_subpiece`
//     of unit bitvector, i.e. (u / 2^(8 lsb)) mod 2^(8 size); any other name is a cell of its own (lsb = 0);
//   * in the PLAIN reading every name is a cell of its own;
//   * writing a variable in the aliasing reading replaces bytes [lsb, lsb + size) of the base register's cell (sr_insert:
//     pure arithmetic over the unsigned value), in the plain reading it overwrites the cell (with the low `size` bytes of
//     the value: sr_fit, the identity for a well-sized assignment);
//   * expressions are evaluated with the P-Code oracle of unit bitvector (spec/pcode.rs: pcode_bin / pcode_un /
//     pcode_cast / pcode_subpiece), every result reduced to its own width (sr_norm: the identity on well-formed values -- unit
//     bitvector proves that the real operations return well-formed values; it spares this unit a proof that the oracle's
//     results are in range, and the equivalence proved here does not depend on the meaning of any operator except SUBPIECE
//     and PIECE); where the oracle has no integer value (floating point, division by zero, `Unknown`)
//     the value is an UNINTERPRETED function of the operator and the operand values, of the size P-Code prescribes --
//     so "same value" is also decided for blocks that contain such operations;
//   * memory is abstract: sr_mem_load / sr_mem_store are uninterpreted (any memory model, any endianness).
// ---------------------------------------------------------------------------

/// the register table as the lifting receives it: name -> properties (view of `HashMap<&String, &RegisterProperties>`)
pub type SrTable<'a> = Map<&'a String, &'a RegisterProperties>;

/// name -> content of the cell with that name
pub type SrEnv = spec_fn(String) -> Bitvector;

/// Well-formed register table (what `Project::into_ir_project` builds from the extractor's register list: `(&p.register, p)`):
/// an entry is stored under its own name; its base register is in the table, is its own base register and starts at byte 0;
/// the register lies inside its base register; a register with another name than its base register is strictly smaller.
pub open spec fn sr_table_ok(t: SrTable) -> bool {
    forall |n: String| #[trigger] t.contains_key(&n) ==> {
        let r = *t[&n];
        &&& r.register == n
        &&& t.contains_key(&r.base_register)
        &&& (*t[&r.base_register]).base_register == r.base_register
        &&& (*t[&r.base_register]).lsb.0 == 0
        &&& 1 <= r.size.0
        &&& r.lsb.0 + r.size.0 <= (*t[&r.base_register]).size.0
        &&& (*t[&r.base_register]).size.0 <= MAXBYTES()
        &&& (n != r.base_register ==> r.size.0 < (*t[&r.base_register]).size.0)
    }
}

pub open spec fn sr_base(t: SrTable, n: String) -> String { (*t[&n]).base_register }
pub open spec fn sr_lsb(t: SrTable, n: String) -> nat { (*t[&n]).lsb.0 as nat }
pub open spec fn sr_base_size(t: SrTable, n: String) -> nat { (*t[&sr_base(t, n)]).size.0 as nat }

/// a variable that names a register of the table lies inside the base register
pub open spec fn sr_var_fits(t: SrTable, v: Variable) -> bool {
    t.contains_key(&v.name) ==> 1 <= v.size.0 && sr_lsb(t, v.name) + v.size.0 <= sr_base_size(t, v.name)
}
/// ... and, as the target of an assignment, does not cover its base register under another name
/// (the extractor names a varnode by the SMALLEST register that starts at its first byte and is large enough)
pub open spec fn sr_outvar_ok(t: SrTable, v: Variable) -> bool {
    sr_var_fits(t, v) && (t.contains_key(&v.name) && v.name != sr_base(t, v.name) ==> v.size.0 < sr_base_size(t, v.name))
}

/// "after the substitution only base registers (at full size) and names outside the table occur"
pub open spec fn sr_plain_var(t: SrTable, v: Variable) -> bool {
    t.contains_key(&v.name) ==> v.name == sr_base(t, v.name) && v.size.0 == (*t[&v.name]).size.0
}

// ---- reading -------------------------------------------------------------------------------------------------------

/// the cell a variable lives in
pub open spec fn sr_cell(t: SrTable, alias: bool, v: Variable) -> String {
    if alias && t.contains_key(&v.name) { sr_base(t, v.name) } else { v.name }
}
/// ... and its first byte inside that cell
pub open spec fn sr_off(t: SrTable, alias: bool, v: Variable) -> nat {
    if alias && t.contains_key(&v.name) { sr_lsb(t, v.name) } else { 0 }
}
pub open spec fn sr_read(t: SrTable, env: SrEnv, alias: bool, v: Variable) -> Bitvector {
    pcode_subpiece(env(sr_cell(t, alias, v)), 8 * sr_off(t, alias, v), (8 * v.size.0) as nat)
}

// ---- expressions ---------------------------------------------------------------------------------------------------

pub uninterp spec fn sr_junk_bin(op: BinOpType, a: Bitvector, b: Bitvector) -> nat;
pub uninterp spec fn sr_junk_un(op: UnOpType, a: Bitvector) -> nat;
pub uninterp spec fn sr_junk_cast(op: CastOpType, a: Bitvector, t: nat) -> nat;
pub uninterp spec fn sr_junk_unknown(d: String, t: nat) -> nat;

/// a value reduced to its own width (the identity on every well-formed value)
pub open spec fn sr_norm(b: Bitvector) -> Bitvector { bv(b.w@, b.u@ % p2(b.w@)) }

pub open spec fn sr_bin(op: BinOpType, a: Bitvector, b: Bitvector) -> Bitvector {
    match pcode_bin(op, a, b) {
        Some(r) => sr_norm(r),
        None => bv(out_bits(op, a.w@, b.w@), sr_junk_bin(op, a, b) % p2(out_bits(op, a.w@, b.w@))),
    }
}
pub open spec fn sr_un_bits(op: UnOpType, wa: nat) -> nat { if op is BoolNegate || op is FloatNaN { 8 } else { wa } }
pub open spec fn sr_un(op: UnOpType, a: Bitvector) -> Bitvector {
    match pcode_un(op, a) {
        Some(r) => sr_norm(r),
        None => bv(sr_un_bits(op, a.w@), sr_junk_un(op, a) % p2(sr_un_bits(op, a.w@))),
    }
}
pub open spec fn sr_cast(op: CastOpType, a: Bitvector, t: nat) -> Bitvector {
    match pcode_cast(op, a, t) {
        Some(r) => sr_norm(r),
        None => bv(t, sr_junk_cast(op, a, t) % p2(t)),
    }
}

pub open spec fn sr_eval(t: SrTable, env: SrEnv, alias: bool, e: Expression) -> Bitvector
    decreases e
{
    match e {
        Expression::Var(v) => sr_read(t, env, alias, v),
        Expression::Const(c) => c,
        Expression::BinOp { op, lhs, rhs } => sr_bin(op, sr_eval(t, env, alias, *lhs), sr_eval(t, env, alias, *rhs)),
        Expression::UnOp { op, arg } => sr_un(op, sr_eval(t, env, alias, *arg)),
        Expression::Cast { op, size, arg } => sr_cast(op, sr_eval(t, env, alias, *arg), (8 * size.0) as nat),
        Expression::Unknown { description, size } =>
            bv((8 * size.0) as nat, sr_junk_unknown(description, (8 * size.0) as nat) % p2((8 * size.0) as nat)),
        Expression::Subpiece { low_byte, size, arg } =>
            pcode_subpiece(sr_eval(t, env, alias, *arg), (8 * low_byte.0) as nat, (8 * size.0) as nat),
    }
}

/// "the variable `v` occurs in `e`"
pub open spec fn sr_occurs(e: Expression, v: Variable) -> bool
    decreases e
{
    match e {
        Expression::Var(x) => x == v,
        Expression::Const(c) => false,
        Expression::BinOp { op, lhs, rhs } => sr_occurs(*lhs, v) || sr_occurs(*rhs, v),
        Expression::UnOp { op, arg } => sr_occurs(*arg, v),
        Expression::Cast { op, size, arg } => sr_occurs(*arg, v),
        Expression::Unknown { description, size } => false,
        Expression::Subpiece { low_byte, size, arg } => sr_occurs(*arg, v),
    }
}
pub open spec fn sr_expr_fits(t: SrTable, e: Expression) -> bool { forall |v: Variable| #![trigger sr_occurs(e, v)] sr_occurs(e, v) ==> sr_var_fits(t, v) }
pub open spec fn sr_plain_expr(t: SrTable, e: Expression) -> bool { forall |v: Variable| #![trigger sr_occurs(e, v)] sr_occurs(e, v) ==> sr_plain_var(t, v) }

/// P-Code sizing rules (a well-sized expression evaluates to a value of `expr_bytes` bytes, see lemma_sr_eval_sized)
pub open spec fn sr_sized(e: Expression) -> bool
    decreases e
{
    match e {
        Expression::Var(v) => 1 <= v.size.0 <= MAXBYTES(),
        Expression::Const(c) => c.wf() && c.w@ % 8 == 0,
        Expression::BinOp { op, lhs, rhs } =>
            sr_sized(*lhs) && sr_sized(*rhs)
            && (if op is Piece { expr_bytes(*lhs) + expr_bytes(*rhs) <= MAXBYTES() }
                else if is_shift_binop(op) { true }
                else { expr_bytes(*lhs) == expr_bytes(*rhs) && ((op is BoolXOr || op is BoolAnd || op is BoolOr) ==> expr_bytes(*lhs) == 1) }),
        Expression::UnOp { op, arg } => sr_sized(*arg) && (op is BoolNegate ==> expr_bytes(*arg) == 1),
        Expression::Cast { op, size, arg } => sr_sized(*arg) && 1 <= size.0 <= MAXBYTES(),
        Expression::Unknown { description, size } => 1 <= size.0 <= MAXBYTES(),
        Expression::Subpiece { low_byte, size, arg } => sr_sized(*arg) && 1 <= size.0 && low_byte.0 + size.0 <= expr_bytes(*arg),
    }
}

// ---- the replacement of inputs: reference ----------------------------------------------------------------------------

/// the variable has to be replaced (it names a register of the table and is not the base register at full size)
pub open spec fn sr_needs(t: SrTable, v: Variable) -> bool {
    t.contains_key(&v.name) && (v.name != sr_base(t, v.name) || v.size.0 < (*t[&v.name]).size.0)
}
pub open spec fn sr_base_var(t: SrTable, n: String) -> Variable {
    Variable { name: sr_base(t, n), size: (*t[&sr_base(t, n)]).size, is_temp: false }
}
/// bytes [lsb, lsb + size) of the base register, as an expression
pub open spec fn sr_sub_expr(t: SrTable, v: Variable) -> Expression {
    Expression::Subpiece { low_byte: (*t[&v.name]).lsb, size: v.size, arg: Box::new(Expression::Var(sr_base_var(t, v.name))) }
}
/// What create_subpiece_from_sub_register has to return: an expression over the base register only whose value, under every
/// content of the cells, is bytes [lsb, lsb + size) of the cell of the base register (whenever that range lies inside it).
pub open spec fn sr_is_subpiece_of(t: SrTable, base: String, lsb: ByteSize, size: ByteSize, r: Expression) -> bool {
    let base_var = Variable { name: base, size: (*t[&base]).size, is_temp: false };
    &&& (lsb.0 + size.0 <= (*t[&base]).size.0 <= MAXBYTES() ==>
            forall |env: SrEnv| #[trigger] sr_eval(t, env, false, r) == pcode_subpiece(env(base), (8 * lsb.0) as nat, (8 * size.0) as nat))
    &&& expr_bytes(r) == size.0
    &&& (forall |v: Variable| #![trigger sr_occurs(r, v)] sr_occurs(r, v) ==> v == base_var)
}
/// structural substitution of ONE variable (contract of Expression::substitute_input_var)
pub open spec fn sr_subst1(e: Expression, x: Variable, r: Expression) -> Expression
    decreases e
{
    match e {
        Expression::Var(v) => if v == x { r } else { e },
        Expression::Const(c) => e,
        Expression::BinOp { op, lhs, rhs } => Expression::BinOp { op, lhs: Box::new(sr_subst1(*lhs, x, r)), rhs: Box::new(sr_subst1(*rhs, x, r)) },
        Expression::UnOp { op, arg } => Expression::UnOp { op, arg: Box::new(sr_subst1(*arg, x, r)) },
        Expression::Cast { op, size, arg } => Expression::Cast { op, size, arg: Box::new(sr_subst1(*arg, x, r)) },
        Expression::Unknown { description, size } => e,
        Expression::Subpiece { low_byte, size, arg } => Expression::Subpiece { low_byte, size, arg: Box::new(sr_subst1(*arg, x, r)) },
    }
}
/// the first `k` replacement pairs mention `v`
pub open spec fn sr_done(pairs: Seq<(Variable, Expression)>, k: int, v: Variable) -> bool {
    exists |j: int| 0 <= j < k && j < pairs.len() && (#[trigger] pairs[j]).0 == v
}
/// `e` with the variables of the first `k` pairs replaced
pub open spec fn sr_subst_part(t: SrTable, e: Expression, pairs: Seq<(Variable, Expression)>, k: int) -> Expression
    decreases e
{
    match e {
        Expression::Var(v) => if sr_done(pairs, k, v) { sr_sub_expr(t, v) } else { e },
        Expression::Const(c) => e,
        Expression::BinOp { op, lhs, rhs } => Expression::BinOp { op, lhs: Box::new(sr_subst_part(t, *lhs, pairs, k)), rhs: Box::new(sr_subst_part(t, *rhs, pairs, k)) },
        Expression::UnOp { op, arg } => Expression::UnOp { op, arg: Box::new(sr_subst_part(t, *arg, pairs, k)) },
        Expression::Cast { op, size, arg } => Expression::Cast { op, size, arg: Box::new(sr_subst_part(t, *arg, pairs, k)) },
        Expression::Unknown { description, size } => e,
        Expression::Subpiece { low_byte, size, arg } => Expression::Subpiece { low_byte, size, arg: Box::new(sr_subst_part(t, *arg, pairs, k)) },
    }
}
pub open spec fn sr_pairs_ok(t: SrTable, pairs: Seq<(Variable, Expression)>) -> bool {
    forall |j: int| 0 <= j < pairs.len() ==> sr_needs(t, (#[trigger] pairs[j]).0) && pairs[j].1 == sr_sub_expr(t, pairs[j].0)
}

/// What the replacement of inputs has to achieve (property C11 for one expression): under EVERY content of the cells the new
/// expression, read plainly, has the value the old one has in the aliasing reading; the size is unchanged; only base
/// registers at full size and names outside the table are left.
pub open spec fn sr_inputs_replaced(t: SrTable, old: Expression, new: Expression) -> bool {
    &&& forall |env: SrEnv| #[trigger] sr_eval(t, env, false, new) == sr_eval(t, env, true, old)
    &&& expr_bytes(new) == expr_bytes(old)
    &&& sr_plain_expr(t, new)
    &&& (forall |v: Variable| #![trigger sr_occurs(new, v)] sr_occurs(new, v) ==> sr_occurs(old, v) || t.contains_key(&v.name))
    &&& (sr_sized(old) ==> sr_sized(new))
}

// ---- writing -------------------------------------------------------------------------------------------------------

/// `old` with bytes [lsb, lsb + size) replaced by the low `size` bytes of x (pure arithmetic)
pub open spec fn sr_insert(old: Bitvector, lsb: nat, size: nat, x: Bitvector) -> Bitvector {
    bv(old.w@, (old.u@ / p2(8 * (lsb + size))) * p2(8 * (lsb + size)) + (x.u@ % p2(8 * size)) * p2(8 * lsb) + old.u@ % p2(8 * lsb))
}
pub open spec fn sr_upd(env: SrEnv, c: String, x: Bitvector) -> SrEnv {
    |n: String| if n == c { x } else { env(n) }
}
/// the low `n` bytes of x as a value of n bytes (the identity on a well-formed value of n bytes)
pub open spec fn sr_fit(x: Bitvector, n: nat) -> Bitvector { bv(8 * n, x.u@ % p2(8 * n)) }
pub open spec fn sr_write(t: SrTable, env: SrEnv, alias: bool, v: Variable, x: Bitvector) -> SrEnv {
    if alias && t.contains_key(&v.name) {
        sr_upd(env, sr_base(t, v.name), sr_insert(env(sr_base(t, v.name)), sr_lsb(t, v.name), v.size.0 as nat, x))
    } else {
        sr_upd(env, v.name, sr_fit(x, v.size.0 as nat))
    }
}
/// the cells of the base registers have the size of their register
pub open spec fn sr_env_ok(t: SrTable, env: SrEnv) -> bool {
    forall |n: String| #[trigger] t.contains_key(&n) && (*t[&n]).base_register == n ==> env(n).wf() && env(n).w@ == 8 * (*t[&n]).size.0
}

/// What the assignment expression for the base register has to be worth (property C11, "sub-registers alias bytes of their
/// base register"): under every content of the cells, the old content of the base register with bytes [lsb, lsb + size)
/// replaced by the value of the assigned expression -- whenever that value has the size of the sub-register.
pub open spec fn sr_pieced(t: SrTable, value: Expression, base: RegisterProperties, sub: RegisterProperties, r: Expression) -> bool {
    let base_var = Variable { name: base.register, size: base.size, is_temp: false };
    &&& forall |env: SrEnv| ({
            let x = sr_eval(t, env, false, value);
            x.wf() && x.w@ == 8 * sub.size.0 ==>
                #[trigger] sr_eval(t, env, false, r) == sr_insert(sr_read(t, env, false, base_var), sub.lsb.0 as nat, sub.size.0 as nat, x)
        })
    &&& expr_bytes(r) == base.size.0
    &&& (forall |v: Variable| #![trigger sr_occurs(r, v)] sr_occurs(r, v) ==> sr_occurs(value, v) || v == base_var)
    &&& (sr_sized(value) ==> sr_sized(r))
}

// ---- blocks ----------------------------------------------------------------------------------------------------------

/// abstract memory
#[verifier::external_body]
pub struct SrMem { _p: () }
pub uninterp spec fn sr_mem_load_u(m: SrMem, a: Bitvector, t: nat) -> nat;
pub uninterp spec fn sr_mem_store(m: SrMem, a: Bitvector, v: Bitvector) -> SrMem;
pub open spec fn sr_mem_load(m: SrMem, a: Bitvector, t: nat) -> Bitvector { bv(t, sr_mem_load_u(m, a, t) % p2(t)) }

pub ghost struct SrState {
    pub env: SrEnv,
    pub mem: SrMem,
    /// (address, value) of every store, in order
    pub writes: Seq<(Bitvector, Bitvector)>,
}

pub open spec fn sr_step(t: SrTable, alias: bool, d: Def, s: SrState) -> SrState {
    match d {
        Def::Assign { var, value } => SrState { env: sr_write(t, s.env, alias, var, sr_eval(t, s.env, alias, value)), ..s },
        Def::Load { var, address } =>
            SrState { env: sr_write(t, s.env, alias, var, sr_mem_load(s.mem, sr_eval(t, s.env, alias, address), (8 * var.size.0) as nat)), ..s },
        Def::Store { address, value } => SrState {
            env: s.env,
            mem: sr_mem_store(s.mem, sr_eval(t, s.env, alias, address), sr_eval(t, s.env, alias, value)),
            writes: s.writes.push((sr_eval(t, s.env, alias, address), sr_eval(t, s.env, alias, value))),
        },
    }
}
/// run defs[from .. to)
pub open spec fn sr_run(t: SrTable, alias: bool, defs: Seq<Term<Def>>, from: int, to: int, s: SrState) -> SrState
    decreases to - from
{
    if from >= to || to > defs.len() || from < 0 { s } else { sr_step(t, alias, defs[to - 1].term, sr_run(t, alias, defs, from, to - 1, s)) }
}

/// the list mentions `v` at position `from` or later
pub open spec fn sr_listed_from(l: Seq<&Variable>, from: int, v: Variable) -> bool {
    exists |i: int| from <= i < l.len() && 0 <= i && *(#[trigger] l[i]) == v
}
/// the list mentions `v`
pub open spec fn sr_listed(l: Seq<&Variable>, v: Variable) -> bool { sr_listed_from(l, 0, v) }

// ---- jumps -----------------------------------------------------------------------------------------------------------

/// the expression whose value decides a jump: the target of an indirect branch / call / return, the condition of a conditional branch
pub open spec fn sr_jmp_expr(j: Jmp) -> Option<Expression> {
    match j {
        Jmp::BranchInd(e) => Some(e),
        Jmp::CBranch { target, condition } => Some(condition),
        Jmp::CallInd { target, return_ } => Some(target),
        Jmp::Return(e) => Some(e),
        Jmp::Branch(t) => None,
        Jmp::Call { target, return_ } => None,
        Jmp::CallOther { description, return_ } => None,
    }
}
/// the same jump (kind, direct targets, return targets) deciding on `e`
pub open spec fn sr_jmp_with(j: Jmp, e: Expression) -> Jmp {
    match j {
        Jmp::BranchInd(old) => Jmp::BranchInd(e),
        Jmp::CBranch { target, condition } => Jmp::CBranch { target, condition: e },
        Jmp::CallInd { target, return_ } => Jmp::CallInd { target: e, return_ },
        Jmp::Return(old) => Jmp::Return(e),
        _ => j,
    }
}
/// property C11 for one jump: same kind and direct targets; the deciding expression, read plainly, has under every content of
/// the cells the value the old one has in the aliasing reading ("the same branch decisions and jump targets")
pub open spec fn sr_jump_replaced(t: SrTable, old: Jmp, new: Jmp) -> bool {
    match sr_jmp_expr(old) {
        None => new == old,
        Some(e) => sr_jmp_expr(new) is Some && new == sr_jmp_with(old, sr_jmp_expr(new)->Some_0) && sr_inputs_replaced(t, e, sr_jmp_expr(new)->Some_0),
    }
}

// ---- the def-list builder ----------------------------------------------------------------------------------------------

/// the name of the temporary the builder introduces for loads into sub-registers (`"loaded_value".to_string()`)
pub open spec fn sr_tmp() -> String { choose |s: String| (#[trigger] s@) == "loaded_value"@ }

pub open spec fn sr_avoids(e: Expression, tmp: String) -> bool {
    forall |v: Variable| #![trigger sr_occurs(e, v)] sr_occurs(e, v) ==> v.name != tmp
}

/// equal memory, equal write log, equal cells except the builder's temporary
pub open spec fn sr_sim(tmp: String, p: SrState, a: SrState) -> bool {
    &&& p.mem == a.mem
    &&& p.writes == a.writes
    &&& forall |n: String| n != tmp ==> #[trigger] (p.env)(n) == (a.env)(n)
}

/// What is assumed of ONE def of the input block (well-formedness of the extractor's output w.r.t. the register table, and
/// freshness of the builder's temporary):
///   * a register variable lies inside its base register; a written one does not cover the base register under another name;
///   * nothing is named like the builder's temporary;
///   * an assignment to a register of the table is well-sized (the size of the value is the size of the variable: the
///     `debug_assert_eq!` at the head of replace_output_subregister) and its value is well-sized by the P-Code sizing rules.
pub open spec fn sr_def_ok(t: SrTable, tmp: String, d: Def) -> bool {
    match d {
        Def::Assign { var, value } =>
            sr_outvar_ok(t, var) && var.name != tmp && sr_expr_fits(t, value) && sr_avoids(value, tmp)
            && (t.contains_key(&var.name) ==> sr_sized(value) && expr_bytes(value) == var.size.0),
        Def::Load { var, address } =>
            sr_outvar_ok(t, var) && var.name != tmp && sr_expr_fits(t, address) && sr_avoids(address, tmp),
        Def::Store { address, value } =>
            sr_expr_fits(t, address) && sr_avoids(address, tmp) && sr_expr_fits(t, value) && sr_avoids(value, tmp),
    }
}
/// all inputs of the def are plain
pub open spec fn sr_def_inputs_plain(t: SrTable, d: Def) -> bool {
    match d {
        Def::Assign { var, value } => sr_plain_expr(t, value),
        Def::Load { var, address } => sr_plain_expr(t, address),
        Def::Store { address, value } => sr_plain_expr(t, address) && sr_plain_expr(t, value),
    }
}
/// ... and so is the output: the def mentions base registers at full size and names outside the table only
pub open spec fn sr_def_plain(t: SrTable, d: Def) -> bool {
    sr_def_inputs_plain(t, d) && match d {
        Def::Assign { var, value } => sr_plain_var(t, var),
        Def::Load { var, address } => sr_plain_var(t, var),
        Def::Store { address, value } => true,
    }
}
/// `d1` is `d0` with the inputs replaced (output untouched)
pub open spec fn sr_def_inputs_replaced(t: SrTable, d0: Def, d1: Def) -> bool {
    match d0 {
        Def::Assign { var, value } => d1 is Assign && d1->Assign_var == var && sr_inputs_replaced(t, value, d1->Assign_value),
        Def::Load { var, address } => d1 is Load && d1->Load_var == var && sr_inputs_replaced(t, address, d1->Load_address),
        Def::Store { address, value } => d1 is Store && sr_inputs_replaced(t, address, d1->Store_address) && sr_inputs_replaced(t, value, d1->Store_value),
    }
}

/// the variable a def writes
pub open spec fn sr_def_out(d: Def) -> Option<Variable> {
    match d {
        Def::Assign { var, value } => Some(var),
        Def::Load { var, address } => Some(var),
        Def::Store { address, value } => None,
    }
}
/// the def writes a sub-register
pub open spec fn sr_writes_sub(t: SrTable, d: Def) -> bool { sr_def_out(d) is Some && sr_needs(t, sr_def_out(d)->Some_0) }

/// `next` is a cast of exactly the variable `s` into the register that is the base register of `s`, written at FULL size
/// (and `s` is not that base register)
pub open spec fn sr_merge_ok(t: SrTable, s: Variable, next: Def) -> bool {
    &&& next is Assign
    &&& next->Assign_value is Cast
    &&& *(next->Assign_value->Cast_arg) == Expression::Var(s)
    &&& t.contains_key(&s.name)
    &&& t.contains_key(&next->Assign_var.name)
    &&& s.name != sr_base(t, s.name)
    &&& sr_base(t, s.name) == next->Assign_var.name
    &&& next->Assign_var.size.0 == (*t[&next->Assign_var.name]).size.0
}
pub open spec fn sr_defs_ok(t: SrTable, tmp: String, defs: Seq<Term<Def>>) -> bool {
    &&& !t.contains_key(&tmp)
    &&& forall |i: int| 0 <= i < defs.len() ==> sr_def_ok(t, tmp, (#[trigger] defs[i]).term)
}

// ---- reference output of replace_output_subregister (an intermediate of the proof: lemma_sr_out_sim shows that it simulates) ---

pub open spec fn sr_tmp_var(tmp: String, size: ByteSize) -> Variable { Variable { name: tmp, size: size, is_temp: true } }
pub open spec fn sr_base_props(t: SrTable, n: String) -> RegisterProperties { *t[&sr_base(t, n)] }
pub open spec fn sr_sub_props(t: SrTable, v: Variable) -> RegisterProperties { RegisterProperties { size: v.size, ..*t[&v.name] } }
pub open spec fn sr_base_assign(t: SrTable, v: Variable, x: Expression) -> Def {
    Def::Assign {
        var: Variable { name: sr_base_props(t, v.name).register, size: sr_base_props(t, v.name).size, is_temp: false },
        value: sr_piece_expr(x, sr_base_props(t, v.name), sr_sub_props(t, v)),
    }
}
pub open spec fn sr_def_subst(next: Def, s: Variable, x: Expression) -> Def {
    match next {
        Def::Assign { var, value } => Def::Assign { var, value: sr_subst1(value, s, x) },
        _ => next,
    }
}
pub open spec fn sr_out_terms(t: SrTable, tmp: String, d: Def, merge: bool, next: Def) -> Seq<Def> {
    match d {
        Def::Assign { var, value } =>
            if sr_needs(t, var) {
                if merge { seq![sr_def_subst(next, var, value)] } else { seq![sr_base_assign(t, var, value)] }
            } else { seq![d] },
        Def::Load { var, address } =>
            if sr_needs(t, var) {
                let tv = sr_tmp_var(tmp, var.size);
                if merge { seq![Def::Load { var: tv, address }, sr_def_subst(next, var, Expression::Var(tv))] }
                else { seq![Def::Load { var: tv, address }, sr_base_assign(t, var, Expression::Var(tv))] }
            } else { seq![d] },
        Def::Store { address, value } => seq![d],
    }
}
pub open spec fn sr_consumes(t: SrTable, d: Def, merge: bool) -> bool { merge && sr_writes_sub(t, d) }

/// run a short list of defs
pub open spec fn sr_run_terms(t: SrTable, alias: bool, ds: Seq<Def>, s: SrState) -> SrState
    decreases ds.len()
{
    if ds.len() == 0 { s } else { sr_step(t, alias, ds.last(), sr_run_terms(t, alias, ds.drop_last(), s)) }
}

/// What replace_output_subregister did: `out1` is `out0` followed by the reference output for `d` (as terms; identifiers are
/// not constrained), and one more input def was consumed iff the cast was merged.
pub open spec fn sr_out_rel(t: SrTable, tmp: String, d: Def, defs: Seq<Term<Def>>, pos0: int, pos1: int,
                            out0: Seq<Term<Def>>, out1: Seq<Term<Def>>, merge: bool) -> bool {
    let next = defs[pos0].term;
    let new = sr_out_terms(t, tmp, d, merge, next);
    &&& (merge ==> sr_writes_sub(t, d) && pos0 < defs.len() && sr_merge_ok(t, sr_def_out(d)->Some_0, next))
    &&& pos1 == pos0 + (if sr_consumes(t, d, merge) { 1int } else { 0int })
    &&& out1.len() == out0.len() + new.len()
    &&& forall |i: int| 0 <= i < out0.len() ==> #[trigger] out1[i] == out0[i]
    &&& forall |i: int| 0 <= i < new.len() ==> (#[trigger] out1[out0.len() + i]).term == new[i]
}

/// THE CLAIM for the def list (property C11, per block): started in the same state, the emitted defs executed PLAINLY and the
/// first `pos` input defs executed with ALIASING end in the same memory, the same write log and the same cells except the
/// builder's temporary -- in particular the same contents of all base registers; and the emitted defs mention base registers
/// at full size and names outside the table only.
pub open spec fn sr_inv(t: SrTable, tmp: String, defs: Seq<Term<Def>>, pos: int, out: Seq<Term<Def>>) -> bool {
    &&& 0 <= pos <= defs.len()
    &&& forall |i: int| 0 <= i < out.len() ==> sr_def_plain(t, (#[trigger] out[i]).term)
    &&& forall |s: SrState| sr_env_ok(t, s.env) ==> {
            &&& sr_sim(tmp, #[trigger] sr_run(t, false, out, 0, out.len() as int, s), sr_run(t, true, defs, 0, pos, s))
            &&& sr_env_ok(t, sr_run(t, true, defs, 0, pos, s).env)
        }
}


// ---- the block ---------------------------------------------------------------------------------------------------------------

/// What is assumed of the block handed to replace_subregister_in_block
pub open spec fn sr_block_ok(t: SrTable, b: Blk) -> bool {
    &&& sr_defs_ok(t, sr_tmp(), b.defs@)
    &&& forall |i: int| 0 <= i < b.jmps@.len() ==>
            (sr_jmp_expr((#[trigger] b.jmps@[i]).term) is Some ==> sr_expr_fits(t, sr_jmp_expr(b.jmps@[i].term)->Some_0)
                                                                   && sr_avoids(sr_jmp_expr(b.jmps@[i].term)->Some_0, sr_tmp()))
}
/// PROPERTY C11 for the sub-register substitution of one block:
///   * defs: started in the same state, the new defs executed plainly and the old defs executed with aliasing end in the same
///     memory, the same log of memory writes and the same cells except the builder's temporary (sr_inv at the end of the block);
///   * jumps: as many, same identifiers, same kinds and direct targets; every condition / indirect target, read plainly, has under
///     every content of the cells the value the old one has in the aliasing reading;
///   * only base registers at full size and names outside the table are mentioned afterwards; the hints are untouched.
pub open spec fn sr_block_replaced(t: SrTable, old: Term<Blk>, new: Term<Blk>) -> bool {
    &&& new.tid == old.tid
    &&& new.term.indirect_jmp_targets == old.term.indirect_jmp_targets
    &&& sr_inv(t, sr_tmp(), old.term.defs@, old.term.defs@.len() as int, new.term.defs@)
    &&& new.term.jmps@.len() == old.term.jmps@.len()
    &&& forall |i: int| 0 <= i < old.term.jmps@.len() ==>
            (#[trigger] new.term.jmps@[i]).tid == old.term.jmps@[i].tid && sr_jump_replaced(t, old.term.jmps@[i].term, new.term.jmps@[i].term)
}
