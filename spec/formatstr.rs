// ---------------------------------------------------------------------------------------------------------------------
// spec/formatstr.rs -- vocabulary of unit `formatstr` (property C20).
//
// PART 1 (fs_groups, TRUSTED MODEL, written from the regex text): what `Regex::captures_iter` of the `regex` crate yields
//   for the ONE regular expression of utils/arguments.rs::parse_format_string_parameters,
//
//     %%|%[+\-#0]{0,1}\d*[\.]?\d*([cCdiouxXeEfFgGaAnpsS]|hi|hd|hu|li|ld|lu|lli|lld|llu|lf|lg|le|la|lF|lG|lE|lA|Lf|Lg|Le|La|LF|LG|LE|LA)
//
//   The `regex` crate documents leftmost-first ("Perl-like") semantics: matches are searched from left to right, at
//   each start position the alternatives are tried in order and the quantifiers are greedy with backtracking; successive
//   matches of `captures_iter` do not overlap (the search continues at the end of the previous match; every match of
//   this expression has at least two characters, so the empty-match rule never applies).
// PART 2 (FsItem, fs_render, fs_expected, WRITTEN FROM THE PROPERTY STATEMENT): the grammar the property quantifies over
//   and the parameter list it demands.
// The two parts are related by PROVED lemmas (lemmas/formatstr.rs), not by definition.
// ---------------------------------------------------------------------------------------------------------------------

// ---- character classes of the regex ---------------------------------------------------------------------------------

/// `[+\-#0]`
pub open spec fn fs_flag(c: char) -> bool { c == '+' || c == '-' || c == '#' || c == '0' }

/// the ASCII digits (what the property's grammar allows as width / precision)
pub open spec fn fs_ascii_digit(c: char) -> bool { '0' <= c && c <= '9' }

/// Non-ASCII members of the Unicode general category Nd ("decimal number").  UNINTERPRETED: which code points these
/// are is a table of the Unicode standard; the only fact used is that none of them is an ASCII character.
pub uninterp spec fn fs_unicode_nd(c: char) -> bool;

/// The Unicode table has no Nd code point below U+0660 other than '0'..'9'.
pub broadcast axiom fn axiom_fs_unicode_nd_not_ascii(c: char)
    ensures #[trigger] fs_unicode_nd(c) ==> (c as u32) >= 0x80;

/// `\d` -- the `regex` crate is Unicode-aware by default: `\d` is `\p{Nd}`, i.e. '0'..'9' AND the decimal digits of
/// other scripts (e.g. U+0663 ARABIC-INDIC DIGIT THREE).
pub open spec fn fs_digit(c: char) -> bool { fs_ascii_digit(c) || fs_unicode_nd(c) }

/// `[cCdiouxXeEfFgGaAnpsS]`
pub open spec fn fs_conv1(c: char) -> bool {
    c == 'c' || c == 'C' || c == 'd' || c == 'i' || c == 'o' || c == 'u' || c == 'x' || c == 'X' || c == 'e' || c == 'E'
    || c == 'f' || c == 'F' || c == 'g' || c == 'G' || c == 'a' || c == 'A' || c == 'n' || c == 'p' || c == 's' || c == 'S'
}

/// second letter of `hi|hd|hu`, `li|ld|lu`, third letter of `lli|lld|llu`
pub open spec fn fs_idu(c: char) -> bool { c == 'i' || c == 'd' || c == 'u' }

/// second letter of `lf|lg|le|la|lF|lG|lE|lA` and `Lf|Lg|Le|La|LF|LG|LE|LA`
pub open spec fn fs_fgea(c: char) -> bool {
    c == 'f' || c == 'g' || c == 'e' || c == 'a' || c == 'F' || c == 'G' || c == 'E' || c == 'A'
}

// ---- PART 1: the regex model ----------------------------------------------------------------------------------------

/// `\d*` started at index i: the index behind the maximal run of digits.
pub open spec fn fs_skip_digits(s: Seq<char>, i: int) -> int
    decreases s.len() - i
{
    if 0 <= i < s.len() && fs_digit(s[i]) { fs_skip_digits(s, i + 1) } else { i }
}

/// The capture group `( [cCdiouxXeEfFgGaAnpsS] | hi | hd | hu | li | ld | lu | lli | lld | llu | lf | .. | lA | Lf | .. | LA )`
/// tried at index d: the length of the alternative that matches, None if none does.  The alternatives are tested in the
/// order of the regex text.  (The order is in fact irrelevant: no alternative is a proper prefix of another one -- the
/// one-letter class contains none of 'h', 'l', 'L'; `li`/`ld`/`lu` vs `lli`/`lld`/`llu` differ in the second letter -- so
/// at most one alternative matches at a given index.  Nothing follows the group in the regex, so the first alternative
/// that matches ends the overall match; the engine never returns to try a later one.)
pub open spec fn fs_spec_at(s: Seq<char>, d: int) -> Option<int> {
    if !(0 <= d < s.len()) { None }
    else if fs_conv1(s[d]) { Some(1) }
    else if d + 1 < s.len() && s[d] == 'h' && fs_idu(s[d + 1]) { Some(2) }
    else if d + 1 < s.len() && s[d] == 'l' && fs_idu(s[d + 1]) { Some(2) }
    else if d + 2 < s.len() && s[d] == 'l' && s[d + 1] == 'l' && fs_idu(s[d + 2]) { Some(3) }
    else if d + 1 < s.len() && s[d] == 'l' && fs_fgea(s[d + 1]) { Some(2) }
    else if d + 1 < s.len() && s[d] == 'L' && fs_fgea(s[d + 1]) { Some(2) }
    else { None }
}

/// One match attempt AT THE START of s: Some((length of the match, text of capture group 1 if it participated)).
///
///  * first alternative `%%`: two characters, group 1 does not participate (None).
///  * second alternative `% [+\-#0]{0,1} \d* [\.]? \d* ( group )`, read GREEDILY and WITHOUT backtracking: take a flag
///    character if there is one, the maximal digit run, a '.' if there is one, the maximal digit run, then the group.
///    Why backtracking cannot change the outcome: every character the four prefix parts can consume lies in
///    C = [+\-#.] u \d, and no alternative of the group starts with a character of C; so in EVERY way of matching, the
///    group starts at the first index p >= 1 whose character is outside C, and the text t between '%' and p must lie in
///    the language  [+\-#0]? \d* (\.)? \d*  =  [+\-#]? \d* ( \. \d* )?   ('0' is itself a digit).  The greedy reading
///    consumes all of t exactly when t is in that language (a leading '0' taken as the flag leaves a text of the same
///    shape; a digit run is followed by a non-digit, so taking fewer digits in the first `\d*` only moves them into the
///    second one when no '.' separates them, and fails otherwise).  Hence greedy == backtracking, for the overall match
///    and for the position of the group.  (Cross-checked against the real engine by the bounded twin c20.regex_model.)
pub open spec fn fs_match(s: Seq<char>) -> Option<(int, Option<Seq<char>>)> {
    if s.len() < 2 || s[0] != '%' { None }
    else if s[1] == '%' { Some((2int, None::<Seq<char>>)) }
    else {
        let a: int = if fs_flag(s[1]) { 2 } else { 1 };
        let b = fs_skip_digits(s, a);
        let c: int = if b < s.len() && s[b] == '.' { b + 1 } else { b };
        let d = fs_skip_digits(s, c);
        match fs_spec_at(s, d) {
            Some(k) => Some((d + k, Some(s.subrange(d, d + k)))),
            None => None,
        }
    }
}

/// `re.captures_iter(s)` followed by `cap.get(index)`: per non-overlapping match, from left to right, the text of capture
/// group `index` -- index 0 is the whole match (always participates), index 1 the parenthesised group (does not participate
/// in a match of `%%`: None), every other index is None (the regex has exactly one capture group).
/// (`fs_match` always yields 2 <= n <= s.len(), lemma_fs_match_bounds; the test only serves the termination check.)
pub open spec fn fs_captures(s: Seq<char>, index: int) -> Seq<Option<Seq<char>>>
    decreases s.len()
{
    if s.len() == 0 { Seq::empty() }
    else {
        match fs_match(s) {
            Some((n, g)) => if 1 <= n <= s.len() {
                seq![if index == 0 { Some(s.take(n)) } else if index == 1 { g } else { None }] + fs_captures(s.skip(n), index)
            } else { Seq::empty() },
            None => fs_captures(s.skip(1), index),
        }
    }
}

/// per match the text of capture group 1 (None for `%%`)
pub open spec fn fs_groups(s: Seq<char>) -> Seq<Option<Seq<char>>> { fs_captures(s, 1) }

/// `.filter_map(|cap| cap.get(1).map(..))`: the participating groups, in order.
pub open spec fn fs_specs(g: Seq<Option<Seq<char>>>) -> Seq<Seq<char>>
    decreases g.len()
{
    if g.len() == 0 { Seq::empty() }
    else {
        let p = fs_specs(g.drop_last());
        match g.last() { Some(x) => p.push(x), None => p }
    }
}

pub open spec fn fs_opt_view(o: Option<String>) -> Option<Seq<char>> {
    match o { Some(x) => Some(x@), None => None }
}

// ---- PART 2: the property ---------------------------------------------------------------------------------------------

/// "the listed conversion and length forms": the 45 conversion specifications, characterwise.
pub open spec fn fs_is_spec(t: Seq<char>) -> bool {
    (t.len() == 1 && fs_conv1(t[0]))
    || (t.len() == 2 && t[0] == 'h' && fs_idu(t[1]))
    || (t.len() == 2 && t[0] == 'l' && (fs_idu(t[1]) || fs_fgea(t[1])))
    || (t.len() == 3 && t[0] == 'l' && t[1] == 'l' && fs_idu(t[2]))
    || (t.len() == 2 && t[0] == 'L' && fs_fgea(t[1]))
}

/// The DOCUMENTED data type of a conversion (C standard, printf(3); the property's table): None for the long / long long /
/// long double forms (`li ld lu lli lld llu Lf Lg Le La LF LG LE LA`), which the property wants REJECTED.
pub open spec fn fs_doc_type(t: Seq<char>) -> Option<Datatype> {
    if t.len() == 1 {
        let c = t[0];
        if c == 'c' || c == 'C' { Some(Datatype::Char) }
        else if c == 'd' || c == 'i' || c == 'u' || c == 'o' || c == 'p' || c == 'x' || c == 'X' { Some(Datatype::Integer) }
        else if c == 's' || c == 'S' || c == 'n' { Some(Datatype::Pointer) }
        else { Some(Datatype::Double) }   // f F e E a A g G
    } else if t.len() == 2 && t[0] == 'h' { Some(Datatype::Integer) }        // hi hd hu
    else if t.len() == 2 && t[0] == 'l' && fs_fgea(t[1]) { Some(Datatype::Double) }   // lf lg le la lF lG lE lA
    else { None }
}

/// size of a data type according to the properties of the target
pub open spec fn fs_size_of(d: Datatype, p: DatatypeProperties) -> ByteSize {
    match d {
        Datatype::Char => p.char_size,
        Datatype::Double => p.double_size,
        Datatype::Float => p.float_size,
        Datatype::Integer => p.integer_size,
        Datatype::LongDouble => p.long_double_size,
        Datatype::LongLong => p.long_long_size,
        Datatype::Long => p.long_size,
        Datatype::Pointer => p.pointer_size,
        Datatype::Short => p.short_size,
    }
}

/// The entry the property demands for one (non-rejected) conversion: its documented type, with the size of that type
/// -- except for `c`/`C`, whose argument undergoes the default argument promotion and is passed with the INTEGER size.
pub open spec fn fs_doc_entry(t: Seq<char>, p: DatatypeProperties) -> (Datatype, ByteSize) {
    let d = fs_doc_type(t).unwrap();
    (d, if d is Char { p.integer_size } else { fs_size_of(d, p) })
}

pub open spec fn fs_some_rejected(sp: Seq<Seq<char>>) -> bool {
    exists |i: int| 0 <= i < sp.len() && fs_doc_type(#[trigger] sp[i]) is None
}

/// The parameter list for a sequence of conversion specifications: None = rejected.
pub open spec fn fs_expected_of(sp: Seq<Seq<char>>, p: DatatypeProperties) -> Option<Seq<(Datatype, ByteSize)>> {
    if fs_some_rejected(sp) { None } else { Some(Seq::new(sp.len(), |i: int| fs_doc_entry(sp[i], p))) }
}

/// The property's grammar: a format string is a sequence of items.
pub enum FsItem {
    /// literal text (contains no '%')
    Lit(Seq<char>),
    /// the escape `%%`
    Escape,
    /// a conversion specification `% flag width prec spec`
    Conv { flag: Seq<char>, width: Seq<char>, prec: Seq<char>, spec: Seq<char> },
}

pub open spec fn fs_all_ascii_digits(t: Seq<char>) -> bool {
    forall |i: int| 0 <= i < t.len() ==> fs_ascii_digit(#[trigger] t[i])
}

pub open spec fn fs_item_wf(it: FsItem) -> bool {
    match it {
        FsItem::Lit(t) => forall |i: int| 0 <= i < t.len() ==> #[trigger] t[i] != '%',
        FsItem::Escape => true,
        FsItem::Conv { flag, width, prec, spec } =>
            // "one optional flag"
            (flag.len() == 0 || (flag.len() == 1 && fs_flag(flag[0])))
            // "optional width": ASCII digits
            && fs_all_ascii_digits(width)
            // "optional precision": '.' followed by ASCII digits (possibly none)
            && (prec.len() == 0 || (prec[0] == '.' && fs_all_ascii_digits(prec.skip(1))))
            // "the listed conversion and length forms"
            && fs_is_spec(spec),
    }
}

pub open spec fn fs_items_wf(items: Seq<FsItem>) -> bool {
    forall |i: int| 0 <= i < items.len() ==> fs_item_wf(#[trigger] items[i])
}

pub open spec fn fs_render_item(it: FsItem) -> Seq<char> {
    match it {
        FsItem::Lit(t) => t,
        FsItem::Escape => seq!['%', '%'],
        FsItem::Conv { flag, width, prec, spec } => seq!['%'] + flag + width + prec + spec,
    }
}

/// the format string an item sequence stands for
pub open spec fn fs_render(items: Seq<FsItem>) -> Seq<char>
    decreases items.len()
{
    if items.len() == 0 { Seq::empty() } else { fs_render_item(items[0]) + fs_render(items.skip(1)) }
}

/// the conversion specifications of the argument-consuming items, in order
pub open spec fn fs_item_specs(items: Seq<FsItem>) -> Seq<Seq<char>>
    decreases items.len()
{
    if items.len() == 0 { Seq::empty() }
    else {
        match items[0] {
            FsItem::Conv { flag, width, prec, spec } => seq![spec] + fs_item_specs(items.skip(1)),
            _ => fs_item_specs(items.skip(1)),
        }
    }
}

/// what `captures_iter` must find in the rendered string: None per escape, Some(spec) per conversion, in order
pub open spec fn fs_item_groups(items: Seq<FsItem>) -> Seq<Option<Seq<char>>>
    decreases items.len()
{
    if items.len() == 0 { Seq::empty() }
    else {
        match items[0] {
            FsItem::Lit(t) => fs_item_groups(items.skip(1)),
            FsItem::Escape => seq![None::<Seq<char>>] + fs_item_groups(items.skip(1)),
            FsItem::Conv { flag, width, prec, spec } => seq![Some(spec)] + fs_item_groups(items.skip(1)),
        }
    }
}

/// C20: "the extracted variadic parameter list is, in order, one entry per argument-consuming conversion with its documented
/// data type and size; format strings with long/long long/long double conversions are rejected" (None).
pub open spec fn fs_expected(items: Seq<FsItem>, p: DatatypeProperties) -> Option<Seq<(Datatype, ByteSize)>> {
    fs_expected_of(fs_item_specs(items), p)
}

/// the result r of parse_format_string_parameters is the one demanded for the conversion specifications sp
pub open spec fn fs_result_is(r: Result<Vec<(Datatype, ByteSize)>, Error>, sp: Seq<Seq<char>>, p: DatatypeProperties) -> bool {
    match fs_expected_of(sp, p) {
        Some(l) => r is Ok && r->Ok_0@ =~= l,
        None => r is Err,
    }
}

// ---- vocabulary of the helper contracts (from the code's documentation) --------------------------------------------------

/// The table documented at `impl From<String> for Datatype`: the documented type where there is one, and
/// `li ld lu` -> Long, `lli lld llu` -> LongLong, `Lf .. LA` -> LongDouble for the forms the property wants rejected.
pub open spec fn fs_from(t: Seq<char>) -> Datatype {
    match fs_doc_type(t) {
        Some(d) => d,
        None => if t.len() == 3 { Datatype::LongLong } else if t.len() >= 1 && t[0] == 'L' { Datatype::LongDouble } else { Datatype::Long },
    }
}

pub open spec fn fs_is_long(d: Datatype) -> bool { d is Long || d is LongLong || d is LongDouble }

/// what the `.map(|specifier| ..)` closure computes for one specifier
pub open spec fn fs_code_entry(t: Seq<char>, p: DatatypeProperties) -> (Datatype, ByteSize) {
    let d = fs_from(t);
    (d, if d is Char { p.integer_size } else { fs_size_of(d, p) })
}

pub open spec fn fs_code_entries(sp: Seq<Seq<char>>, p: DatatypeProperties) -> Seq<(Datatype, ByteSize)> {
    Seq::new(sp.len(), |i: int| fs_code_entry(sp[i], p))
}

/// every participating group is one of the 45 conversion specifications
pub open spec fn fs_all_specs(g: Seq<Option<Seq<char>>>) -> bool {
    forall |i: int| 0 <= i < g.len() && (#[trigger] g[i]) is Some ==> fs_is_spec(g[i]->Some_0)
}

/// the Vec the regex shim returns shows the sequence g
pub open spec fn fs_caps_view(v: Seq<Option<String>>, g: Seq<Option<Seq<char>>>) -> bool {
    v.len() == g.len() && forall |i: int| 0 <= i < v.len() ==> fs_opt_view(#[trigger] v[i]) == g[i]
}
