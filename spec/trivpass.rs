// ---------------------------------------------------------------------------
// spec/trivpass.rs -- unit `trivpass` (property C10, the pass `Project::substitute_trivial_expressions`: "the loop over all Defs and
// Jmps").  Definitions only; nothing here is trusted.
//
// Written from the IR DATA MODEL (intermediate_representation/def.rs, jmp.rs: every field of type `Expression` of `Def` and `Jmp`),
// NOT from the pass:
//     Def::Load   { var, address }          address
//     Def::Store  { address, value }        address, value
//     Def::Assign { var, value }            value
//     Jmp::Branch(Tid)                      --
//     Jmp::BranchInd(Expression)            the target
//     Jmp::CBranch { target, condition }    condition
//     Jmp::Call { target, return_ }         --
//     Jmp::CallInd { target, return_ }      target
//     Jmp::Return(Expression)               the return address
//     Jmp::CallOther { description, return_ }  --
// Every one of these positions must afterwards hold an expression that is `es_same` to the old one (unit exprsubst: well-sized, same
// size, same value under every valuation that gives the old one a value); everything that is not an expression must be EQUAL.
// A pass that FORGETS a position would still satisfy es_same there (an untouched well-sized expression is es_same to itself), so each position
// additionally carries the marker tp_visited, which only the verified wrapper of the rewriter call produces (see tp_expr_rel); a pass that
// touches anything that is not an expression fails the frame.  There is NO expression field that the real pass leaves out.
// ---------------------------------------------------------------------------

// ---- precondition: the rewriter's precondition at every expression position of the data model ---------------------------------

pub open spec fn tp_def_wf(d: Def) -> bool {
    match d {
        Def::Load { var, address } => es_wf(address),
        Def::Store { address, value } => es_wf(address) && es_wf(value),
        Def::Assign { var, value } => es_wf(value),
    }
}
pub open spec fn tp_jmp_wf(j: Jmp) -> bool {
    match j {
        Jmp::Branch(t) => true,
        Jmp::BranchInd(e) => es_wf(e),
        Jmp::CBranch { target, condition } => es_wf(condition),
        Jmp::Call { target, return_ } => true,
        Jmp::CallInd { target, return_ } => es_wf(target),
        Jmp::Return(e) => es_wf(e),
        Jmp::CallOther { description, return_ } => true,
    }
}
pub open spec fn tp_blk_wf(b: Term<Blk>) -> bool {
    &&& forall |i: int| 0 <= i < b.term.defs@.len() ==> tp_def_wf((#[trigger] b.term.defs@[i]).term)
    &&& forall |i: int| 0 <= i < b.term.jmps@.len() ==> tp_jmp_wf((#[trigger] b.term.jmps@[i]).term)
}
pub open spec fn tp_sub_wf(s: Term<Sub>) -> bool {
    forall |i: int| 0 <= i < s.term.blocks@.len() ==> tp_blk_wf(#[trigger] s.term.blocks@[i])
}
/// every expression of every function of the program satisfies the rewriter's precondition
pub open spec fn tp_prog_wf(subs: Map<Tid, Term<Sub>>) -> bool {
    forall |k: Tid| #[trigger] subs.contains_key(k) ==> tp_sub_wf(subs[k])
}

// ---- postcondition: (a) frame + (b) expressions ------------------------------------------------------------------------------------

/// MARKER "the pass handed this position to the rewriter": uninterpreted, and produced ONLY by the verified wrapper
/// `Expression::tp_rewrite` (shim/trivpass.rs), whose body is the call of the real `substitute_trivial_operations`.  Without it a pass
/// that FORGETS a position would still satisfy es_same (an untouched well-sized expression is es_same to itself, and leaving it alone
/// does preserve behaviour): the clause "every expression position of the data model is visited" needs the marker.
pub uninterp spec fn tp_visited(e0: Expression, e1: Expression) -> bool;
/// one expression position: rewritten BY THE REWRITER (marker) into something well-sized of the same size and value (es_same)
pub open spec fn tp_expr_rel(e0: Expression, e1: Expression) -> bool { es_same(e0, e1) && tp_visited(e0, e1) }

/// one instruction: same VARIANT, same assigned variable, every expression field `es_same`
pub open spec fn tp_def_rel(d0: Def, d1: Def) -> bool {
    match (d0, d1) {
        (Def::Load { var: v0, address: a0 }, Def::Load { var: v1, address: a1 }) => v1 == v0 && tp_expr_rel(a0, a1),
        (Def::Store { address: a0, value: x0 }, Def::Store { address: a1, value: x1 }) => tp_expr_rel(a0, a1) && tp_expr_rel(x0, x1),
        (Def::Assign { var: v0, value: x0 }, Def::Assign { var: v1, value: x1 }) => v1 == v0 && tp_expr_rel(x0, x1),
        _ => false,
    }
}
/// one jump: same VARIANT, same direct target / return target / description, every expression field `es_same`
pub open spec fn tp_jmp_rel(j0: Jmp, j1: Jmp) -> bool {
    match (j0, j1) {
        (Jmp::Branch(t0), Jmp::Branch(t1)) => t1 == t0,
        (Jmp::BranchInd(e0), Jmp::BranchInd(e1)) => tp_expr_rel(e0, e1),
        (Jmp::CBranch { target: t0, condition: c0 }, Jmp::CBranch { target: t1, condition: c1 }) => t1 == t0 && tp_expr_rel(c0, c1),
        (Jmp::Call { target: t0, return_: r0 }, Jmp::Call { target: t1, return_: r1 }) => t1 == t0 && r1 == r0,
        (Jmp::CallInd { target: e0, return_: r0 }, Jmp::CallInd { target: e1, return_: r1 }) => r1 == r0 && tp_expr_rel(e0, e1),
        (Jmp::Return(e0), Jmp::Return(e1)) => tp_expr_rel(e0, e1),
        (Jmp::CallOther { description: d0, return_: r0 }, Jmp::CallOther { description: d1, return_: r1 }) => d1 == d0 && r1 == r0,
        _ => false,
    }
}
pub open spec fn tp_def_term_rel(d0: Term<Def>, d1: Term<Def>) -> bool { d1.tid == d0.tid && tp_def_rel(d0.term, d1.term) }
pub open spec fn tp_jmp_term_rel(j0: Term<Jmp>, j1: Term<Jmp>) -> bool { j1.tid == j0.tid && tp_jmp_rel(j0.term, j1.term) }

/// one block: tid and indirect-jump targets equal, the same NUMBER of defs / jumps, position by position related
pub open spec fn tp_blk_rel(b0: Term<Blk>, b1: Term<Blk>) -> bool {
    &&& b1.tid == b0.tid
    &&& b1.term.indirect_jmp_targets == b0.term.indirect_jmp_targets
    &&& b1.term.defs@.len() == b0.term.defs@.len()
    &&& forall |i: int| 0 <= i < b0.term.defs@.len() ==> tp_def_term_rel(b0.term.defs@[i], #[trigger] b1.term.defs@[i])
    &&& b1.term.jmps@.len() == b0.term.jmps@.len()
    &&& forall |i: int| 0 <= i < b0.term.jmps@.len() ==> tp_jmp_term_rel(b0.term.jmps@[i], #[trigger] b1.term.jmps@[i])
}
/// one function: tid, name, calling convention equal, the same number of blocks, position by position related (so the list of block
/// tids is the same list)
pub open spec fn tp_sub_rel(s0: Term<Sub>, s1: Term<Sub>) -> bool {
    &&& s1.tid == s0.tid
    &&& s1.term.name == s0.term.name
    &&& s1.term.calling_convention == s0.term.calling_convention
    &&& s1.term.blocks@.len() == s0.term.blocks@.len()
    &&& forall |i: int| 0 <= i < s0.term.blocks@.len() ==> tp_blk_rel(s0.term.blocks@[i], #[trigger] s1.term.blocks@[i])
}
/// the program: the same set of function keys, every function related
pub open spec fn tp_post(m0: Map<Tid, Term<Sub>>, m1: Map<Tid, Term<Sub>>) -> bool {
    &&& m1.dom() =~= m0.dom()
    &&& forall |k: Tid| #[trigger] m0.contains_key(k) ==> tp_sub_rel(m0[k], m1[k])
}

// ---- (c) observable behaviour of defs and jumps ------------------------------------------------------------------------------------
// Aliasing-free semantics in the shape of spec/subreg.rs (sr_step / sr_run): a state is a valuation of the variables (the `EsEnv` of
// unit exprsubst), an abstract memory (uninterpreted load / store: any memory model, any endianness) and the TRACE of memory accesses.
// `None` = the instruction has no defined effect in that state: one of its expressions has no P-Code value there (es_eval is None:
// `Unknown`, floating point, division by zero, an ill-sized valuation, a non-boolean byte under a boolean operation).

#[verifier::external_body]
pub struct TpMem { _p: () }
pub uninterp spec fn tp_mem_load(m: TpMem, addr: Bitvector, bytes: int) -> Bitvector;
pub uninterp spec fn tp_mem_store(m: TpMem, addr: Bitvector, val: Bitvector) -> TpMem;

/// one memory access: what the property calls "addresses, sizes and values" (a written value carries its size: `val.w@` bits)
pub ghost enum TpAccess {
    Read { addr: Bitvector, bytes: int, val: Bitvector },
    Write { addr: Bitvector, val: Bitvector },
}
pub ghost struct TpState {
    pub env: EsEnv,
    pub mem: TpMem,
    pub trace: Seq<TpAccess>,
}
pub open spec fn tp_upd(env: EsEnv, var: Variable, x: Bitvector) -> EsEnv {
    |v: Variable| if v == var { x } else { env(v) }
}

/// Assign writes the value of `value` into `var`; Load reads `var.size` bytes at the value of `address` into `var`;
/// Store writes the value of `value` at the value of `address`.
pub open spec fn tp_def_effect(d: Def, s: TpState) -> Option<TpState> {
    match d {
        Def::Assign { var, value } => match es_eval(value, s.env) {
            Some(x) => Some(TpState { env: tp_upd(s.env, var, x), ..s }),
            None => None,
        },
        Def::Load { var, address } => match es_eval(address, s.env) {
            Some(a) => {
                let x = tp_mem_load(s.mem, a, var.size.0 as int);
                Some(TpState { env: tp_upd(s.env, var, x), mem: s.mem, trace: s.trace.push(TpAccess::Read { addr: a, bytes: var.size.0 as int, val: x }) })
            },
            None => None,
        },
        Def::Store { address, value } => match (es_eval(address, s.env), es_eval(value, s.env)) {
            (Some(a), Some(x)) => Some(TpState { env: s.env, mem: tp_mem_store(s.mem, a, x), trace: s.trace.push(TpAccess::Write { addr: a, val: x }) }),
            _ => None,
        },
    }
}
/// the first `n` defs of a block body, one after the other
pub open spec fn tp_run(defs: Seq<Term<Def>>, n: int, s: TpState) -> Option<TpState>
    decreases n
{
    if n <= 0 || n > defs.len() { Some(s) } else {
        match tp_run(defs, n - 1, s) {
            Some(s1) => tp_def_effect(defs[n - 1].term, s1),
            None => None,
        }
    }
}

/// what a jump does in a state: where control goes / which condition value decides
pub ghost enum TpJmpObs {
    Goto { target: Tid },
    GotoValue { target: Bitvector },
    CondGoto { condition: Bitvector, target: Tid },
    Call { target: Tid, return_: Option<Tid> },
    CallValue { target: Bitvector, return_: Option<Tid> },
    Return { target: Bitvector },
    Other { description: String, return_: Option<Tid> },
}
pub open spec fn tp_jmp_effect(j: Jmp, env: EsEnv) -> Option<TpJmpObs> {
    match j {
        Jmp::Branch(t) => Some(TpJmpObs::Goto { target: t }),
        Jmp::BranchInd(e) => match es_eval(e, env) { Some(x) => Some(TpJmpObs::GotoValue { target: x }), None => None },
        Jmp::CBranch { target, condition } => match es_eval(condition, env) { Some(x) => Some(TpJmpObs::CondGoto { condition: x, target }), None => None },
        Jmp::Call { target, return_ } => Some(TpJmpObs::Call { target, return_ }),
        Jmp::CallInd { target, return_ } => match es_eval(target, env) { Some(x) => Some(TpJmpObs::CallValue { target: x, return_ }), None => None },
        Jmp::Return(e) => match es_eval(e, env) { Some(x) => Some(TpJmpObs::Return { target: x }), None => None },
        Jmp::CallOther { description, return_ } => Some(TpJmpObs::Other { description, return_ }),
    }
}

/// C10 for one block: from every state in which the OLD block body has a defined effect, the new body has the same effect after
/// every prefix (same variables, same memory, same trace of reads and writes), and every jump of the block that has a defined
/// effect in the state after the body has the same effect (same condition value / target value / direct targets).
pub open spec fn tp_blk_behaves(b0: Term<Blk>, b1: Term<Blk>) -> bool {
    &&& b1.term.defs@.len() == b0.term.defs@.len()
    &&& b1.term.jmps@.len() == b0.term.jmps@.len()
    &&& forall |n: int, s: TpState| 0 <= n <= b0.term.defs@.len() && (#[trigger] tp_run(b0.term.defs@, n, s)) is Some
            ==> tp_run(b1.term.defs@, n, s) == tp_run(b0.term.defs@, n, s)
    &&& forall |j: int, env: EsEnv| 0 <= j < b0.term.jmps@.len() && (#[trigger] tp_jmp_effect(b0.term.jmps@[j].term, env)) is Some
            ==> tp_jmp_effect(b1.term.jmps@[j].term, env) == tp_jmp_effect(b0.term.jmps@[j].term, env)
}
/// C10 for the program (the part that is about THIS pass): same functions, same block lists, every block behaves
pub open spec fn tp_behaves(m0: Map<Tid, Term<Sub>>, m1: Map<Tid, Term<Sub>>) -> bool {
    &&& m1.dom() =~= m0.dom()
    &&& forall |k: Tid| #[trigger] m0.contains_key(k) ==> {
            &&& m1[k].tid == m0[k].tid
            &&& m1[k].term.blocks@.len() == m0[k].term.blocks@.len()
            &&& forall |i: int| 0 <= i < m0[k].term.blocks@.len() ==> (#[trigger] m1[k].term.blocks@[i]).tid == m0[k].term.blocks@[i].tid
                    && tp_blk_behaves(m0[k].term.blocks@[i], m1[k].term.blocks@[i])
        }
}
