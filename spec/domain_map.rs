// ---------------------------------------------------------------------------
// spec/domain_map.rs -- specification vocabulary of unit `domain_map` (property C03 for keyed maps
// `DomainMap<K, V, S>`, abstract_domain/domain_map.rs).  Written from the doc comments of domain_map.rs and the
// property statement; where the code's rule differs from the doc comment (MergeTopStrategy, see dm_mergetop_val)
// BOTH are stated and the difference is a lemma.  Nothing here is trusted: these are definitions.  The hypotheses
// on the key type K and the value domain V are named predicates that appear in the `requires` of the contracts.
//
// MODEL.  A map value stands for a set of (partial) functions from keys to concrete values (`V::Concrete`, the
// universe `gamma_spec` of the value domain talks about).  The property is stated POINTWISE: "the pair (k, c) is
// represented by the map m" = "a represented function may have the value c at key k"; a function f is represented
// iff every pair (k, f(k)) is (`dm_fn_represented`).  What a MISSING key means is the strategy's reading:
//   UnionMergeStrategy      "keys not present in the map have an implicit bottom value": no pair (k, _) is represented
//   IntersectMergeStrategy  "keys not present in the map have an implicit Top value ... an actual maximal value":
//                           every pair (k, c) is represented
//   MergeTopStrategy        "Top ... should instead be interpreted as a default element assigned to all keys not
//                           present": (k, c) is represented iff c is represented by the Top / default element
//                           (`dm_top_gamma`)
// ---------------------------------------------------------------------------

// ---- hypotheses on K and V ---------------------------------------------------------------------------------------

/// HYPOTHESIS on the key type: `Ord` on K is a lawful total order that agrees with `==` (vstd states its BTreeMap
/// specifications under it) and `clone()` of a key is that key.
pub open spec fn dm_key_ok<K: Ord + Clone>() -> bool {
    &&& vstd::laws_cmp::obeys_cmp::<K>()
    &&& forall |a: K, b: K| #[trigger] call_ensures(K::clone, (&a,), b) ==> a == b
}

/// HYPOTHESIS on the value domain: `clone()` returns its argument.
pub open spec fn dm_clone_ok<V: AbstractDomain>() -> bool {
    forall |a: V, b: V| #[trigger] call_ensures(V::clone, (&a,), b) ==> a == b
}

/// HYPOTHESIS needed only by `DomainMap::{merge, merge_with}` (the `self == other` fast path): `==` on keys and on
/// values decides specification equality (then the derived `==` of DomainMap decides equality of the maps).
pub open spec fn dm_eq_ok<K: Ord + Clone, V: AbstractDomain>() -> bool {
    &&& K::obeys_eq_spec()
    &&& forall |a: K, b: K| #[trigger] a.eq_spec(&b) <==> a == b
    &&& V::obeys_eq_spec()
    &&& forall |a: V, b: V| #[trigger] a.eq_spec(&b) <==> a == b
}

/// HYPOTHESES of property C03 on the value domain V (what the merge of the values must satisfy for the map merge to
/// satisfy C03), under V's own merge precondition `merge_pre_spec`:
///   (over)   merge over-approximates both operands,
///   (stable) merging with something already absorbed does not enlarge the represented set.
/// These are the clauses units interval_domain / interval_arith prove for IntervalDomain and unit data_domain proves
/// for DataDomain<T> (relative to T); the instantiation is not performed here.
pub open spec fn dm_merge_hyp<V: AbstractDomain>() -> bool {
    &&& forall |a: V, b: V, c: V::Concrete| #![trigger a.merge_spec(&b).gamma_spec(c)]
            a.merge_pre_spec(&b) && (a.gamma_spec(c) || b.gamma_spec(c)) ==> a.merge_spec(&b).gamma_spec(c)
    &&& forall |a: V, b: V| #![trigger a.merge_spec(&b)]
            a.merge_pre_spec(&b) && (forall |c: V::Concrete| b.gamma_spec(c) ==> a.gamma_spec(c))
            ==> (forall |c: V::Concrete| #[trigger] a.merge_spec(&b).gamma_spec(c) ==> a.gamma_spec(c))
}

/// HYPOTHESIS of the IntersectMergeStrategy ("the strategy implicitly assumes that the Top value of the value abstract
/// domain is an actual maximal value of the domain"): a value that answers `is_top()` represents every concrete value.
/// Needed for the STABILITY clause only (dropping a key never loses a represented pair under the Top reading).
pub open spec fn dm_top_is_max<V: AbstractDomain>() -> bool {
    forall |v: V, c: V::Concrete| #![trigger v.gamma_spec(c)] v.is_top_spec() ==> v.gamma_spec(c)
}

/// The set of concrete values a MISSING key stands for under the MergeTopStrategy reading: the represented set of the
/// Top / default element = what some value answering `is_top()` represents.  Opaque: the proofs of the unit use it only through
/// `dm_top_default` (whoever discharges that hypothesis for a concrete V reveals the definition).
#[verifier::opaque]
pub open spec fn dm_top_gamma<V: AbstractDomain>(c: V::Concrete) -> bool {
    exists |t: V| #[trigger] t.gamma_spec(c) && t.is_top_spec()
}

/// HYPOTHESIS of the MergeTopStrategy: every value that answers `is_top()` represents exactly the default set (all Top
/// elements represent the same set, whatever value `top()` was called on), and `top()` yields such a value.
pub open spec fn dm_top_default<V: AbstractDomain + HasTop>() -> bool {
    &&& forall |v: V, c: V::Concrete| #![trigger v.gamma_spec(c)] v.is_top_spec() ==> (v.gamma_spec(c) <==> dm_top_gamma::<V>(c))
    &&& forall |v: V| #[trigger] v.top_spec().is_top_spec()
}

// ---- the three readings ------------------------------------------------------------------------------------------

/// Union reading: a missing key has the bottom value
pub open spec fn dm_union_represents<K, V: AbstractDomain>(m: Map<K, V>, k: K, c: V::Concrete) -> bool {
    m.contains_key(k) && m[k].gamma_spec(c)
}

/// Intersect reading: a missing key has the (maximal) Top value
pub open spec fn dm_intersect_represents<K, V: AbstractDomain>(m: Map<K, V>, k: K, c: V::Concrete) -> bool {
    m.contains_key(k) ==> m[k].gamma_spec(c)
}

/// MergeTop reading: a missing key has the default value Top
pub open spec fn dm_mergetop_represents<K, V: AbstractDomain>(m: Map<K, V>, k: K, c: V::Concrete) -> bool {
    if m.contains_key(k) { m[k].gamma_spec(c) } else { dm_top_gamma::<V>(c) }
}

/// a (partial) function from keys to concrete values is represented under the reading S of a strategy
pub open spec fn dm_fn_represented<K: Ord + Clone, V: AbstractDomain, S: MapMergeStrategySpec<K, V>>(m: Map<K, V>, f: Map<K, V::Concrete>) -> bool {
    forall |k: K| #[trigger] f.contains_key(k) ==> S::represents_spec(m, k, f[k])
}

// ---- UnionMergeStrategy ------------------------------------------------------------------------------------------
// "key-value pairs whose key is only present in one input map are added to the merged map.  Top values and their
//  corresponding keys are also preserved in the merged map."

/// V::merge's precondition holds on the two values of every common key (the only merges Union and Intersect perform)
pub open spec fn dm_common_pre<K, V: AbstractDomain>(a: Map<K, V>, b: Map<K, V>) -> bool {
    forall |k: K| #![trigger a.contains_key(k)] #![trigger b.contains_key(k)]
        a.contains_key(k) && b.contains_key(k) ==> a[k].merge_pre_spec(&b[k])
}

pub open spec fn dm_union_val<K, V: AbstractDomain>(a: Map<K, V>, b: Map<K, V>, k: K) -> V {
    if a.contains_key(k) && b.contains_key(k) { a[k].merge_spec(&b[k]) } else if a.contains_key(k) { a[k] } else { b[k] }
}

/// THE WHOLE RESULT of the union merge: the keys of either map; a common key gets the merge of the two values
pub open spec fn dm_union_spec<K, V: AbstractDomain>(a: Map<K, V>, b: Map<K, V>) -> Map<K, V> {
    Map::new(a.dom().union(b.dom()), |k: K| dm_union_val(a, b, k))
}

// ---- IntersectMergeStrategy --------------------------------------------------------------------------------------
// "the merge function only keeps keys that are present in both input maps.  Furthermore, keys whose values are
//  merged to the Top value are also removed from the merged map."

pub open spec fn dm_intersect_keeps<K, V: AbstractDomain>(a: Map<K, V>, b: Map<K, V>, k: K) -> bool {
    a.contains_key(k) && b.contains_key(k) && !a[k].merge_spec(&b[k]).is_top_spec()
}

/// THE WHOLE RESULT of the intersect merge
pub open spec fn dm_intersect_spec<K, V: AbstractDomain>(a: Map<K, V>, b: Map<K, V>) -> Map<K, V> {
    Map::new(a.dom().filter(|k: K| dm_intersect_keeps(a, b, k)), |k: K| a[k].merge_spec(&b[k]))
}

/// what the closure handed to `retain` does to the value stored at k (its result `keep` is `!.. .is_top_spec()` for a
/// common key and false otherwise)
pub open spec fn dm_intersect_entry<K, V: AbstractDomain>(v: V, b: Map<K, V>, k: K) -> V {
    if b.contains_key(k) { v.merge_spec(&b[k]) } else { v }
}

// ---- MergeTopStrategy --------------------------------------------------------------------------------------------
// "for every key that only occurs in one input map of the merge function the corresponding value is merged with Top
//  before being added to the merged map.  Furthermore, keys whose values are merged to the Top value are removed from
//  the merged map."

/// the value the doc comment describes for key k (k is a key of a or of b)
pub open spec fn dm_mergetop_doc_val<K, V: AbstractDomain + HasTop>(a: Map<K, V>, b: Map<K, V>, k: K) -> V {
    if a.contains_key(k) && b.contains_key(k) { a[k].merge_spec(&b[k]) }
    else if a.contains_key(k) { a[k].merge_spec(&a[k].top_spec()) }
    else { b[k].top_spec().merge_spec(&b[k]) }
}

/// the merged map AS THE DOC COMMENT DESCRIBES IT
pub open spec fn dm_mergetop_doc_spec<K, V: AbstractDomain + HasTop>(a: Map<K, V>, b: Map<K, V>) -> Map<K, V> {
    Map::new(a.dom().union(b.dom()).filter(|k: K| !dm_mergetop_doc_val(a, b, k).is_top_spec()), |k: K| dm_mergetop_doc_val(a, b, k))
}

/// first phase of the code (`retain` over the left map): the value computed for a key k of a
pub open spec fn dm_mergetop_first<K, V: AbstractDomain + HasTop>(v: V, b: Map<K, V>, k: K) -> V {
    if b.contains_key(k) { v.merge_spec(&b[k]) } else { v.merge_spec(&v.top_spec()) }
}

/// the map after the first phase
pub open spec fn dm_mergetop_phase1<K, V: AbstractDomain + HasTop>(a: Map<K, V>, b: Map<K, V>) -> Map<K, V> {
    Map::new(a.dom().filter(|k: K| !dm_mergetop_first(a[k], b, k).is_top_spec()), |k: K| dm_mergetop_first(a[k], b, k))
}

/// second phase of the code (loop over the right map): the value computed for a key k of b that the map does not hold
pub open spec fn dm_mergetop_second<K, V: AbstractDomain + HasTop>(b: Map<K, V>, k: K) -> V {
    b[k].top_spec().merge_spec(&b[k])
}

/// THE CODE'S RULE for key k.  It differs from the doc comment in one corner: the second phase asks whether the map
/// AFTER the first phase holds k, not whether the left input did -- so a COMMON key whose merged value was Top (and was
/// removed by the first phase) is treated like a key of the right map only: it is re-inserted with merge(top(b[k]), b[k])
/// when that is not Top.
pub open spec fn dm_mergetop_keeps<K, V: AbstractDomain + HasTop>(a: Map<K, V>, b: Map<K, V>, k: K) -> bool {
    (a.contains_key(k) && !dm_mergetop_first(a[k], b, k).is_top_spec())
    || (b.contains_key(k) && !dm_mergetop_second(b, k).is_top_spec())
}

pub open spec fn dm_mergetop_val<K, V: AbstractDomain + HasTop>(a: Map<K, V>, b: Map<K, V>, k: K) -> V {
    if a.contains_key(k) && !dm_mergetop_first(a[k], b, k).is_top_spec() { dm_mergetop_first(a[k], b, k) } else { dm_mergetop_second(b, k) }
}

/// THE WHOLE RESULT of the MergeTop merge (the code's rule)
pub open spec fn dm_mergetop_spec<K, V: AbstractDomain + HasTop>(a: Map<K, V>, b: Map<K, V>) -> Map<K, V> {
    Map::new(a.dom().union(b.dom()).filter(|k: K| dm_mergetop_keeps(a, b, k)), |k: K| dm_mergetop_val(a, b, k))
}

/// V::merge's precondition holds wherever the MergeTop strategy calls it: on the two values of a common key; on a value
/// of the left map and its `top()` for a key of the left map only; on `top()` of a value of the right map and that value
/// for every key of the right map that the first phase does not keep.
pub open spec fn dm_mergetop_pre<K, V: AbstractDomain + HasTop>(a: Map<K, V>, b: Map<K, V>) -> bool {
    &&& dm_common_pre(a, b)
    &&& forall |k: K| #![trigger a.contains_key(k)] a.contains_key(k) && !b.contains_key(k) ==> a[k].merge_pre_spec(&a[k].top_spec())
    &&& forall |k: K| #![trigger b.contains_key(k)] b.contains_key(k) && !(a.contains_key(k) && !dm_mergetop_first(a[k], b, k).is_top_spec())
            ==> b[k].top_spec().merge_pre_spec(&b[k])
}

/// The condition under which the code's rule IS the doc comment's rule: whenever the merge of two values is Top, the
/// merge of Top with the second one is Top as well (lemma_dm_mergetop_doc).
pub open spec fn dm_mergetop_doc_cond<K, V: AbstractDomain + HasTop>(a: Map<K, V>, b: Map<K, V>) -> bool {
    forall |k: K| #![trigger a.contains_key(k)] #![trigger b.contains_key(k)]
        a.contains_key(k) && b.contains_key(k) && a[k].merge_spec(&b[k]).is_top_spec() ==> b[k].top_spec().merge_spec(&b[k]).is_top_spec()
}

// ---- the C03 clauses over a reading (used in the contract of the strategy trait, written out there) ---------------
// (over)    forall k, c.  represents(a, k, c) || represents(b, k, c)  ==>  represents(r, k, c)
// (stable)  (forall k, c. represents(b, k, c) ==> represents(a, k, c))  ==>  forall k, c. represents(r, k, c) ==> represents(a, k, c)

// ---- iteration helpers (ghost sequence of `m.iter()`, list of keys) ------------------------------------------------

/// `s` is the ghost sequence of `m.iter()`: every element is an entry of m, every key of m occurs, no entry twice
pub open spec fn dm_iter_of<K, V>(s: Seq<(&K, &V)>, m: Map<K, V>) -> bool {
    &&& forall |i: int| 0 <= i < s.len() ==> m.contains_key(*(#[trigger] s[i]).0) && m[*s[i].0] == *s[i].1
    &&& forall |k: K| m.contains_key(k) ==> exists |i: int| 0 <= i < s.len() && *(#[trigger] s[i]).0 == k
    &&& s.no_duplicates()
}

/// the key k occurs before position n of the iteration s
pub open spec fn dm_iter_visited<K, V>(s: Seq<(&K, &V)>, n: int, k: K) -> bool {
    exists |j: int| 0 <= j < n && *(#[trigger] s[j]).0 == k
}

/// `l` lists the keys of m, each exactly once (contract of shim verif_dm_keys)
pub open spec fn dm_keys_of<K, V>(l: Seq<K>, m: Map<K, V>) -> bool {
    &&& forall |i: int| 0 <= i < l.len() ==> m.contains_key(#[trigger] l[i])
    &&& forall |i: int, j: int| 0 <= i < j < l.len() ==> l[i] != l[j]
    &&& forall |k: K| m.contains_key(k) ==> exists |i: int| 0 <= i < l.len() && #[trigger] l[i] == k
}

/// the key k occurs before position n of the key list l
pub open spec fn dm_keys_visited<K>(l: Seq<K>, n: int, k: K) -> bool {
    exists |j: int| 0 <= j < n && #[trigger] l[j] == k
}
