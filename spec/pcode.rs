// ---------------------------------------------------------------------------
// spec/pcode.rs -- the ORACLE for C01: Ghidra P-Code reference semantics of the
// integer operations, written from the P-Code reference manual and the property
// statement, over mathematical integers.  Values are Bitvector = (w, u).
// `None` = the reference semantics give no integer value here (floating point,
// division by zero).  Boolean results are 1-byte values 0/1.
// ---------------------------------------------------------------------------

pub open spec fn b2bv(b: bool) -> Bitvector { bv(8, if b { 1 } else { 0 }) }

pub open spec fn is_float_binop(op: BinOpType) -> bool {
    op is FloatEqual || op is FloatNotEqual || op is FloatLess || op is FloatLessEqual
    || op is FloatAdd || op is FloatSub || op is FloatMult || op is FloatDiv
}
pub open spec fn is_div_binop(op: BinOpType) -> bool {
    op is IntDiv || op is IntSDiv || op is IntRem || op is IntSRem
}
pub open spec fn is_shift_binop(op: BinOpType) -> bool {
    op is IntLeft || op is IntRight || op is IntSRight
}
pub open spec fn is_bool_result_binop(op: BinOpType) -> bool {
    op is IntEqual || op is IntNotEqual || op is IntLess || op is IntSLess || op is IntLessEqual || op is IntSLessEqual
    || op is IntCarry || op is IntSCarry || op is IntSBorrow || op is BoolXOr || op is BoolOr || op is BoolAnd
    || op is FloatEqual || op is FloatNotEqual || op is FloatLess || op is FloatLessEqual
}

/// size (in bits) of the result of a binary operation on operands of wa / wb bits
pub open spec fn out_bits(op: BinOpType, wa: nat, wb: nat) -> nat {
    if op is Piece { wa + wb } else if is_bool_result_binop(op) { 8 } else { wa }
}

pub open spec fn pcode_bin(op: BinOpType, a: Bitvector, b: Bitvector) -> Option<Bitvector> {
    let w = a.w@;
    let (ua, ub) = (a.u@, b.u@);
    let (sa, sb) = (a.s(), b.s());
    match op {
        BinOpType::Piece => Some(bv(a.w@ + b.w@, ua * p2(b.w@) + ub)),
        BinOpType::IntEqual => Some(b2bv(ua == ub)),
        BinOpType::IntNotEqual => Some(b2bv(ua != ub)),
        BinOpType::IntLess => Some(b2bv(ua < ub)),
        BinOpType::IntSLess => Some(b2bv(sa < sb)),
        BinOpType::IntLessEqual => Some(b2bv(ua <= ub)),
        BinOpType::IntSLessEqual => Some(b2bv(sa <= sb)),
        BinOpType::IntAdd => Some(bv(w, trunc(w, (ua + ub) as int))),
        BinOpType::IntSub => Some(bv(w, trunc(w, ua - ub))),
        // unsigned addition overflows
        BinOpType::IntCarry => Some(b2bv(ua + ub >= p2(w))),
        // signed addition overflows
        BinOpType::IntSCarry => Some(b2bv(sa + sb > smax(w) || sa + sb < smin(w))),
        // signed subtraction overflows
        BinOpType::IntSBorrow => Some(b2bv(sa - sb > smax(w) || sa - sb < smin(w))),
        BinOpType::IntXOr | BinOpType::BoolXOr => Some(bv(w, bits_xor(ua, ub))),
        BinOpType::IntAnd | BinOpType::BoolAnd => Some(bv(w, bits_and(ua, ub))),
        BinOpType::IntOr | BinOpType::BoolOr => Some(bv(w, bits_or(ua, ub))),
        // shifts: the amount is the unsigned value of b (any size); amounts >= w shift everything out
        BinOpType::IntLeft => Some(bv(w, if ub >= w { 0 } else { trunc(w, (ua * p2(ub)) as int) })),
        BinOpType::IntRight => Some(bv(w, if ub >= w { 0 } else { ua / p2(ub) })),
        BinOpType::IntSRight => Some(bv(w, if ub >= w { if sa < 0 { (p2(w) - 1) as nat } else { 0 } } else { trunc(w, sa / (p2(ub) as int)) })),
        BinOpType::IntMult => Some(bv(w, trunc(w, (ua * ub) as int))),
        BinOpType::IntDiv => if ub == 0 { None } else { Some(bv(w, ua / ub)) },
        BinOpType::IntRem => if ub == 0 { None } else { Some(bv(w, ua % ub)) },
        BinOpType::IntSDiv => if ub == 0 { None } else { Some(bv(w, trunc(w, tdiv(sa, sb)))) },
        BinOpType::IntSRem => if ub == 0 { None } else { Some(bv(w, trunc(w, trem(sa, sb)))) },
        _ => None,
    }
}

/// what the analyzer is allowed to answer 'unknown' for (property statement)
pub open spec fn unsupported_bin(op: BinOpType, a: Bitvector, b: Bitvector) -> bool {
    is_float_binop(op)
    || ((op is IntMult || is_div_binop(op)) && a.w@ > 64)
    || (is_div_binop(op) && b.u@ == 0)
}

/// operand sizes P-Code requires
pub open spec fn wellsized_bin(op: BinOpType, a: Bitvector, b: Bitvector) -> bool {
    a.wf() && b.wf()
    && (if op is Piece { a.w@ + b.w@ <= MAXW() }
        else if is_shift_binop(op) { b.u@ < p2(64) }
        else { a.w@ == b.w@ })
}

pub open spec fn is_float_unop(op: UnOpType) -> bool {
    !(op is IntNegate || op is Int2Comp || op is BoolNegate)
}
pub open spec fn pcode_un(op: UnOpType, a: Bitvector) -> Option<Bitvector> {
    match op {
        UnOpType::IntNegate => Some(bv(a.w@, bits_not(a.w@, a.u@))),
        UnOpType::Int2Comp => Some(bv(a.w@, trunc(a.w@, -(a.u@ as int)))),
        UnOpType::BoolNegate => Some(b2bv(a.u@ == 0)),
        _ => None,
    }
}
pub open spec fn wellsized_un(op: UnOpType, a: Bitvector) -> bool {
    a.wf() && (op is BoolNegate ==> a.w@ == 8 && a.u@ <= 1)
}

pub open spec fn is_float_cast(kind: CastOpType) -> bool {
    kind is Int2Float || kind is Float2Float || kind is Trunc
}
pub open spec fn pcode_cast(kind: CastOpType, a: Bitvector, t: nat) -> Option<Bitvector> {
    match kind {
        CastOpType::IntZExt => Some(bv(t, a.u@)),
        CastOpType::IntSExt => Some(bv(t, trunc(t, a.s()))),
        CastOpType::PopCount => Some(bv(t, trunc(t, popcount(a.u@) as int))),
        CastOpType::LzCount => Some(bv(t, trunc(t, a.w@ - bitlen(a.u@)))),
        _ => None,
    }
}
pub open spec fn wellsized_cast(kind: CastOpType, a: Bitvector, t: nat) -> bool {
    a.wf() && 1 <= t <= MAXW() && ((kind is IntZExt || kind is IntSExt) ==> t >= a.w@)
}

/// SUBPIECE: drop `low` bits, keep `t` bits.
pub open spec fn pcode_subpiece(a: Bitvector, low: nat, t: nat) -> Bitvector {
    bv(t, (a.u@ / p2(low)) % p2(t))
}
