// ---------------------------------------------------------------------------
// spec/reachcheck.rs -- specification vocabulary of unit `reachcheck` (property C17).  Definitions only, nothing trusted.
// Written from the property statement:
//   "... reports a (check, use) pair at a call to the check function exactly when a call to the use function is reachable
//    from it along intraprocedural control flow without passing another call to the check function."
// A control flow graph is seen as its edge sequence (edge e goes from cg_src(e) to cg_tgt(e), carries g.edge_weight(e)).
// ---------------------------------------------------------------------------

/// the jump term an edge label carries, if it is an ExternCallStub
pub open spec fn rc_stub_jmp<'a>(w: Edge<'a>) -> Option<&'a Term<Jmp>> {
    match w {
        Edge::ExternCallStub(jmp) => Some(jmp),
        _ => None,
    }
}

/// "a call to function `sym`" as the checkers see it: an ExternCallStub edge whose jump is a DIRECT call
/// (`Jmp::Call`, not CallInd / CallOther) with target `sym`
pub open spec fn rc_calls<'a>(w: Edge<'a>, sym: Tid) -> bool {
    match w {
        Edge::ExternCallStub(jmp) => cgb_call_target(jmp.term) == Some(sym),
        _ => false,
    }
}

/// "intraprocedural control flow": every kind of edge except the two that leave the function
/// (Call: into the callee; CrReturnStub: from the callee's return block to the caller's CallReturn node)
pub open spec fn rc_intra<'a>(w: Edge<'a>) -> bool {
    match w {
        Edge::Call(_) => false,
        Edge::CrReturnStub => false,
        _ => true,
    }
}

/// an intraprocedural step that does not pass a call to `check` ("without passing another call to the check function")
pub open spec fn rc_step<'a, N>(g: DiGraph<N, Edge<'a>>, check: Tid, e: int) -> bool {
    &&& cg_valid(g, e)
    &&& rc_intra(g.edge_weight(e))
    &&& !rc_calls(g.edge_weight(e), check)
}

/// `p` is a path of such steps from node `a` to node `b` (the empty path leads from a node to itself)
pub open spec fn rc_path<'a, N>(g: DiGraph<N, Edge<'a>>, check: Tid, p: Seq<int>, a: NodeIndex, b: NodeIndex) -> bool {
    &&& forall |k: int| 0 <= k < p.len() ==> rc_step(g, check, #[trigger] p[k])
    &&& forall |i: int, j: int| 0 <= i && j == i + 1 && j < p.len() ==> cg_tgt(g, #[trigger] p[i]) == cg_src(g, #[trigger] p[j])
    &&& if p.len() == 0 { a == b } else { cg_src(g, p[0]) == a && cg_tgt(g, p[p.len() - 1]) == b }
}

/// node `b` is reachable from node `a` along intraprocedural control flow without passing a call to `check`
pub open spec fn rc_reach<'a, N>(g: DiGraph<N, Edge<'a>>, check: Tid, a: NodeIndex, b: NodeIndex) -> bool {
    exists |p: Seq<int>| rc_path(g, check, p, a, b)
}

/// THE PROPERTY'S WORDS: edge `e` is a call to `use_` that is reachable from `start` along intraprocedural control flow
/// without passing another call to `check`.  (Reaching the call is not passing it: when use_ == check the call counts.)
pub open spec fn rc_sink_hit<'a, N>(g: DiGraph<N, Edge<'a>>, start: NodeIndex, check: Tid, use_: Tid, e: int) -> bool {
    &&& cg_valid(g, e)
    &&& rc_calls(g.edge_weight(e), use_)
    &&& rc_reach(g, check, start, cg_src(g, e))
}

/// "a call to the use function is reachable from `start` ... without passing another call to the check function"
pub open spec fn rc_sink_reachable<'a, N>(g: DiGraph<N, Edge<'a>>, start: NodeIndex, check: Tid, use_: Tid) -> bool {
    exists |e: int| #[trigger] rc_sink_hit(g, start, check, use_, e)
}

/// the tid of the jump term of an ExternCallStub edge
pub open spec fn rc_edge_tid<'a, N>(g: DiGraph<N, Edge<'a>>, e: int) -> Tid {
    rc_stub_jmp(g.edge_weight(e))->Some_0.tid
}

/// THE POSTCONDITION of is_sink_call_reachable_from_source_call: the answer is `Some` exactly when a reachable call to the
/// use function exists, and then it carries the tid of the jump of SOME such call (which one: iteration order of petgraph).
pub open spec fn rc_answer_ok<'a, N>(g: DiGraph<N, Edge<'a>>, start: NodeIndex, check: Tid, use_: Tid, r: Option<Tid>) -> bool {
    &&& r is Some <==> rc_sink_reachable(g, start, check, use_)
    &&& r is Some ==> exists |e: int| #[trigger] rc_sink_hit(g, start, check, use_, e) && r->Some_0 == rc_edge_tid(g, e)
}

// ---- invariants of the search -------------------------------------------------------------------------------------------

/// everything found is reachable, and every pending node is marked visited
pub open spec fn rc_sound<'a, N>(g: DiGraph<N, Edge<'a>>, start: NodeIndex, check: Tid, vis: Set<NodeIndex>, work: Seq<NodeIndex>) -> bool {
    &&& vis.contains(start)
    &&& forall |n: NodeIndex| #[trigger] vis.contains(n) ==> rc_reach(g, check, start, n)
    &&& forall |k: int| 0 <= k < work.len() ==> vis.contains(#[trigger] work[k])
}

/// node `x` has been expanded: visited, not pending, not the node being expanded
pub open spec fn rc_expanded(vis: Set<NodeIndex>, work: Seq<NodeIndex>, cur: Option<NodeIndex>, x: NodeIndex) -> bool {
    vis.contains(x) && !work.contains(x) && Some(x) != cur
}

/// nothing is lost and no call to `use_` was overlooked: every edge leaving an expanded node is not a call to `use_`, and
/// if it is a step its target is visited
pub open spec fn rc_closed<'a, N>(g: DiGraph<N, Edge<'a>>, check: Tid, use_: Tid, vis: Set<NodeIndex>, work: Seq<NodeIndex>, cur: Option<NodeIndex>) -> bool {
    forall |e: int| cg_valid(g, e) && rc_expanded(vis, work, cur, #[trigger] cg_src(g, e)) ==>
        !rc_calls(g.edge_weight(e), use_) && (rc_step(g, check, e) ==> vis.contains(cg_tgt(g, e)))
}

/// the same for the first `idx` edges of the node being expanded
pub open spec fn rc_closed_upto<'a, N>(g: DiGraph<N, Edge<'a>>, check: Tid, use_: Tid, vis: Set<NodeIndex>, refs: Seq<RcEdgeReference<'a, Edge<'a>>>, idx: int) -> bool {
    forall |k: int| 0 <= k < idx && k < refs.len() ==>
        !rc_calls(g.edge_weight((#[trigger] refs[k]).e.i as int), use_)
        && (rc_step(g, check, refs[k].e.i as int) ==> vis.contains(refs[k].tgt))
}

/// what the reachability of the node being expanded means for its edges: every call to `use_` among them is a hit,
/// and the target of every step among them is reachable
pub open spec fn rc_hits<'a, N>(g: DiGraph<N, Edge<'a>>, start: NodeIndex, check: Tid, use_: Tid, refs: Seq<RcEdgeReference<'a, Edge<'a>>>) -> bool {
    forall |k: int| 0 <= k < refs.len() ==>
        (rc_calls(g.edge_weight((#[trigger] refs[k]).e.i as int), use_) ==> rc_sink_hit(g, start, check, use_, refs[k].e.i as int))
        && (rc_step(g, check, refs[k].e.i as int) ==> rc_reach(g, check, start, refs[k].tgt))
}
