// ---------------------------------------------------------------------------
// spec/instantiate_domain_map_data.rs -- vocabulary of unit `instantiate_domain_map_data`: the value domain
// V = Data = DataDomain<IntervalDomain> (units data_domain + interval_domain, composed by unit instantiate_data_domain) as an
// instance of the traits RESTATED by unit domain_map (imported into `mod inst_dm`: it restates traits of the same names as unit
// data_domain).  Definitions only; the two axioms about std's BTreeMap are in contracts/instantiate_domain_map_data.vc.
// ---------------------------------------------------------------------------

/// the BTreeMap whose entries are those of m (exists: axiom_inst_btree_surj; unique: axiom_inst_btree_inj)
pub open spec fn inst_btree_of<K, V>(m: Map<K, V>) -> BTreeMap<K, V> {
    choose |t: BTreeMap<K, V>| t@ == m
}

/// HYPOTHESIS on the key type: `==` on AbstractIdentifier (derived) decides specification equality
pub open spec fn inst_id_eq_ok() -> bool {
    &&& AbstractIdentifier::obeys_eq_spec()
    &&& forall |a: AbstractIdentifier, b: AbstractIdentifier| #[trigger] a.eq_spec(&b) <==> a == b
}

/// THE WHOLE RESULT of DataDomain::merge as unit data_domain proves it (size of a; dd_merged_rel; dd_merged_abs; Top flag a || b), as a VALUE
pub open spec fn inst_data_merge(a: DataDomain<IntervalDomain>, b: DataDomain<IntervalDomain>) -> DataDomain<IntervalDomain> {
    DataDomain {
        size: a.size,
        relative_values: inst_btree_of(dd_merged_rel(a.relative_values@, b.relative_values@)),
        absolute_value: dd_merged_abs(a.absolute_value, b.absolute_value),
        contains_top_values: a.contains_top_values || b.contains_top_values,
    }
}

/// the value the trait default `AbstractDomain::merge_with` of /repo leaves in `self`:
/// "Calls merge on the inputs and overwrites self with the result. Does nothing when self is equal to other."
pub open spec fn inst_data_merge_with(a: DataDomain<IntervalDomain>, b: DataDomain<IntervalDomain>) -> DataDomain<IntervalDomain> {
    if a == b { a } else { inst_data_merge(a, b) }
}

/// THE WHOLE RESULT of DataDomain::top as unit data_domain proves it, as a value
pub open spec fn inst_data_top(a: DataDomain<IntervalDomain>) -> DataDomain<IntervalDomain> {
    DataDomain {
        size: a.size,
        relative_values: inst_btree_of(Map::<AbstractIdentifier, IntervalDomain>::empty()),
        absolute_value: None,
        contains_top_values: true,
    }
}

/// DataDomain::is_top as unit data_domain proves it
pub open spec fn inst_data_is_top(a: DataDomain<IntervalDomain>) -> bool {
    a.relative_values@.len() == 0 && a.absolute_value is None && a.contains_top_values
}
