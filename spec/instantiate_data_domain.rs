// ---------------------------------------------------------------------------
// spec/instantiate_data_domain.rs -- vocabulary of unit `instantiate_data_domain`: the value domain
// T = IntervalDomain (unit interval_domain) as an instance of the traits RESTATED by unit data_domain.
// Nothing here is trusted: these are definitions.
//
// Per function f of `impl {AbstractDomain, SizedDomain, HasTop, SpecializeByConditional} for IntervalDomain`:
//   inst_iv_<f>_pre(args)      the precondition under which unit interval_domain proves its contract of f
//   inst_iv_<f>_post(args, r)  that contract's postcondition
//   inst_iv_<f>_fn(args)       THE GRAPH of f: `choose |r| pre(args) ==> post(args, r)`.  Outside the precondition it is an
//                              arbitrary value (nothing is claimed there).
// That pre/post ARE what unit interval_domain proves is not a matter of matching text: the verified witness functions
// `inst_iv_<f>_w` of contracts/instantiate_data_domain.vc call the imported, contracted function under `requires pre` and
// must establish `ensures post`; Verus checks  pre ==> (imported requires)  and  (imported ensures) ==> post  on every run.
// ---------------------------------------------------------------------------

// ---- AbstractDomain::merge -------------------------------------------------------------------------------------
/// precondition of `AbstractDomain for IntervalDomain::merge` (= signed_merge_and_widen): both well-formed, same width <= 64 bit,
/// and the MACHINE-ARITHMETIC side conditions (8-byte values only): merged stride >= 2 ==> merge_span <= i64::MAX; both
/// widening delays <= i64::MAX
pub open spec fn inst_iv_merge_pre(a: IntervalDomain, b: IntervalDomain) -> bool {
    &&& a.inv() && b.inv() && a.w() == b.w() && a.w() <= 64
    &&& (ia_merge_stride(a.interval, b.interval) >= 2 ==> merge_span(a, b) <= i64::MAX)
    &&& a.widening_delay <= i64::MAX && b.widening_delay <= i64::MAX
}

pub open spec fn inst_iv_merge_post(a: IntervalDomain, b: IntervalDomain, r: IntervalDomain) -> bool {
    &&& r.inv() && r.w() == a.w()
    &&& (forall|v: Bitvector| #![trigger a.gamma(v)] #![trigger b.gamma(v)] #![trigger r.gamma(v)] a.gamma(v) || b.gamma(v) ==> r.gamma(v))
    &&& ((forall|v: Bitvector| b.gamma(v) ==> a.gamma(v)) ==> (forall|v: Bitvector| #[trigger] r.gamma(v) ==> a.gamma(v)))
    &&& ((forall|v: Bitvector| a.gamma(v) ==> b.gamma(v)) ==> (forall|v: Bitvector| #[trigger] r.gamma(v) ==> b.gamma(v)))
    // the widening delay of the result: not above both operands', or a length of the (widened) interval
    &&& (r.widening_delay <= inst_max_u64(a.widening_delay, b.widening_delay) || r.widening_delay < p2(a.w()))
}

pub open spec fn inst_max_u64(x: u64, y: u64) -> u64 { if x >= y { x } else { y } }

pub open spec fn inst_iv_merge_fn(a: IntervalDomain, b: IntervalDomain) -> IntervalDomain {
    choose|r: IntervalDomain| inst_iv_merge_pre(a, b) ==> inst_iv_merge_post(a, b, r)
}

// ---- AbstractDomain::is_top ------------------------------------------------------------------------------------
pub open spec fn inst_iv_is_top_pre(a: IntervalDomain) -> bool { a.inv() }
pub open spec fn inst_iv_is_top_post(a: IntervalDomain, r: bool) -> bool { r == a.interval.is_full() }
pub open spec fn inst_iv_is_top_fn(a: IntervalDomain) -> bool {
    choose|r: bool| inst_iv_is_top_pre(a) ==> inst_iv_is_top_post(a, r)
}

// ---- SizedDomain::bytesize / new_top -----------------------------------------------------------------------------
pub open spec fn inst_iv_bytesize_pre(a: IntervalDomain) -> bool { a.interval.start.wf() }
pub open spec fn inst_iv_bytesize_post(a: IntervalDomain, r: ByteSize) -> bool { r.0 == (a.w() + 7) / 8 }
pub open spec fn inst_iv_bytesize_fn(a: IntervalDomain) -> ByteSize {
    choose|r: ByteSize| inst_iv_bytesize_pre(a) ==> inst_iv_bytesize_post(a, r)
}

pub open spec fn inst_iv_new_top_pre(s: ByteSize) -> bool { 1 <= s.0 <= MAXBYTES() }
pub open spec fn inst_iv_new_top_post(s: ByteSize, r: IntervalDomain) -> bool {
    &&& r.inv() && r.interval.is_full() && r.w() == s.0 * 8
    &&& r.widening_lower_bound is None && r.widening_upper_bound is None && r.widening_delay == 0
    &&& forall|v: Bitvector| v.wf() && v.w@ == r.w() ==> #[trigger] r.gamma(v)
}
pub open spec fn inst_iv_new_top_fn(s: ByteSize) -> IntervalDomain {
    choose|r: IntervalDomain| inst_iv_new_top_pre(s) ==> inst_iv_new_top_post(s, r)
}

// ---- HasTop::top ---------------------------------------------------------------------------------------------------
pub open spec fn inst_iv_top_pre(a: IntervalDomain) -> bool { a.inv() }
pub open spec fn inst_iv_top_post(a: IntervalDomain, r: IntervalDomain) -> bool {
    &&& r.inv() && r.interval.is_full() && r.w() == a.w()
    &&& forall|v: Bitvector| v.wf() && v.w@ == r.w() ==> #[trigger] r.gamma(v)
}
pub open spec fn inst_iv_top_fn(a: IntervalDomain) -> IntervalDomain {
    choose|r: IntervalDomain| inst_iv_top_pre(a) ==> inst_iv_top_post(a, r)
}

// ---- SpecializeByConditional: the five add_*_bound -----------------------------------------------------------------
/// precondition shared by the five refinements: well-formed, the machine-arithmetic condition `narrow`
/// (stride >= 2 ==> end - start <= i64::MAX), bound of the same width, width <= 64 bit
pub open spec fn inst_iv_refine_pre(a: IntervalDomain, bound: Bitvector) -> bool {
    a.inv() && a.narrow() && bound.wf() && bound.w@ == a.w() && a.w() <= 64
}

/// postcondition of the refinement `cmp` (o = Some(r) for Ok(r), None for Err), comparison written with data_domain's dd_cmp_holds
pub open spec fn inst_iv_refine_post(cmp: DdCmp, a: IntervalDomain, bound: Bitvector, o: Option<IntervalDomain>) -> bool {
    match o {
        Some(r) => {
            &&& r.inv() && r.narrow() && r.w() == a.w()
            &&& (forall|v: Bitvector| #![trigger a.gamma(v)] #![trigger r.gamma(v)] a.gamma(v) && dd_cmp_holds(cmp, v, bound) ==> r.gamma(v))
            &&& (forall|v: Bitvector| #[trigger] r.gamma(v) ==> a.gamma(v))
        },
        None => forall|v: Bitvector| #[trigger] a.gamma(v) ==> !dd_cmp_holds(cmp, v, bound),
    }
}

pub open spec fn inst_iv_refine_fn(cmp: DdCmp, a: IntervalDomain, bound: Bitvector) -> Option<IntervalDomain> {
    choose|o: Option<IntervalDomain>| inst_iv_refine_pre(a, bound) ==> inst_iv_refine_post(cmp, a, bound, o)
}

/// Result -> Option (the Error payload is opaque)
pub open spec fn inst_ok<T>(r: Result<T, Error>) -> Option<T> {
    match r { Ok(x) => Some(x), Err(_) => None }
}

// ---- SpecializeByConditional::intersect ----------------------------------------------------------------------------
/// precondition of intersect: both well-formed, same width <= 64 bit; MACHINE ARITHMETIC (33..64 bit values with two non-zero
/// strides): the lcm of the strides fits into 64 bit
pub open spec fn inst_iv_intersect_pre(a: IntervalDomain, b: IntervalDomain) -> bool {
    &&& a.inv() && b.inv() && a.w() == b.w() && a.w() <= 64
    &&& (a.w() <= 32 || ii_lcm(a.interval.stride as int, b.interval.stride as int) <= u64::MAX)
}

pub open spec fn inst_iv_intersect_post(a: IntervalDomain, b: IntervalDomain, o: Option<IntervalDomain>) -> bool {
    match o {
        Some(r) => r.inv() && r.w() == a.w()
            && (forall|v: Bitvector| #![trigger a.gamma(v)] #![trigger r.gamma(v)] a.gamma(v) && b.gamma(v) ==> r.gamma(v))
            // the widening delay does not grow
            && r.widening_delay <= inst_max_u64(a.widening_delay, b.widening_delay),
        None => forall|v: Bitvector| !(a.gamma(v) && b.gamma(v)),
    }
}

pub open spec fn inst_iv_intersect_fn(a: IntervalDomain, b: IntervalDomain) -> Option<IntervalDomain> {
    choose|o: Option<IntervalDomain>| inst_iv_intersect_pre(a, b) ==> inst_iv_intersect_post(a, b, o)
}

// ---- SpecializeByConditional::without_widening_hints ---------------------------------------------------------------
/// no precondition (since the repair of finding M1 in unit interval_domain): the whole result for EVERY value
pub open spec fn inst_iv_unhint_pre(a: IntervalDomain) -> bool { true }
pub open spec fn inst_iv_unhint_post(a: IntervalDomain, r: IntervalDomain) -> bool {
    (a.inv() ==> r.inv()) && r.interval == a.interval && r.widening_lower_bound is None && r.widening_upper_bound is None && r.widening_delay == 0
}
pub open spec fn inst_iv_unhint_fn(a: IntervalDomain) -> IntervalDomain {
    choose|r: IntervalDomain| inst_iv_unhint_pre(a) ==> inst_iv_unhint_post(a, r)
}

// ---- helper values for the satisfiability proofs --------------------------------------------------------------------
/// the full interval of width w without widening hints
pub open spec fn inst_iv_full(w: nat) -> IntervalDomain {
    IntervalDomain {
        interval: Interval { start: bv(w, p2((w - 1) as nat)), end: bv(w, (p2((w - 1) as nat) - 1) as nat), stride: 1 },
        widening_upper_bound: None, widening_lower_bound: None, widening_delay: 0,
    }
}

// ---- the hypotheses of unit data_domain as they hold for T = IntervalDomain ------------------------------------------
/// every component of a pointer/value set is a well-formed interval value of width w
pub open spec fn inst_dd_all_inv(d: DataDomain<IntervalDomain>, w: nat) -> bool {
    &&& forall|id: AbstractIdentifier| #[trigger] d.relative_values@.contains_key(id) ==> d.relative_values@[id].inv() && d.relative_values@[id].w() == w
    &&& d.absolute_value is Some ==> d.absolute_value->Some_0.inv() && d.absolute_value->Some_0.w() == w
}

/// every component has a widening delay <= i64::MAX (machine arithmetic of the widening merge)
pub open spec fn inst_dd_delay_ok(d: DataDomain<IntervalDomain>) -> bool {
    &&& forall|id: AbstractIdentifier| #[trigger] d.relative_values@.contains_key(id) ==> d.relative_values@[id].widening_delay <= i64::MAX
    &&& d.absolute_value is Some ==> d.absolute_value->Some_0.widening_delay <= i64::MAX
}

/// C04 `intersect` precondition for Data in CONCRETE terms, for values of at most 4 bytes (ALL cases, incl. the mixed pointer/absolute
/// one): every component well-formed of one width <= 32 bit, every widening delay <= i64::MAX
pub open spec fn inst_data_isect_pre_small(a: DataDomain<IntervalDomain>, b: DataDomain<IntervalDomain>, w: nat) -> bool {
    &&& w <= 32
    &&& inst_dd_all_inv(a, w) && inst_dd_all_inv(b, w)
    &&& inst_dd_delay_ok(a) && inst_dd_delay_ok(b)
}

/// C03 precondition for `Data = DataDomain<IntervalDomain>` in CONCRETE terms, for values of at most 4 bytes: no
/// machine-arithmetic condition on the bounds is left (merge_span < 2^33), only the widening delays
pub open spec fn inst_data_merge_pre_small(a: DataDomain<IntervalDomain>, b: DataDomain<IntervalDomain>, w: nat) -> bool {
    &&& w <= 32
    &&& inst_dd_all_inv(a, w) && inst_dd_all_inv(b, w)
    &&& inst_dd_delay_ok(a) && inst_dd_delay_ok(b)
}
