// ---------------------------------------------------------------------------
// spec/bricks.rs -- the oracle of unit `bricks` (property C06, brick-sequence domain).
// Written from the module documentation of abstract_domain/bricks.rs, bricks/brick.rs and from Costantini, Ferrara,
// Cortesi, "Static Analysis of String Values" (ICFEM 2011), section "Bricks":
//   a brick [S]^{min,max} "represents all the strings that can be built through the concatenation of the strings of S,
//   taken between min and max times altogether" (brick.rs: [{"mo","de"}]^{1,2} = {mo, de, momo, dede, mode, demo});
//   a list of bricks represents "all the concatenations of the strings represented by its bricks", in order;
//   a Top brick is "the powerset over the alphabet ... with a minimum of 0 and a maximum of positive infinity" = every
//   string; the Top list represents every string.
// A concrete string is a `Seq<char>`; the members of a brick's `BTreeSet<String>` are read through vstd's view `s@`.
// ---------------------------------------------------------------------------

/// HYPOTHESIS of the unit: `Ord for String` is a lawful total order (vstd states the BTreeSet specifications of `len`,
/// `is_empty`, `iter`, `insert` under it).
pub open spec fn br_ord_ok() -> bool {
    vstd::laws_cmp::obeys_cmp::<String>()
}

/// u is (the view of) a member of the string set
pub open spec fn br_member(set: Set<String>, u: Seq<char>) -> bool {
    exists |s: String| #[trigger] set.contains(s) && s@ == u
}

/// the two sets have the same members, read as strings (what `==` on two BTreeSet<String> decides)
pub open spec fn br_set_same(a: Set<String>, b: Set<String>) -> bool {
    forall |u: Seq<char>| #![trigger br_member(a, u)] #![trigger br_member(b, u)] br_member(a, u) <==> br_member(b, u)
}

/// w is a concatenation of exactly k members of the set
pub open spec fn br_pow(set: Set<String>, k: nat, w: Seq<char>) -> bool
    decreases k
{
    if k == 0 {
        w =~= Seq::<char>::empty()
    } else {
        exists |u: Seq<char>, v: Seq<char>| #![trigger u + v]
            br_member(set, u) && br_pow(set, (k - 1) as nat, v) && w =~= u + v
    }
}

/// [set]^{min,max}: w is a concatenation of k members of the set for some min <= k <= max
pub open spec fn br_rep(set: Set<String>, min: nat, max: nat, w: Seq<char>) -> bool {
    exists |k: nat| min <= k <= max && #[trigger] br_pow(set, k, w)
}

impl Brick {
    /// the brick's bounds are an interval
    pub open spec fn br_wf(&self) -> bool { self.min <= self.max }

    /// THE CONCRETISATION of a single brick
    pub open spec fn br_gamma(&self, w: Seq<char>) -> bool {
        br_rep(self.sequence@, self.min as nat, self.max as nat, w)
    }

    /// what derive(Clone) yields: the same set, the same bounds
    pub open spec fn br_copy(&self, other: &Brick) -> bool {
        self.sequence@ == other.sequence@ && self.min == other.min && self.max == other.max
    }

    /// same set of strings, same bounds (what derive(PartialEq) decides)
    pub open spec fn br_same(&self, other: &Brick) -> bool {
        br_set_same(self.sequence@, other.sequence@) && self.min == other.min && self.max == other.max
    }
}

impl BrickDomain {
    pub open spec fn br_wf(&self) -> bool {
        match *self { BrickDomain::Top => true, BrickDomain::Value(b) => b.br_wf() }
    }

    /// THE CONCRETISATION of a brick value: Top = every string
    pub open spec fn br_gamma(&self, w: Seq<char>) -> bool {
        match *self { BrickDomain::Top => true, BrickDomain::Value(b) => b.br_gamma(w) }
    }

    pub open spec fn br_copy(&self, other: &BrickDomain) -> bool {
        match (*self, *other) {
            (BrickDomain::Top, BrickDomain::Top) => true,
            (BrickDomain::Value(a), BrickDomain::Value(b)) => a.br_copy(&b),
            _ => false,
        }
    }

    pub open spec fn br_same(&self, other: &BrickDomain) -> bool {
        match (*self, *other) {
            (BrickDomain::Top, BrickDomain::Top) => true,
            (BrickDomain::Value(a), BrickDomain::Value(b)) => a.br_same(&b),
            _ => false,
        }
    }
}

/// a list of bricks: w is a concatenation of one member of each brick, in order (peeled from the end: the code builds
/// its lists with `push`)
pub open spec fn br_list_gamma(l: Seq<BrickDomain>, w: Seq<char>) -> bool
    decreases l.len()
{
    if l.len() == 0 {
        w =~= Seq::<char>::empty()
    } else {
        exists |u: Seq<char>, v: Seq<char>| #![trigger u + v]
            br_list_gamma(l.drop_last(), u) && l.last().br_gamma(v) && w =~= u + v
    }
}

pub open spec fn br_list_wf(l: Seq<BrickDomain>) -> bool {
    forall |i: int| 0 <= i < l.len() ==> (#[trigger] l[i]).br_wf()
}

pub open spec fn br_list_copy(a: Seq<BrickDomain>, b: Seq<BrickDomain>) -> bool {
    a.len() == b.len() && forall |i: int| 0 <= i < a.len() ==> (#[trigger] a[i]).br_copy(&b[i])
}

pub open spec fn br_list_same(a: Seq<BrickDomain>, b: Seq<BrickDomain>) -> bool {
    a.len() == b.len() && forall |i: int| 0 <= i < a.len() ==> (#[trigger] a[i]).br_same(&b[i])
}

impl BricksDomain {
    pub open spec fn br_wf(&self) -> bool {
        match *self { BricksDomain::Top => true, BricksDomain::Value(l) => br_list_wf(l@) }
    }

    /// THE CONCRETISATION of a brick-sequence value: Top = every string
    pub open spec fn br_gamma(&self, w: Seq<char>) -> bool {
        match *self { BricksDomain::Top => true, BricksDomain::Value(l) => br_list_gamma(l@, w) }
    }

    pub open spec fn br_copy(&self, other: &BricksDomain) -> bool {
        match (*self, *other) {
            (BricksDomain::Top, BricksDomain::Top) => true,
            (BricksDomain::Value(a), BricksDomain::Value(b)) => br_list_copy(a@, b@),
            _ => false,
        }
    }

    pub open spec fn br_same(&self, other: &BricksDomain) -> bool {
        match (*self, *other) {
            (BricksDomain::Top, BricksDomain::Top) => true,
            (BricksDomain::Value(a), BricksDomain::Value(b)) => br_list_same(a@, b@),
            _ => false,
        }
    }

    /// the list of a non-Top value
    pub open spec fn br_list(&self) -> Seq<BrickDomain> {
        match *self { BricksDomain::Top => Seq::empty(), BricksDomain::Value(l) => l@ }
    }
}

// ---------------- generate_permutations_of_fixed_length ---------------------------------------------------------------------

/// x is (the view of) an element of the vector of strings
pub open spec fn br_in_vec(v: Seq<String>, x: Seq<char>) -> bool {
    exists |i: int| 0 <= i < v.len() && (#[trigger] v[i])@ == x
}

/// the prefixes a round of generate_permutations extends: the strings generated so far, or just the empty prefix when
/// there are none (`generated.is_empty()`)
pub open spec fn br_prefix(generated: Seq<String>, g: Seq<char>) -> bool {
    if generated.len() == 0 { g =~= Seq::<char>::empty() } else { br_in_vec(generated, g) }
}

/// number of members appended by generate_permutations(max_length, .., current_length), this round included
pub open spec fn br_gen_n(max_length: usize, current_length: usize) -> nat {
    if current_length < max_length { (max_length - current_length + 1) as nat } else { 1 }
}

/// x = g + y for a prefix g and a concatenation y of exactly n members of the set
pub open spec fn br_gen_spec(set: Set<String>, generated: Seq<String>, n: nat, x: Seq<char>) -> bool {
    exists |g: Seq<char>, y: Seq<char>| #![trigger g + y] br_prefix(generated, g) && br_pow(set, n, y) && x =~= g + y
}

/// what vstd knows about the ghost sequence of `set.iter()`, completed by lemma_br_iter_complete: exactly the members
pub open spec fn br_iter_of(s: Seq<&String>, set: Set<String>) -> bool {
    &&& forall |i: int| 0 <= i < s.len() ==> set.contains(*#[trigger] s[i])
    &&& forall |k: String| set.contains(k) ==> exists |i: int| 0 <= i < s.len() && *#[trigger] s[i] == k
}

/// the strings pushed by the completed rounds of the outer loop: prefix + member, for the first `oi` members
pub open spec fn br_gen_partial(members: Seq<&String>, oi: int, generated: Seq<String>, x: Seq<char>) -> bool {
    exists |j: int, g: Seq<char>| #![trigger g + members[j]@] 0 <= j < oi && br_prefix(generated, g) && x =~= g + members[j]@
}

/// the strings pushed by the inner loop so far: one of the first `ii` generated strings + the current member
pub open spec fn br_gen_row(s: Seq<char>, generated: Seq<String>, ii: int, x: Seq<char>) -> bool {
    exists |k: int| 0 <= k < ii && x =~= (#[trigger] generated[k])@ + s
}

/// w is a concatenation of a member of the first brick with a member of the second: what the two-brick list [x, y] represents
pub open spec fn br_cat2(x: Brick, y: Brick, w: Seq<char>) -> bool {
    exists |u: Seq<char>, v: Seq<char>| #![trigger u + v] x.br_gamma(u) && y.br_gamma(v) && w =~= u + v
}

// ---------------- normalize ---------------------------------------------------------------------------------------------------

/// TERMINATION MEASURE of normalize.  A brick is in normal form when it is Top, [S]^{1,1} or [S]^{0,max}; a brick that is not
/// weighs 3, every other brick 1.  Rules 3 and 5 turn one brick that is not in normal form into one resp. two that are
/// (3 -> 1, 3 -> 1 + 1), rules 1, 2 and 4 remove one brick and leave only normal-form bricks in its place (1 -> 0, 1 + 1 -> 1).
pub open spec fn br_weight(b: BrickDomain) -> nat {
    match b {
        BrickDomain::Top => 1,
        BrickDomain::Value(x) => if (x.min == 1 && x.max == 1) || x.min == 0 { 1 } else { 3 },
    }
}

/// sum of the weights of the bricks of a list: every rule application of normalize decreases it
pub open spec fn br_measure(l: Seq<BrickDomain>) -> nat
    decreases l.len()
{
    if l.len() == 0 { 0 } else { br_measure(l.drop_last()) + br_weight(l.last()) }
}

/// the two lists represent the same strings
pub open spec fn br_list_equiv(a: Seq<BrickDomain>, b: Seq<BrickDomain>) -> bool {
    forall |w: Seq<char>| #![trigger br_list_gamma(a, w)] #![trigger br_list_gamma(b, w)] br_list_gamma(a, w) <==> br_list_gamma(b, w)
}

/// w = u + v for a member u of the first set and a member v of the second (cartesian product, concatenated)
pub open spec fn br_product(a: Set<String>, b: Set<String>, w: Seq<char>) -> bool {
    exists |u: Seq<char>, v: Seq<char>| #![trigger u + v] br_member(a, u) && br_member(b, v) && w =~= u + v
}

// ---------------- merge_bricks_with_bound_one -----------------------------------------------------------------------------------

/// what `a.iter().cartesian_product(b.iter()).collect_vec()` holds (contract of shim verif_br_cartesian_product): every entry is a
/// pair (element of a, element of b), and every such pair occurs
pub open spec fn br_cart_of(p: Seq<(&String, &String)>, a: Set<String>, b: Set<String>) -> bool {
    &&& forall |i: int| 0 <= i < p.len() ==> a.contains(*(#[trigger] p[i]).0) && b.contains(*p[i].1)
    &&& forall |x: String, y: String| #![trigger a.contains(x), b.contains(y)] a.contains(x) && b.contains(y)
            ==> exists |i: int| 0 <= i < p.len() && *(#[trigger] p[i]).0 == x && *p[i].1 == y
}

/// the strings inserted by the first n rounds of the loop of merge_bricks_with_bound_one: first + second component of a pair
pub open spec fn br_prod_partial(p: Seq<(&String, &String)>, n: int, z: Seq<char>) -> bool {
    exists |k: int| 0 <= k < n && z =~= (#[trigger] p[k]).0@ + p[k].1@
}
