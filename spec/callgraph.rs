// ---------------------------------------------------------------------------
// spec/callgraph.rs -- specification vocabulary of unit `callgraph` (property C24).
// Written from the property statement: "exactly those direct calls [...] that lie on some call-graph
// path from the source function to the target function".  Nothing here is trusted: definitions only.
// A call graph is seen as its edge sequence (edge e goes from cg_src(e) to cg_tgt(e), carries the call
// term whose tid is cg_tid(e)).
// ---------------------------------------------------------------------------

pub open spec fn cg_valid<N, E>(g: DiGraph<N, E>, e: int) -> bool { 0 <= e < g.edge_seq().len() }
pub open spec fn cg_src<N, E>(g: DiGraph<N, E>, e: int) -> NodeIndex { g.edge_seq()[e].0 }
pub open spec fn cg_tgt<N, E>(g: DiGraph<N, E>, e: int) -> NodeIndex { g.edge_seq()[e].1 }

/// `p` (a sequence of edge indices) is a path from node `a` to node `b`: all edges exist, consecutive edges
/// are joined head to tail, the first edge leaves `a`, the last one enters `b`.  The empty path leads from
/// a node to itself.
pub open spec fn cg_path<N, E>(g: DiGraph<N, E>, p: Seq<int>, a: NodeIndex, b: NodeIndex) -> bool {
    &&& forall |k: int| 0 <= k < p.len() ==> cg_valid(g, #[trigger] p[k])
    &&& forall |i: int, j: int| 0 <= i && j == i + 1 && j < p.len() ==> cg_tgt(g, #[trigger] p[i]) == cg_src(g, #[trigger] p[j])
    &&& if p.len() == 0 { a == b } else { cg_src(g, p[0]) == a && cg_tgt(g, p[p.len() - 1]) == b }
}

/// reflexive-transitive closure of the edge relation
pub open spec fn cg_reach<N, E>(g: DiGraph<N, E>, a: NodeIndex, b: NodeIndex) -> bool {
    exists |p: Seq<int>| cg_path(g, p, a, b)
}

/// THE PROPERTY'S WORDS: edge `e` lies on some call-graph path from `s` to `t`.
pub open spec fn cg_on_path<N, E>(g: DiGraph<N, E>, s: NodeIndex, t: NodeIndex, e: int) -> bool {
    exists |p: Seq<int>| cg_path(g, p, s, t) && p.contains(e)
}

/// the same, split at the edge (equivalent: lemma_cg_on_path_iff)
pub open spec fn cg_between<N, E>(g: DiGraph<N, E>, s: NodeIndex, t: NodeIndex, e: int) -> bool {
    cg_valid(g, e) && cg_reach(g, s, cg_src(g, e)) && cg_reach(g, cg_tgt(g, e), t)
}

/// the call tid carried by edge `e` of a call graph
pub open spec fn cg_tid<'a, N>(g: DiGraph<N, &'a Term<Jmp>>, e: int) -> Tid { g.edge_weight(e).tid }

/// THE POSTCONDITION OF C24: `r` is exactly the set of the tids of the calls (edges) that lie on some call-graph
/// path from `s` to `t`.
pub open spec fn cg_result_ok<'a, N>(g: DiGraph<N, &'a Term<Jmp>>, s: NodeIndex, t: NodeIndex, r: Set<Tid>) -> bool {
    forall |x: Tid| #[trigger] r.contains(x) <==> exists |e: int| #[trigger] cg_on_path(g, s, t, e) && x == cg_tid(g, e)
}

/// Reachability in the direction of a search: forward from `root` (Outgoing) or backward to `root` (Incoming).
pub open spec fn cg_dreach<N, E>(g: DiGraph<N, E>, d: petgraph::Direction, root: NodeIndex, n: NodeIndex) -> bool {
    match d {
        petgraph::Direction::Outgoing => cg_reach(g, root, n),
        petgraph::Direction::Incoming => cg_reach(g, n, root),
    }
}

// ---- invariants of the two depth-first searches (direction `d`, start node `root`) -----------------------

/// everything found so far is reachable: visited nodes and stack entries
pub open spec fn cg_dfs_sound<N, E>(g: DiGraph<N, E>, d: petgraph::Direction, root: NodeIndex, vis: Set<NodeIndex>, stack: Seq<NodeIndex>) -> bool {
    &&& forall |n: NodeIndex| #[trigger] vis.contains(n) ==> cg_dreach(g, d, root, n)
    &&& forall |k: int| 0 <= k < stack.len() ==> cg_dreach(g, d, root, #[trigger] stack[k])
}

/// nothing is lost: the root is visited or pending, and the neighbours of every visited node other than
/// `except` are visited or pending
pub open spec fn cg_dfs_complete<N, E>(g: DiGraph<N, E>, d: petgraph::Direction, root: NodeIndex, vis: Set<NodeIndex>, stack: Seq<NodeIndex>, except: Option<NodeIndex>) -> bool {
    &&& vis.contains(root) || stack.contains(root)
    &&& forall |e: int| cg_valid(g, e) && vis.contains(#[trigger] cg_near(g, d, e)) && Some(cg_near(g, d, e)) != except
            ==> vis.contains(cg_far(g, d, e)) || stack.contains(cg_far(g, d, e))
}

/// the edge with index `e` is among the first `idx` references of `r`
pub open spec fn cg_has_edge_upto(r: Seq<EdgeReference>, idx: int, e: int) -> bool {
    exists |k: int| 0 <= k < idx && k < r.len() && (#[trigger] r[k]).e.i == e
}

/// the collected edges are exactly the edges at visited nodes -- for the node `cur` being expanded only those
/// among the first `idx` entries of `refs`
pub open spec fn cg_dfs_edges<N, E>(g: DiGraph<N, E>, d: petgraph::Direction, vis: Set<NodeIndex>, edges: Set<EdgeIndex>,
                                    cur: Option<NodeIndex>, refs: Seq<EdgeReference>, idx: int) -> bool {
    forall |ei: EdgeIndex| #[trigger] edges.contains(ei) <==>
        cg_valid(g, ei.i as int) && vis.contains(cg_near(g, d, ei.i as int))
        && (Some(cg_near(g, d, ei.i as int)) == cur ==> cg_has_edge_upto(refs, idx, ei.i as int))
}

/// invariant at the head of the `while let Some(node) = stack.pop()` loops
pub open spec fn cg_dfs_inv<N, E>(g: DiGraph<N, E>, d: petgraph::Direction, root: NodeIndex, vis: Set<NodeIndex>, stack: Seq<NodeIndex>, edges: Set<EdgeIndex>) -> bool {
    &&& cg_dfs_sound(g, d, root, vis, stack)
    &&& cg_dfs_complete(g, d, root, vis, stack, None)
    &&& cg_dfs_edges(g, d, vis, edges, None, Seq::empty(), 0)
}

/// what a finished search has computed: the visited nodes are exactly the reachable ones, the collected edges
/// exactly the edges whose near end is reachable
pub open spec fn cg_dfs_done<N, E>(g: DiGraph<N, E>, d: petgraph::Direction, root: NodeIndex, vis: Set<NodeIndex>, edges: Set<EdgeIndex>) -> bool {
    &&& forall |n: NodeIndex| #[trigger] vis.contains(n) <==> cg_dreach(g, d, root, n)
    &&& forall |ei: EdgeIndex| #[trigger] edges.contains(ei) <==> cg_valid(g, ei.i as int) && cg_dreach(g, d, root, cg_near(g, d, ei.i as int))
}

// ---- termination measure ------------------------------------------------------------------------------------

/// the node indices 0 .. n-1
pub open spec fn cg_nodes(n: nat) -> Set<NodeIndex>
    decreases n
{
    if n == 0 { Set::<NodeIndex>::empty() } else { cg_nodes((n - 1) as nat).insert(NodeIndex { i: (n - 1) as usize }) }
}

/// every node a search started at `root` can ever meet: the nodes of the graph and `root` itself
/// (`root` need not be a node of the graph: the searches then stop after one step)
pub open spec fn cg_universe<N, E>(g: DiGraph<N, E>, root: NodeIndex) -> Set<NodeIndex> {
    cg_nodes(g.node_count_spec()).insert(root)
}

/// first component of the measure of the `while let Some(node) = stack.pop()` loops: nodes not yet visited
/// (second component: the stack length)
pub open spec fn cg_unvisited<N, E>(g: DiGraph<N, E>, root: NodeIndex, vis: Set<NodeIndex>) -> nat {
    cg_universe(g, root).difference(vis).len()
}

/// all pending nodes are nodes the measure counts
pub open spec fn cg_stack_in_universe<N, E>(g: DiGraph<N, E>, root: NodeIndex, stack: Seq<NodeIndex>) -> bool {
    forall |k: int| 0 <= k < stack.len() ==> cg_universe(g, root).contains(#[trigger] stack[k])
}

// ---- the final step: the tids of the edges in both edge sets -----------------------------------------------------

/// `r` is the set of the tids of the edges in both `a` and `b`  (what the final chain
/// `A.iter().filter_map(|edge| if B.contains(edge) { Some(G[*edge].tid.clone()) } else { None }).collect()` must compute;
/// PROVED for the loop that evaluates the closure body per element: lemma_cg_collected_common)
pub open spec fn cg_common_tids<'a, N>(g: DiGraph<N, &'a Term<Jmp>>, a: Set<EdgeIndex>, b: Set<EdgeIndex>, r: Set<Tid>) -> bool {
    forall |t: Tid| #[trigger] r.contains(t) <==>
        exists |e: EdgeIndex| a.contains(e) && b.contains(e) && t == (#[trigger] g.edge_weight(e.i as int)).tid
}

/// what the closure of the final chain must return for the element `e` of the iterated set: the tid of `e` when `e` is an
/// edge of both sets, nothing otherwise.  (Symmetric in `a` and `b`.)
pub open spec fn cg_keep<'a, N>(g: DiGraph<N, &'a Term<Jmp>>, a: Set<EdgeIndex>, b: Set<EdgeIndex>, e: EdgeIndex) -> Option<Tid> {
    if a.contains(e) && b.contains(e) { Some(g.edge_weight(e.i as int).tid) } else { None }
}

/// entry `k` of the iteration `it` is an edge of both sets and carries the tid `t`
pub open spec fn cg_hit<'a, N>(g: DiGraph<N, &'a Term<Jmp>>, it: Seq<&EdgeIndex>, k: int, a: Set<EdgeIndex>, b: Set<EdgeIndex>, t: Tid) -> bool {
    0 <= k < it.len() && a.contains(*it[k]) && b.contains(*it[k]) && t == g.edge_weight((*it[k]).i as int).tid
}

/// invariant of the collecting loop: after the first `idx` entries of `it`, `r` holds exactly the tids of those
/// entries that are edges of both sets.  (Symmetric in `a` and `b`: it does not say which set is iterated.)
pub open spec fn cg_collected<'a, N>(g: DiGraph<N, &'a Term<Jmp>>, it: Seq<&EdgeIndex>, idx: int, a: Set<EdgeIndex>, b: Set<EdgeIndex>, r: Set<Tid>) -> bool {
    forall |t: Tid| #[trigger] r.contains(t) <==> exists |k: int| k < idx && #[trigger] cg_hit(g, it, k, a, b, t)
}

/// the iterated set `s` is one that contains every edge of both `a` and `b` (true for `a` and for `b`)
pub open spec fn cg_covers(s: Set<EdgeIndex>, a: Set<EdgeIndex>, b: Set<EdgeIndex>) -> bool {
    forall |e: EdgeIndex| a.contains(e) && b.contains(e) ==> #[trigger] s.contains(e)
}

// ---- the node lookup of the public wrapper ------------------------------------------------------------------------

/// `r` is the first node of `g` (in index order) whose weight is `w`.
pub open spec fn cg_first_node_with<N, E>(g: DiGraph<N, E>, w: N, r: NodeIndex) -> bool {
    &&& r.i < g.node_count_spec()
    &&& g.node_weight(r.i as int) == w
    &&& forall |j: int| 0 <= j < r.i ==> #[trigger] g.node_weight(j) != w
}
