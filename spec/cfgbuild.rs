// ---------------------------------------------------------------------------
// spec/cfgbuild.rs -- specification vocabulary of unit `cfgbuild` (property C08: the interprocedural control flow graph
// represents exactly the program's control flow).  Nothing here is trusted: definitions only (cfg_find_block is an
// uninterpreted function that only the @nobody contract of Program::find_block speaks about).
//
// The builder is seen through an abstract state CfgSt (cfg_abs): the node weights in index order, the edges in index order
// as (source, target, weight), and the views of the four bookkeeping collections.  Every builder step is specified as a
// FUNCTION on that state which names the WHOLE change: "nodes + [exactly these]", "edges + [exactly these]", maps that
// change; everything else is equal (frame).  The clauses of the property are the cases of cfg_jump_edge / cfg_outgoing /
// cfg_call_return.
// ---------------------------------------------------------------------------

/// one edge of the graph: source node, target node, label
pub ghost struct CfgEdge<'a> { pub src: NodeIndex, pub dst: NodeIndex, pub w: Edge<'a> }

/// the builder, abstractly
pub ghost struct CfgSt<'a> {
    /// node weights, position = NodeIndex
    pub nodes: Seq<Node<'a>>,
    /// edges, position = EdgeIndex
    pub edges: Seq<CfgEdge<'a>>,
    /// jump_targets: (block tid, sub tid) -> (BlkStart node, BlkEnd node)
    pub jt: Map<(Tid, Tid), (NodeIndex, NodeIndex)>,
    /// call_targets: sub tid -> (BlkStart node, BlkEnd node) of its first block
    pub ct: Map<Tid, (NodeIndex, NodeIndex)>,
    /// return_addresses: callee tid -> list of (CallSource node, return-to node)
    pub ra: Map<Tid, Seq<(NodeIndex, NodeIndex)>>,
    /// block_worklist
    pub wl: Seq<NodeIndex>,
}

pub open spec fn cfg_ni(n: int) -> NodeIndex { NodeIndex { i: n as usize } }

/// HYPOTHESES on the key types under which vstd states its specifications of std's HashMap / HashSet / BTreeMap
/// (cf. cgb_key_hyp): derived Hash / Eq of `Tid` and of the pair `(Tid, Tid)` are consistent and deterministic,
/// derived Ord of `Tid` is a lawful total order.
pub open spec fn cfg_key_hyp() -> bool {
    &&& vstd::std_specs::hash::obeys_key_model::<Tid>()
    &&& vstd::std_specs::hash::obeys_key_model::<(Tid, Tid)>()
    &&& vstd::laws_cmp::obeys_cmp::<Tid>()
}

// ---- the program ------------------------------------------------------------------------------------------------------

/// `b` is a block of the program: block number `i` of the function stored under `k`
pub open spec fn cfg_block_at(subs: Map<Tid, Term<Sub>>, k: Tid, i: int, b: Term<Blk>) -> bool {
    subs.contains_key(k) && 0 <= i < subs[k].term.blocks@.len() && subs[k].term.blocks@[i] == b
}

/// some block of the program has this tid
pub open spec fn cfg_has_block(subs: Map<Tid, Term<Sub>>, tid: Tid) -> bool {
    exists |k: Tid, i: int| #[trigger] cfg_block_at(subs, k, i, subs[k].term.blocks@[i]) && subs[k].term.blocks@[i].tid == tid
}

/// The value of `Program::find_block(tid)` (a deterministic function of the program and the tid).  Uninterpreted; the
/// @nobody contract of find_block says: the call returns this value, it is `Some` iff a block with the tid exists, and
/// then it is a block of the program with that tid.
pub uninterp spec fn cfg_find_block<'a>(subs: Map<Tid, Term<Sub>>, tid: Tid) -> Option<&'a Term<Blk>>;

pub open spec fn cfg_find_block_ok<'a>(subs: Map<Tid, Term<Sub>>, tid: Tid, r: Option<&'a Term<Blk>>) -> bool {
    &&& r is Some <==> cfg_has_block(subs, tid)
    &&& r is Some ==> r->Some_0.tid == tid && exists |k: Tid, i: int| #[trigger] cfg_block_at(subs, k, i, *r->Some_0)
}

// ---- nodes -------------------------------------------------------------------------------------------------------------

/// the block a BlkStart / BlkEnd node stands for (call site block for the artificial nodes)
pub open spec fn cfg_blk<'a>(n: Node<'a>) -> &'a Term<Blk> {
    match n {
        Node::BlkStart(b, f) => b,
        Node::BlkEnd(b, f) => b,
        Node::CallReturn { call, return_ } => call.0,
        Node::CallSource { source, target } => source.0,
    }
}

/// the function a BlkStart / BlkEnd node belongs to
pub open spec fn cfg_sub<'a>(n: Node<'a>) -> &'a Term<Sub> {
    match n {
        Node::BlkStart(b, f) => f,
        Node::BlkEnd(b, f) => f,
        Node::CallReturn { call, return_ } => call.1,
        Node::CallSource { source, target } => source.1,
    }
}

/// the block has a direct call among its jumps
pub open spec fn cfg_has_call(b: Term<Blk>) -> bool {
    exists |j: int| 0 <= j < b.term.jmps@.len() && (#[trigger] b.term.jmps@[j]).term is Call
}

/// `j` is the position of the first direct call in the jump list
pub open spec fn cfg_first_call(jmps: Seq<Term<Jmp>>, j: int) -> bool {
    &&& 0 <= j < jmps.len()
    &&& jmps[j].term is Call
    &&& forall |i: int| 0 <= i < j ==> !((#[trigger] jmps[i]).term is Call)
}

// ---- the steps of the builder as functions on the abstract state --------------------------------------------------------

/// add_block: two nodes BlkStart(b, f), BlkEnd(b, f), ONE edge start -> end labelled Block, the pair registered under
/// (b.tid, f.tid), the end node on the worklist.  Nothing else changes.
pub open spec fn cfg_add_block<'a>(st: CfgSt<'a>, b: &'a Term<Blk>, f: &'a Term<Sub>) -> CfgSt<'a> {
    let n = st.nodes.len() as int;
    CfgSt {
        nodes: st.nodes.push(Node::BlkStart(b, f)).push(Node::BlkEnd(b, f)),
        edges: st.edges.push(CfgEdge { src: cfg_ni(n), dst: cfg_ni(n + 1), w: Edge::Block }),
        jt: st.jt.insert((b.tid, f.tid), (cfg_ni(n), cfg_ni(n + 1))),
        wl: st.wl.push(cfg_ni(n + 1)),
        ..st
    }
}

/// the BlkStart node of (block `tid`, function `f`), created first iff the pair was not registered (the block is the one
/// `find_block` finds): the shared first half of an intraprocedural jump and of a call that returns
pub open spec fn cfg_ensure<'a>(st: CfgSt<'a>, subs: Map<Tid, Term<Sub>>, tid: Tid, f: &'a Term<Sub>) -> (CfgSt<'a>, NodeIndex) {
    if st.jt.contains_key((tid, f.tid)) {
        (st, st.jt[(tid, f.tid)].0)
    } else {
        (cfg_add_block(st, cfg_find_block(subs, tid)->Some_0, f), cfg_ni(st.nodes.len() as int))
    }
}

/// one more edge
pub open spec fn cfg_edge<'a>(st: CfgSt<'a>, src: NodeIndex, dst: NodeIndex, w: Edge<'a>) -> CfgSt<'a> {
    CfgSt { edges: st.edges.push(CfgEdge { src, dst, w }), ..st }
}

/// one more node
pub open spec fn cfg_node<'a>(st: CfgSt<'a>, w: Node<'a>) -> CfgSt<'a> {
    CfgSt { nodes: st.nodes.push(w), ..st }
}

// ---- abstraction -------------------------------------------------------------------------------------------------------

pub open spec fn cfg_nodes<'a>(g: Graph<'a>) -> Seq<Node<'a>> {
    Seq::new(g.node_count_spec(), |i: int| g.node_weight(i))
}

pub open spec fn cfg_edges<'a>(g: Graph<'a>) -> Seq<CfgEdge<'a>> {
    Seq::new(g.edge_seq().len(), |i: int| CfgEdge { src: g.edge_seq()[i].0, dst: g.edge_seq()[i].1, w: g.edge_weight(i) })
}

pub open spec fn cfg_ra(m: Map<Tid, Vec<(NodeIndex, NodeIndex)>>) -> Map<Tid, Seq<(NodeIndex, NodeIndex)>> {
    m.map_values(|v: Vec<(NodeIndex, NodeIndex)>| v@)
}

/// the abstract state, over the components of the builder (a statement that changes one field visibly keeps the others)
pub open spec fn cfg_abs_c<'a>(graph: Graph<'a>, jt: Map<(Tid, Tid), (NodeIndex, NodeIndex)>, ct: Map<Tid, (NodeIndex, NodeIndex)>,
                               ra: Map<Tid, Vec<(NodeIndex, NodeIndex)>>, wl: Seq<NodeIndex>) -> CfgSt<'a> {
    CfgSt { nodes: cfg_nodes(graph), edges: cfg_edges(graph), jt, ct, ra: cfg_ra(ra), wl }
}

#[verifier::inline]
pub open spec fn cfg_abs<'a>(b: GraphBuilder<'a>) -> CfgSt<'a> {
    cfg_abs_c(b.graph, b.jump_targets@, b.call_targets@, b.return_addresses@, b.block_worklist@)
}

pub open spec fn cfg_empty<'a>() -> CfgSt<'a> {
    CfgSt { nodes: Seq::empty(), edges: Seq::empty(), jt: Map::empty(), ct: Map::empty(), ra: Map::empty(), wl: Seq::empty() }
}

/// what no builder step changes: the program and the set of extern symbols
#[verifier::inline]
pub open spec fn cfg_frame<'a>(b0: GraphBuilder<'a>, b1: GraphBuilder<'a>) -> bool {
    b1.program == b0.program && b1.extern_subs == b0.extern_subs
}

/// equality of abstract states, field by field and extensionally (== by lemma_cfg_st_eq)
pub open spec fn cfg_st_eq<'a>(a: CfgSt<'a>, b: CfgSt<'a>) -> bool {
    &&& a.nodes =~= b.nodes
    &&& a.edges =~= b.edges
    &&& a.jt =~= b.jt
    &&& a.ct =~= b.ct
    &&& a.ra =~~= b.ra
    &&& a.wl =~= b.wl
}

// ---- jumps ------------------------------------------------------------------------------------------------------------

/// add_intraprocedural_edge: ONE edge source -> BlkStart of (block `tid`, function of `source`) labelled
/// Jump(jump, untaken_conditional); the target pair is created first iff it was not registered
pub open spec fn cfg_intra<'a>(st: CfgSt<'a>, subs: Map<Tid, Term<Sub>>, source: NodeIndex, tid: Tid,
                               jump: &'a Term<Jmp>, uc: Option<&'a Term<Jmp>>) -> CfgSt<'a> {
    let f = cfg_sub(st.nodes[source.i as int]);
    let (st1, t) = cfg_ensure(st, subs, tid, f);
    cfg_edge(st1, source, t, Edge::Jump(jump, uc))
}

/// add_indirect_jumps, after the first `n` target hints: one such edge per hint, in order
pub open spec fn cfg_indirect_n<'a>(st: CfgSt<'a>, subs: Map<Tid, Term<Sub>>, source: NodeIndex, jump: &'a Term<Jmp>,
                                    uc: Option<&'a Term<Jmp>>, targets: Seq<Tid>, n: int) -> CfgSt<'a>
    decreases n
{
    if n <= 0 { st } else { cfg_intra(cfg_indirect_n(st, subs, source, jump, uc, targets, n - 1), subs, source, targets[n - 1], jump, uc) }
}

/// a call that may return to block `return_`: the return site's BlkStart node (pair created first iff not registered)
pub open spec fn cfg_return_site<'a>(st: CfgSt<'a>, subs: Map<Tid, Term<Sub>>, source: NodeIndex, return_: Option<Tid>) -> (CfgSt<'a>, Option<NodeIndex>) {
    match return_ {
        Some(rt) => { let (s1, rn) = cfg_ensure(st, subs, rt, cfg_sub(st.nodes[source.i as int])); (s1, Some(rn)) },
        None => (st, None),
    }
}

/// one more registered return address for callee `target`
pub open spec fn cfg_ra_push(ra: Map<Tid, Seq<(NodeIndex, NodeIndex)>>, target: Tid, v: (NodeIndex, NodeIndex)) -> Map<Tid, Seq<(NodeIndex, NodeIndex)>> {
    ra.insert(target, (if ra.contains_key(target) { ra[target] } else { Seq::empty() }).push(v))
}

/// direct call `jump` = Call { target, return_ } at the BlkEnd node `source`:
///   extern symbol:       ONE ExternCallStub edge source -> return site iff there is a return target, else nothing
///   registered function: a NEW CallSource node cs, CallCombine source -> cs, Call cs -> callee entry, and the return address
///                        (cs, return site) registered for the callee iff there is a return target
///   unknown target:      no edge
/// (in every case the return site pair is created first iff there is a return target and it was not registered)
pub open spec fn cfg_call<'a>(st: CfgSt<'a>, subs: Map<Tid, Term<Sub>>, ext: Set<Tid>, source: NodeIndex, jump: &'a Term<Jmp>,
                              target: Tid, return_: Option<Tid>) -> CfgSt<'a> {
    let b = cfg_blk(st.nodes[source.i as int]);
    let f = cfg_sub(st.nodes[source.i as int]);
    let (st1, rn_opt) = cfg_return_site(st, subs, source, return_);
    if ext.contains(target) {
        match rn_opt {
            Some(rn) => cfg_edge(st1, source, rn, Edge::ExternCallStub(jump)),
            None => st1,
        }
    } else if st1.ct.contains_key(target) {
        let tn = st1.ct[target].0;
        let cs = cfg_ni(st1.nodes.len() as int);
        let st2 = cfg_node(st1, Node::CallSource { source: (b, f), target: (cfg_blk(st1.nodes[tn.i as int]), cfg_sub(st1.nodes[tn.i as int])) });
        let st3 = cfg_edge(cfg_edge(st2, source, cs, Edge::CallCombine(jump)), cs, tn, Edge::Call(jump));
        match rn_opt {
            Some(rn) => CfgSt { ra: cfg_ra_push(st3.ra, target, (cs, rn)), ..st3 },
            None => st3,
        }
    } else {
        st1
    }
}

/// indirect call: ONE ExternCallStub edge source -> return site iff there is a return target, else nothing
pub open spec fn cfg_callind<'a>(st: CfgSt<'a>, subs: Map<Tid, Term<Sub>>, source: NodeIndex, jump: &'a Term<Jmp>, return_: Option<Tid>) -> CfgSt<'a> {
    let (st1, rn_opt) = cfg_return_site(st, subs, source, return_);
    match rn_opt {
        Some(rn) => cfg_edge(st1, source, rn, Edge::ExternCallStub(jump)),
        None => st1,
    }
}

/// add_jump_edge: per variant exactly what the property lists
pub open spec fn cfg_jump_edge<'a>(st: CfgSt<'a>, subs: Map<Tid, Term<Sub>>, ext: Set<Tid>, source: NodeIndex, jump: &'a Term<Jmp>,
                                   uc: Option<&'a Term<Jmp>>) -> CfgSt<'a> {
    match jump.term {
        Jmp::Branch(tid) => cfg_intra(st, subs, source, tid, jump, uc),
        Jmp::CBranch { target, condition } => cfg_intra(st, subs, source, target, jump, uc),
        Jmp::BranchInd(e) => {
            let targets = cfg_blk(st.nodes[source.i as int]).term.indirect_jmp_targets@;
            cfg_indirect_n(st, subs, source, jump, uc, targets, targets.len() as int)
        },
        Jmp::Call { target, return_ } => cfg_call(st, subs, ext, source, jump, target, return_),
        Jmp::CallInd { target, return_ } => cfg_callind(st, subs, source, jump, return_),
        Jmp::CallOther { description, return_ } => st,
        Jmp::Return(e) => st,
    }
}

/// add_outgoing_edges: 0 jumps -> nothing; 1 jump -> that jump, no untaken conditional; 2 jumps -> the first with None,
/// the second marked with the first as untaken conditional
pub open spec fn cfg_outgoing<'a>(st: CfgSt<'a>, subs: Map<Tid, Term<Sub>>, ext: Set<Tid>, node: NodeIndex, block: &'a Term<Blk>) -> CfgSt<'a> {
    let jmps = block.term.jmps@;
    if jmps.len() == 0 {
        st
    } else if jmps.len() == 1 {
        cfg_jump_edge(st, subs, ext, node, &jmps[0], None)
    } else {
        cfg_jump_edge(cfg_jump_edge(st, subs, ext, node, &jmps[0], None), subs, ext, node, &jmps[1], Some(&jmps[0]))
    }
}

// ---- returns ----------------------------------------------------------------------------------------------------------

/// the first direct call among the jumps of a block (the call term a ReturnCombine edge is labelled with)
pub open spec fn cfg_call_term<'a>(b: &'a Term<Blk>) -> &'a Term<Jmp> {
    &b.term.jmps@[choose |j: int| cfg_first_call(b.term.jmps@, j)]
}

/// add_call_return_node_and_edges for the returning function `f_ret` and its BlkEnd node `rs`, after the first `n`
/// registered (CallSource node, return-to node) pairs: per pair a NEW CallReturn node cr and the three edges
/// CrCallStub call node -> cr, CrReturnStub rs -> cr, ReturnCombine(call term) cr -> return-to node
pub open spec fn cfg_call_return_n<'a>(st: CfgSt<'a>, f_ret: &'a Term<Sub>, rs: NodeIndex, list: Seq<(NodeIndex, NodeIndex)>, n: int) -> CfgSt<'a>
    decreases n
{
    if n <= 0 { st } else {
        cfg_call_return_1(cfg_call_return_n(st, f_ret, rs, list, n - 1), f_ret, rs, list[n - 1].0, list[n - 1].1)
    }
}

/// ... for ONE registered pair (CallSource node `cn`, return-to node `rn`)
pub open spec fn cfg_call_return_1<'a>(st0: CfgSt<'a>, f_ret: &'a Term<Sub>, rs: NodeIndex, cn: NodeIndex, rn: NodeIndex) -> CfgSt<'a> {
    let call = st0.nodes[cn.i as int]->CallSource_source;
    let cr = cfg_ni(st0.nodes.len() as int);
    let st1 = cfg_node(st0, Node::CallReturn { call: call, return_: (cfg_blk(st0.nodes[rs.i as int]), f_ret) });
    cfg_edge(cfg_edge(cfg_edge(st1, cn, cr, Edge::CrCallStub), rs, cr, Edge::CrReturnStub), cr, rn, Edge::ReturnCombine(cfg_call_term(call.0)))
}

/// add_call_return_node_and_edges
pub open spec fn cfg_call_return<'a>(st: CfgSt<'a>, f_ret: &'a Term<Sub>, rs: NodeIndex) -> CfgSt<'a> {
    if st.ra.contains_key(f_ret.tid) { cfg_call_return_n(st, f_ret, rs, st.ra[f_ret.tid], st.ra[f_ret.tid].len() as int) } else { st }
}

// ---- representation invariant ------------------------------------------------------------------------------------------

/// `v` = (BlkStart node, BlkEnd node) of one (block, function) pair whose tids are `k`
pub open spec fn cfg_pair_ok<'a>(nodes: Seq<Node<'a>>, k: (Tid, Tid), v: (NodeIndex, NodeIndex)) -> bool {
    &&& v.0.i < nodes.len() && v.1.i < nodes.len()
    &&& nodes[v.0.i as int] is BlkStart && nodes[v.1.i as int] is BlkEnd
    &&& cfg_blk(nodes[v.0.i as int]) == cfg_blk(nodes[v.1.i as int])
    &&& cfg_sub(nodes[v.0.i as int]) == cfg_sub(nodes[v.1.i as int])
    &&& cfg_blk(nodes[v.0.i as int]).tid == k.0
    &&& cfg_sub(nodes[v.0.i as int]).tid == k.1
}

/// `v` = the node pair of the FIRST block of a function of the program with tid `f` (the callee entry)
pub open spec fn cfg_entry_ok<'a>(nodes: Seq<Node<'a>>, subs: Map<Tid, Term<Sub>>, f: Tid, v: (NodeIndex, NodeIndex)) -> bool {
    &&& v.0.i < nodes.len() && v.1.i < nodes.len()
    &&& nodes[v.0.i as int] is BlkStart && nodes[v.1.i as int] is BlkEnd
    &&& cfg_blk(nodes[v.0.i as int]) == cfg_blk(nodes[v.1.i as int])
    &&& cfg_sub(nodes[v.0.i as int]) == cfg_sub(nodes[v.1.i as int])
    &&& cfg_sub(nodes[v.0.i as int]).tid == f
    &&& cfg_sub(nodes[v.0.i as int]).term.blocks@.len() > 0
    &&& cfg_sub(nodes[v.0.i as int]).term.blocks@[0] == *cfg_blk(nodes[v.0.i as int])
    &&& exists |k: Tid| #[trigger] subs.contains_key(k) && subs[k] == *cfg_sub(nodes[v.0.i as int])
}

/// `v` = (CallSource node of a block that contains a direct call, existing return-to node)
pub open spec fn cfg_ret_ok<'a>(nodes: Seq<Node<'a>>, v: (NodeIndex, NodeIndex)) -> bool {
    &&& v.0.i < nodes.len() && v.1.i < nodes.len()
    &&& nodes[v.0.i as int] is CallSource
    &&& cfg_has_call(*cfg_blk(nodes[v.0.i as int]))
    &&& nodes[v.1.i as int] is BlkStart
}

/// THE REPRESENTATION INVARIANT of the builder
pub open spec fn cfg_inv<'a>(st: CfgSt<'a>, subs: Map<Tid, Term<Sub>>) -> bool {
    &&& forall |k: (Tid, Tid)| #[trigger] st.jt.contains_key(k) ==> cfg_pair_ok(st.nodes, k, st.jt[k])
    &&& forall |f: Tid| #[trigger] st.ct.contains_key(f) ==> cfg_entry_ok(st.nodes, subs, f, st.ct[f])
    &&& forall |i: int| 0 <= i < st.wl.len() ==> (#[trigger] st.wl[i]).i < st.nodes.len() && st.nodes[st.wl[i].i as int] is BlkEnd
    &&& forall |e: int| 0 <= e < st.edges.len() ==> (#[trigger] st.edges[e]).src.i < st.nodes.len() && st.edges[e].dst.i < st.nodes.len()
    &&& forall |f: Tid, i: int| st.ra.contains_key(f) && 0 <= i < st.ra[f].len() ==> cfg_ret_ok(st.nodes, #[trigger] st.ra[f][i])
}

/// the invariant on the builder itself
#[verifier::inline]
pub open spec fn cfg_binv<'a>(b: GraphBuilder<'a>) -> bool {
    cfg_inv(cfg_abs(b), b.program.term.subs@)
}

/// `b` only grew out of `a`: the old nodes keep index and weight (so a BlkEnd node stays the BlkEnd node of its block)
pub open spec fn cfg_grows<'a>(a: CfgSt<'a>, b: CfgSt<'a>) -> bool {
    &&& a.nodes.len() <= b.nodes.len()
    &&& forall |i: int| 0 <= i < a.nodes.len() ==> #[trigger] b.nodes[i] == a.nodes[i]
    &&& b.ct == a.ct
}

/// the node is an existing BlkEnd node
pub open spec fn cfg_is_end<'a>(st: CfgSt<'a>, n: NodeIndex) -> bool {
    n.i < st.nodes.len() && st.nodes[n.i as int] is BlkEnd
}

/// well-formed program: each of these tids is the tid of a block of the program
pub open spec fn cfg_targets_exist(subs: Map<Tid, Term<Sub>>, targets: Seq<Tid>) -> bool {
    forall |j: int| 0 <= j < targets.len() ==> cfg_has_block(subs, #[trigger] targets[j])
}

/// well-formed program, for one jump of block `b`: every block tid the jump names is the tid of a block of the program
/// (jump target, return target of a call, the indirect-jump target hints of the block)
pub open spec fn cfg_jump_targets_exist(subs: Map<Tid, Term<Sub>>, b: Term<Blk>, jump: Term<Jmp>) -> bool {
    match jump.term {
        Jmp::Branch(tid) => cfg_has_block(subs, tid),
        Jmp::CBranch { target, condition } => cfg_has_block(subs, target),
        Jmp::BranchInd(e) => cfg_targets_exist(subs, b.term.indirect_jmp_targets@),
        Jmp::Call { target, return_ } => return_ is Some ==> cfg_has_block(subs, return_->Some_0),
        Jmp::CallInd { target, return_ } => return_ is Some ==> cfg_has_block(subs, return_->Some_0),
        Jmp::CallOther { description, return_ } => true,
        Jmp::Return(e) => true,
    }
}

/// precondition of add_jump_edge: the above, and a direct call handed to the builder is a jump of the block it is handed
/// with (the block has a direct call; add_outgoing_edges PROVES this for the jumps it passes on)
pub open spec fn cfg_jump_wf(subs: Map<Tid, Term<Sub>>, b: Term<Blk>, jump: Term<Jmp>) -> bool {
    cfg_jump_targets_exist(subs, b, jump) && (jump.term is Call ==> cfg_has_call(b))
}

/// WELL-FORMED NORMALIZED PROGRAM, for one block: at most two jumps ("each basic block ends with zero, one or two jump
/// instructions", module documentation of graph.rs), and every block tid they name exists
pub open spec fn cfg_block_wf(subs: Map<Tid, Term<Sub>>, b: Term<Blk>) -> bool {
    &&& b.term.jmps@.len() <= 2
    &&& forall |j: int| 0 <= j < b.term.jmps@.len() ==> cfg_jump_targets_exist(subs, b, #[trigger] b.term.jmps@[j])
}
