// ---------------------------------------------------------------------------
// spec/cfgbuild.rs -- specification vocabulary of unit `cfgbuild` (property C08: the interprocedural control flow graph
// represents exactly the program's control flow).  Nothing here is trusted: definitions only (cfg_find_block is DEFINED:
// the first block with the tid in (key order, list order); the extracted Program::find_block is verified against it).
//
// The builder is seen through an abstract state CfgSt (cfg_abs): the node weights in index order, the edges in index order
// as (source, target, weight), and the views of the four bookkeeping collections.  Every builder step is specified as a
// FUNCTION on that state which names the WHOLE change: "nodes + [exactly these]", "edges + [exactly these]", maps that
// change; everything else is equal (frame).  The clauses of the property are the cases of cfg_jump_edge / cfg_outgoing /
// cfg_call_return.
// ---------------------------------------------------------------------------

/// one edge of the graph: source node, target node, label
pub ghost struct CfgEdge<'a> { pub src: NodeIndex, pub dst: NodeIndex, pub w: Edge<'a> }

/// the builder, abstractly
pub ghost struct CfgSt<'a> {
    /// node weights, position = NodeIndex
    pub nodes: Seq<Node<'a>>,
    /// edges, position = EdgeIndex
    pub edges: Seq<CfgEdge<'a>>,
    /// jump_targets: (block tid, sub tid) -> (BlkStart node, BlkEnd node)
    pub jt: Map<(Tid, Tid), (NodeIndex, NodeIndex)>,
    /// call_targets: sub tid -> (BlkStart node, BlkEnd node) of its first block
    pub ct: Map<Tid, (NodeIndex, NodeIndex)>,
    /// return_addresses: callee tid -> list of (CallSource node, return-to node)
    pub ra: Map<Tid, Seq<(NodeIndex, NodeIndex)>>,
    /// block_worklist
    pub wl: Seq<NodeIndex>,
}

pub open spec fn cfg_ni(n: int) -> NodeIndex { NodeIndex { i: n as usize } }

/// HYPOTHESES on the key types under which vstd states its specifications of std's HashMap / HashSet / BTreeMap
/// (cf. cgb_key_hyp): derived Hash / Eq of `Tid` and of the pair `(Tid, Tid)` are consistent and deterministic,
/// derived Ord of `Tid` is a lawful total order.
pub open spec fn cfg_key_hyp() -> bool {
    &&& vstd::std_specs::hash::obeys_key_model::<Tid>()
    &&& vstd::std_specs::hash::obeys_key_model::<(Tid, Tid)>()
    &&& vstd::laws_cmp::obeys_cmp::<Tid>()
}

// ---- the program ------------------------------------------------------------------------------------------------------

/// `b` is a block of the program: block number `i` of the function stored under `k`
pub open spec fn cfg_block_at(subs: Map<Tid, Term<Sub>>, k: Tid, i: int, b: Term<Blk>) -> bool {
    subs.contains_key(k) && 0 <= i < subs[k].term.blocks@.len() && subs[k].term.blocks@[i] == b
}

/// `b` is a block of the program
pub open spec fn cfg_prog_block(subs: Map<Tid, Term<Sub>>, b: Term<Blk>) -> bool {
    exists |k: Tid, i: int| #[trigger] cfg_block_at(subs, k, i, b)
}

/// `f` is a function of the program
pub open spec fn cfg_prog_sub(subs: Map<Tid, Term<Sub>>, f: Term<Sub>) -> bool {
    exists |k: Tid| #[trigger] subs.contains_key(k) && subs[k] == f
}

/// some block of the program has this tid
pub open spec fn cfg_has_block(subs: Map<Tid, Term<Sub>>, tid: Tid) -> bool {
    exists |k: Tid, i: int| #[trigger] cfg_block_at(subs, k, i, subs[k].term.blocks@[i]) && subs[k].term.blocks@[i].tid == tid
}

/// key order of `BTreeMap<Tid, _>`: the derived `Ord` of `Tid` as vstd names it
pub open spec fn cfg_tid_lt(a: Tid, b: Tid) -> bool {
    vstd::std_specs::cmp::OrdSpec::cmp_spec(&a, &b) == core::cmp::Ordering::Less
}

/// block number `i` of the function stored under `k` has the tid `tid`
pub open spec fn cfg_tid_at(subs: Map<Tid, Term<Sub>>, tid: Tid, k: Tid, i: int) -> bool {
    subs.contains_key(k) && 0 <= i < subs[k].term.blocks@.len() && subs[k].term.blocks@[i].tid == tid
}

/// (`k`, `i`) is the FIRST position of a block with the tid `tid`, in (key order of the functions, list order of the blocks):
/// every other position with that tid is later in the same function or in a function with a greater key
pub open spec fn cfg_first_at(subs: Map<Tid, Term<Sub>>, tid: Tid, k: Tid, i: int) -> bool {
    &&& cfg_tid_at(subs, tid, k, i)
    &&& forall |k2: Tid, i2: int| #[trigger] cfg_tid_at(subs, tid, k2, i2) ==> (k2 == k && i <= i2) || cfg_tid_lt(k, k2)
}

/// iteration over `subs.iter()`: ascending keys
pub open spec fn cfg_keys_sorted<V>(s: Seq<(&Tid, &V)>) -> bool {
    forall |i: int, j: int| 0 <= i < j < s.len() ==> cfg_tid_lt(*(#[trigger] s[i]).0, *(#[trigger] s[j]).0)
}

/// loop form of find_block: no block of the first `n` functions of the iteration `s` has the tid
pub open spec fn cfg_no_tid_before(s: Seq<(&Tid, &Term<Sub>)>, tid: Tid, n: int) -> bool {
    forall |j: int, i: int| 0 <= j < n && 0 <= i < s[j].1.term.blocks@.len() ==> (#[trigger] s[j].1.term.blocks@[i]).tid != tid
}

/// The value of `Program::find_block(tid)`: the FIRST block with that tid in (key order of `subs`, list order of `blocks`),
/// `None` iff no block has the tid.  A DEFINITION (nothing uninterpreted); the extracted body of find_block is verified to
/// return exactly this value (contracts/cfgbuild.vc), lemma_cfg_find_block_ok (lemmas/cfgbuild.rs) proves cfg_find_block_ok.
/// The middle branch (a block with the tid exists but no first position does) is impossible when the derived Ord of Tid is a
/// lawful total order and the map is finite (a finite non-empty set of positions has a least one); it is there only to keep
/// lemma_cfg_find_block_ok free of the hypothesis obeys_cmp::<Tid>(), as the axiom it replaces was.  Under obeys_cmp::<Tid>() the first position
/// is unique (lemma_cfg_first_unique), so the `choose` is a definite value there.
#[verifier::opaque]
pub open spec fn cfg_find_block<'a>(subs: Map<Tid, Term<Sub>>, tid: Tid) -> Option<&'a Term<Blk>> {
    if exists |k: Tid, i: int| #[trigger] cfg_first_at(subs, tid, k, i) {
        let (k, i) = choose |k: Tid, i: int| #[trigger] cfg_first_at(subs, tid, k, i);
        Some(&subs[k].term.blocks@[i])
    } else if exists |k: Tid, i: int| #[trigger] cfg_tid_at(subs, tid, k, i) {
        let (k, i) = choose |k: Tid, i: int| #[trigger] cfg_tid_at(subs, tid, k, i);
        Some(&subs[k].term.blocks@[i])
    } else {
        None
    }
}

pub open spec fn cfg_find_block_ok<'a>(subs: Map<Tid, Term<Sub>>, tid: Tid, r: Option<&'a Term<Blk>>) -> bool {
    &&& r is Some <==> cfg_has_block(subs, tid)
    &&& r is Some ==> r->Some_0.tid == tid && cfg_prog_block(subs, *r->Some_0)
}

// ---- nodes -------------------------------------------------------------------------------------------------------------

/// the block a BlkStart / BlkEnd node stands for (call site block for the artificial nodes)
pub open spec fn cfg_blk<'a>(n: Node<'a>) -> &'a Term<Blk> {
    match n {
        Node::BlkStart(b, f) => b,
        Node::BlkEnd(b, f) => b,
        Node::CallReturn { call, return_ } => call.0,
        Node::CallSource { source, target } => source.0,
    }
}

/// the function a BlkStart / BlkEnd node belongs to
pub open spec fn cfg_sub<'a>(n: Node<'a>) -> &'a Term<Sub> {
    match n {
        Node::BlkStart(b, f) => f,
        Node::BlkEnd(b, f) => f,
        Node::CallReturn { call, return_ } => call.1,
        Node::CallSource { source, target } => source.1,
    }
}

/// the block has a direct call among its jumps
pub open spec fn cfg_has_call(b: Term<Blk>) -> bool {
    exists |j: int| 0 <= j < b.term.jmps@.len() && (#[trigger] b.term.jmps@[j]).term is Call
}

/// `j` is the position of the first direct call in the jump list
pub open spec fn cfg_first_call(jmps: Seq<Term<Jmp>>, j: int) -> bool {
    &&& 0 <= j < jmps.len()
    &&& jmps[j].term is Call
    &&& forall |i: int| 0 <= i < j ==> !((#[trigger] jmps[i]).term is Call)
}

// ---- the steps of the builder as functions on the abstract state --------------------------------------------------------

/// add_block: two nodes BlkStart(b, f), BlkEnd(b, f), ONE edge start -> end labelled Block, the pair registered under
/// (b.tid, f.tid), the end node on the worklist.  Nothing else changes.
pub open spec fn cfg_add_block<'a>(st: CfgSt<'a>, b: &'a Term<Blk>, f: &'a Term<Sub>) -> CfgSt<'a> {
    let n = st.nodes.len() as int;
    CfgSt {
        nodes: st.nodes.push(Node::BlkStart(b, f)).push(Node::BlkEnd(b, f)),
        edges: st.edges.push(CfgEdge { src: cfg_ni(n), dst: cfg_ni(n + 1), w: Edge::Block }),
        jt: st.jt.insert((b.tid, f.tid), (cfg_ni(n), cfg_ni(n + 1))),
        wl: st.wl.push(cfg_ni(n + 1)),
        ..st
    }
}

/// the BlkStart node of (block `tid`, function `f`), created first iff the pair was not registered (the block is the one
/// `find_block` finds): the shared first half of an intraprocedural jump and of a call that returns
pub open spec fn cfg_ensure<'a>(st: CfgSt<'a>, subs: Map<Tid, Term<Sub>>, tid: Tid, f: &'a Term<Sub>) -> (CfgSt<'a>, NodeIndex) {
    if st.jt.contains_key((tid, f.tid)) {
        (st, st.jt[(tid, f.tid)].0)
    } else {
        (cfg_add_block(st, cfg_find_block(subs, tid)->Some_0, f), cfg_ni(st.nodes.len() as int))
    }
}

/// one more edge
pub open spec fn cfg_edge<'a>(st: CfgSt<'a>, src: NodeIndex, dst: NodeIndex, w: Edge<'a>) -> CfgSt<'a> {
    CfgSt { edges: st.edges.push(CfgEdge { src, dst, w }), ..st }
}

/// one more node
pub open spec fn cfg_node<'a>(st: CfgSt<'a>, w: Node<'a>) -> CfgSt<'a> {
    CfgSt { nodes: st.nodes.push(w), ..st }
}

// ---- abstraction -------------------------------------------------------------------------------------------------------

pub open spec fn cfg_nodes<'a>(g: Graph<'a>) -> Seq<Node<'a>> {
    Seq::new(g.node_count_spec(), |i: int| g.node_weight(i))
}

pub open spec fn cfg_edges<'a>(g: Graph<'a>) -> Seq<CfgEdge<'a>> {
    Seq::new(g.edge_seq().len(), |i: int| CfgEdge { src: g.edge_seq()[i].0, dst: g.edge_seq()[i].1, w: g.edge_weight(i) })
}

pub open spec fn cfg_ra(m: Map<Tid, Vec<(NodeIndex, NodeIndex)>>) -> Map<Tid, Seq<(NodeIndex, NodeIndex)>> {
    m.map_values(|v: Vec<(NodeIndex, NodeIndex)>| v@)
}

/// the abstract state, over the components of the builder (a statement that changes one field visibly keeps the others)
pub open spec fn cfg_abs_c<'a>(graph: Graph<'a>, jt: Map<(Tid, Tid), (NodeIndex, NodeIndex)>, ct: Map<Tid, (NodeIndex, NodeIndex)>,
                               ra: Map<Tid, Vec<(NodeIndex, NodeIndex)>>, wl: Seq<NodeIndex>) -> CfgSt<'a> {
    CfgSt { nodes: cfg_nodes(graph), edges: cfg_edges(graph), jt, ct, ra: cfg_ra(ra), wl }
}

#[verifier::inline]
pub open spec fn cfg_abs<'a>(b: GraphBuilder<'a>) -> CfgSt<'a> {
    cfg_abs_c(b.graph, b.jump_targets@, b.call_targets@, b.return_addresses@, b.block_worklist@)
}

pub open spec fn cfg_empty<'a>() -> CfgSt<'a> {
    CfgSt { nodes: Seq::empty(), edges: Seq::empty(), jt: Map::empty(), ct: Map::empty(), ra: Map::empty(), wl: Seq::empty() }
}

/// what no builder step changes: the program and the set of extern symbols
#[verifier::inline]
pub open spec fn cfg_frame<'a>(b0: GraphBuilder<'a>, b1: GraphBuilder<'a>) -> bool {
    b1.program == b0.program && b1.extern_subs == b0.extern_subs
}

/// equality of abstract states, field by field and extensionally (== by lemma_cfg_st_eq)
pub open spec fn cfg_st_eq<'a>(a: CfgSt<'a>, b: CfgSt<'a>) -> bool {
    &&& a.nodes =~= b.nodes
    &&& a.edges =~= b.edges
    &&& a.jt =~= b.jt
    &&& a.ct =~= b.ct
    &&& a.ra =~~= b.ra
    &&& a.wl =~= b.wl
}

// ---- jumps ------------------------------------------------------------------------------------------------------------

/// add_intraprocedural_edge: ONE edge source -> BlkStart of (block `tid`, function of `source`) labelled
/// Jump(jump, untaken_conditional); the target pair is created first iff it was not registered
pub open spec fn cfg_intra<'a>(st: CfgSt<'a>, subs: Map<Tid, Term<Sub>>, source: NodeIndex, tid: Tid,
                               jump: &'a Term<Jmp>, uc: Option<&'a Term<Jmp>>) -> CfgSt<'a> {
    let f = cfg_sub(st.nodes[source.i as int]);
    let (st1, t) = cfg_ensure(st, subs, tid, f);
    cfg_edge(st1, source, t, Edge::Jump(jump, uc))
}

/// add_indirect_jumps, after the first `n` target hints: one such edge per hint, in order
pub open spec fn cfg_indirect_n<'a>(st: CfgSt<'a>, subs: Map<Tid, Term<Sub>>, source: NodeIndex, jump: &'a Term<Jmp>,
                                    uc: Option<&'a Term<Jmp>>, targets: Seq<Tid>, n: int) -> CfgSt<'a>
    decreases n
{
    if n <= 0 { st } else { cfg_intra(cfg_indirect_n(st, subs, source, jump, uc, targets, n - 1), subs, source, targets[n - 1], jump, uc) }
}

/// a call that may return to block `return_`: the return site's BlkStart node (pair created first iff not registered)
pub open spec fn cfg_return_site<'a>(st: CfgSt<'a>, subs: Map<Tid, Term<Sub>>, source: NodeIndex, return_: Option<Tid>) -> (CfgSt<'a>, Option<NodeIndex>) {
    match return_ {
        Some(rt) => { let (s1, rn) = cfg_ensure(st, subs, rt, cfg_sub(st.nodes[source.i as int])); (s1, Some(rn)) },
        None => (st, None),
    }
}

/// one more registered return address for callee `target`
pub open spec fn cfg_ra_push(ra: Map<Tid, Seq<(NodeIndex, NodeIndex)>>, target: Tid, v: (NodeIndex, NodeIndex)) -> Map<Tid, Seq<(NodeIndex, NodeIndex)>> {
    ra.insert(target, (if ra.contains_key(target) { ra[target] } else { Seq::empty() }).push(v))
}

/// direct call `jump` = Call { target, return_ } at the BlkEnd node `source`:
///   extern symbol:       ONE ExternCallStub edge source -> return site iff there is a return target, else nothing
///   registered function: a NEW CallSource node cs, CallCombine source -> cs, Call cs -> callee entry, and the return address
///                        (cs, return site) registered for the callee iff there is a return target
///   unknown target:      no edge
/// (in every case the return site pair is created first iff there is a return target and it was not registered)
pub open spec fn cfg_call<'a>(st: CfgSt<'a>, subs: Map<Tid, Term<Sub>>, ext: Set<Tid>, source: NodeIndex, jump: &'a Term<Jmp>,
                              target: Tid, return_: Option<Tid>) -> CfgSt<'a> {
    let b = cfg_blk(st.nodes[source.i as int]);
    let f = cfg_sub(st.nodes[source.i as int]);
    let (st1, rn_opt) = cfg_return_site(st, subs, source, return_);
    if ext.contains(target) {
        match rn_opt {
            Some(rn) => cfg_edge(st1, source, rn, Edge::ExternCallStub(jump)),
            None => st1,
        }
    } else if st1.ct.contains_key(target) {
        let tn = st1.ct[target].0;
        let cs = cfg_ni(st1.nodes.len() as int);
        let st2 = cfg_node(st1, Node::CallSource { source: (b, f), target: (cfg_blk(st1.nodes[tn.i as int]), cfg_sub(st1.nodes[tn.i as int])) });
        let st3 = cfg_edge(cfg_edge(st2, source, cs, Edge::CallCombine(jump)), cs, tn, Edge::Call(jump));
        match rn_opt {
            Some(rn) => CfgSt { ra: cfg_ra_push(st3.ra, target, (cs, rn)), ..st3 },
            None => st3,
        }
    } else {
        st1
    }
}

/// indirect call: ONE ExternCallStub edge source -> return site iff there is a return target, else nothing
pub open spec fn cfg_callind<'a>(st: CfgSt<'a>, subs: Map<Tid, Term<Sub>>, source: NodeIndex, jump: &'a Term<Jmp>, return_: Option<Tid>) -> CfgSt<'a> {
    let (st1, rn_opt) = cfg_return_site(st, subs, source, return_);
    match rn_opt {
        Some(rn) => cfg_edge(st1, source, rn, Edge::ExternCallStub(jump)),
        None => st1,
    }
}

/// add_jump_edge: per variant exactly what the property lists
pub open spec fn cfg_jump_edge<'a>(st: CfgSt<'a>, subs: Map<Tid, Term<Sub>>, ext: Set<Tid>, source: NodeIndex, jump: &'a Term<Jmp>,
                                   uc: Option<&'a Term<Jmp>>) -> CfgSt<'a> {
    match jump.term {
        Jmp::Branch(tid) => cfg_intra(st, subs, source, tid, jump, uc),
        Jmp::CBranch { target, condition } => cfg_intra(st, subs, source, target, jump, uc),
        Jmp::BranchInd(e) => {
            let targets = cfg_blk(st.nodes[source.i as int]).term.indirect_jmp_targets@;
            cfg_indirect_n(st, subs, source, jump, uc, targets, targets.len() as int)
        },
        Jmp::Call { target, return_ } => cfg_call(st, subs, ext, source, jump, target, return_),
        Jmp::CallInd { target, return_ } => cfg_callind(st, subs, source, jump, return_),
        Jmp::CallOther { description, return_ } => st,
        Jmp::Return(e) => st,
    }
}

/// add_outgoing_edges: 0 jumps -> nothing; 1 jump -> that jump, no untaken conditional; 2 jumps -> the first with None,
/// the second marked with the first as untaken conditional
pub open spec fn cfg_outgoing<'a>(st: CfgSt<'a>, subs: Map<Tid, Term<Sub>>, ext: Set<Tid>, node: NodeIndex, block: &'a Term<Blk>) -> CfgSt<'a> {
    let jmps = block.term.jmps@;
    if jmps.len() == 0 {
        st
    } else if jmps.len() == 1 {
        cfg_jump_edge(st, subs, ext, node, &jmps[0], None)
    } else {
        cfg_jump_edge(cfg_jump_edge(st, subs, ext, node, &jmps[0], None), subs, ext, node, &jmps[1], Some(&jmps[0]))
    }
}

// ---- returns ----------------------------------------------------------------------------------------------------------

/// the first direct call among the jumps of a block (the call term a ReturnCombine edge is labelled with)
pub open spec fn cfg_call_term<'a>(b: &'a Term<Blk>) -> &'a Term<Jmp> {
    &b.term.jmps@[choose |j: int| cfg_first_call(b.term.jmps@, j)]
}

/// add_call_return_node_and_edges for the returning function `f_ret` and its BlkEnd node `rs`, after the first `n`
/// registered (CallSource node, return-to node) pairs: per pair a NEW CallReturn node cr and the three edges
/// CrCallStub call node -> cr, CrReturnStub rs -> cr, ReturnCombine(call term) cr -> return-to node
pub open spec fn cfg_call_return_n<'a>(st: CfgSt<'a>, f_ret: &'a Term<Sub>, rs: NodeIndex, list: Seq<(NodeIndex, NodeIndex)>, n: int) -> CfgSt<'a>
    decreases n
{
    if n <= 0 { st } else {
        cfg_call_return_1(cfg_call_return_n(st, f_ret, rs, list, n - 1), f_ret, rs, list[n - 1].0, list[n - 1].1)
    }
}

/// ... for ONE registered pair (CallSource node `cn`, return-to node `rn`)
pub open spec fn cfg_call_return_1<'a>(st0: CfgSt<'a>, f_ret: &'a Term<Sub>, rs: NodeIndex, cn: NodeIndex, rn: NodeIndex) -> CfgSt<'a> {
    let call = st0.nodes[cn.i as int]->CallSource_source;
    let cr = cfg_ni(st0.nodes.len() as int);
    let st1 = cfg_node(st0, Node::CallReturn { call: call, return_: (cfg_blk(st0.nodes[rs.i as int]), f_ret) });
    cfg_edge(cfg_edge(cfg_edge(st1, cn, cr, Edge::CrCallStub), rs, cr, Edge::CrReturnStub), cr, rn, Edge::ReturnCombine(cfg_call_term(call.0)))
}

/// add_call_return_node_and_edges
pub open spec fn cfg_call_return<'a>(st: CfgSt<'a>, f_ret: &'a Term<Sub>, rs: NodeIndex) -> CfgSt<'a> {
    if st.ra.contains_key(f_ret.tid) { cfg_call_return_n(st, f_ret, rs, st.ra[f_ret.tid], st.ra[f_ret.tid].len() as int) } else { st }
}

// ---- representation invariant ------------------------------------------------------------------------------------------

/// `v` = (BlkStart node, BlkEnd node) of one (block, function) pair whose tids are `k`
pub open spec fn cfg_pair_ok<'a>(nodes: Seq<Node<'a>>, k: (Tid, Tid), v: (NodeIndex, NodeIndex)) -> bool {
    &&& v.0.i < nodes.len() && v.1.i < nodes.len()
    &&& nodes[v.0.i as int] is BlkStart && nodes[v.1.i as int] is BlkEnd
    &&& cfg_blk(nodes[v.0.i as int]) == cfg_blk(nodes[v.1.i as int])
    &&& cfg_sub(nodes[v.0.i as int]) == cfg_sub(nodes[v.1.i as int])
    &&& cfg_blk(nodes[v.0.i as int]).tid == k.0
    &&& cfg_sub(nodes[v.0.i as int]).tid == k.1
}

/// `v` = the node pair of the FIRST block of a function of the program with tid `f` (the callee entry)
pub open spec fn cfg_entry_ok<'a>(nodes: Seq<Node<'a>>, subs: Map<Tid, Term<Sub>>, f: Tid, v: (NodeIndex, NodeIndex)) -> bool {
    &&& v.0.i < nodes.len() && v.1.i < nodes.len()
    &&& nodes[v.0.i as int] is BlkStart && nodes[v.1.i as int] is BlkEnd
    &&& cfg_blk(nodes[v.0.i as int]) == cfg_blk(nodes[v.1.i as int])
    &&& cfg_sub(nodes[v.0.i as int]) == cfg_sub(nodes[v.1.i as int])
    &&& cfg_sub(nodes[v.0.i as int]).tid == f
    &&& cfg_sub(nodes[v.0.i as int]).term.blocks@.len() > 0
    &&& cfg_sub(nodes[v.0.i as int]).term.blocks@[0] == *cfg_blk(nodes[v.0.i as int])
}

/// `v` = (CallSource node of a block that contains a direct call, existing return-to node)
pub open spec fn cfg_ret_ok<'a>(nodes: Seq<Node<'a>>, v: (NodeIndex, NodeIndex)) -> bool {
    &&& v.0.i < nodes.len() && v.1.i < nodes.len()
    &&& nodes[v.0.i as int] is CallSource
    &&& cfg_has_call(*cfg_blk(nodes[v.0.i as int]))
    &&& nodes[v.1.i as int] is BlkStart
}

/// THE REPRESENTATION INVARIANT of the builder
pub open spec fn cfg_inv<'a>(st: CfgSt<'a>, subs: Map<Tid, Term<Sub>>) -> bool {
    &&& forall |k: (Tid, Tid)| #[trigger] st.jt.contains_key(k) ==> cfg_pair_ok(st.nodes, k, st.jt[k])
    &&& forall |f: Tid| #[trigger] st.ct.contains_key(f) ==> cfg_entry_ok(st.nodes, subs, f, st.ct[f])
    &&& forall |i: int| 0 <= i < st.wl.len() ==> (#[trigger] st.wl[i]).i < st.nodes.len() && st.nodes[st.wl[i].i as int] is BlkEnd
    &&& forall |e: int| 0 <= e < st.edges.len() ==> (#[trigger] st.edges[e]).src.i < st.nodes.len() && st.edges[e].dst.i < st.nodes.len()
    &&& forall |f: Tid, i: int| st.ra.contains_key(f) && 0 <= i < st.ra[f].len() ==> cfg_ret_ok(st.nodes, #[trigger] st.ra[f][i])
    &&& forall |n: int| 0 <= n < st.nodes.len() ==> cfg_node_ok(subs, #[trigger] st.nodes[n])
    &&& cfg_shape(st)
}

/// SHAPE of one edge: the kinds of the nodes at its ends are those its label promises (what the consumers of the graph --
/// the forward / backward fixpoint adapters, the checkers -- rely on in their `match` arms), and what they read from the labels
///   Block           BlkStart -> BlkEnd of the same block and function
///   Jump(j, u)      BlkEnd -> BlkStart; an untaken jump `u` is a conditional branch
///   CallCombine     BlkEnd -> CallSource
///   Call            CallSource -> BlkStart
///   ExternCallStub  BlkEnd -> BlkStart
///   CrCallStub      CallSource -> CallReturn
///   CrReturnStub    BlkEnd -> CallReturn
///   ReturnCombine   CallReturn -> BlkStart
pub open spec fn cfg_edge_shape<'a>(nodes: Seq<Node<'a>>, e: CfgEdge<'a>) -> bool {
    let src = nodes[e.src.i as int];
    let dst = nodes[e.dst.i as int];
    &&& e.src.i < nodes.len() && e.dst.i < nodes.len()
    &&& match e.w {
            Edge::Block => src is BlkStart && dst is BlkEnd && cfg_blk(src) == cfg_blk(dst) && cfg_sub(src) == cfg_sub(dst),
            Edge::Jump(jump, untaken) => src is BlkEnd && dst is BlkStart && (untaken is Some ==> untaken->Some_0.term is CBranch),
            Edge::CallCombine(call) => src is BlkEnd && dst is CallSource,
            Edge::Call(call) => src is CallSource && dst is BlkStart,
            Edge::ExternCallStub(call) => src is BlkEnd && dst is BlkStart,
            Edge::CrCallStub => src is CallSource && dst is CallReturn,
            Edge::CrReturnStub => src is BlkEnd && dst is CallReturn,
            Edge::ReturnCombine(call) => src is CallReturn && dst is BlkStart,
        }
}

/// SHAPE of one node: the call site block of a CallSource / CallReturn node contains a direct call, the returned-from block
/// of a CallReturn node contains a return instruction (so both blocks have a first jump)
pub open spec fn cfg_node_shape<'a>(w: Node<'a>) -> bool {
    match w {
        Node::BlkStart(b, f) => true,
        Node::BlkEnd(b, f) => true,
        Node::CallSource { source, target } => cfg_has_call(*source.0),
        Node::CallReturn { call, return_ } => cfg_has_call(*call.0) && cfg_has_return_jmp(return_.0.term.jmps@),
    }
}

/// THE SHAPE INVARIANT: every edge and every node of the graph under construction has its shape
pub open spec fn cfg_shape<'a>(st: CfgSt<'a>) -> bool {
    &&& forall |e: int| 0 <= e < st.edges.len() ==> cfg_edge_shape(st.nodes, #[trigger] st.edges[e])
    &&& forall |n: int| 0 <= n < st.nodes.len() ==> cfg_node_shape(#[trigger] st.nodes[n])
}

/// THE SHAPE INVARIANT on a graph (what get_program_cfg exports to the consumers of the graph): over the ghost views of the
/// petgraph shim, for every edge index e and node index n
pub open spec fn cfg_graph_shape<'a>(g: Graph<'a>) -> bool {
    &&& forall |e: int| 0 <= e < g.edge_seq().len() ==>
            cfg_edge_shape(cfg_nodes(g), CfgEdge { src: (#[trigger] g.edge_seq()[e]).0, dst: g.edge_seq()[e].1, w: g.edge_weight(e) })
    &&& forall |n: int| 0 <= n < g.node_count_spec() ==> cfg_node_shape(#[trigger] g.node_weight(n))
}

/// a BlkStart / BlkEnd node stands for a block of the program, in a function of the program
pub open spec fn cfg_node_ok<'a>(subs: Map<Tid, Term<Sub>>, w: Node<'a>) -> bool {
    (w is BlkStart || w is BlkEnd) ==> cfg_prog_block(subs, *cfg_blk(w)) && cfg_prog_sub(subs, *cfg_sub(w))
}

/// the invariant on the builder itself
#[verifier::inline]
pub open spec fn cfg_binv<'a>(b: GraphBuilder<'a>) -> bool {
    cfg_inv(cfg_abs(b), b.program.term.subs@)
}

/// `b` only grew out of `a`: the old nodes keep index and weight (so a BlkEnd node stays the BlkEnd node of its block)
pub open spec fn cfg_grows<'a>(a: CfgSt<'a>, b: CfgSt<'a>) -> bool {
    &&& a.nodes.len() <= b.nodes.len()
    &&& forall |i: int| 0 <= i < a.nodes.len() ==> #[trigger] b.nodes[i] == a.nodes[i]
    &&& b.ct == a.ct
}

/// the node is an existing BlkEnd node
pub open spec fn cfg_is_end<'a>(st: CfgSt<'a>, n: NodeIndex) -> bool {
    n.i < st.nodes.len() && st.nodes[n.i as int] is BlkEnd
}

/// well-formed program: each of these tids is the tid of a block of the program
pub open spec fn cfg_targets_exist(subs: Map<Tid, Term<Sub>>, targets: Seq<Tid>) -> bool {
    forall |j: int| 0 <= j < targets.len() ==> cfg_has_block(subs, #[trigger] targets[j])
}

/// well-formed program, for one jump of block `b`: every block tid the jump names is the tid of a block of the program
/// (jump target, return target of a call, the indirect-jump target hints of the block)
pub open spec fn cfg_jump_targets_exist(subs: Map<Tid, Term<Sub>>, b: Term<Blk>, jump: Term<Jmp>) -> bool {
    match jump.term {
        Jmp::Branch(tid) => cfg_has_block(subs, tid),
        Jmp::CBranch { target, condition } => cfg_has_block(subs, target),
        Jmp::BranchInd(e) => cfg_targets_exist(subs, b.term.indirect_jmp_targets@),
        Jmp::Call { target, return_ } => return_ is Some ==> cfg_has_block(subs, return_->Some_0),
        Jmp::CallInd { target, return_ } => return_ is Some ==> cfg_has_block(subs, return_->Some_0),
        Jmp::CallOther { description, return_ } => true,
        Jmp::Return(e) => true,
    }
}

/// precondition of add_jump_edge: the above, and a direct call handed to the builder is a jump of the block it is handed
/// with (the block has a direct call; add_outgoing_edges PROVES this for the jumps it passes on)
pub open spec fn cfg_jump_wf(subs: Map<Tid, Term<Sub>>, b: Term<Blk>, jump: Term<Jmp>) -> bool {
    cfg_jump_targets_exist(subs, b, jump) && (jump.term is Call ==> cfg_has_call(b))
}

/// WELL-FORMED NORMALIZED PROGRAM, for one block: at most two jumps ("each basic block ends with zero, one or two jump
/// instructions", module documentation of graph.rs), and every block tid they name exists
pub open spec fn cfg_block_wf(subs: Map<Tid, Term<Sub>>, b: Term<Blk>) -> bool {
    &&& b.term.jmps@.len() <= 2
    // "In the case of two jump instructions the first one is a conditional jump" (module documentation of graph.rs)
    &&& b.term.jmps@.len() == 2 ==> b.term.jmps@[0].term is CBranch
    &&& forall |j: int| 0 <= j < b.term.jmps@.len() ==> cfg_jump_targets_exist(subs, b, #[trigger] b.term.jmps@[j])
}

// ---- STAGE 2: the driver loops -------------------------------------------------------------------------------------------

/// the keys of an iteration over `subs` (ghost sequence of BTreeMap::iter), in iteration order
pub open spec fn cfg_keys(s: Seq<(&Tid, &Term<Sub>)>) -> Seq<Tid> {
    Seq::new(s.len(), |i: int| *s[i].0)
}

/// `ks` lists every key of `subs` exactly once (the builder visits the functions in the order of BTreeMap::values; the
/// property does not depend on the order, so only this is stated)
pub open spec fn cfg_key_order(ks: Seq<Tid>, subs: Map<Tid, Term<Sub>>) -> bool {
    &&& forall |i: int, j: int| 0 <= i < j < ks.len() ==> ks[i] != ks[j]
    &&& forall |i: int| 0 <= i < ks.len() ==> subs.contains_key(#[trigger] ks[i])
    &&& forall |k: Tid| subs.contains_key(k) ==> exists |i: int| 0 <= i < ks.len() && #[trigger] ks[i] == k
}

/// add_block for the first `n` blocks of function `f`
pub open spec fn cfg_sub_blocks_n<'a>(st: CfgSt<'a>, f: &'a Term<Sub>, n: int) -> CfgSt<'a>
    decreases n
{
    if n <= 0 { st } else { cfg_add_block(cfg_sub_blocks_n(st, f, n - 1), &f.term.blocks@[n - 1], f) }
}

/// add_program_blocks after the first `n` functions of the order `ks`: one add_block per (block, function it is listed in)
pub open spec fn cfg_prog_blocks_n<'a>(st: CfgSt<'a>, subs: Map<Tid, Term<Sub>>, ks: Seq<Tid>, n: int) -> CfgSt<'a>
    decreases n
{
    if n <= 0 { st } else {
        cfg_sub_blocks_n(cfg_prog_blocks_n(st, subs, ks, n - 1), &subs[ks[n - 1]], subs[ks[n - 1]].term.blocks@.len() as int)
    }
}

/// postcondition of add_program_blocks
pub open spec fn cfg_prog_blocks_post<'a>(st0: CfgSt<'a>, st1: CfgSt<'a>, subs: Map<Tid, Term<Sub>>) -> bool {
    exists |ks: Seq<Tid>| #[trigger] cfg_key_order(ks, subs) && st1 == cfg_prog_blocks_n(st0, subs, ks, ks.len() as int)
}

/// the pair (block `b`, function `f`) is registered and its node pair carries exactly this block and this function
pub open spec fn cfg_registered<'a>(st: CfgSt<'a>, b: Term<Blk>, f: Term<Sub>) -> bool {
    &&& st.jt.contains_key((b.tid, f.tid))
    &&& st.jt[(b.tid, f.tid)].0.i < st.nodes.len()
    &&& *cfg_blk(st.nodes[st.jt[(b.tid, f.tid)].0.i as int]) == b
    &&& *cfg_sub(st.nodes[st.jt[(b.tid, f.tid)].0.i as int]) == f
}

/// precondition of add_subs_to_call_targets: the first block of every function is registered (add_program_blocks did it)
pub open spec fn cfg_firsts_registered<'a>(st: CfgSt<'a>, subs: Map<Tid, Term<Sub>>) -> bool {
    forall |k: Tid| #[trigger] subs.contains_key(k) && subs[k].term.blocks@.len() > 0 ==> cfg_registered(st, subs[k].term.blocks@[0], subs[k])
}

/// WELL-FORMED PROGRAM: a tid identifies a function -- two functions of the program with the same tid are the same
pub open spec fn cfg_sub_tids_unique(subs: Map<Tid, Term<Sub>>) -> bool {
    forall |k1: Tid, k2: Tid| #[trigger] subs.contains_key(k1) && #[trigger] subs.contains_key(k2) && subs[k1].tid == subs[k2].tid ==> subs[k1] == subs[k2]
}

/// `t` is the tid of a function of the program that has a first block (a possible target of a direct call)
pub open spec fn cfg_callable(subs: Map<Tid, Term<Sub>>, t: Tid) -> bool {
    exists |k: Tid| #[trigger] subs.contains_key(k) && subs[k].tid == t && subs[k].term.blocks@.len() > 0
}

/// ... among the first `n` functions of the iteration `s`
pub open spec fn cfg_callable_n(s: Seq<(&Tid, &Term<Sub>)>, n: int, t: Tid) -> bool {
    exists |j: int| 0 <= j < n && (#[trigger] s[j]).1.tid == t && s[j].1.term.blocks@.len() > 0
}

/// the call_targets map after the first `n` functions of the iteration `s`
pub open spec fn cfg_ct_partial<'a>(st0: CfgSt<'a>, ct: Map<Tid, (NodeIndex, NodeIndex)>, s: Seq<(&Tid, &Term<Sub>)>, n: int) -> bool {
    &&& forall |t: Tid| #[trigger] ct.contains_key(t) <==> st0.ct.contains_key(t) || cfg_callable_n(s, n, t)
    &&& forall |j: int| 0 <= j < n && (#[trigger] s[j]).1.term.blocks@.len() > 0 ==> ct[s[j].1.tid] == st0.jt[(s[j].1.term.blocks@[0].tid, s[j].1.tid)]
    &&& forall |t: Tid| st0.ct.contains_key(t) && !cfg_callable_n(s, n, t) ==> #[trigger] ct[t] == st0.ct[t]
}

/// postcondition of add_subs_to_call_targets: ONLY call_targets changes; afterwards it maps the tid of every function
/// that has a first block to the node pair registered for (first block, function), and is otherwise as before
pub open spec fn cfg_call_targets_post<'a>(st0: CfgSt<'a>, st1: CfgSt<'a>, subs: Map<Tid, Term<Sub>>) -> bool {
    &&& st1 == CfgSt { ct: st1.ct, ..st0 }
    &&& forall |t: Tid| #[trigger] st1.ct.contains_key(t) <==> st0.ct.contains_key(t) || cfg_callable(subs, t)
    &&& forall |k: Tid| #[trigger] subs.contains_key(k) && subs[k].term.blocks@.len() > 0 ==>
            st1.ct[subs[k].tid] == st0.jt[(subs[k].term.blocks@[0].tid, subs[k].tid)]
    &&& forall |t: Tid| st0.ct.contains_key(t) && !cfg_callable(subs, t) ==> #[trigger] st1.ct[t] == st0.ct[t]
}

/// WELL-FORMED NORMALIZED PROGRAM: every block of the program is (cfg_block_wf)
pub open spec fn cfg_blocks_wf(subs: Map<Tid, Term<Sub>>) -> bool {
    forall |b: Term<Blk>| #[trigger] cfg_prog_block(subs, b) ==> cfg_block_wf(subs, b)
}

/// one round of add_jump_and_call_edges: the LAST worklist entry is taken off, then add_outgoing_edges for that BlkEnd node
/// and its block
pub open spec fn cfg_wl_step<'a>(st: CfgSt<'a>, subs: Map<Tid, Term<Sub>>, ext: Set<Tid>) -> CfgSt<'a> {
    let node = st.wl.last();
    let st1 = CfgSt { wl: st.wl.drop_last(), ..st };
    cfg_outgoing(st1, subs, ext, node, cfg_blk(st1.nodes[node.i as int]))
}

/// `n` rounds
pub open spec fn cfg_wl_steps<'a>(st: CfgSt<'a>, subs: Map<Tid, Term<Sub>>, ext: Set<Tid>, n: int) -> CfgSt<'a>
    decreases n
{
    if n <= 0 { st } else { cfg_wl_step(cfg_wl_steps(st, subs, ext, n - 1), subs, ext) }
}

/// `n` rounds are possible: the worklist is non-empty before each of them
pub open spec fn cfg_wl_runs<'a>(st: CfgSt<'a>, subs: Map<Tid, Term<Sub>>, ext: Set<Tid>, n: int) -> bool {
    0 <= n && forall |j: int| 0 <= j < n ==> (#[trigger] cfg_wl_steps(st, subs, ext, j)).wl.len() > 0
}

/// postcondition of add_jump_and_call_edges (when it returns): some number of rounds, after which the worklist is empty
pub open spec fn cfg_worklist_post<'a>(st0: CfgSt<'a>, st1: CfgSt<'a>, subs: Map<Tid, Term<Sub>>, ext: Set<Tid>) -> bool {
    exists |n: int| #[trigger] cfg_wl_runs(st0, subs, ext, n) && st1 == cfg_wl_steps(st0, subs, ext, n) && st1.wl.len() == 0
}

/// the jump list contains a return instruction
pub open spec fn cfg_has_return_jmp(jmps: Seq<Term<Jmp>>) -> bool {
    exists |j: int| 0 <= j < jmps.len() && (#[trigger] jmps[j]).term is Return
}

/// the BlkEnd nodes among the first `n` nodes whose block contains a return instruction, in index order
pub open spec fn cfg_return_nodes<'a>(nodes: Seq<Node<'a>>, n: int) -> Seq<NodeIndex>
    decreases n
{
    if n <= 0 { Seq::empty() } else {
        let r = cfg_return_nodes(nodes, n - 1);
        if nodes[n - 1] is BlkEnd && cfg_has_return_jmp(cfg_blk(nodes[n - 1]).term.jmps@) { r.push(cfg_ni(n - 1)) } else { r }
    }
}

/// add_call_return_node_and_edges for the first `k` returning BlkEnd nodes of `list` (each with the function of its node)
pub open spec fn cfg_returns_n<'a>(st: CfgSt<'a>, list: Seq<NodeIndex>, k: int) -> CfgSt<'a>
    decreases k
{
    if k <= 0 { st } else {
        cfg_call_return(cfg_returns_n(st, list, k - 1), cfg_sub(st.nodes[list[k - 1].i as int]), list[k - 1])
    }
}

/// add_return_edges: for every BlkEnd node whose block contains a return instruction (found in the graph as it is when the
/// function starts), the return linkage to every registered call site of its function
pub open spec fn cfg_return_edges<'a>(st: CfgSt<'a>) -> CfgSt<'a> {
    let list = cfg_return_nodes(st.nodes, st.nodes.len() as int);
    cfg_returns_n(st, list, list.len() as int)
}

/// first loop of add_return_edges: the vector mirrors cfg_return_nodes
pub open spec fn cfg_return_vec_ok<'a>(nodes: Seq<Node<'a>>, v: Seq<(NodeIndex, &'a Term<Sub>)>, n: int) -> bool {
    &&& v.len() == cfg_return_nodes(nodes, n).len()
    &&& forall |j: int| 0 <= j < v.len() ==> (#[trigger] v[j]).0 == cfg_return_nodes(nodes, n)[j]
            && v[j].0.i < nodes.len() && nodes[v[j].0.i as int] is BlkEnd && v[j].1 == cfg_sub(nodes[v[j].0.i as int])
            && cfg_has_return_jmp(cfg_blk(nodes[v[j].0.i as int]).term.jmps@)
}

// ---- build -----------------------------------------------------------------------------------------------------------------

/// WELL-FORMED PROGRAM: a tid identifies a block -- two blocks of the program with the same tid are the same block
/// (a block listed in several functions is the same block in each)
pub open spec fn cfg_blk_tids_unique(subs: Map<Tid, Term<Sub>>) -> bool {
    forall |b1: Term<Blk>, b2: Term<Blk>| #[trigger] cfg_prog_block(subs, b1) && #[trigger] cfg_prog_block(subs, b2) && b1.tid == b2.tid ==> b1 == b2
}

/// THE PRECONDITION "well-formed normalized program" of build / get_program_cfg:
///   tids identify functions and blocks; every block ends with at most two jumps; every block tid named by a jump (target,
///   return target of a call, indirect-jump target hint) is the tid of a block of the program
pub open spec fn cfg_prog_wf(subs: Map<Tid, Term<Sub>>) -> bool {
    &&& cfg_sub_tids_unique(subs)
    &&& cfg_blk_tids_unique(subs)
    &&& cfg_blocks_wf(subs)
}

/// the construction `build` performs, as a chain of the step functions: `st` is what results from
///   add_program_blocks (functions in the order ks) on the empty builder,
///   add_subs_to_call_targets (state s2),
///   `n` rounds of the worklist loop after which the worklist is empty,
///   add_return_edges
pub open spec fn cfg_build_steps<'a>(ks: Seq<Tid>, s2: CfgSt<'a>, n: int, st: CfgSt<'a>, subs: Map<Tid, Term<Sub>>, ext: Set<Tid>) -> bool {
    &&& cfg_key_order(ks, subs)
    &&& cfg_call_targets_post(cfg_prog_blocks_n(cfg_empty(), subs, ks, ks.len() as int), s2, subs)
    &&& cfg_wl_runs(s2, subs, ext, n)
    &&& cfg_wl_steps(s2, subs, ext, n).wl.len() == 0
    &&& st == cfg_return_edges(cfg_wl_steps(s2, subs, ext, n))
}

pub open spec fn cfg_build_post<'a>(st: CfgSt<'a>, subs: Map<Tid, Term<Sub>>, ext: Set<Tid>) -> bool {
    exists |ks: Seq<Tid>, s2: CfgSt<'a>, n: int| #[trigger] cfg_build_steps(ks, s2, n, st, subs, ext)
}

/// the graph `g` is the graph of the abstract state `st` (same node weights in the same order, same edges with the same
/// labels in the same order)
pub open spec fn cfg_graph_of<'a>(g: Graph<'a>, st: CfgSt<'a>) -> bool {
    cfg_nodes(g) =~= st.nodes && cfg_edges(g) =~= st.edges
}

/// THE POSTCONDITION of build / get_program_cfg_with_logs / get_program_cfg
pub open spec fn cfg_built<'a>(g: Graph<'a>, subs: Map<Tid, Term<Sub>>, ext: Set<Tid>) -> bool {
    exists |st: CfgSt<'a>| #[trigger] cfg_build_post(st, subs, ext) && cfg_graph_of(g, st) && cfg_inv(st, subs)
}

// ---- get_entry_nodes_of_subs ----------------------------------------------------------------------------------------------------

/// node `n` is a BlkStart node of the first block (by tid) of a function with tid `t`
pub open spec fn cfg_entry_node<'a>(nodes: Seq<Node<'a>>, n: int, t: Tid) -> bool {
    &&& 0 <= n < nodes.len()
    &&& nodes[n] is BlkStart
    &&& cfg_sub(nodes[n]).tid == t
    &&& cfg_sub(nodes[n]).term.blocks@.len() > 0
    &&& cfg_blk(nodes[n]).tid == cfg_sub(nodes[n]).term.blocks@[0].tid
}

/// the map after the first `m` nodes: the tids that have an entry node among them, each mapped to the LAST such node
pub open spec fn cfg_entry_map_n<'a>(nodes: Seq<Node<'a>>, r: Map<Tid, NodeIndex>, m: int) -> bool {
    &&& forall |t: Tid| #[trigger] r.contains_key(t) <==> exists |n: int| n < m && #[trigger] cfg_entry_node(nodes, n, t)
    &&& forall |t: Tid| #[trigger] r.contains_key(t) ==> r[t].i < m && cfg_entry_node(nodes, r[t].i as int, t)
            && forall |n: int| r[t].i < n < m ==> !#[trigger] cfg_entry_node(nodes, n, t)
}

// ---- STAGE 3: global invariants over the whole construction ---------------------------------------------------------------------

/// the key a BlkStart / BlkEnd node is registered under
pub open spec fn cfg_key_of<'a>(w: Node<'a>) -> (Tid, Tid) { (cfg_blk(w).tid, cfg_sub(w).tid) }

/// GLOBAL INVARIANT "one start node, one end node and one block edge per (block, function) pair":
///   every BlkStart node n is directly followed by the BlkEnd node of the same block and function, and (n, n+1) is THE pair
///   registered under its key (so two different BlkStart nodes have different keys);
///   every BlkEnd node directly follows such a BlkStart node;
///   every Block edge leads from a BlkStart node n to n+1, no two Block edges leave the same node, every BlkStart node has one
pub open spec fn cfg_pairs_inv<'a>(st: CfgSt<'a>) -> bool {
    &&& forall |n: int| 0 <= n < st.nodes.len() && (#[trigger] st.nodes[n]) is BlkStart ==>
            n + 1 < st.nodes.len() && st.nodes[n + 1] == Node::BlkEnd(cfg_blk(st.nodes[n]), cfg_sub(st.nodes[n]))
            && st.jt.contains_key(cfg_key_of(st.nodes[n])) && st.jt[cfg_key_of(st.nodes[n])] == (cfg_ni(n), cfg_ni(n + 1))
    &&& forall |n: int| 0 <= n < st.nodes.len() && (#[trigger] st.nodes[n]) is BlkEnd ==> n >= 1 && st.nodes[n - 1] is BlkStart
    &&& forall |e: int| 0 <= e < st.edges.len() && (#[trigger] st.edges[e]).w is Block ==>
            st.edges[e].src.i < st.nodes.len() && st.nodes[st.edges[e].src.i as int] is BlkStart && st.edges[e].dst.i == st.edges[e].src.i + 1
    &&& forall |e1: int, e2: int| 0 <= e1 < e2 < st.edges.len() && (#[trigger] st.edges[e1]).w is Block && (#[trigger] st.edges[e2]).w is Block ==>
            st.edges[e1].src != st.edges[e2].src
    &&& forall |n: int| 0 <= n < st.nodes.len() && (#[trigger] st.nodes[n]) is BlkStart ==>
            exists |e: int| 0 <= e < st.edges.len() && #[trigger] st.edges[e] == (CfgEdge { src: cfg_ni(n), dst: cfg_ni(n + 1), w: Edge::Block })
}

/// worklist part of "the builder only grew": the old entries stay, the new entries are exactly the new BlkEnd nodes, each once
pub open spec fn cfg_wl_grows<'a>(a: CfgSt<'a>, b: CfgSt<'a>) -> bool {
    &&& a.wl.len() <= b.wl.len()
    &&& forall |i: int| 0 <= i < a.wl.len() ==> #[trigger] b.wl[i] == a.wl[i]
    &&& forall |i: int| a.wl.len() <= i < b.wl.len() ==> a.nodes.len() <= (#[trigger] b.wl[i]).i < b.nodes.len() && b.nodes[b.wl[i].i as int] is BlkEnd
    &&& forall |i: int, j: int| a.wl.len() <= i < j < b.wl.len() ==> #[trigger] b.wl[i] != #[trigger] b.wl[j]
    &&& forall |n: int| a.nodes.len() <= n < b.nodes.len() && (#[trigger] b.nodes[n]) is BlkEnd ==>
            exists |i: int| a.wl.len() <= i < b.wl.len() && (#[trigger] b.wl[i]).i == n
}

/// "the builder only grew from a to b" (reflexive, transitive): nodes and edges are extended at the end, registered pairs and
/// call targets keep their node pairs, registered return addresses stay (lists are extended at the end), and cfg_wl_grows
pub open spec fn cfg_gstep<'a>(a: CfgSt<'a>, b: CfgSt<'a>) -> bool {
    cfg_gstep0(a, b) && cfg_wl_grows(a, b)
}

/// ... without the worklist clause (holds across the rounds of the worklist loop, which take entries off the worklist)
pub open spec fn cfg_gstep0<'a>(a: CfgSt<'a>, b: CfgSt<'a>) -> bool {
    &&& a.nodes.len() <= b.nodes.len()
    &&& forall |i: int| 0 <= i < a.nodes.len() ==> #[trigger] b.nodes[i] == a.nodes[i]
    &&& a.edges.len() <= b.edges.len()
    &&& forall |i: int| 0 <= i < a.edges.len() ==> #[trigger] b.edges[i] == a.edges[i]
    &&& forall |k: (Tid, Tid)| #[trigger] a.jt.contains_key(k) ==> b.jt.contains_key(k) && b.jt[k] == a.jt[k]
    &&& b.ct == a.ct
    &&& forall |t: Tid| #[trigger] a.ra.contains_key(t) ==> b.ra.contains_key(t) && a.ra[t].len() <= b.ra[t].len()
            && forall |i: int| 0 <= i < a.ra[t].len() ==> #[trigger] b.ra[t][i] == a.ra[t][i]
}

/// worklist accounting: every BlkEnd node is EITHER waiting on the worklist OR among the processed nodes `done`, exactly once
pub open spec fn cfg_accounted<'a>(st: CfgSt<'a>, done: Seq<NodeIndex>) -> bool {
    &&& forall |i: int| 0 <= i < done.len() ==> (#[trigger] done[i]).i < st.nodes.len() && st.nodes[done[i].i as int] is BlkEnd
    &&& forall |i: int| 0 <= i < st.wl.len() ==> (#[trigger] st.wl[i]).i < st.nodes.len() && st.nodes[st.wl[i].i as int] is BlkEnd
    &&& forall |i: int, j: int| 0 <= i < j < done.len() ==> #[trigger] done[i] != #[trigger] done[j]
    &&& forall |i: int, j: int| 0 <= i < j < st.wl.len() ==> #[trigger] st.wl[i] != #[trigger] st.wl[j]
    &&& forall |i: int, j: int| 0 <= i < st.wl.len() && 0 <= j < done.len() ==> #[trigger] st.wl[i] != #[trigger] done[j]
    &&& forall |n: int| 0 <= n < st.nodes.len() && (#[trigger] st.nodes[n]) is BlkEnd ==>
            (exists |i: int| 0 <= i < st.wl.len() && (#[trigger] st.wl[i]).i == n) || (exists |j: int| 0 <= j < done.len() && (#[trigger] done[j]).i == n)
}

/// the BlkEnd nodes processed in the first `n` rounds of the worklist loop started in `st`, in order
pub open spec fn cfg_done_n<'a>(st: CfgSt<'a>, subs: Map<Tid, Term<Sub>>, ext: Set<Tid>, n: int) -> Seq<NodeIndex> {
    Seq::new(n as nat, |j: int| cfg_wl_steps(st, subs, ext, j).wl.last())
}

/// WELL-FORMED PROGRAM (stage 3): the (block tid, function tid) keys of the positions "block i of the function stored
/// under k" are pairwise different (no block is listed twice in a function, no two functions share a tid)
pub open spec fn cfg_positions_unique(subs: Map<Tid, Term<Sub>>) -> bool {
    forall |k1: Tid, i1: int, k2: Tid, i2: int|
        #[trigger] cfg_block_at(subs, k1, i1, subs[k1].term.blocks@[i1]) && #[trigger] cfg_block_at(subs, k2, i2, subs[k2].term.blocks@[i2])
        && subs[k1].term.blocks@[i1].tid == subs[k2].term.blocks@[i2].tid && subs[k1].tid == subs[k2].tid
        ==> k1 == k2 && i1 == i2
}

/// representation invariant + pairs invariant
pub open spec fn cfg_ginv<'a>(st: CfgSt<'a>, subs: Map<Tid, Term<Sub>>) -> bool {
    cfg_inv(st, subs) && cfg_pairs_inv(st)
}

/// petgraph's index type: the number of nodes fits u32 (true of every petgraph graph: axiom_cg_digraph_bounds)
pub open spec fn cfg_small<'a>(st: CfgSt<'a>) -> bool { st.nodes.len() <= u32::MAX }

/// position (function number j of the order ks, block number i) lies before (m, n) in the order add_program_blocks visits them
pub open spec fn cfg_pos_before(subs: Map<Tid, Term<Sub>>, ks: Seq<Tid>, j: int, i: int, m: int, n: int) -> bool {
    0 <= j < ks.len() && 0 <= i < subs[ks[j]].term.blocks@.len() && (j < m || (j == m && i < n))
}

/// every registered key is the key of a position visited before (m, n)
pub open spec fn cfg_keys_visited(jt: Map<(Tid, Tid), (NodeIndex, NodeIndex)>, subs: Map<Tid, Term<Sub>>, ks: Seq<Tid>, m: int, n: int) -> bool {
    forall |key: (Tid, Tid)| #[trigger] jt.contains_key(key) ==>
        exists |j: int, i: int| #[trigger] cfg_pos_before(subs, ks, j, i, m, n) && key == (subs[ks[j]].term.blocks@[i].tid, subs[ks[j]].tid)
}

/// THE GLOBAL STATEMENT (stage 3) about the final state `st` of a construction `cfg_build_steps(ks, s2, n, st, ..)`:
pub open spec fn cfg_global<'a>(st: CfgSt<'a>, subs: Map<Tid, Term<Sub>>, ext: Set<Tid>, ks: Seq<Tid>, s2: CfgSt<'a>, n: int) -> bool {
    let s3 = cfg_wl_steps(s2, subs, ext, n);
    let done = cfg_done_n(s2, subs, ext, n);
    // (a) one start node, one end node, one Block edge per registered pair; registered pairs <-> keys; representation invariant
    &&& cfg_ginv(st, subs)
    // (b) every (block, function it is listed in) of the program is registered, with exactly this block and this function
    &&& forall |k: Tid, i: int| #[trigger] cfg_block_at(subs, k, i, subs[k].term.blocks@[i]) ==> cfg_registered(st, subs[k].term.blocks@[i], subs[k])
    // (c) every BlkEnd node of the final graph was processed by exactly one round of the worklist loop ...
    &&& forall |x: int| 0 <= x < st.nodes.len() && (#[trigger] st.nodes[x]) is BlkEnd ==> exists |j: int| 0 <= j < n && (#[trigger] done[j]).i == x
    &&& forall |j1: int, j2: int| 0 <= j1 < j2 < n ==> #[trigger] done[j1] != #[trigger] done[j2]
    &&& forall |j: int| 0 <= j < n ==> (#[trigger] done[j]).i < st.nodes.len() && st.nodes[done[j].i as int] is BlkEnd
    // ... and what a round added (cfg_wl_step = cfg_outgoing for that node and its block: the per-jump clauses of the property)
    //     is still there at the end: nodes, edges, registered pairs, call targets, return addresses of every intermediate state
    //     are those of the final state (so "the BlkStart node of (target, function)" named by a round is THE node of that pair)
    &&& forall |j: int| 0 <= j <= n ==> cfg_gstep0(#[trigger] cfg_wl_steps(s2, subs, ext, j), st)
    // (d) during all rounds the call targets are: exactly the tids of the functions with a first block, each mapped to the
    //     node pair of (first block, function)   ("call to an internal function" <==> the target is such a tid)
    &&& st.ct == s2.ct
    &&& forall |t: Tid| #[trigger] st.ct.contains_key(t) <==> cfg_callable(subs, t)
    &&& forall |k: Tid| #[trigger] subs.contains_key(k) && subs[k].term.blocks@.len() > 0 ==>
            st.ct[subs[k].tid] == st.jt[(subs[k].term.blocks@[0].tid, subs[k].tid)]
    // (e) the return linkage is added last, from the return addresses registered by the rounds; it adds no block nodes
    &&& st == cfg_return_edges(s3) && st.ra == s3.ra && st.jt == s3.jt && st.wl.len() == 0
}

pub open spec fn cfg_global_post<'a>(st: CfgSt<'a>, subs: Map<Tid, Term<Sub>>, ext: Set<Tid>) -> bool {
    exists |ks: Seq<Tid>, s2: CfgSt<'a>, n: int| #[trigger] cfg_build_steps(ks, s2, n, st, subs, ext) && cfg_global(st, subs, ext, ks, s2, n)
}

/// an untaken jump handed on with a jump is a conditional branch (cfg_block_wf: the first of two jumps)
pub open spec fn cfg_untaken_ok(uc: Option<&Term<Jmp>>) -> bool {
    uc is Some ==> uc->Some_0.term is CBranch
}

/// `rs` is an existing BlkEnd node whose block contains a return instruction
pub open spec fn cfg_is_return_end<'a>(st: CfgSt<'a>, rs: NodeIndex) -> bool {
    cfg_is_end(st, rs) && cfg_has_return_jmp(cfg_blk(st.nodes[rs.i as int]).term.jmps@)
}

// ---- TERMINATION of the worklist loop -------------------------------------------------------------------------------------------

/// the tids of the functions of the program
pub open spec fn cfg_sub_tids(subs: Map<Tid, Term<Sub>>) -> Set<Tid> {
    subs.dom().map(|k: Tid| subs[k].tid)
}

/// the tids of the blocks of the program
pub open spec fn cfg_blk_tids(subs: Map<Tid, Term<Sub>>) -> Set<Tid> {
    subs.dom().map(|k: Tid| subs[k].term.blocks@.map_values(|b: Term<Blk>| b.tid).to_set()).flatten()
}

/// ALL (block tid, function tid) pairs of the program: a FINITE set (blocks x functions), the universe of possible keys of
/// jump_targets
pub open spec fn cfg_universe(subs: Map<Tid, Term<Sub>>) -> Set<(Tid, Tid)> {
    cfg_blk_tids(subs).map(|bt: Tid| cfg_sub_tids(subs).map(|st: Tid| (bt, st))).flatten()
}

/// first component of the termination measure: the number of pairs of the program that are NOT yet registered
pub open spec fn cfg_unregistered(subs: Map<Tid, Term<Sub>>, jt: Map<(Tid, Tid), (NodeIndex, NodeIndex)>) -> nat {
    cfg_universe(subs).difference(jt.dom()).len()
}

/// PROGRESS of a builder step of the worklist phase: the number of unregistered pairs does not grow, and the worklist is
/// only extended when it shrinks (an entry is pushed only together with the registration of a new pair)
pub open spec fn cfg_progress<'a>(a: CfgSt<'a>, b: CfgSt<'a>, subs: Map<Tid, Term<Sub>>) -> bool {
    &&& cfg_unregistered(subs, b.jt) <= cfg_unregistered(subs, a.jt)
    &&& cfg_unregistered(subs, b.jt) == cfg_unregistered(subs, a.jt) ==> b.wl == a.wl
}

// ---- CLOSED FORM (i): the registered pairs are the least set P given by the PROGRAM ---------------------------------------------------

/// the jump `j` of block `b` names the block tid `t`: branch / conditional branch target, an indirect-jump target hint of
/// the block (for an indirect branch), the return target of a direct or indirect call
pub open spec fn cfg_jmp_names(b: Term<Blk>, j: Term<Jmp>, t: Tid) -> bool {
    match j.term {
        Jmp::Branch(x) => x == t,
        Jmp::CBranch { target, condition } => target == t,
        Jmp::BranchInd(e) => exists |h: int| 0 <= h < b.term.indirect_jmp_targets@.len() && #[trigger] b.term.indirect_jmp_targets@[h] == t,
        Jmp::Call { target, return_ } => return_ == Some(t),
        Jmp::CallInd { target, return_ } => return_ == Some(t),
        Jmp::CallOther { description, return_ } => false,
        Jmp::Return(e) => false,
    }
}

/// some jump of block `b` names `t`
pub open spec fn cfg_blk_names(b: Term<Blk>, t: Tid) -> bool {
    exists |k: int| 0 <= k < b.term.jmps@.len() && cfg_jmp_names(b, #[trigger] b.term.jmps@[k], t)
}

/// `key` is the key of a block listed in a function
pub open spec fn cfg_listed(subs: Map<Tid, Term<Sub>>, key: (Tid, Tid)) -> bool {
    exists |k: Tid, i: int| #[trigger] cfg_block_at(subs, k, i, subs[k].term.blocks@[i]) && key == (subs[k].term.blocks@[i].tid, subs[k].tid)
}

/// THE SET P OF (block, function) PAIRS OF A PROGRAM, level n of its inductive definition: every block listed in a function;
/// and (t, f) whenever (b, f) is a pair and a jump of block b names t.  P is the least set with these two closure properties.
pub open spec fn cfg_pair_n(subs: Map<Tid, Term<Sub>>, key: (Tid, Tid), n: nat) -> bool
    decreases n
{
    if n == 0 {
        cfg_listed(subs, key)
    } else {
        cfg_pair_n(subs, key, (n - 1) as nat)
        || exists |b: Term<Blk>| #[trigger] cfg_prog_block(subs, b) && cfg_pair_n(subs, (b.tid, key.1), (n - 1) as nat) && cfg_blk_names(b, key.0)
    }
}

pub open spec fn cfg_pair(subs: Map<Tid, Term<Sub>>, key: (Tid, Tid)) -> bool {
    exists |n: nat| cfg_pair_n(subs, key, n)
}

/// every registered key is a pair of the program
pub open spec fn cfg_jt_in_p<'a>(st: CfgSt<'a>, subs: Map<Tid, Term<Sub>>) -> bool {
    forall |key: (Tid, Tid)| #[trigger] st.jt.contains_key(key) ==> cfg_pair(subs, key)
}

// ---- CLOSED FORM (ii): the LABELLED edges (node weights instead of node indices) ---------------------------------------------------------------

/// an edge with its end NODES (weights) instead of node indices: independent of the order in which the builder numbers nodes
pub ghost struct CfgLEdge<'a> { pub src: Node<'a>, pub dst: Node<'a>, pub w: Edge<'a> }

pub open spec fn cfg_ledge<'a>(st: CfgSt<'a>, e: CfgEdge<'a>) -> CfgLEdge<'a> {
    CfgLEdge { src: st.nodes[e.src.i as int], dst: st.nodes[e.dst.i as int], w: e.w }
}

/// the labelled edges among the first `m` edges that are NOT Block edges, in edge order
pub open spec fn cfg_nbl<'a>(st: CfgSt<'a>, m: int) -> Seq<CfgLEdge<'a>>
    decreases m
{
    if m <= 0 { Seq::empty() } else {
        let r = cfg_nbl(st, m - 1);
        if st.edges[m - 1].w is Block { r } else { r.push(cfg_ledge(st, st.edges[m - 1])) }
    }
}

pub open spec fn cfg_nbl_all<'a>(st: CfgSt<'a>) -> Seq<CfgLEdge<'a>> { cfg_nbl(st, st.edges.len() as int) }

/// THE node a jump to block tid `t` inside function `f` leads to: the start of (the block with tid t, f)
pub open spec fn cfg_ltarget<'a>(subs: Map<Tid, Term<Sub>>, f: &'a Term<Sub>, t: Tid) -> Node<'a> {
    Node::BlkStart(cfg_find_block(subs, t)->Some_0, f)
}

/// the function with tid `t` that has a first block (the callee of a direct call to `t`)
pub open spec fn cfg_callee<'a>(subs: Map<Tid, Term<Sub>>, t: Tid) -> &'a Term<Sub> {
    &subs[choose |k: Tid| #[trigger] subs.contains_key(k) && subs[k].tid == t && subs[k].term.blocks@.len() > 0]
}

/// THE PROPERTY'S EDGES FOR ONE JUMP of block `b` in function `f`, as labelled edges, from the program alone:
///   branch / conditional branch: ONE Jump(jump, untaken) edge  end of (b, f) -> start of (target, f)
///   indirect branch:             one such edge per indirect-jump target hint, in order
///   direct call to an extern symbol / indirect call: ONE ExternCallStub edge end of (b, f) -> start of (return target, f)
///                                iff there is a return target
///   direct call to a function of the program that has a first block: CallCombine end of (b, f) -> CallSource node of
///                                (this call site, callee entry), Call CallSource node -> start of the callee's first block
///   anything else (call to an unknown target / a function without blocks, CallOther, Return): NO edge
pub open spec fn cfg_lout_jump<'a>(subs: Map<Tid, Term<Sub>>, ext: Set<Tid>, b: &'a Term<Blk>, f: &'a Term<Sub>, jump: &'a Term<Jmp>, uc: Option<&'a Term<Jmp>>) -> Seq<CfgLEdge<'a>> {
    let src = Node::BlkEnd(b, f);
    match jump.term {
        Jmp::Branch(t) => seq![CfgLEdge { src, dst: cfg_ltarget(subs, f, t), w: Edge::Jump(jump, uc) }],
        Jmp::CBranch { target, condition } => seq![CfgLEdge { src, dst: cfg_ltarget(subs, f, target), w: Edge::Jump(jump, uc) }],
        Jmp::BranchInd(e) => Seq::new(b.term.indirect_jmp_targets@.len(),
            |h: int| CfgLEdge { src, dst: cfg_ltarget(subs, f, b.term.indirect_jmp_targets@[h]), w: Edge::Jump(jump, uc) }),
        Jmp::Call { target, return_ } =>
            if ext.contains(target) {
                match return_ {
                    Some(r) => seq![CfgLEdge { src, dst: cfg_ltarget(subs, f, r), w: Edge::ExternCallStub(jump) }],
                    None => Seq::empty(),
                }
            } else if cfg_callable(subs, target) {
                let g = cfg_callee(subs, target);
                let cs = Node::CallSource { source: (b, f), target: (&g.term.blocks@[0], g) };
                seq![CfgLEdge { src, dst: cs, w: Edge::CallCombine(jump) },
                     CfgLEdge { src: cs, dst: Node::BlkStart(&g.term.blocks@[0], g), w: Edge::Call(jump) }]
            } else {
                Seq::empty()
            },
        Jmp::CallInd { target, return_ } => match return_ {
            Some(r) => seq![CfgLEdge { src, dst: cfg_ltarget(subs, f, r), w: Edge::ExternCallStub(jump) }],
            None => Seq::empty(),
        },
        Jmp::CallOther { description, return_ } => Seq::empty(),
        Jmp::Return(e) => Seq::empty(),
    }
}

/// THE PROPERTY'S NON-BLOCK, NON-RETURN-LINKAGE EDGES OF ONE PAIR (b, f): those of its jumps, the second one marked with the
/// first as untaken conditional
pub open spec fn cfg_lout<'a>(subs: Map<Tid, Term<Sub>>, ext: Set<Tid>, b: &'a Term<Blk>, f: &'a Term<Sub>) -> Seq<CfgLEdge<'a>> {
    let jmps = b.term.jmps@;
    if jmps.len() == 0 {
        Seq::empty()
    } else if jmps.len() == 1 {
        cfg_lout_jump(subs, ext, b, f, &jmps[0], None)
    } else {
        cfg_lout_jump(subs, ext, b, f, &jmps[0], None) + cfg_lout_jump(subs, ext, b, f, &jmps[1], Some(&jmps[0]))
    }
}

/// the call targets are complete: exactly the functions of the program that have a first block (true during all rounds)
pub open spec fn cfg_ct_complete<'a>(st: CfgSt<'a>, subs: Map<Tid, Term<Sub>>) -> bool {
    forall |t: Tid| #[trigger] st.ct.contains_key(t) <==> cfg_callable(subs, t)
}

/// all edges connect existing nodes (a clause of cfg_inv, on its own)
pub open spec fn cfg_edges_in<'a>(st: CfgSt<'a>) -> bool {
    forall |e: int| 0 <= e < st.edges.len() ==> (#[trigger] st.edges[e]).src.i < st.nodes.len() && st.edges[e].dst.i < st.nodes.len()
}

/// the labelled non-Block edges after `n` rounds of the worklist loop started in `st`, by comprehension over the PROCESSED
/// PAIRS: those of `st`, then for each round the property's edges cfg_lout of the pair (block, function) of the processed
/// BlkEnd node -- a function of the program and the pair alone
pub open spec fn cfg_lrounds<'a>(st: CfgSt<'a>, subs: Map<Tid, Term<Sub>>, ext: Set<Tid>, n: int) -> Seq<CfgLEdge<'a>>
    decreases n
{
    if n <= 0 { cfg_nbl_all(st) } else {
        let s = cfg_wl_steps(st, subs, ext, n - 1);
        let w = s.nodes[s.wl.last().i as int];
        cfg_lrounds(st, subs, ext, n - 1) + cfg_lout(subs, ext, cfg_blk(w), cfg_sub(w))
    }
}

/// THE RETURN LINKAGE of one (call site, returning block) combination, as labelled edges: a CallReturn node for (call site
/// of the CallSource node `wc`, (block of the returning BlkEnd node `wr`, returning function)), CrCallStub from the CallSource
/// node, CrReturnStub from the returning BlkEnd node, ReturnCombine(call term) to the return site `wn`
pub open spec fn cfg_lret3<'a>(wc: Node<'a>, wr: Node<'a>, wn: Node<'a>, f_ret: &'a Term<Sub>) -> Seq<CfgLEdge<'a>> {
    let call = wc->CallSource_source;
    let cr = Node::CallReturn { call, return_: (cfg_blk(wr), f_ret) };
    seq![CfgLEdge { src: wc, dst: cr, w: Edge::CrCallStub },
         CfgLEdge { src: wr, dst: cr, w: Edge::CrReturnStub },
         CfgLEdge { src: cr, dst: wn, w: Edge::ReturnCombine(cfg_call_term(call.0)) }]
}

/// ... for the first `n` registered return addresses `list` of the returning function (node weights read in state `st`)
pub open spec fn cfg_lret_n<'a>(st: CfgSt<'a>, f_ret: &'a Term<Sub>, rs: NodeIndex, list: Seq<(NodeIndex, NodeIndex)>, n: int) -> Seq<CfgLEdge<'a>>
    decreases n
{
    if n <= 0 { Seq::empty() } else {
        cfg_lret_n(st, f_ret, rs, list, n - 1)
            + cfg_lret3(st.nodes[list[n - 1].0.i as int], st.nodes[rs.i as int], st.nodes[list[n - 1].1.i as int], f_ret)
    }
}

/// ... for one returning BlkEnd node: all return addresses registered for its function
pub open spec fn cfg_lret_node<'a>(st: CfgSt<'a>, rs: NodeIndex) -> Seq<CfgLEdge<'a>> {
    let f = cfg_sub(st.nodes[rs.i as int]);
    if st.ra.contains_key(f.tid) { cfg_lret_n(st, f, rs, st.ra[f.tid], st.ra[f.tid].len() as int) } else { Seq::empty() }
}

/// ... for the first `k` returning BlkEnd nodes of `list`
pub open spec fn cfg_lreturns_n<'a>(st: CfgSt<'a>, list: Seq<NodeIndex>, k: int) -> Seq<CfgLEdge<'a>>
    decreases k
{
    if k <= 0 { Seq::empty() } else { cfg_lreturns_n(st, list, k - 1) + cfg_lret_node(st, list[k - 1]) }
}

/// THE RETURN LINKAGE of the whole graph, by comprehension over (returning BlkEnd nodes of `st`, in node order) x (return
/// addresses registered for the function of the node, in registration order)
pub open spec fn cfg_lreturns<'a>(st: CfgSt<'a>) -> Seq<CfgLEdge<'a>> {
    let list = cfg_return_nodes(st.nodes, st.nodes.len() as int);
    cfg_lreturns_n(st, list, list.len() as int)
}

/// CLOSED FORM of the final state `st` of a construction cfg_build_steps(ks, s2, n, st, ..)   (lemma_cfg_closed):
pub open spec fn cfg_closed<'a>(st: CfgSt<'a>, subs: Map<Tid, Term<Sub>>, ext: Set<Tid>, s2: CfgSt<'a>, n: int) -> bool {
    let s3 = cfg_wl_steps(s2, subs, ext, n);
    let done = cfg_done_n(s2, subs, ext, n);
    // (i) the registered pairs are exactly the pairs P of the program (least set containing every listed (block, function)
    //     and closed under "a jump of the pair's block names block t => (t, same function)") ...
    &&& forall |key: (Tid, Tid)| #[trigger] st.jt.contains_key(key) <==> cfg_pair(subs, key)
    //     ... each with ONE BlkStart node, ONE BlkEnd node and ONE Block edge, and there are no other block nodes / Block edges
    &&& cfg_pairs_inv(st)
    // (ii) the labelled edges that are not Block edges are, in edge order: for each BlkEnd node in the processing order `done`
    //      -- an enumeration WITHOUT REPETITION of ALL BlkEnd nodes, i.e. of P -- the property's edges cfg_lout(program, pair);
    //      then the return linkage cfg_lreturns.  Nothing else.
    &&& cfg_nbl_all(st) == cfg_lrounds(s2, subs, ext, n) + cfg_lreturns(s3)
    &&& cfg_nbl_all(s2).len() == 0
    &&& forall |x: int| 0 <= x < st.nodes.len() && (#[trigger] st.nodes[x]) is BlkEnd ==> exists |j: int| 0 <= j < n && (#[trigger] done[j]).i == x
    &&& forall |j1: int, j2: int| 0 <= j1 < j2 < n ==> #[trigger] done[j1] != #[trigger] done[j2]
    &&& forall |j: int| 0 <= j < n ==> (#[trigger] done[j]).i < st.nodes.len() && st.nodes[done[j].i as int] is BlkEnd
            && st.nodes[done[j].i as int] == cfg_wl_steps(s2, subs, ext, j).nodes[done[j].i as int]
}

pub open spec fn cfg_closed_post<'a>(st: CfgSt<'a>, subs: Map<Tid, Term<Sub>>, ext: Set<Tid>) -> bool {
    exists |ks: Seq<Tid>, s2: CfgSt<'a>, n: int| #[trigger] cfg_build_steps(ks, s2, n, st, subs, ext) && cfg_closed(st, subs, ext, s2, n)
}
