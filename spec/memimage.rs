// ---------------------------------------------------------------------------
// spec/memimage.rs -- vocabulary of property C19, written from the property
// statement ("disjoint memory segments", "the segment containing the address",
// "the whole range lies in one segment", "the NUL-terminated string stored
// there", "in the image's byte order").  Pure definitions, no axioms.
// Needs the extracted types MemorySegment / RuntimeMemoryImage before it.
// ---------------------------------------------------------------------------

/// one past the last address of a segment (mathematical integer: no wrap-around)
pub open spec fn seg_end(s: MemorySegment) -> int { s.base_address as int + s.bytes@.len() as int }

/// the address lies in the segment:  base <= a < base + len
pub open spec fn seg_contains(s: MemorySegment, a: int) -> bool { s.base_address as int <= a && a < seg_end(s) }

/// the whole range [a, a+n) lies in the segment
pub open spec fn seg_contains_range(s: MemorySegment, a: int, n: int) -> bool {
    s.base_address as int <= a && a + n <= seg_end(s)
}

/// the segment's addresses are representable: base + len <= 2^64 - 1
pub open spec fn seg_fits(s: MemorySegment) -> bool { seg_end(s) <= u64::MAX as int }

/// two segments share no address (half-open ranges; ADJACENT segments are disjoint; an empty segment
/// is disjoint from everything)
pub open spec fn segs_disjoint(s: MemorySegment, t: MemorySegment) -> bool {
    s.bytes@.len() == 0 || t.bytes@.len() == 0 || seg_end(s) <= t.base_address as int || seg_end(t) <= s.base_address as int
}

/// the property's "set of disjoint memory segments"
pub open spec fn valid_image(img: RuntimeMemoryImage) -> bool {
    &&& forall|i: int| 0 <= i < img.memory_segments@.len() ==> seg_fits(#[trigger] img.memory_segments@[i])
    &&& forall|i: int, j: int| 0 <= i < j < img.memory_segments@.len()
            ==> segs_disjoint(#[trigger] img.memory_segments@[i], #[trigger] img.memory_segments@[j])
}

/// some segment contains the address
pub open spec fn has_seg(img: RuntimeMemoryImage, a: int) -> bool {
    exists|i: int| 0 <= i < img.memory_segments@.len() && seg_contains(#[trigger] img.memory_segments@[i], a)
}
/// index of "the segment containing the address" (unique for a valid image: lemma_seg_unique)
pub open spec fn seg_index_of(img: RuntimeMemoryImage, a: int) -> int {
    choose|i: int| 0 <= i < img.memory_segments@.len() && seg_contains(#[trigger] img.memory_segments@[i], a)
}
/// "the segment containing the address"
pub open spec fn seg_of(img: RuntimeMemoryImage, a: int) -> MemorySegment { img.memory_segments@[seg_index_of(img, a)] }

/// the whole range [a, a+n) lies in one segment
pub open spec fn range_has_seg(img: RuntimeMemoryImage, a: int, n: int) -> bool {
    exists|i: int| 0 <= i < img.memory_segments@.len() && seg_contains_range(#[trigger] img.memory_segments@[i], a, n)
}
pub open spec fn range_seg_index_of(img: RuntimeMemoryImage, a: int, n: int) -> int {
    choose|i: int| 0 <= i < img.memory_segments@.len() && seg_contains_range(#[trigger] img.memory_segments@[i], a, n)
}
/// the segment the range lies in (unique for n >= 1 and a valid image: lemma_range_seg_unique)
pub open spec fn range_seg_of(img: RuntimeMemoryImage, a: int, n: int) -> MemorySegment {
    img.memory_segments@[range_seg_index_of(img, a, n)]
}

// ---- byte order -------------------------------------------------------------------------------
/// big endian: the first byte is the most significant one
pub open spec fn be_value(s: Seq<u8>) -> nat
    decreases s.len()
{
    if s.len() == 0 { 0 } else { be_value(s.drop_last()) * 256 + s.last() as nat }
}
/// little endian: the first byte is the least significant one
pub open spec fn le_value(s: Seq<u8>) -> nat
    decreases s.len()
{
    if s.len() == 0 { 0 } else { s[0] as nat + 256 * le_value(s.drop_first()) }
}
/// value of a byte sequence in the image's byte order
pub open spec fn mem_value(s: Seq<u8>, little_endian: bool) -> nat {
    if little_endian { le_value(s) } else { be_value(s) }
}
/// the order in which `read` folds the stored bytes into a value (most significant first): the stored order for a
/// big endian image, the reversed order for a little endian one.  Used only in the loop invariant of `read`;
/// lemma_read_order_value relates it to `mem_value`, the postcondition of `read` does not mention it.
pub open spec fn read_order(s: Seq<u8>, little_endian: bool) -> Seq<u8> {
    if little_endian { s.reverse() } else { s }
}
/// the bytes stored at [a, a+n) of a segment containing that range
pub open spec fn seg_bytes_at(s: MemorySegment, a: int, n: int) -> Seq<u8> {
    s.bytes@.subrange(a - s.base_address as int, a - s.base_address as int + n)
}

// ---- NUL-terminated strings ----------------------------------------------------------------------
/// there is a NUL at or after index i
pub open spec fn has_nul_from(b: Seq<u8>, i: int) -> bool {
    exists|k: int| i <= k < b.len() && #[trigger] b[k] == 0u8
}
/// k is the index of the first NUL at or after index i
pub open spec fn is_first_nul_from(b: Seq<u8>, i: int, k: int) -> bool {
    &&& i <= k < b.len()
    &&& b[k] == 0u8
    &&& forall|m: int| i <= m < k ==> #[trigger] b[m] != 0u8
}
pub open spec fn first_nul_from(b: Seq<u8>, i: int) -> int {
    choose|k: int| is_first_nul_from(b, i, k)
}
/// the bytes of the NUL-terminated string starting at index i (without the NUL)
pub open spec fn cstring_at(b: Seq<u8>, i: int) -> Seq<u8> { b.subrange(i, first_nul_from(b, i)) }
