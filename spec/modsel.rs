// ---------------------------------------------------------------------------
// spec/modsel.rs -- the oracle of property C22 (check selection), written from the property statement.
// ---------------------------------------------------------------------------

/// The KNOWN checks.  Source: the module list of src/cwe_checker_lib/src/checkers.rs (one `pub mod cwe_N;` per check, the
/// check's name is "CWE" followed by N) plus the pseudo-check "Memory" of the pointer inference (lib.rs, doc of `get_modules`:
/// "a list of all known analysis modules"; analysis/pointer_inference: `name: "Memory"`).  19 names.
pub open spec fn ms_is_known(p: Seq<char>) -> bool {
    p == "CWE78"@ || p == "CWE119"@ || p == "CWE134"@ || p == "CWE190"@ || p == "CWE215"@ || p == "CWE243"@ || p == "CWE252"@
    || p == "CWE332"@ || p == "CWE337"@ || p == "CWE367"@ || p == "CWE416"@ || p == "CWE426"@ || p == "CWE467"@ || p == "CWE476"@
    || p == "CWE560"@ || p == "CWE676"@ || p == "CWE782"@ || p == "CWE789"@ || p == "Memory"@
}

/// the name of the OS-command-injection check (property text: "every check except the OS-command-injection check")
pub open spec fn ms_oscmd() -> Seq<char> { "CWE78"@ }

pub open spec fn ms_has_name(ms: Seq<&CweModule>, p: Seq<char>) -> bool {
    exists |i: int| 0 <= i < ms.len() && (#[trigger] ms[i]).name@ == p
}

pub open spec fn ms_names_distinct(ms: Seq<&CweModule>) -> bool {
    forall |i: int, j: int| 0 <= i < j < ms.len() ==> (#[trigger] ms[i]).name@ != (#[trigger] ms[j]).name@
}

/// "names every known check once": the names of the list are pairwise different and are exactly the known names.
pub open spec fn ms_all_known_once(ms: Seq<&CweModule>) -> bool {
    ms_names_distinct(ms) && forall |p: Seq<char>| #[trigger] ms_has_name(ms, p) <==> ms_is_known(p)
}

/// `i` is the FIRST position of `old` that carries its name
pub open spec fn ms_first_of_name(old: Seq<&CweModule>, i: int) -> bool {
    0 <= i < old.len() && forall |j: int| 0 <= j < i ==> (#[trigger] old[j]).name@ != old[i].name@
}

/// element `m` of the result of a partial run is justified by position `i` of the old list
pub open spec fn ms_picked(old: Seq<&CweModule>, s: Seq<char>, m: &CweModule, i: int) -> bool {
    ms_first_of_name(old, i) && *m == *old[i] && ms_is_piece(s, ',', old[i].name@)
}

/// the ONLY situation in which a partial run may panic instead of returning: some non-empty piece of the parameter is not
/// the name of a module (main.rs: "Error: {module_name} is not a valid module name.")
pub open spec fn ms_bad_piece(old: Seq<&CweModule>, s: Seq<char>) -> bool {
    exists |p: Seq<char>| #[trigger] ms_is_piece(s, ',', p) && p.len() > 0 && !ms_has_name(old, p)
}

/// `m` is a module of the old list (the first of its name) whose name is listed
pub open spec fn ms_selected(old: Seq<&CweModule>, s: Seq<char>, m: &CweModule) -> bool {
    exists |i: int| ms_picked(old, s, m, i)
}

/// "a partial run executes exactly the listed checks": `new` holds exactly the modules of `old` whose name is one of the
/// comma-separated pieces of `s`, each name at most once (for a name carried by several modules: the first of them);
/// and the call RETURNS only if every non-empty piece names a module (otherwise it panics).
pub open spec fn ms_partial_post(old: Seq<&CweModule>, new: Seq<&CweModule>, s: Seq<char>) -> bool {
    &&& forall |k: int| 0 <= k < new.len() ==> ms_selected(old, s, #[trigger] new[k])
    &&& ms_names_distinct(new)
    &&& forall |i: int| 0 <= i < old.len() && ms_is_piece(s, ',', (#[trigger] old[i]).name@) ==> ms_has_name(new, old[i].name@)
    &&& forall |p: Seq<char>| #[trigger] ms_is_piece(s, ',', p) && p.len() > 0 ==> ms_has_name(old, p)
}

pub open spec fn ms_has_module(ms: Seq<&CweModule>, m: &CweModule) -> bool {
    exists |k: int| 0 <= k < ms.len() && *#[trigger] ms[k] == *m
}

/// the same statement in the words of the property, for an old list with pairwise different names (the list of
/// `get_modules`): a module of the old list is in the new one iff its name is listed; nothing else is; nothing twice.
pub open spec fn ms_partial_exact(old: Seq<&CweModule>, new: Seq<&CweModule>, s: Seq<char>) -> bool {
    &&& forall |k: int| 0 <= k < new.len() ==> ms_has_module(old, #[trigger] new[k])
    &&& forall |i: int| 0 <= i < old.len() ==> (ms_has_module(new, #[trigger] old[i]) <==> ms_is_piece(s, ',', old[i].name@))
    &&& forall |k: int, l: int| 0 <= k < l < new.len() ==> *#[trigger] new[k] != *#[trigger] new[l]
}

/// the entries of `MODULES_LKM` (checkers.rs), the "kernel-module subset" of the property
#[verifier::inline]
pub open spec fn ms_lkm() -> Seq<&'static str> { crate::checkers::MODULES_LKM@ }

/// OBSERVATION O1 (not a claim): `MODULES_LKM` lists "CWE457", and no check of that name exists
pub open spec fn ms_lkm_dangling(p: Seq<char>) -> bool { p == "CWE457"@ }

/// loop invariant of the partial-run filter after `n` of the yielded pieces `v` have been handled
pub open spec fn ms_partial_inv(old: Seq<&CweModule>, out: Seq<&CweModule>, v: Seq<&str>, n: int) -> bool {
    &&& forall |k: int| 0 <= k < out.len() ==> ms_selected_for(old, v, n, #[trigger] out[k])
    &&& ms_names_distinct(out)
    &&& forall |i: int, j: int| 0 <= i < old.len() && 0 <= j < n && (#[trigger] old[i]).name@ == (#[trigger] v[j])@ ==> ms_has_name(out, old[i].name@)
    &&& forall |j: int| 0 <= j < n && (#[trigger] v[j])@.len() > 0 ==> ms_has_name(old, v[j]@)
}

pub open spec fn ms_selected_for(old: Seq<&CweModule>, v: Seq<&str>, n: int, m: &CweModule) -> bool {
    exists |i: int, j: int| ms_picked_for(old, v, n, m, i, j)
}

pub open spec fn ms_picked_for(old: Seq<&CweModule>, v: Seq<&str>, n: int, m: &CweModule, i: int, j: int) -> bool {
    ms_first_of_name(old, i) && *m == *old[i] && 0 <= j < n && old[i].name@ == v[j]@
}

// ---- `str::split` once more, the way std computes it (the shim contract uses the declarative `ms_is_piece`;
// ---- lemma_ms_split_pieces proves that both descriptions name the same pieces) ----

/// position of the first `c` in `s` (`s.len()` if there is none)
pub open spec fn ms_first_sep(s: Seq<char>, c: char) -> int
    decreases s.len(),
{
    if s.len() == 0 || s[0] == c { 0 } else { 1 + ms_first_sep(s.skip(1), c) }
}

/// `s.split(c)` as std computes it: cut at the first separator, continue behind it; a string without separator is one piece
pub open spec fn ms_split(s: Seq<char>, c: char) -> Seq<Seq<char>>
    decreases s.len(),
{
    let i = ms_first_sep(s, c);
    if 0 <= i < s.len() { seq![s.take(i)] + ms_split(s.skip(i + 1), c) } else { seq![s] }
}


// ---- the selection statement of run_with_ghidra ----

/// `p` is an entry of MODULES_LKM (element equality: the same text)
pub open spec fn ms_in_lkm(p: Seq<char>) -> bool {
    exists |k: int| 0 <= k < ms_lkm().len() && (#[trigger] ms_lkm()[k])@ == p
}

/// "a run on a Linux kernel module executes exactly the kernel-module subset": the modules whose name is an entry of MODULES_LKM
pub open spec fn ms_lkm_pred<'a>() -> spec_fn(&'a CweModule) -> bool { |m: &CweModule| ms_in_lkm(m.name@) }

/// "a default run executes every check except the OS-command-injection check"
pub open spec fn ms_default_pred<'a>() -> spec_fn(&'a CweModule) -> bool { |m: &CweModule| m.name@ != ms_oscmd() }

/// the three selection clauses of the property for one execution of the selection statement
pub open spec fn ms_select_post(old: Seq<&CweModule>, new: Seq<&CweModule>, partial: Option<String>, is_lkm: bool) -> bool {
    &&& partial is Some ==> ms_partial_post(old, new, partial->0@)
    &&& partial is None && is_lkm ==> new == old.filter(ms_lkm_pred())
    &&& partial is None && !is_lkm ==> new == old.filter(ms_default_pred())
}
