// ---------------------------------------------------------------------------
// spec/callgraph_build.rs -- specification vocabulary of unit `callgraph_build` (property C24, "for every program").
// Written from the property statement: "... exactly those DIRECT CALLS BETWEEN INTERNAL FUNCTIONS that lie on some
// call-graph path from the source function to the target function".  Nothing here is trusted: definitions only.
//
// A program is seen as `subs = program.term.subs@ : Map<Tid, Term<Sub>>` (the internal functions, keyed by tid).
// A place where a jump stands is a CgbOcc (key of the function, number of the block, number of the jump).
// ---------------------------------------------------------------------------

/// A position in the program: jump number `jmp` of block number `blk` of the function stored under key `key`.
pub ghost struct CgbOcc { pub key: Tid, pub blk: int, pub jmp: int }

/// the internal functions of a program
pub open spec fn cgb_subs(p: Term<Program>) -> Map<Tid, Term<Sub>> { p.term.subs@ }

/// the position exists
pub open spec fn cgb_in_range(subs: Map<Tid, Term<Sub>>, o: CgbOcc) -> bool {
    &&& subs.contains_key(o.key)
    &&& 0 <= o.blk < subs[o.key].term.blocks@.len()
    &&& 0 <= o.jmp < subs[o.key].term.blocks@[o.blk].term.jmps@.len()
}

/// the jump term at a position
pub open spec fn cgb_jump(subs: Map<Tid, Term<Sub>>, o: CgbOcc) -> Term<Jmp> {
    subs[o.key].term.blocks@[o.blk].term.jmps@[o.jmp]
}

/// THE PROPERTY'S WORDS "direct call between internal functions": the jump at `o` is `Jmp::Call { target, .. }`
/// (direct: not CallInd / CallOther) and `target` is (the key of) an internal function (not an extern symbol, not dangling).
pub open spec fn cgb_is_call(subs: Map<Tid, Term<Sub>>, o: CgbOcc) -> bool {
    &&& cgb_in_range(subs, o)
    &&& cgb_call_target(cgb_jump(subs, o).term) is Some
    &&& subs.contains_key(cgb_call_target(cgb_jump(subs, o).term)->Some_0)
}

/// the calling function: the tid OF THE SUB TERM stored under `o.key` (the code looks the source node up by `sub.tid`,
/// not by the map key; for a well-formed program both are the same)
pub open spec fn cgb_caller(subs: Map<Tid, Term<Sub>>, o: CgbOcc) -> Tid { subs[o.key].tid }

/// the called function
pub open spec fn cgb_callee(subs: Map<Tid, Term<Sub>>, o: CgbOcc) -> Tid { cgb_call_target(cgb_jump(subs, o).term)->Some_0 }

/// PRECONDITION of get_program_callgraph (otherwise `tid_to_node_index_map.get(&sub.tid).unwrap()` panics): the tid
/// of every sub term is a key of the map.  Implied by well-formedness `subs[k].tid == k` (cgb_wf).
pub open spec fn cgb_pre(subs: Map<Tid, Term<Sub>>) -> bool {
    forall |k: Tid| #[trigger] subs.contains_key(k) ==> subs.contains_key(subs[k].tid)
}

/// every function is stored under its own tid
pub open spec fn cgb_wf(subs: Map<Tid, Term<Sub>>) -> bool {
    forall |k: Tid| #[trigger] subs.contains_key(k) ==> subs[k].tid == k
}

/// HYPOTHESES on the key type `Tid` under which vstd states its specifications of std's BTreeMap / HashMap:
/// the derived `Ord` is a lawful total order agreeing with `==`; the derived `Hash` / `Eq` are consistent and
/// deterministic ("key model").
pub open spec fn cgb_key_hyp() -> bool {
    &&& vstd::laws_cmp::obeys_cmp::<Tid>()
    &&& vstd::std_specs::hash::obeys_key_model::<Tid>()
}

// ---- the result of get_program_callgraph -----------------------------------------------------------------------

/// NODES: exactly one node per key of `subs`, labelled with that key.
pub open spec fn cgb_nodes_ok<E>(g: DiGraph<Tid, E>, subs: Map<Tid, Term<Sub>>) -> bool {
    &&& forall |n: int| 0 <= n < g.node_count_spec() ==> subs.contains_key(#[trigger] g.node_weight(n))
    &&& forall |n1: int, n2: int| 0 <= n1 < n2 < g.node_count_spec() ==> #[trigger] g.node_weight(n1) != #[trigger] g.node_weight(n2)
    &&& forall |k: Tid| #[trigger] subs.contains_key(k) ==> exists |n: int| 0 <= n < g.node_count_spec() && #[trigger] g.node_weight(n) == k
}

/// edge `e` stands for the call at position `o`: its weight is that jump term, it leaves the node labelled with the
/// tid of the calling function and enters the node labelled with the call target
pub open spec fn cgb_edge_is<'a>(g: DiGraph<Tid, &'a Term<Jmp>>, subs: Map<Tid, Term<Sub>>, e: int, o: CgbOcc) -> bool {
    &&& cgb_is_call(subs, o)
    &&& *g.edge_weight(e) == cgb_jump(subs, o)
    &&& g.edge_seq()[e].0.i < g.node_count_spec() && g.node_weight(g.edge_seq()[e].0.i as int) == cgb_caller(subs, o)
    &&& g.edge_seq()[e].1.i < g.node_count_spec() && g.node_weight(g.edge_seq()[e].1.i as int) == cgb_callee(subs, o)
}

/// EDGES: `occ[e]` is the position edge `e` stands for; every edge stands for a direct call between internal
/// functions, no two edges for the same position, every such call has its edge ("each occurrence exactly once").
pub open spec fn cgb_edges_ok<'a>(g: DiGraph<Tid, &'a Term<Jmp>>, subs: Map<Tid, Term<Sub>>, occ: Seq<CgbOcc>) -> bool {
    &&& occ.len() == g.edge_seq().len()
    &&& forall |e: int| 0 <= e < occ.len() ==> cgb_edge_is(g, subs, e, #[trigger] occ[e])
    &&& forall |e1: int, e2: int| 0 <= e1 < e2 < occ.len() ==> #[trigger] occ[e1] != #[trigger] occ[e2]
    &&& forall |o: CgbOcc| #[trigger] cgb_is_call(subs, o) ==> exists |e: int| 0 <= e < occ.len() && #[trigger] occ[e] == o
}

/// THE POSTCONDITION of get_program_callgraph
pub open spec fn cgb_built<'a>(g: DiGraph<Tid, &'a Term<Jmp>>, subs: Map<Tid, Term<Sub>>) -> bool {
    &&& cgb_nodes_ok(g, subs)
    &&& exists |occ: Seq<CgbOcc>| cgb_edges_ok(g, subs, occ)
}

// ---- loop invariants --------------------------------------------------------------------------------------------

/// `s` is an iteration over the entries of `m`: what vstd knows about `m.iter()` at loop entry (cf. dm_iter_of)
pub open spec fn cgb_iter_of(s: Seq<(&Tid, &Term<Sub>)>, m: Map<Tid, Term<Sub>>) -> bool {
    &&& forall |i: int| 0 <= i < s.len() ==> m.contains_key(*(#[trigger] s[i]).0) && m[*s[i].0] == *s[i].1
    &&& forall |k: Tid| m.contains_key(k) ==> exists |i: int| 0 <= i < s.len() && *(#[trigger] s[i]).0 == k
    &&& s.no_duplicates()
}

/// first loop, after `n` keys: node j is labelled with the j-th key, the HashMap sends the j-th key to node j, no edges
pub open spec fn cgb_nodes_partial<E>(g: DiGraph<Tid, E>, tmap: Map<Tid, NodeIndex>, s: Seq<(&Tid, &Term<Sub>)>, n: int) -> bool {
    &&& g.node_count_spec() == n
    &&& g.edge_seq().len() == 0
    &&& forall |j: int| 0 <= j < n ==> #[trigger] g.node_weight(j) == *s[j].0
    &&& forall |j: int| 0 <= j < n ==> tmap.contains_key(*(#[trigger] s[j]).0) && tmap[*s[j].0].i == j
    &&& forall |k: Tid| #[trigger] tmap.contains_key(k) ==> exists |j: int| 0 <= j < n && *(#[trigger] s[j]).0 == k
}

/// between the loops and during the second one: the HashMap is the inverse of the node labelling, defined on the keys of subs
pub open spec fn cgb_node_map_ok<E>(g: DiGraph<Tid, E>, tmap: Map<Tid, NodeIndex>, subs: Map<Tid, Term<Sub>>) -> bool {
    &&& forall |k: Tid| #[trigger] tmap.contains_key(k) <==> subs.contains_key(k)
    &&& forall |k: Tid| #[trigger] tmap.contains_key(k) ==> tmap[k].i < g.node_count_spec() && g.node_weight(tmap[k].i as int) == k
    &&& forall |n: int| 0 <= n < g.node_count_spec() ==> tmap.contains_key(#[trigger] g.node_weight(n)) && tmap[g.node_weight(n)].i == n
}

/// second loop nest: the position `o` has been passed when the loops stand at function number `si` of the iteration
/// `s`, block number `bi`, jump number `ji` (lexicographic order)
pub open spec fn cgb_done(s: Seq<(&Tid, &Term<Sub>)>, si: int, bi: int, ji: int, o: CgbOcc) -> bool {
    exists |x: int| 0 <= x < s.len() && *(#[trigger] s[x]).0 == o.key
        && (x < si || (x == si && (o.blk < bi || (o.blk == bi && o.jmp < ji))))
}

/// second loop nest: the edges built so far stand exactly for the direct internal calls at the positions passed so far
/// (opaque: the loops treat it as an atom; every transition is a lemma of lemmas/callgraph_build.rs, which reveal it)
#[verifier::opaque]
pub open spec fn cgb_edges_partial<'a>(g: DiGraph<Tid, &'a Term<Jmp>>, subs: Map<Tid, Term<Sub>>, occ: Seq<CgbOcc>,
                                       s: Seq<(&Tid, &Term<Sub>)>, si: int, bi: int, ji: int) -> bool {
    &&& occ.len() == g.edge_seq().len()
    &&& forall |e: int| 0 <= e < occ.len() ==> cgb_edge_is(g, subs, e, #[trigger] occ[e]) && cgb_done(s, si, bi, ji, occ[e])
    &&& forall |e1: int, e2: int| 0 <= e1 < e2 < occ.len() ==> #[trigger] occ[e1] != #[trigger] occ[e2]
    &&& forall |o: CgbOcc| #[trigger] cgb_is_call(subs, o) && cgb_done(s, si, bi, ji, o) ==> exists |e: int| 0 <= e < occ.len() && #[trigger] occ[e] == o
}

// ---- the property over the PROGRAM (composition with the query of unit callgraph) --------------------------------------

/// `c` is a chain of direct calls between internal functions leading from function `a` to function `b`: every element
/// is such a call, each call is made by the function the previous one calls, the first by `a`, the last one calls
/// `b`.  The empty chain leads from a function to itself.
pub open spec fn cgb_chain(subs: Map<Tid, Term<Sub>>, c: Seq<CgbOcc>, a: Tid, b: Tid) -> bool {
    &&& forall |i: int| 0 <= i < c.len() ==> cgb_is_call(subs, #[trigger] c[i])
    &&& forall |i: int, j: int| 0 <= i && j == i + 1 && j < c.len() ==> cgb_callee(subs, #[trigger] c[i]) == cgb_caller(subs, #[trigger] c[j])
    &&& if c.len() == 0 { a == b } else { cgb_caller(subs, c[0]) == a && cgb_callee(subs, c[c.len() - 1]) == b }
}

/// THE PROPERTY'S WORDS, over the program: the call at `o` lies on some chain of calls from function `a` to function `b`
pub open spec fn cgb_on_chain(subs: Map<Tid, Term<Sub>>, a: Tid, b: Tid, o: CgbOcc) -> bool {
    exists |c: Seq<CgbOcc>| #[trigger] cgb_chain(subs, c, a, b) && c.contains(o)
}

/// C24 FOR A PROGRAM: `r` is exactly the set of the tids of the direct calls between internal functions that lie on
/// some chain of such calls from function `a` to function `b`
pub open spec fn cgb_result_ok(subs: Map<Tid, Term<Sub>>, a: Tid, b: Tid, r: Set<Tid>) -> bool {
    forall |x: Tid| #[trigger] r.contains(x) <==> exists |o: CgbOcc| #[trigger] cgb_on_chain(subs, a, b, o) && x == cgb_jump(subs, o).tid
}
