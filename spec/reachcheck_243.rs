// ---------------------------------------------------------------------------
// spec/reachcheck_243.rs -- specification vocabulary of unit `reachcheck_243` (property C17, chroot check).
// Definitions only, nothing trusted.  Written from the property statement:
//   "The chroot check reports a chroot call exactly when no chdir call is reachable after it in that sense and its function
//    does not call both chdir and a privilege-dropping function (or when chdir is not imported at all); it handles every
//    program without failing."
// ---------------------------------------------------------------------------

/// jump number `i` of the block is a DIRECT call to `tid`
pub open spec fn rc_jmp_calls(blk: Term<Blk>, tid: Tid, i: int) -> bool {
    0 <= i < blk.term.jmps@.len() && cgb_call_target(blk.term.jmps@[i].term) == Some(tid)
}

/// the block calls `tid`
pub open spec fn rc_blk_calls(blk: Term<Blk>, tid: Tid) -> bool {
    exists |i: int| rc_jmp_calls(blk, tid, i)
}

/// jump number `i` is the FIRST jump of the block that is a direct call to `tid`
pub open spec fn rc_first_call(blk: Term<Blk>, tid: Tid, i: int) -> bool {
    rc_jmp_calls(blk, tid, i) && forall |j: int| 0 <= j < i ==> !rc_jmp_calls(blk, tid, j)
}

/// the tid of the first jump of the block that is a direct call to `tid` (meaningful when rc_blk_calls)
pub open spec fn rc_callsite(blk: Term<Blk>, tid: Tid) -> Tid {
    blk.term.jmps@[choose |i: int| rc_first_call(blk, tid, i)].tid
}

/// CONTRACT of blk_calls_tid
pub open spec fn rc_blk_calls_tid_post(blk: Term<Blk>, tid: Tid, r: Option<Tid>) -> bool {
    match r {
        None => !rc_blk_calls(blk, tid),
        Some(t) => rc_blk_calls(blk, tid) && t == rc_callsite(blk, tid),
    }
}

/// some block of the function calls `tid`
pub open spec fn rc_sub_calls(sub: Term<Sub>, tid: Tid) -> bool {
    exists |b: int| 0 <= b < sub.term.blocks@.len() && rc_blk_calls(#[trigger] sub.term.blocks@[b], tid)
}

/// some block of the function calls one of `tids`
pub open spec fn rc_sub_calls_any(sub: Term<Sub>, tids: Seq<Tid>) -> bool {
    exists |k: int| 0 <= k < tids.len() && rc_sub_calls(sub, #[trigger] tids[k])
}

/// "its function calls both chdir and a privilege-dropping function"
pub open spec fn rc_sub_calls_both(sub: Term<Sub>, chdir: Tid, privs: Seq<Tid>) -> bool {
    rc_sub_calls(sub, chdir) && rc_sub_calls_any(sub, privs)
}

// ---- check_cwe -------------------------------------------------------------------------------------------------------------

/// the warning `generate_cwe_warning(sub, callsite)` of cwe_243.rs builds (text formatting: not modelled), as a function of
/// its arguments
pub uninterp spec fn rc243_warning(sub: Term<Sub>, callsite: Tid) -> CweWarning;

/// the tids of the configured privilege-dropping functions that are imported: the lookup results for the first `n`
/// configured names, in order (names that are not imported are skipped)
pub open spec fn rc243_priv_tids(m: Map<Tid, ExternSymbol>, names: Seq<String>, n: int) -> Seq<Tid>
    decreases n
{
    if n <= 0 {
        Seq::empty()
    } else {
        let prev = rc243_priv_tids(m, names, n - 1);
        match rc_find_symbol(m, names[n - 1]@) {
            Some(t) => prev.push(t),
            None => prev,
        }
    }
}

/// "its function calls a privilege-dropping function", in the property's words: some configured name is imported and
/// some block of the function calls the symbol found for it
pub open spec fn rc243_sub_drops(sub: Term<Sub>, m: Map<Tid, ExternSymbol>, names: Seq<String>) -> bool {
    exists |k: int| 0 <= k < names.len() && rc_find_symbol(m, (#[trigger] names[k])@) is Some
        && rc_sub_calls(sub, rc_find_symbol(m, names[k]@)->Some_0)
}

/// the block / function a BlkEnd node stands for
pub open spec fn rc_blkend<'a>(w: Node<'a>) -> Option<(&'a Term<Blk>, &'a Term<Sub>)> {
    match w {
        Node::BlkEnd(blk, sub) => Some((blk, sub)),
        _ => None,
    }
}

/// node `i` is the end of a block that calls chroot ("a chroot call")
pub open spec fn rc243_chroot_site<'a, E>(g: DiGraph<Node<'a>, E>, chroot: Tid, i: int) -> bool {
    rc_blkend(g.node_weight(i)) is Some && rc_blk_calls(*rc_blkend(g.node_weight(i))->Some_0.0, chroot)
}

/// node `a` has exactly one outgoing edge
pub open spec fn rc_one_out_edge<N, E>(g: DiGraph<N, E>, a: NodeIndex) -> bool {
    &&& exists |e: int| rc_out_edge(g, a, e)
    &&& forall |e1: int, e2: int| rc_out_edge(g, a, e1) && rc_out_edge(g, a, e2) ==> e1 == e2
}

/// the node "after" the call: the target of the (one) outgoing edge of the block-end node
pub open spec fn rc_after<N, E>(g: DiGraph<N, E>, a: NodeIndex) -> NodeIndex {
    g.edge_seq()[choose |e: int| rc_out_edge(g, a, e)].1
}

/// PRECONDITION of cwe_243::check_cwe (no panic): when chroot and chdir are both imported, the end node of every block that
/// calls chroot has exactly one outgoing edge.  (A fact about the CFG builder -- property C08 -- and the program: the builder
/// gives the end node of a block whose only jump is a returning direct call to an extern symbol exactly one edge, the
/// ExternCallStub to the return block.)
pub open spec fn rc243_pre<'a>(g: DiGraph<Node<'a>, Edge<'a>>, m: Map<Tid, ExternSymbol>) -> bool {
    rc_find_symbol(m, "chroot"@) is Some && rc_find_symbol(m, "chdir"@) is Some ==>
        forall |i: int| 0 <= i < g.node_count_spec() && rc_blkend(#[trigger] g.node_weight(i)) is Some
            && rc_blk_calls(*rc_blkend(g.node_weight(i))->Some_0.0, rc_find_symbol(m, "chroot"@)->Some_0)
            ==> rc_one_out_edge(g, NodeIndex { i: i as usize })
}

/// THE PROPERTY'S DECISION for node `i`: it is a chroot call, and (chdir is not imported at all, or no chdir call is
/// reachable after it -- intraprocedurally, without passing another chroot call -- and its function does not call both
/// chdir and a privilege-dropping function)
pub open spec fn rc243_reports<'a>(g: DiGraph<Node<'a>, Edge<'a>>, m: Map<Tid, ExternSymbol>, names: Seq<String>, i: int) -> bool {
    let chroot = rc_find_symbol(m, "chroot"@);
    let chdir = rc_find_symbol(m, "chdir"@);
    &&& chroot is Some
    &&& rc243_chroot_site(g, chroot->Some_0, i)
    &&& (chdir is None || {
            &&& !rc_sink_reachable(g, rc_after(g, NodeIndex { i: i as usize }), chroot->Some_0, chdir->Some_0)
            &&& !(rc_sub_calls(*rc_blkend(g.node_weight(i))->Some_0.1, chdir->Some_0)
                  && rc243_sub_drops(*rc_blkend(g.node_weight(i))->Some_0.1, m, names))
        })
}

/// the warning for node `i`: names the function and the first jump of the block that calls chroot
pub open spec fn rc243_warning_at<'a, E>(g: DiGraph<Node<'a>, E>, m: Map<Tid, ExternSymbol>, i: int) -> CweWarning {
    rc243_warning(*rc_blkend(g.node_weight(i))->Some_0.1,
                  rc_callsite(*rc_blkend(g.node_weight(i))->Some_0.0, rc_find_symbol(m, "chroot"@)->Some_0))
}

/// the warnings for the first `n` nodes, in node order
pub open spec fn rc243_warnings<'a>(g: DiGraph<Node<'a>, Edge<'a>>, m: Map<Tid, ExternSymbol>, names: Seq<String>, n: int) -> Seq<CweWarning>
    decreases n
{
    if n <= 0 {
        Seq::empty()
    } else {
        let prev = rc243_warnings(g, m, names, n - 1);
        if rc243_reports(g, m, names, n - 1) { prev.push(rc243_warning_at(g, m, n - 1)) } else { prev }
    }
}
