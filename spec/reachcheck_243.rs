// ---------------------------------------------------------------------------
// spec/reachcheck_243.rs -- specification vocabulary of unit `reachcheck_243` (property C17, chroot check).
// Definitions only, nothing trusted.  Written from the property statement:
//   "The chroot check reports a chroot call exactly when no chdir call is reachable after it in that sense and its function
//    does not call both chdir and a privilege-dropping function (or when chdir is not imported at all); it handles every
//    program without failing."
// ---------------------------------------------------------------------------

/// jump number `i` of the block is a DIRECT call to `tid`
pub open spec fn rc_jmp_calls(blk: Term<Blk>, tid: Tid, i: int) -> bool {
    0 <= i < blk.term.jmps@.len() && cgb_call_target(blk.term.jmps@[i].term) == Some(tid)
}

/// the block calls `tid`
pub open spec fn rc_blk_calls(blk: Term<Blk>, tid: Tid) -> bool {
    exists |i: int| rc_jmp_calls(blk, tid, i)
}

/// jump number `i` is the FIRST jump of the block that is a direct call to `tid`
pub open spec fn rc_first_call(blk: Term<Blk>, tid: Tid, i: int) -> bool {
    rc_jmp_calls(blk, tid, i) && forall |j: int| 0 <= j < i ==> !rc_jmp_calls(blk, tid, j)
}

/// the tid of the first jump of the block that is a direct call to `tid` (meaningful when rc_blk_calls)
pub open spec fn rc_callsite(blk: Term<Blk>, tid: Tid) -> Tid {
    blk.term.jmps@[choose |i: int| rc_first_call(blk, tid, i)].tid
}

/// CONTRACT of blk_calls_tid
pub open spec fn rc_blk_calls_tid_post(blk: Term<Blk>, tid: Tid, r: Option<Tid>) -> bool {
    match r {
        None => !rc_blk_calls(blk, tid),
        Some(t) => rc_blk_calls(blk, tid) && t == rc_callsite(blk, tid),
    }
}

/// some block of the function calls `tid`
pub open spec fn rc_sub_calls(sub: Term<Sub>, tid: Tid) -> bool {
    exists |b: int| 0 <= b < sub.term.blocks@.len() && rc_blk_calls(#[trigger] sub.term.blocks@[b], tid)
}

/// some block of the function calls one of `tids`
pub open spec fn rc_sub_calls_any(sub: Term<Sub>, tids: Seq<Tid>) -> bool {
    exists |k: int| 0 <= k < tids.len() && rc_sub_calls(sub, #[trigger] tids[k])
}

/// "its function calls both chdir and a privilege-dropping function"
pub open spec fn rc_sub_calls_both(sub: Term<Sub>, chdir: Tid, privs: Seq<Tid>) -> bool {
    rc_sub_calls(sub, chdir) && rc_sub_calls_any(sub, privs)
}

// ---- check_cwe -------------------------------------------------------------------------------------------------------------

/// the warning `generate_cwe_warning(sub, callsite)` of cwe_243.rs builds (text formatting: not modelled), as a function of
/// its arguments
pub uninterp spec fn rc243_warning(sub: Term<Sub>, callsite: Tid) -> CweWarning;

/// the tids of the configured privilege-dropping functions that are imported: the lookup results for the first `n`
/// configured names, in order (names that are not imported are skipped)
pub open spec fn rc243_priv_tids(m: Map<Tid, ExternSymbol>, names: Seq<String>, n: int) -> Seq<Tid>
    decreases n
{
    if n <= 0 {
        Seq::empty()
    } else {
        let prev = rc243_priv_tids(m, names, n - 1);
        match rc_find_symbol(m, names[n - 1]@) {
            Some(t) => prev.push(t),
            None => prev,
        }
    }
}

/// "its function calls a privilege-dropping function", in the property's words: some configured name is imported and
/// some block of the function calls the symbol found for it
pub open spec fn rc243_sub_drops(sub: Term<Sub>, m: Map<Tid, ExternSymbol>, names: Seq<String>) -> bool {
    exists |k: int| 0 <= k < names.len() && rc_find_symbol(m, (#[trigger] names[k])@) is Some
        && rc_sub_calls(sub, rc_find_symbol(m, names[k]@)->Some_0)
}

/// the block / function a BlkEnd node stands for
pub open spec fn rc_blkend<'a>(w: Node<'a>) -> Option<(&'a Term<Blk>, &'a Term<Sub>)> {
    match w {
        Node::BlkEnd(blk, sub) => Some((blk, sub)),
        _ => None,
    }
}

/// node `i` is the end of a block that calls chroot ("a chroot call")
pub open spec fn rc243_chroot_site<'a, E>(g: DiGraph<Node<'a>, E>, chroot: Tid, i: int) -> bool {
    rc_blkend(g.node_weight(i)) is Some && rc_blk_calls(*rc_blkend(g.node_weight(i))->Some_0.0, chroot)
}

/// edge `e` is "the return edge of the call at `callsite`": it leaves node `a`, is an ExternCallStub, and its jump is the
/// call site (the CFG builder gives a returning call to an extern symbol exactly this edge, to the block the call returns to)
pub open spec fn rc243_ret_edge<'a, N>(g: DiGraph<N, Edge<'a>>, a: NodeIndex, callsite: Tid, e: int) -> bool {
    &&& rc_out_edge(g, a, e)
    &&& rc_stub_jmp(g.edge_weight(e)) is Some
    &&& rc_stub_jmp(g.edge_weight(e))->Some_0.tid == callsite
}

/// `ret` is a return site of the call: the target of SOME return edge (a built CFG has at most one; in an arbitrary graph
/// the code keeps the last one in petgraph's edge order -- not specified here), None iff there is no return edge ("the call
/// does not return")
pub open spec fn rc243_ret_ok<'a, N>(g: DiGraph<N, Edge<'a>>, a: NodeIndex, callsite: Tid, ret: Option<NodeIndex>) -> bool {
    match ret {
        None => forall |e: int| !rc243_ret_edge(g, a, callsite, e),
        Some(r) => exists |e: int| #[trigger] rc243_ret_edge(g, a, callsite, e) && r == g.edge_seq()[e].1,
    }
}

/// THE PROPERTY'S DECISION for a chroot call of function `sub` with return site `ret`, chdir imported: report iff no chdir
/// call is reachable after it (from the return site, intraprocedurally, without passing another chroot call; nothing is
/// reachable after a call that does not return) and the function does not call both chdir and a privilege-dropping function
pub open spec fn rc243_decision<'a, N>(g: DiGraph<N, Edge<'a>>, m: Map<Tid, ExternSymbol>, names: Seq<String>, sub: Term<Sub>,
                                       chroot: Tid, chdir: Tid, ret: Option<NodeIndex>) -> bool {
    &&& !(ret is Some && rc_sink_reachable(g, ret->Some_0, chroot, chdir))
    &&& !(rc_sub_calls(sub, chdir) && rc243_sub_drops(sub, m, names))
}

/// `b` is a correct verdict for node `i` (true = one warning, false = none): no warning unless the node is a chroot call;
/// a warning when chdir is not imported at all; otherwise the decision above for SOME return site of the call
pub open spec fn rc243_verdict<'a>(g: DiGraph<Node<'a>, Edge<'a>>, m: Map<Tid, ExternSymbol>, names: Seq<String>, i: int, b: bool) -> bool {
    let chroot = rc_find_symbol(m, "chroot"@);
    let chdir = rc_find_symbol(m, "chdir"@);
    if !(chroot is Some && rc243_chroot_site(g, chroot->Some_0, i)) {
        !b
    } else if chdir is None {
        b
    } else {
        exists |ret: Option<NodeIndex>|
            #[trigger] rc243_ret_ok(g, NodeIndex { i: i as usize }, rc_callsite(*rc_blkend(g.node_weight(i))->Some_0.0, chroot->Some_0), ret)
            && b == rc243_decision(g, m, names, *rc_blkend(g.node_weight(i))->Some_0.1, chroot->Some_0, chdir->Some_0, ret)
    }
}

/// the warning for node `i`: names the function and the first jump of the block that calls chroot
pub open spec fn rc243_warning_at<'a, E>(g: DiGraph<Node<'a>, E>, m: Map<Tid, ExternSymbol>, i: int) -> CweWarning {
    rc243_warning(*rc_blkend(g.node_weight(i))->Some_0.1,
                  rc_callsite(*rc_blkend(g.node_weight(i))->Some_0.0, rc_find_symbol(m, "chroot"@)->Some_0))
}

/// `w` is a correct list of warnings for the first `n` nodes, in node order: one warning per node with verdict true, none
/// for a node with verdict false
pub open spec fn rc243_list<'a>(g: DiGraph<Node<'a>, Edge<'a>>, m: Map<Tid, ExternSymbol>, names: Seq<String>, n: int, w: Seq<CweWarning>) -> bool
    decreases n
{
    if n <= 0 {
        w.len() == 0
    } else {
        ||| (rc243_verdict(g, m, names, n - 1, true) && w.len() > 0 && w.last() == rc243_warning_at(g, m, n - 1)
             && rc243_list(g, m, names, n - 1, w.drop_last()))
        ||| (rc243_verdict(g, m, names, n - 1, false) && rc243_list(g, m, names, n - 1, w))
    }
}

/// state of the search for the return edge among the first `idx` outgoing edges of the node
pub open spec fn rc243_ret_upto<'a, N>(g: DiGraph<N, Edge<'a>>, a: NodeIndex, callsite: Tid, refs: Seq<RcEdgeReference<'a, Edge<'a>>>, idx: int, cur: Option<NodeIndex>) -> bool {
    match cur {
        None => forall |k: int| 0 <= k < idx && k < refs.len() ==> !rc243_ret_edge(g, a, callsite, (#[trigger] refs[k]).e.i as int),
        Some(r) => exists |k: int| 0 <= k < idx && k < refs.len() && rc243_ret_edge(g, a, callsite, (#[trigger] refs[k]).e.i as int) && r == refs[k].tgt,
    }
}
