#!/bin/sh
# Re-run every registered quick check on the current (unchanged) tree and make sure each one is quiet;
# run this before committing so that the committed evidence files describe clean runs.
cd "$(dirname "$0")" || exit 2
test -z "$(git -C /repo status --porcelain)" || { echo "refusing: /repo is not clean"; exit 2; }
rc=0
for c in $(python3 -c "import vx.props as P; print(' '.join(sorted(P.PROPS)))"); do
  out=$(./check "$c" --tier quick); code=$?
  echo "$out" | tail -1
  [ $code -eq 0 ] || rc=1
done
exit $rc
