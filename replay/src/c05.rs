//! C05 twin: `abstract_domain::MemRegion<T>`, run on the REAL crate.
//!
//!   "After any sequence of writes, removals, top-writes, offset shifts and merges on an abstract memory region, no two
//!    stored cells overlap and no stored cell is the unknown value.  A read at an offset with a size returns the value
//!    last written there with exactly that offset and size unless a later operation touched an overlapping byte, and
//!    the unknown value otherwise; a merge keeps only cells that both inputs hold at the same offset with the same size
//!    (merged) or that overlap nothing in the other input."
//!
//! Twin `c05.ops` (BOUNDED -- a seeded enumeration, not a proof):
//!   regions   `MemRegion<BitvectorDomain>`, `MemRegion<IntervalDomain>` and `MemRegion<Flagged>` (a test domain declared
//!             here whose merge with the unknown value is NOT the unknown value, so that the "merged with top" paths of
//!             merge_write_top / mark_interval_values_as_top / merge keep cells), address size 8 bytes
//!   ops       sequences of length <= 8 of: add, remove, merge_write_top, mark_interval_values_as_top,
//!             add_offset_to_all_indices, merge with a second region (itself built by <= 4 adds), offsets in -16..48,
//!             cell sizes 1, 2, 4, 8
//! Reference = a plain Vec of (offset, size, value) cells updated as the property statement says (NOT as the code
//! does: no ordered map, no "previous element" trick, no range queries).  The value-level merge / top / is_top of
//! the domain are taken from the domain itself: C05 is about the cell structure, not about the value lattice.
//! Checks after every operation:
//!   cells        the real region holds exactly the reference cells (offset, value)
//!   no-overlap   no two stored cells of the real region overlap           (checked on the real region directly)
//!   no-top       no stored cell of the real region is the unknown value, none has size 0
//!   read         `get(offset, size)` for all offsets in -18..50 and the sizes 1, 2, 4, 8 returns the cell stored with
//!                exactly that offset and size, else the unknown value of that size (this contains read-after-write)
//!   no-panic     the real call does not panic (all inputs satisfy the stated preconditions)
use crate::util::Rng;
use cwe_checker_lib::abstract_domain::{AbstractDomain, BitvectorDomain, HasTop, IntervalDomain, MemRegion, SizedDomain};
use cwe_checker_lib::intermediate_representation::{Bitvector, ByteSize};
use serde_json::{json, Value};
use std::panic::{catch_unwind, AssertUnwindSafe};

/// Test domain: a known byte `v` of `size` bytes, possibly "maybe overwritten" -- or the unknown value.
/// merge(Val, Top) = Val with the flag set (NOT top); merge of different bytes = Top.
#[derive(Clone, Debug, PartialEq, Eq)]
pub enum Flagged {
    Top(u64),
    Val { size: u64, v: u8, maybe: bool },
}

impl AbstractDomain for Flagged {
    fn merge(&self, other: &Self) -> Self {
        match (self, other) {
            (Flagged::Top(s), _) => Flagged::Top(*s),
            (Flagged::Val { size, v, .. }, Flagged::Top(_)) => Flagged::Val { size: *size, v: *v, maybe: true },
            (Flagged::Val { size, v, maybe }, Flagged::Val { v: v2, maybe: m2, .. }) => {
                if v == v2 {
                    Flagged::Val { size: *size, v: *v, maybe: *maybe || *m2 }
                } else {
                    Flagged::Top(*size)
                }
            }
        }
    }
    fn is_top(&self) -> bool {
        matches!(self, Flagged::Top(_))
    }
}
impl SizedDomain for Flagged {
    fn bytesize(&self) -> ByteSize {
        match self {
            Flagged::Top(s) => ByteSize::new(*s),
            Flagged::Val { size, .. } => ByteSize::new(*size),
        }
    }
    fn new_top(bytesize: ByteSize) -> Self {
        Flagged::Top(u64::from(bytesize))
    }
}
impl HasTop for Flagged {
    fn top(&self) -> Self {
        Flagged::Top(u64::from(self.bytesize()))
    }
}

/// what the twin needs from a value domain: a constructor for "the byte v in `size` bytes"
pub trait TwinDom: AbstractDomain + SizedDomain + HasTop + std::fmt::Debug {
    fn mk(size: u64, v: u8) -> Self;
}
fn bitvec(size: u64, v: u8) -> Bitvector {
    Bitvector::from_u64(v as u64).into_truncate(size as usize * 8).unwrap_or_else(|_| Bitvector::from_u64(v as u64))
}
impl TwinDom for BitvectorDomain {
    fn mk(size: u64, v: u8) -> Self {
        BitvectorDomain::Value(bitvec(size, v))
    }
}
impl TwinDom for IntervalDomain {
    fn mk(size: u64, v: u8) -> Self {
        IntervalDomain::from(bitvec(size, v))
    }
}
impl TwinDom for Flagged {
    fn mk(size: u64, v: u8) -> Self {
        Flagged::Val { size, v, maybe: false }
    }
}

#[derive(Clone, Debug)]
pub enum Op {
    /// write the byte v (None: the unknown value) with `size` bytes at `off`
    Add { off: i64, size: u64, v: Option<u8> },
    Remove { off: i64, size: u64 },
    MergeWriteTop { off: i64, size: u64 },
    MarkIntervalTop { start: i64, end: i64, elem: u64 },
    AddOffset { o: i64 },
    /// merge with a region built from these writes
    Merge { other: Vec<(i64, u64, Option<u8>)> },
}

impl Op {
    fn to_json(&self) -> Value {
        match self {
            Op::Add { off, size, v } => json!(["add", off, size, v]),
            Op::Remove { off, size } => json!(["remove", off, size]),
            Op::MergeWriteTop { off, size } => json!(["merge_write_top", off, size]),
            Op::MarkIntervalTop { start, end, elem } => json!(["mark_interval_values_as_top", start, end, elem]),
            Op::AddOffset { o } => json!(["add_offset_to_all_indices", o]),
            Op::Merge { other } => json!(["merge", other.iter().map(|(o, s, v)| json!([o, s, v])).collect::<Vec<_>>()]),
        }
    }
    fn from_json(j: &Value) -> Option<Op> {
        let i = |k: usize| j[k].as_i64().unwrap_or(0);
        let u = |k: usize| j[k].as_u64().unwrap_or(1);
        let optv = |x: &Value| x.as_u64().map(|b| b as u8);
        Some(match j[0].as_str()? {
            "add" => Op::Add { off: i(1), size: u(2), v: optv(&j[3]) },
            "remove" => Op::Remove { off: i(1), size: u(2) },
            "merge_write_top" => Op::MergeWriteTop { off: i(1), size: u(2) },
            "mark_interval_values_as_top" => Op::MarkIntervalTop { start: i(1), end: i(2), elem: u(3) },
            "add_offset_to_all_indices" => Op::AddOffset { o: i(1) },
            "merge" => Op::Merge {
                other: j[1].as_array()?.iter().map(|e| (e[0].as_i64().unwrap_or(0), e[1].as_u64().unwrap_or(1), optv(&e[2]))).collect(),
            },
            _ => return None,
        })
    }
}

// ------------------------------------------------------------------------------------------------------------------
// the reference cell store (from the property statement)
type Cells<T> = Vec<(i64, u64, T)>;

fn meets(off: i64, size: u64, p: i64, s: i64) -> bool {
    // the cell [off, off+size) and the byte range [p, p+s) have a byte in common
    (off as i128) < p as i128 + s as i128 && (p as i128) < off as i128 + size as i128
}

fn val<T: TwinDom>(size: u64, v: Option<u8>) -> T {
    match v {
        Some(b) => T::mk(size, b),
        None => T::new_top(ByteSize::new(size)),
    }
}

fn ref_write<T: TwinDom>(cells: &mut Cells<T>, off: i64, size: u64, value: T) {
    cells.retain(|(o, s, _)| !meets(*o, *s, off, size as i64));
    if !value.is_top() {
        cells.push((off, size, value));
    }
}

fn ref_top_range<T: TwinDom>(cells: &mut Cells<T>, p: i64, s: i64) {
    let old = std::mem::take(cells);
    for (o, sz, v) in old {
        if meets(o, sz, p, s) {
            let m = v.merge(&v.top());
            if !m.is_top() {
                cells.push((o, sz, m));
            }
        } else {
            cells.push((o, sz, v));
        }
    }
}

fn ref_merge<T: TwinDom>(a: &Cells<T>, b: &Cells<T>) -> Cells<T> {
    let mut out = Vec::new();
    let one_sided = |x: &Cells<T>, y: &Cells<T>, out: &mut Cells<T>| {
        for (o, s, v) in x {
            if y.iter().any(|(o2, _, _)| o2 == o) {
                continue;
            }
            // held by one input only: kept iff it overlaps nothing in the other input (merged with the unknown value)
            if !y.iter().any(|(o2, s2, _)| meets(*o2, *s2, *o, *s as i64)) {
                let m = v.merge(&T::new_top(ByteSize::new(*s)));
                if !m.is_top() {
                    out.push((*o, *s, m));
                }
            }
        }
    };
    for (o, s, v) in a {
        if let Some((_, s2, v2)) = b.iter().find(|(o2, _, _)| o2 == o) {
            // both inputs hold a cell at this offset: kept iff same size (merged)
            if s == s2 {
                let m = v.merge(v2);
                if !m.is_top() {
                    out.push((*o, *s, m));
                }
            }
        }
    }
    one_sided(a, b, &mut out);
    one_sided(b, a, &mut out);
    out
}

fn ref_apply<T: TwinDom>(cells: &mut Cells<T>, op: &Op) {
    match op {
        Op::Add { off, size, v } => ref_write(cells, *off, *size, val::<T>(*size, *v)),
        Op::Remove { off, size } => cells.retain(|(o, s, _)| !meets(*o, *s, *off, *size as i64)),
        Op::MergeWriteTop { off, size } => {
            if cells.iter().any(|(o, s, _)| o == off && s == size) {
                ref_top_range(cells, *off, *size as i64); // touches exactly that cell (cells do not overlap)
            } else {
                cells.retain(|(o, s, _)| !meets(*o, *s, *off, *size as i64));
            }
        }
        Op::MarkIntervalTop { start, end, elem } => ref_top_range(cells, *start, *end + *elem as i64 - *start),
        Op::AddOffset { o } => {
            for c in cells.iter_mut() {
                c.0 += *o;
            }
        }
        Op::Merge { other } => {
            let mut b: Cells<T> = Vec::new();
            for (o, s, v) in other {
                ref_write(&mut b, *o, *s, val::<T>(*s, *v));
            }
            *cells = ref_merge(cells, &b);
        }
    }
}

// ------------------------------------------------------------------------------------------------------------------
// the real region
fn pos(off: i64) -> Bitvector {
    Bitvector::from_i64(off)
}

fn real_apply<T: TwinDom>(region: &mut MemRegion<T>, op: &Op) {
    match op {
        Op::Add { off, size, v } => region.add(val::<T>(*size, *v), pos(*off)),
        Op::Remove { off, size } => region.remove(pos(*off), Bitvector::from_i64(*size as i64)),
        Op::MergeWriteTop { off, size } => region.merge_write_top(pos(*off), ByteSize::new(*size)),
        Op::MarkIntervalTop { start, end, elem } => region.mark_interval_values_as_top(*start, *end, ByteSize::new(*elem)),
        Op::AddOffset { o } => region.add_offset_to_all_indices(*o),
        Op::Merge { other } => {
            let mut b: MemRegion<T> = MemRegion::new(ByteSize::new(8));
            for (o, s, v) in other {
                b.add(val::<T>(*s, *v), pos(*o));
            }
            *region = region.merge(&b);
        }
    }
}

const SIZES: [u64; 4] = [1, 2, 4, 8];

/// compare the real region with the reference cells; `None` = agrees
fn compare<T: TwinDom>(region: &MemRegion<T>, cells: &Cells<T>) -> Option<(String, String, String)> {
    let real: Vec<(i64, T)> = region.iter().map(|(k, v)| (*k, v.clone())).collect();
    // invariant, on the real region alone
    for (k, v) in &real {
        if v.is_top() || u64::from(v.bytesize()) == 0 {
            return Some(("no-top".into(), format!("cell at {} is {:?}", k, v), "no stored cell is the unknown value".into()));
        }
    }
    for w in real.windows(2) {
        if w[0].0 as i128 + u64::from(w[0].1.bytesize()) as i128 > w[1].0 as i128 {
            return Some(("no-overlap".into(), format!("cells at {} (size {}) and {} overlap", w[0].0, u64::from(w[0].1.bytesize()), w[1].0),
                         "no two stored cells overlap".into()));
        }
    }
    let mut want: Vec<(i64, T)> = cells.iter().map(|(o, _, v)| (*o, v.clone())).collect();
    want.sort_by_key(|c| c.0);
    if real != want {
        return Some(("cells".into(), format!("{:?}", real), format!("{:?}", want)));
    }
    // reads
    for off in -18i64..50 {
        for size in SIZES {
            let got = region.get(pos(off), ByteSize::new(size));
            let exp = match cells.iter().find(|(o, s, _)| *o == off && *s == size) {
                Some((_, _, v)) => v.clone(),
                None => T::new_top(ByteSize::new(size)),
            };
            if got != exp {
                return Some(("read".into(), format!("get({}, {}) = {:?}", off, size, got), format!("{:?}", exp)));
            }
        }
    }
    None
}

/// run one operation sequence on the real region and on the reference; `Some` = a disagreement
fn check_ops<T: TwinDom>(domain: &str, ops: &[Op]) -> Option<Value> {
    let mut region: MemRegion<T> = MemRegion::new(ByteSize::new(8));
    let mut cells: Cells<T> = Vec::new();
    let input = json!({"domain": domain, "ops": ops.iter().map(|o| o.to_json()).collect::<Vec<_>>()});
    for (i, op) in ops.iter().enumerate() {
        let r = catch_unwind(AssertUnwindSafe(|| {
            real_apply(&mut region, op);
        }));
        if r.is_err() {
            return Some(json!({"input": input, "check": "no-panic", "step": i, "observed": "panic", "expected": "no panic"}));
        }
        ref_apply(&mut cells, op);
        let c = catch_unwind(AssertUnwindSafe(|| compare(&region, &cells)));
        match c {
            Err(_) => return Some(json!({"input": input, "check": "no-panic", "step": i, "observed": "panic in get/iter", "expected": "no panic"})),
            Ok(Some((check, observed, expected))) => {
                return Some(json!({"input": input, "check": check, "step": i, "observed": observed, "expected": expected}))
            }
            Ok(None) => {}
        }
    }
    None
}

fn check_case(domain: &str, ops: &[Op]) -> Option<Value> {
    match domain {
        "bitvector" => check_ops::<BitvectorDomain>(domain, ops),
        "interval" => check_ops::<IntervalDomain>(domain, ops),
        _ => check_ops::<Flagged>("flagged", ops),
    }
}

// ------------------------------------------------------------------------------------------------------------------
// generation
fn rnd_off(rng: &mut Rng) -> i64 {
    // -16 .. 48, biased to a dense window so that cells collide
    if rng.next() % 3 == 0 { (rng.next() % 64) as i64 - 16 } else { (rng.next() % 20) as i64 - 4 }
}
fn rnd_size(rng: &mut Rng) -> u64 {
    SIZES[(rng.next() % 4) as usize]
}
fn rnd_val(rng: &mut Rng) -> Option<u8> {
    if rng.next() % 8 == 0 { None } else { Some((rng.next() % 3) as u8) }
}
fn rnd_op(rng: &mut Rng) -> Op {
    match rng.next() % 12 {
        0..=4 => Op::Add { off: rnd_off(rng), size: rnd_size(rng), v: rnd_val(rng) },
        5 => Op::Remove { off: rnd_off(rng), size: 1 + rng.next() % 12 },
        6 => Op::MergeWriteTop { off: rnd_off(rng), size: rnd_size(rng) },
        7 => {
            let start = rnd_off(rng);
            Op::MarkIntervalTop { start, end: start + (rng.next() % 10) as i64, elem: rnd_size(rng) }
        }
        8 => Op::AddOffset { o: (rng.next() % 17) as i64 - 8 },
        _ => {
            let n = 1 + rng.next() % 4;
            Op::Merge { other: (0..n).map(|_| (rnd_off(rng), rnd_size(rng), rnd_val(rng))).collect() }
        }
    }
}

const DOMAINS: [&str; 3] = ["flagged", "bitvector", "interval"];

fn enumerate(seed: u64, rounds: u64, evaluations: &mut u64) -> Option<Value> {
    let mut rng = Rng(seed ^ 0xC05);
    for round in 0..rounds {
        let domain = DOMAINS[(round % 3) as usize];
        let len = 1 + rng.next() % 8;
        let ops: Vec<Op> = (0..len).map(|_| rnd_op(&mut rng)).collect();
        *evaluations += 1;
        if let Some(v) = check_case(domain, &ops) {
            return Some(v);
        }
    }
    None
}

pub fn search(twin: &str, _case: Option<&str>, seed: u64) -> Option<Value> {
    match twin {
        "c05.ops" => {
            let mut evaluations = 0;
            enumerate(seed, 30_000, &mut evaluations)
        }
        _ => None,
    }
}

pub fn replay(_twin: &str, input: &Value) -> Value {
    let domain = input["domain"].as_str().unwrap_or("flagged").to_string();
    let ops: Vec<Op> = input["ops"].as_array().map(|a| a.iter().filter_map(Op::from_json).collect()).unwrap_or_default();
    match check_case(&domain, &ops) {
        Some(v) => json!({"agrees": false, "check": v["check"], "step": v["step"], "observed": v["observed"], "expected": v["expected"], "input": input}),
        None => json!({"agrees": true, "input": input}),
    }
}

pub fn sweep(twin: &str, seed: u64) -> Value {
    let mut evaluations = 0;
    let r = if twin == "c05.ops" { enumerate(seed, 150_000, &mut evaluations) } else { None };
    json!({"twin": twin, "bounded": true, "evaluations": evaluations, "disagreements": if r.is_some() { 1 } else { 0 }, "first": r})
}
