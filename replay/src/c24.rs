//! C24 twin: the call-sequence query of `analysis::callgraph`, run on the REAL crate.
//!
//!   "For every program and every pair of functions, the call-sequence query returns exactly those direct calls
//!    between internal functions that lie on some call-graph path from the source function to the target function."
//!
//! Twin `c24.calls` (BOUNDED -- an enumeration, not a proof).  Unlike the Verus unit `callgraph` (which starts at an
//! arbitrary call graph) this twin starts at a `Term<Program>`: it runs the real `get_program_callgraph` and the real
//! `find_call_sequences_to_target` for ALL (source, target) pairs of internal functions.
//!   programs   functions f0 .. f{n-1}; every function has a list of blocks, every block a list of jumps; a jump is
//!              a direct call to an internal function (cycles, self-calls, parallel calls allowed), a direct call to
//!              a tid that is no function of the program (extern symbol), an indirect call (`Jmp::CallInd`), or a
//!              non-call jump (`Branch`, `Return`) as noise.  Every jump has its own tid.
//!   enumerated ALL simple call graphs (no parallel calls, self-calls allowed) with 1..=3 functions; seeded random
//!              programs with 1..=7 functions and up to 3n+2 jumps spread over random blocks
//! Reference (from the property statement, not from the code under test): a call `e` is expected in the answer for
//! (s, t) iff it is a direct call from an internal function to an internal function and there is a walk
//! s -> ... -> t in the graph of those calls that USES `e` -- decided by breadth-first search in the product of
//! the call graph with the flag "e has been used" (no reachability closure is shared with the code under test).
use crate::util::Rng;
use cwe_checker_lib::analysis::callgraph::{find_call_sequences_to_target, get_program_callgraph};
use cwe_checker_lib::intermediate_representation::*;
use serde_json::{json, Value};
use std::collections::{BTreeMap, BTreeSet};
use std::panic::{catch_unwind, AssertUnwindSafe};

#[derive(Clone, Debug, PartialEq, Eq)]
pub enum Kind {
    /// direct call to the internal function with this index
    Internal(usize),
    /// direct call to a tid that is not a function of the program
    Extern(usize),
    /// `Jmp::CallInd`
    Indirect,
    /// `Jmp::Branch` to some block tid
    Branch,
    /// `Jmp::Return`
    Return,
}

#[derive(Clone, Debug)]
pub struct Call {
    caller: usize,
    /// index of the block of the caller that holds the jump
    block: usize,
    kind: Kind,
}

#[derive(Clone, Debug)]
pub struct Case {
    n: usize,
    /// naming scheme of the functions: 0 = f0, f1, .. (map order = index order); k > 0 = names from a pool in which the map
    /// order differs from the index order and which contains the tid of the artificial sink sub that `Project::normalize` adds
    names: usize,
    /// position in this list = number in the jump's tid
    jumps: Vec<Call>,
}

const NAME_POOL: [&str; 7] = ["m", "Artificial Sink Sub", "b", "zz", "FUN_00401000", "a", "k"];
fn fn_name_in(names: usize, i: usize) -> String {
    if names == 0 { format!("f{}", i) } else { NAME_POOL[(i + names) % NAME_POOL.len()].to_string() }
}
fn jump_name(k: usize, c: &Call) -> String {
    format!("jmp{}_in_f{}", k, c.caller)
}

impl Case {
    fn to_json(&self) -> Value {
        json!({
            "fn": "calls", "n": self.n, "names": self.names,
            "jumps": self.jumps.iter().map(|c| {
                let (k, t) = match &c.kind {
                    Kind::Internal(j) => ("call", json!(j)),
                    Kind::Extern(j) => ("extern", json!(j)),
                    Kind::Indirect => ("callind", Value::Null),
                    Kind::Branch => ("branch", Value::Null),
                    Kind::Return => ("return", Value::Null),
                };
                json!([c.caller, c.block, k, t])
            }).collect::<Vec<_>>(),
        })
    }
    fn from_json(v: &Value) -> Case {
        let n = v["n"].as_u64().unwrap_or(0) as usize;
        let jumps = v["jumps"].as_array().map(|a| a.iter().map(|e| {
            let t = e[3].as_u64().unwrap_or(0) as usize;
            Call {
                caller: e[0].as_u64().unwrap_or(0) as usize,
                block: e[1].as_u64().unwrap_or(0) as usize,
                kind: match e[2].as_str().unwrap_or("") {
                    "call" => Kind::Internal(t),
                    "extern" => Kind::Extern(t),
                    "callind" => Kind::Indirect,
                    "branch" => Kind::Branch,
                    _ => Kind::Return,
                },
            }
        }).collect()).unwrap_or_default();
        Case { n, names: v["names"].as_u64().unwrap_or(0) as usize, jumps }
    }

    /// the program term, built by hand through the public fields of the IR types
    fn program(&self) -> Term<Program> {
        let mut subs = BTreeMap::new();
        for f in 0..self.n {
            let nblocks = self.jumps.iter().filter(|c| c.caller == f).map(|c| c.block + 1).max().unwrap_or(0);
            let mut blocks = Vec::new();
            for b in 0..nblocks {
                let mut jmps = Vec::new();
                for (k, c) in self.jumps.iter().enumerate() {
                    if c.caller != f || c.block != b {
                        continue;
                    }
                    let ret = if k % 2 == 0 { Some(Tid::new(format!("blk{}_of_f{}", b + 1, f))) } else { None };
                    let term = match &c.kind {
                        Kind::Internal(j) => Jmp::Call { target: Tid::new(fn_name_in(self.names, *j)), return_: ret },
                        Kind::Extern(j) => Jmp::Call { target: Tid::new(format!("extern{}", j)), return_: ret },
                        Kind::Indirect => Jmp::CallInd { target: Expression::Const(Bitvector::from_u64(0x1000 + k as u64)), return_: ret },
                        Kind::Branch => Jmp::Branch(Tid::new(format!("blk{}_of_f{}", b, f))),
                        Kind::Return => Jmp::Return(Expression::Const(Bitvector::from_u64(0))),
                    };
                    jmps.push(Term { tid: Tid::new(jump_name(k, c)), term });
                }
                blocks.push(Term {
                    tid: Tid::new(format!("blk{}_of_f{}", b, f)),
                    term: Blk { defs: Vec::new(), jmps, indirect_jmp_targets: Vec::new() },
                });
            }
            subs.insert(
                Tid::new(fn_name_in(self.names, f)),
                Term { tid: Tid::new(fn_name_in(self.names, f)), term: Sub { name: fn_name_in(self.names, f), blocks, calling_convention: None } },
            );
        }
        Term {
            tid: Tid::new("prog"),
            term: Program { subs, extern_symbols: BTreeMap::new(), entry_points: BTreeSet::new(), address_base_offset: 0 },
        }
    }

    /// the direct calls between internal functions: (jump number, caller, callee)
    fn edges(&self) -> Vec<(usize, usize, usize)> {
        self.jumps.iter().enumerate().filter_map(|(k, c)| match c.kind {
            Kind::Internal(j) if j < self.n && c.caller < self.n => Some((k, c.caller, j)),
            _ => None,
        }).collect()
    }
}

/// Is there a walk from `s` to `t` that uses edge number `e` (index into `edges`)?  Breadth-first search over the
/// states (node, "e has been used").
fn on_some_walk(n: usize, edges: &[(usize, usize, usize)], s: usize, t: usize, e: usize) -> bool {
    let mut seen = vec![[false; 2]; n];
    let mut queue = vec![(s, 0usize)];
    seen[s][0] = true;
    while let Some((node, used)) = queue.pop() {
        if node == t && used == 1 {
            return true;
        }
        for (i, (_, a, b)) in edges.iter().enumerate() {
            if *a == node {
                let u = if i == e { 1 } else { used };
                if !seen[*b][u] {
                    seen[*b][u] = true;
                    queue.push((*b, u));
                }
            }
        }
    }
    false
}

fn expected(case: &Case, s: usize, t: usize) -> BTreeSet<String> {
    let edges = case.edges();
    (0..edges.len())
        .filter(|e| on_some_walk(case.n, &edges, s, t, *e))
        .map(|e| jump_name(edges[e].0, &case.jumps[edges[e].0]))
        .collect()
}

/// Runs the real functions on the case; Some(report) on a disagreement with the property.  `evaluations` counts
/// the (source, target) queries.
fn check(case: &Case, evaluations: &mut u64) -> Option<Value> {
    let program = case.program();
    std::panic::set_hook(Box::new(|_| {}));
    let run = catch_unwind(AssertUnwindSafe(|| {
        let callgraph = get_program_callgraph(&program);
        let mut out = Vec::new();
        for s in 0..case.n {
            for t in 0..case.n {
                let tids = find_call_sequences_to_target(&callgraph, &Tid::new(fn_name_in(case.names, s)), &Tid::new(fn_name_in(case.names, t)));
                let names: BTreeSet<String> = tids.iter().map(|tid| format!("{}", tid)).collect();
                // a BTreeSet<Tid> of n distinct tids must show n distinct names (every jump has its own tid)
                out.push((s, t, names, tids.len()));
            }
        }
        (callgraph.node_count(), callgraph.edge_count(), out)
    }));
    let _ = std::panic::take_hook();
    let (nodes, nedges, out) = match run {
        Ok(r) => r,
        Err(_) => return Some(json!({"input": case.to_json(), "check": "no-panic", "observed": "panic", "expected": "a set of call tids"})),
    };
    // the graph the query runs on: one node per function, one edge per direct call between internal functions
    if nodes != case.n || nedges != case.edges().len() {
        return Some(json!({"input": case.to_json(), "check": "callgraph-shape",
            "observed": {"nodes": nodes, "edges": nedges}, "expected": {"nodes": case.n, "edges": case.edges().len()}}));
    }
    for (s, t, names, len) in out {
        *evaluations += 1;
        let want = expected(case, s, t);
        if names != want || len != want.len() {
            return Some(json!({"input": case.to_json(), "check": "exactly-the-calls-on-paths",
                "source": fn_name_in(case.names, s), "target": fn_name_in(case.names, t),
                "observed": names.iter().collect::<Vec<_>>(), "expected": want.iter().collect::<Vec<_>>()}));
        }
    }
    None
}

fn enumerate(seed: u64, evaluations: &mut u64) -> Option<Value> {
    let mut rng = Rng(seed);
    // exhaustive part: all simple call graphs with n <= 3 functions, each call in its own block
    for n in 1..=3usize {
        let pairs: Vec<(usize, usize)> = (0..n).flat_map(|a| (0..n).map(move |b| (a, b))).collect();
        for mask in 0..(1u32 << pairs.len()) {
            let mut per_fn = vec![0usize; n];
            let jumps: Vec<Call> = pairs.iter().enumerate().filter(|(i, _)| mask >> i & 1 == 1).map(|(_, (a, b))| {
                per_fn[*a] += 1;
                Call { caller: *a, block: per_fn[*a] - 1, kind: Kind::Internal(*b) }
            }).collect();
            for names in [0usize, 3] {
                if let Some(v) = check(&Case { n, names, jumps: jumps.clone() }, evaluations) {
                    return Some(v);
                }
            }
        }
    }
    // seeded random programs with up to 7 functions
    for _ in 0..40000 {
        let n = 1 + (rng.next() % 7) as usize;
        let m = (rng.next() % (3 * n as u64 + 3)) as usize;
        let jumps: Vec<Call> = (0..m).map(|_| {
            let caller = (rng.next() % n as u64) as usize;
            let block = (rng.next() % 3) as usize;
            let kind = match rng.next() % 10 {
                0 => Kind::Extern((rng.next() % 3) as usize),
                1 => Kind::Indirect,
                2 => if rng.next() % 2 == 0 { Kind::Branch } else { Kind::Return },
                3 => Kind::Internal(caller),
                _ => Kind::Internal((rng.next() % n as u64) as usize),
            };
            Call { caller, block, kind }
        }).collect();
        let names = if rng.next() % 2 == 0 { 0 } else { 1 + (rng.next() % 7) as usize };
        if let Some(v) = check(&Case { n, names, jumps }, evaluations) {
            return Some(v);
        }
    }
    None
}

pub fn search(twin: &str, _case: Option<&str>, seed: u64) -> Option<Value> {
    match twin {
        "c24.calls" => {
            let mut evaluations = 0;
            enumerate(seed, &mut evaluations)
        }
        _ => None,
    }
}

pub fn replay(_twin: &str, input: &Value) -> Value {
    let case = Case::from_json(input);
    let mut evaluations = 0;
    match check(&case, &mut evaluations) {
        Some(v) => json!({"agrees": false, "check": v["check"], "source": v["source"], "target": v["target"],
            "observed": v["observed"], "expected": v["expected"], "input": input}),
        None => json!({"agrees": true, "queries": evaluations, "input": input}),
    }
}

pub fn sweep(twin: &str, seed: u64) -> Value {
    let mut evaluations = 0;
    let r = if twin == "c24.calls" { enumerate(seed, &mut evaluations) } else { None };
    json!({"twin": twin, "bounded": true, "evaluations": evaluations, "disagreements": if r.is_some() { 1 } else { 0 }, "first": r})
}
