//! C20 -- BOUNDED twin of `utils::arguments::parse_format_string_parameters` (the grammar lives in a regex; the regex
//! engine is outside the reach of the verifiers, so this enumeration is the stand-in for "the match sequence").
//!
//!   "For every format string made of literal text, '%%' escapes and conversion specifications in the supported grammar
//!    (one optional flag, optional width and precision, the listed conversion and length forms), the extracted variadic
//!    parameter list is, in order, one entry per argument-consuming conversion with its documented data type and size;
//!    format strings with long/long long/long double conversions are rejected rather than mis-parsed."
//!
//! Twin `c20.parse`: format strings are generated as a sequence of ITEMS -- literal text without '%', the escape "%%",
//! or a conversion `% [flag] [width] [. precision] spec` -- so the reference answer is known by construction and never
//! re-parses the string: one (type, size) entry per conversion item, `Err` iff some conversion is long / long long /
//! long double.  Bounds: all item sequences of length <= 3 over a small item alphabet, then seeded random sequences of
//! up to 8 items.
//!
//! Twin `c20.regex_model` (ASSUMPTION CHECK for unit `formatstr`): the deductive unit verifies `parse_format_string_parameters`
//! against a TRUSTED MODEL of its one regular expression (`fs_captures` in /verif/spec/formatstr.rs).  `model_captures` below is
//! a line-by-line executable copy of that spec function; it is compared with the real `regex` crate (`captures_iter` +
//! `cap.get(0)` / `cap.get(1)`) on ALL strings over a 12-character alphabet up to length 7 and on seeded random longer strings
//! over a wider alphabet (every conversion letter, the flags, '.', digits, non-ASCII decimal digits and non-digit numerals).
//! The regex literal is taken from the source file of the tree under test, so an edited regex is compared as well (a
//! disagreement then means "the model no longer describes this regex", i.e. the proof's assumption is void -- the verdict on
//! the property for such a tree is `c20.parse`'s).
use crate::util::Rng;
use cwe_checker_lib::intermediate_representation::{ByteSize, Datatype, DatatypeProperties};
use cwe_checker_lib::utils::arguments::parse_format_string_parameters;
use serde_json::{json, Value};

#[derive(Clone, Debug)]
enum Item {
    Lit(String),
    Escape,
    Conv { flag: String, width: String, prec: String, spec: String },
}

const SPECS: [&str; 44] = [
    "c", "C", "d", "i", "o", "u", "x", "X", "e", "E", "f", "F", "g", "G", "a", "A", "n", "p", "s", "S", "hi", "hd", "hu", "li", "ld", "lu", "lli",
    "lld", "llu", "lf", "lg", "le", "la", "lF", "lG", "lE", "lA", "Lf", "Lg", "Le", "La", "LF", "LG", "LE",
];

fn props() -> DatatypeProperties {
    DatatypeProperties {
        char_size: ByteSize::new(1),
        double_size: ByteSize::new(8),
        float_size: ByteSize::new(4),
        integer_size: ByteSize::new(4),
        long_double_size: ByteSize::new(16),
        long_long_size: ByteSize::new(8),
        long_size: ByteSize::new(8),
        pointer_size: ByteSize::new(8),
        short_size: ByteSize::new(2),
    }
}

/// documented type of a conversion (C standard + the doc comment of `Datatype::from`); None = long / long long / long double
fn reference(spec: &str) -> Option<(Datatype, u64)> {
    match spec {
        "c" | "C" => Some((Datatype::Char, 4)), // default argument promotion: passed as int
        "d" | "i" | "u" | "o" | "p" | "x" | "X" | "hi" | "hd" | "hu" => Some((Datatype::Integer, 4)),
        "s" | "S" | "n" => Some((Datatype::Pointer, 8)),
        "f" | "F" | "e" | "E" | "a" | "A" | "g" | "G" | "lf" | "lg" | "le" | "la" | "lF" | "lG" | "lE" | "lA" => Some((Datatype::Double, 8)),
        _ => None,
    }
}

fn render(items: &[Item]) -> String {
    items
        .iter()
        .map(|i| match i {
            Item::Lit(s) => s.clone(),
            Item::Escape => "%%".to_string(),
            Item::Conv { flag, width, prec, spec } => format!("%{flag}{width}{prec}{spec}"),
        })
        .collect()
}

fn items_json(items: &[Item]) -> Value {
    json!(items
        .iter()
        .map(|i| match i {
            Item::Lit(s) => json!({"lit": s}),
            Item::Escape => json!("%%"),
            Item::Conv { flag, width, prec, spec } => json!({"flag": flag, "width": width, "prec": prec, "spec": spec}),
        })
        .collect::<Vec<_>>())
}
fn items_from(v: &Value) -> Vec<Item> {
    v.as_array()
        .unwrap()
        .iter()
        .map(|i| {
            if i.is_string() {
                Item::Escape
            } else if let Some(s) = i.get("lit") {
                Item::Lit(s.as_str().unwrap().to_string())
            } else {
                let g = |k: &str| i[k].as_str().unwrap_or("").to_string();
                Item::Conv { flag: g("flag"), width: g("width"), prec: g("prec"), spec: g("spec") }
            }
        })
        .collect()
}

fn check(items: &[Item]) -> Option<Value> {
    let text = render(items);
    let convs: Vec<&str> = items.iter().filter_map(|i| if let Item::Conv { spec, .. } = i { Some(spec.as_str()) } else { None }).collect();
    let expected: Option<Vec<(Datatype, u64)>> = convs.iter().map(|s| reference(s)).collect();
    let t2 = text.clone();
    let prev = std::panic::take_hook();
    std::panic::set_hook(Box::new(|_| {}));
    let got = std::panic::catch_unwind(move || parse_format_string_parameters(&t2, &props()));
    std::panic::set_hook(prev);
    let show = |v: &Vec<(Datatype, u64)>| json!(v.iter().map(|(d, s)| json!([format!("{:?}", d), s])).collect::<Vec<_>>());
    let (bad, observed) = match &got {
        Err(_) => (true, json!("panic")),
        Ok(Err(_)) => (expected.is_some(), json!("Err")),
        Ok(Ok(list)) => {
            let l: Vec<(Datatype, u64)> = list.iter().map(|(d, s)| (d.clone(), u64::from(*s))).collect();
            (expected.as_ref() != Some(&l), show(&l))
        }
    };
    if bad {
        Some(json!({"input": {"fn": "parse", "format_string": text, "items": items_json(items)},
            "expected": match &expected { Some(v) => show(v), None => json!("Err (long / long long / long double)") }, "observed": observed}))
    } else {
        None
    }
}

fn alphabet() -> Vec<Item> {
    let mut v = vec![Item::Escape, Item::Lit("x".into()), Item::Lit(" d".into()), Item::Lit("5".into()), Item::Lit("l".into()), Item::Lit(".".into())];
    for spec in ["d", "s", "c", "lf", "hd", "ld", "Lf", "lli", "n", "G"] {
        v.push(Item::Conv { flag: "".into(), width: "".into(), prec: "".into(), spec: spec.into() });
    }
    v.push(Item::Conv { flag: "-".into(), width: "10".into(), prec: ".3".into(), spec: "f".into() });
    v.push(Item::Conv { flag: "0".into(), width: "8".into(), prec: "".into(), spec: "x".into() });
    v.push(Item::Conv { flag: "".into(), width: "".into(), prec: ".".into(), spec: "s".into() });
    v
}

fn gen_item(rng: &mut Rng) -> Item {
    match rng.next() % 6 {
        0 => Item::Escape,
        1 | 2 => {
            let pool = ["a", "dx", " ", "100", "l", "h", "L", ".", "-", "+", "#", "s d", "ll"];
            Item::Lit(pool[(rng.next() % pool.len() as u64) as usize].to_string())
        }
        _ => {
            let flag = ["", "", "+", "-", "#", "0"][(rng.next() % 6) as usize].to_string();
            let width = ["", "", "1", "12", "007"][(rng.next() % 5) as usize].to_string();
            let prec = ["", "", ".", ".5", ".12"][(rng.next() % 5) as usize].to_string();
            Item::Conv { flag, width, prec, spec: SPECS[(rng.next() % SPECS.len() as u64) as usize].to_string() }
        }
    }
}

fn enumerate(seed: u64, budget: usize, evaluations: &mut usize) -> Option<Value> {
    let a = alphabet();
    let n = a.len();
    // all sequences of length <= 3
    for len in 0..=3usize {
        let total = n.pow(len as u32);
        for code in 0..total {
            let mut c = code;
            let items: Vec<Item> = (0..len).map(|_| { let i = a[c % n].clone(); c /= n; i }).collect();
            *evaluations += 1;
            if let Some(v) = check(&items) {
                return Some(v);
            }
        }
    }
    let mut rng = Rng(seed ^ 0x2020);
    for _ in 0..budget {
        let len = (rng.next() % 9) as usize;
        let items: Vec<Item> = (0..len).map(|_| gen_item(&mut rng)).collect();
        *evaluations += 1;
        if let Some(v) = check(&items) {
            return Some(v);
        }
    }
    None
}

pub fn search(twin: &str, _case: Option<&str>, seed: u64) -> Option<Value> {
    if twin == "c20.regex_model" {
        let mut e = 0;
        return model_enumerate(seed, 5, 20000, &mut e);
    }
    let mut e = 0;
    enumerate(seed, 20000, &mut e)
}

pub fn replay(twin: &str, input: &Value) -> Value {
    if twin == "c20.regex_model" || input["fn"] == "regex_model" {
        let text = input["text"].as_str().unwrap_or("").to_string();
        let (re, _) = tree_regex();
        return match model_check(&re, &text) {
            Some(v) => json!({"agrees": false, "expected": v["expected"], "observed": v["observed"], "input": input}),
            None => json!({"agrees": true, "input": input}),
        };
    }
    let items = items_from(&input["items"]);
    match check(&items) {
        Some(v) => json!({"agrees": false, "expected": v["expected"], "observed": v["observed"], "input": input}),
        None => json!({"agrees": true, "input": input}),
    }
}

pub fn sweep(twin: &str, seed: u64) -> Value {
    if twin == "c20.regex_model" {
        let mut e = 0;
        let r = model_enumerate(seed, 7, 300000, &mut e);
        let (_, same) = tree_regex();
        return json!({"twin": twin, "bounded": true, "evaluations": e,
            "bound": "all strings of length <= 7 over 12 characters; 300000 random strings of length 7..=24 over 46 characters; capture indices 0, 1 and 2",
            "regex_literal_is_the_modelled_one": same,
            "disagreements": if r.is_some() { 1 } else { 0 }, "first": r});
    }
    let mut e = 0;
    let r = enumerate(seed, 200000, &mut e);
    json!({"twin": twin, "bounded": true, "evaluations": e, "bound": "all item sequences of length <= 3 over 19 items; 200000 random sequences of <= 8 items",
           "disagreements": if r.is_some() { 1 } else { 0 }, "first": r})
}

// ---------------------------------------------------------------------------------------------------------------------
// c20.regex_model -- executable copy of /verif/spec/formatstr.rs (fs_flag .. fs_captures) against the real `regex` crate
// ---------------------------------------------------------------------------------------------------------------------

/// the literal the model was written from (utils/arguments.rs at /repo commit 85876a6)
const MODELLED_REGEX: &str = r"%%|%[+\-#0]{0,1}\d*[\.]?\d*([cCdiouxXeEfFgGaAnpsS]|hi|hd|hu|li|ld|lu|lli|lld|llu|lf|lg|le|la|lF|lG|lE|lA|Lf|Lg|Le|La|LF|LG|LE|LA)";

/// The regex of the tree under test: the first raw string literal after `fn parse_format_string_parameters` in
/// utils/arguments.rs of $VERIF_REPO (default /repo).  Falls back to the modelled literal when the file cannot be read.
fn tree_regex() -> (regex::Regex, bool) {
    let root = std::env::var("VERIF_REPO").unwrap_or_else(|_| "/repo".to_string());
    let path = format!("{}/src/cwe_checker_lib/src/utils/arguments.rs", root.trim_end_matches('/'));
    let lit = std::fs::read_to_string(path).ok().and_then(|src| {
        let from = src.find("fn parse_format_string_parameters")?;
        let rest = &src[from..];
        let a = rest.find("Regex::new(r\"")? + "Regex::new(r\"".len();
        let b = rest[a..].find('"')?;
        Some(rest[a..a + b].to_string())
    });
    let lit = lit.unwrap_or_else(|| MODELLED_REGEX.to_string());
    let same = lit == MODELLED_REGEX;
    (regex::Regex::new(&lit).unwrap_or_else(|_| regex::Regex::new(MODELLED_REGEX).unwrap()), same)
}

/// non-ASCII characters the generators use, with their membership in the Unicode category Nd (the spec leaves
/// `fs_unicode_nd` uninterpreted; the executable copy knows it for exactly these characters)
const NON_ASCII: [(char, bool); 5] = [('\u{0663}', true), ('\u{FF15}', true), ('\u{00B2}', false), ('\u{2167}', false), ('\u{00E9}', false)];

fn m_flag(c: char) -> bool { c == '+' || c == '-' || c == '#' || c == '0' }
fn m_digit(c: char) -> bool { c.is_ascii_digit() || NON_ASCII.iter().any(|(d, nd)| *d == c && *nd) }
fn m_conv1(c: char) -> bool { "cCdiouxXeEfFgGaAnpsS".contains(c) }
fn m_idu(c: char) -> bool { c == 'i' || c == 'd' || c == 'u' }
fn m_fgea(c: char) -> bool { "fgeaFGEA".contains(c) }

fn m_skip_digits(s: &[char], i: usize) -> usize {
    if i < s.len() && m_digit(s[i]) { m_skip_digits(s, i + 1) } else { i }
}

fn m_spec_at(s: &[char], d: usize) -> Option<usize> {
    if !(d < s.len()) { None }
    else if m_conv1(s[d]) { Some(1) }
    else if d + 1 < s.len() && s[d] == 'h' && m_idu(s[d + 1]) { Some(2) }
    else if d + 1 < s.len() && s[d] == 'l' && m_idu(s[d + 1]) { Some(2) }
    else if d + 2 < s.len() && s[d] == 'l' && s[d + 1] == 'l' && m_idu(s[d + 2]) { Some(3) }
    else if d + 1 < s.len() && s[d] == 'l' && m_fgea(s[d + 1]) { Some(2) }
    else if d + 1 < s.len() && s[d] == 'L' && m_fgea(s[d + 1]) { Some(2) }
    else { None }
}

/// fs_match: (length of the match, group 1 as a character range) at the START of s
fn m_match(s: &[char]) -> Option<(usize, Option<(usize, usize)>)> {
    if s.len() < 2 || s[0] != '%' { None }
    else if s[1] == '%' { Some((2, None)) }
    else {
        let a = if m_flag(s[1]) { 2 } else { 1 };
        let b = m_skip_digits(s, a);
        let c = if b < s.len() && s[b] == '.' { b + 1 } else { b };
        let d = m_skip_digits(s, c);
        match m_spec_at(s, d) {
            Some(k) => Some((d + k, Some((d, d + k)))),
            None => None,
        }
    }
}

/// fs_captures
fn model_captures(s: &[char], index: usize) -> Vec<Option<String>> {
    let mut out = vec![];
    let mut s = s;
    while !s.is_empty() {
        match m_match(s) {
            Some((n, g)) => {
                out.push(if index == 0 { Some(s[..n].iter().collect()) } else if index == 1 { g.map(|(a, b)| s[a..b].iter().collect()) } else { None });
                s = &s[n..];
            }
            None => s = &s[1..],
        }
    }
    out
}

fn real_captures(re: &regex::Regex, text: &str, index: usize) -> Vec<Option<String>> {
    re.captures_iter(text).map(|cap| cap.get(index).map(|m| m.as_str().to_string())).collect()
}

fn model_check(re: &regex::Regex, text: &str) -> Option<Value> {
    let chars: Vec<char> = text.chars().collect();
    for index in [1usize, 0, 2] {
        let expected = model_captures(&chars, index);
        let got = real_captures(re, text, index);
        if expected != got {
            return Some(json!({"input": {"fn": "regex_model", "text": text, "capture_index": index},
                "expected": expected, "observed": got}));
        }
    }
    None
}

fn model_enumerate(seed: u64, max_len: usize, budget: usize, evaluations: &mut usize) -> Option<Value> {
    let (re, _) = tree_regex();
    let small: Vec<char> = "%dlihLf05.+z".chars().collect();
    let n = small.len();
    for len in 0..=max_len {
        let total = n.pow(len as u32);
        for code in 0..total {
            let mut c = code;
            let text: String = (0..len).map(|_| { let ch = small[c % n]; c /= n; ch }).collect();
            *evaluations += 1;
            if let Some(v) = model_check(&re, &text) {
                return Some(v);
            }
        }
    }
    let mut wide: Vec<char> = "%%%%cCdiouxXeEfFgGaAnpsShlL+-#0123456789.. z*".chars().collect();
    wide.extend(NON_ASCII.iter().map(|(c, _)| *c));
    let mut rng = Rng(seed ^ 0x2021);
    for _ in 0..budget {
        let len = 7 + (rng.next() % 18) as usize;
        let text: String = (0..len).map(|_| wide[(rng.next() % wide.len() as u64) as usize]).collect();
        *evaluations += 1;
        if let Some(v) = model_check(&re, &text) {
            return Some(v);
        }
    }
    None
}
