//! C20 -- BOUNDED twin of `utils::arguments::parse_format_string_parameters` (the grammar lives in a regex; the regex
//! engine is outside the reach of the verifiers, so this enumeration is the stand-in for "the match sequence").
//!
//!   "For every format string made of literal text, '%%' escapes and conversion specifications in the supported grammar
//!    (one optional flag, optional width and precision, the listed conversion and length forms), the extracted variadic
//!    parameter list is, in order, one entry per argument-consuming conversion with its documented data type and size;
//!    format strings with long/long long/long double conversions are rejected rather than mis-parsed."
//!
//! Twin `c20.parse`: format strings are generated as a sequence of ITEMS -- literal text without '%', the escape "%%",
//! or a conversion `% [flag] [width] [. precision] spec` -- so the reference answer is known by construction and never
//! re-parses the string: one (type, size) entry per conversion item, `Err` iff some conversion is long / long long /
//! long double.  Bounds: all item sequences of length <= 3 over a small item alphabet, then seeded random sequences of
//! up to 8 items.
use crate::util::Rng;
use cwe_checker_lib::intermediate_representation::{ByteSize, Datatype, DatatypeProperties};
use cwe_checker_lib::utils::arguments::parse_format_string_parameters;
use serde_json::{json, Value};

#[derive(Clone, Debug)]
enum Item {
    Lit(String),
    Escape,
    Conv { flag: String, width: String, prec: String, spec: String },
}

const SPECS: [&str; 44] = [
    "c", "C", "d", "i", "o", "u", "x", "X", "e", "E", "f", "F", "g", "G", "a", "A", "n", "p", "s", "S", "hi", "hd", "hu", "li", "ld", "lu", "lli",
    "lld", "llu", "lf", "lg", "le", "la", "lF", "lG", "lE", "lA", "Lf", "Lg", "Le", "La", "LF", "LG", "LE",
];

fn props() -> DatatypeProperties {
    DatatypeProperties {
        char_size: ByteSize::new(1),
        double_size: ByteSize::new(8),
        float_size: ByteSize::new(4),
        integer_size: ByteSize::new(4),
        long_double_size: ByteSize::new(16),
        long_long_size: ByteSize::new(8),
        long_size: ByteSize::new(8),
        pointer_size: ByteSize::new(8),
        short_size: ByteSize::new(2),
    }
}

/// documented type of a conversion (C standard + the doc comment of `Datatype::from`); None = long / long long / long double
fn reference(spec: &str) -> Option<(Datatype, u64)> {
    match spec {
        "c" | "C" => Some((Datatype::Char, 4)), // default argument promotion: passed as int
        "d" | "i" | "u" | "o" | "p" | "x" | "X" | "hi" | "hd" | "hu" => Some((Datatype::Integer, 4)),
        "s" | "S" | "n" => Some((Datatype::Pointer, 8)),
        "f" | "F" | "e" | "E" | "a" | "A" | "g" | "G" | "lf" | "lg" | "le" | "la" | "lF" | "lG" | "lE" | "lA" => Some((Datatype::Double, 8)),
        _ => None,
    }
}

fn render(items: &[Item]) -> String {
    items
        .iter()
        .map(|i| match i {
            Item::Lit(s) => s.clone(),
            Item::Escape => "%%".to_string(),
            Item::Conv { flag, width, prec, spec } => format!("%{flag}{width}{prec}{spec}"),
        })
        .collect()
}

fn items_json(items: &[Item]) -> Value {
    json!(items
        .iter()
        .map(|i| match i {
            Item::Lit(s) => json!({"lit": s}),
            Item::Escape => json!("%%"),
            Item::Conv { flag, width, prec, spec } => json!({"flag": flag, "width": width, "prec": prec, "spec": spec}),
        })
        .collect::<Vec<_>>())
}
fn items_from(v: &Value) -> Vec<Item> {
    v.as_array()
        .unwrap()
        .iter()
        .map(|i| {
            if i.is_string() {
                Item::Escape
            } else if let Some(s) = i.get("lit") {
                Item::Lit(s.as_str().unwrap().to_string())
            } else {
                let g = |k: &str| i[k].as_str().unwrap_or("").to_string();
                Item::Conv { flag: g("flag"), width: g("width"), prec: g("prec"), spec: g("spec") }
            }
        })
        .collect()
}

fn check(items: &[Item]) -> Option<Value> {
    let text = render(items);
    let convs: Vec<&str> = items.iter().filter_map(|i| if let Item::Conv { spec, .. } = i { Some(spec.as_str()) } else { None }).collect();
    let expected: Option<Vec<(Datatype, u64)>> = convs.iter().map(|s| reference(s)).collect();
    let t2 = text.clone();
    let prev = std::panic::take_hook();
    std::panic::set_hook(Box::new(|_| {}));
    let got = std::panic::catch_unwind(move || parse_format_string_parameters(&t2, &props()));
    std::panic::set_hook(prev);
    let show = |v: &Vec<(Datatype, u64)>| json!(v.iter().map(|(d, s)| json!([format!("{:?}", d), s])).collect::<Vec<_>>());
    let (bad, observed) = match &got {
        Err(_) => (true, json!("panic")),
        Ok(Err(_)) => (expected.is_some(), json!("Err")),
        Ok(Ok(list)) => {
            let l: Vec<(Datatype, u64)> = list.iter().map(|(d, s)| (d.clone(), u64::from(*s))).collect();
            (expected.as_ref() != Some(&l), show(&l))
        }
    };
    if bad {
        Some(json!({"input": {"fn": "parse", "format_string": text, "items": items_json(items)},
            "expected": match &expected { Some(v) => show(v), None => json!("Err (long / long long / long double)") }, "observed": observed}))
    } else {
        None
    }
}

fn alphabet() -> Vec<Item> {
    let mut v = vec![Item::Escape, Item::Lit("x".into()), Item::Lit(" d".into()), Item::Lit("5".into()), Item::Lit("l".into()), Item::Lit(".".into())];
    for spec in ["d", "s", "c", "lf", "hd", "ld", "Lf", "lli", "n", "G"] {
        v.push(Item::Conv { flag: "".into(), width: "".into(), prec: "".into(), spec: spec.into() });
    }
    v.push(Item::Conv { flag: "-".into(), width: "10".into(), prec: ".3".into(), spec: "f".into() });
    v.push(Item::Conv { flag: "0".into(), width: "8".into(), prec: "".into(), spec: "x".into() });
    v.push(Item::Conv { flag: "".into(), width: "".into(), prec: ".".into(), spec: "s".into() });
    v
}

fn gen_item(rng: &mut Rng) -> Item {
    match rng.next() % 6 {
        0 => Item::Escape,
        1 | 2 => {
            let pool = ["a", "dx", " ", "100", "l", "h", "L", ".", "-", "+", "#", "s d", "ll"];
            Item::Lit(pool[(rng.next() % pool.len() as u64) as usize].to_string())
        }
        _ => {
            let flag = ["", "", "+", "-", "#", "0"][(rng.next() % 6) as usize].to_string();
            let width = ["", "", "1", "12", "007"][(rng.next() % 5) as usize].to_string();
            let prec = ["", "", ".", ".5", ".12"][(rng.next() % 5) as usize].to_string();
            Item::Conv { flag, width, prec, spec: SPECS[(rng.next() % SPECS.len() as u64) as usize].to_string() }
        }
    }
}

fn enumerate(seed: u64, budget: usize, evaluations: &mut usize) -> Option<Value> {
    let a = alphabet();
    let n = a.len();
    // all sequences of length <= 3
    for len in 0..=3usize {
        let total = n.pow(len as u32);
        for code in 0..total {
            let mut c = code;
            let items: Vec<Item> = (0..len).map(|_| { let i = a[c % n].clone(); c /= n; i }).collect();
            *evaluations += 1;
            if let Some(v) = check(&items) {
                return Some(v);
            }
        }
    }
    let mut rng = Rng(seed ^ 0x2020);
    for _ in 0..budget {
        let len = (rng.next() % 9) as usize;
        let items: Vec<Item> = (0..len).map(|_| gen_item(&mut rng)).collect();
        *evaluations += 1;
        if let Some(v) = check(&items) {
            return Some(v);
        }
    }
    None
}

pub fn search(_twin: &str, _case: Option<&str>, seed: u64) -> Option<Value> {
    let mut e = 0;
    enumerate(seed, 20000, &mut e)
}

pub fn replay(_twin: &str, input: &Value) -> Value {
    let items = items_from(&input["items"]);
    match check(&items) {
        Some(v) => json!({"agrees": false, "expected": v["expected"], "observed": v["observed"], "input": input}),
        None => json!({"agrees": true, "input": input}),
    }
}

pub fn sweep(twin: &str, seed: u64) -> Value {
    let mut e = 0;
    let r = enumerate(seed, 200000, &mut e);
    json!({"twin": twin, "bounded": true, "evaluations": e, "bound": "all item sequences of length <= 3 over 19 items; 200000 random sequences of <= 8 items",
           "disagreements": if r.is_some() { 1 } else { 0 }, "first": r})
}
