//! C17 twins: the reachability-based checkers (utils/graph_utils.rs, checkers/cwe_367.rs, checkers/cwe_243.rs), run on the
//! REAL crate.
//!
//!   "Reachability-based checkers follow their path specification. The TOCTOU check reports a (check, use) pair at a call to
//!    the check function exactly when a call to the use function is reachable from it along intraprocedural control flow
//!    without passing another call to the check function. The chroot check reports a chroot call exactly when no chdir call
//!    is reachable after it in that sense and its function does not call both chdir and a privilege-dropping function (or
//!    when chdir is not imported at all); it handles every program without failing."
//!
//! All twins are BOUNDED (enumeration + seeded random cases), never counted as proof.
//!
//! Twin `c17.reach`: `is_sink_call_reachable_from_source_call` on ARBITRARY control flow graphs (as in the Verus unit
//!   `reachcheck`, the graph is an input, not the output of the CFG builder).
//!   graphs     n nodes (all `BlkStart` of one dummy block: the function never reads node weights), a list of edges
//!              (from, to, kind) with kind one of: block, jump, call, crcall, crreturn, callcombine, returncombine,
//!              ext:A / ext:B / ext:C (ExternCallStub of a direct call to symbol A / B / C), extind (ExternCallStub of an
//!              indirect call).  Cycles, self-loops, parallel edges allowed.  Every jump term has its own tid.
//!   enumerated ALL graphs with <= 3 nodes and <= 3 edges over the kinds {block, call, crreturn, ext:A, ext:B, extind},
//!              every start node, (check, use) in {(A,B), (A,A), (B,A)}; seeded random graphs with <= 8 nodes, <= 16 edges.
//!   reference  (from the property statement, not from the code under test) the set R of nodes reachable from the start
//!              node is computed by ROUND-BASED relaxation over the whole edge list (no worklist, no visited-marking on
//!              push), using only edges that are intraprocedural (not call / crreturn) and are not a direct extern call
//!              to `check`; the hits are the edges leaving a node of R that are a direct extern call to `use`.
//!              expected: `Some(tid)` with tid the jump tid of one of the hits iff there is a hit, else `None`.
//!
//! Twin `c17.toctou` / `c17.chroot`: the two `check_cwe` functions on PROGRAMS, through the real `get_program_cfg`
//!   (see the section further down).
use crate::util::Rng;
use cwe_checker_lib::analysis::graph::{Edge, Graph, Node};
use cwe_checker_lib::intermediate_representation::*;
use cwe_checker_lib::utils::graph_utils::is_sink_call_reachable_from_source_call;
use petgraph::graph::NodeIndex;
use serde_json::{json, Value};
use std::collections::BTreeSet;
use std::panic::{catch_unwind, AssertUnwindSafe};

// ------------------------------------------------------------------------------------------------------------------------
// c17.reach
// ------------------------------------------------------------------------------------------------------------------------

const KINDS: [&str; 11] = [
    "block", "jump", "call", "crcall", "crreturn", "callcombine", "returncombine", "ext:A", "ext:B", "ext:C", "extind",
];
const SMALL_KINDS: [&str; 6] = ["block", "call", "crreturn", "ext:A", "ext:B", "extind"];

#[derive(Clone, Debug)]
pub struct ReachCase {
    n: usize,
    edges: Vec<(usize, usize, String)>,
    start: usize,
    check: String,
    use_: String,
}

impl ReachCase {
    fn to_json(&self) -> Value {
        json!({"fn": "reach", "n": self.n, "start": self.start, "check": self.check, "use": self.use_,
               "edges": self.edges.iter().map(|(a, b, k)| json!([a, b, k])).collect::<Vec<_>>()})
    }
    fn from_json(v: &Value) -> ReachCase {
        ReachCase {
            n: v["n"].as_u64().unwrap_or(1) as usize,
            start: v["start"].as_u64().unwrap_or(0) as usize,
            check: v["check"].as_str().unwrap_or("A").to_string(),
            use_: v["use"].as_str().unwrap_or("B").to_string(),
            edges: v["edges"].as_array().map(|a| a.iter().map(|e| {
                (e[0].as_u64().unwrap_or(0) as usize, e[1].as_u64().unwrap_or(0) as usize, e[2].as_str().unwrap_or("block").to_string())
            }).collect()).unwrap_or_default(),
        }
    }
    fn jump_tid(k: usize) -> Tid {
        Tid::new(format!("jmp{}", k))
    }
    /// the jump term edge number `k` carries (for kinds without a jump it is unused)
    fn jump_term(k: usize, kind: &str) -> Term<Jmp> {
        let term = match kind {
            "ext:A" | "ext:B" | "ext:C" => Jmp::Call { target: Tid::new(&kind[4..]), return_: Some(Tid::new("ret")) },
            "extind" => Jmp::CallInd { target: Expression::Const(Bitvector::from_u64(0x1000)), return_: Some(Tid::new("ret")) },
            "call" | "callcombine" | "returncombine" => Jmp::Call { target: Tid::new("internal"), return_: Some(Tid::new("ret")) },
            _ => Jmp::Branch(Tid::new("blk")),
        };
        Term { tid: Self::jump_tid(k), term }
    }
    fn is_intra(kind: &str) -> bool {
        kind != "call" && kind != "crreturn"
    }
    fn calls(kind: &str, sym: &str) -> bool {
        kind.len() == 5 && kind.starts_with("ext:") && &kind[4..] == sym
    }
    /// the tids of the hits, computed from the property's words
    fn expected_hits(&self) -> BTreeSet<String> {
        let mut reach = vec![false; self.n.max(self.start + 1)];
        reach[self.start] = true;
        loop {
            let mut changed = false;
            for (a, b, k) in &self.edges {
                if reach[*a] && !reach[*b] && Self::is_intra(k) && !Self::calls(k, &self.check) {
                    reach[*b] = true;
                    changed = true;
                }
            }
            if !changed {
                break;
            }
        }
        self.edges.iter().enumerate()
            .filter(|(_, (a, _, k))| reach[*a] && Self::calls(k, &self.use_))
            .map(|(i, _)| format!("{}", Self::jump_tid(i)))
            .collect()
    }
    /// run the real function on the real petgraph graph
    fn run_real(&self) -> Result<Option<String>, String> {
        let blk = Term { tid: Tid::new("blk"), term: Blk { defs: vec![], jmps: vec![], indirect_jmp_targets: vec![] } };
        let sub = Term {
            tid: Tid::new("sub"),
            term: Sub { name: "sub".into(), blocks: vec![], calling_convention: None },
        };
        let jumps: Vec<Term<Jmp>> = self.edges.iter().enumerate().map(|(i, (_, _, k))| Self::jump_term(i, k)).collect();
        let mut graph: Graph = Graph::new();
        let nodes: Vec<NodeIndex> = (0..self.n).map(|_| graph.add_node(Node::BlkStart(&blk, &sub))).collect();
        for (i, (a, b, k)) in self.edges.iter().enumerate() {
            let j = &jumps[i];
            let w = match k.as_str() {
                "block" => Edge::Block,
                "jump" => Edge::Jump(j, None),
                "call" => Edge::Call(j),
                "crcall" => Edge::CrCallStub,
                "crreturn" => Edge::CrReturnStub,
                "callcombine" => Edge::CallCombine(j),
                "returncombine" => Edge::ReturnCombine(j),
                _ => Edge::ExternCallStub(j),
            };
            graph.add_edge(nodes[*a], nodes[*b], w);
        }
        let start = if self.start < self.n { nodes[self.start] } else { NodeIndex::new(self.start) };
        let (check, use_) = (Tid::new(&self.check), Tid::new(&self.use_));
        catch_unwind(AssertUnwindSafe(|| {
            is_sink_call_reachable_from_source_call(&graph, start, &check, &use_).map(|t| format!("{}", t))
        })).map_err(|_| "panic".to_string())
    }
    /// None = agreement, Some(..) = disagreement record
    fn check(&self) -> Option<Value> {
        let hits = self.expected_hits();
        let got = self.run_real();
        let ok = match &got {
            Ok(None) => hits.is_empty(),
            Ok(Some(t)) => hits.contains(t),
            Err(_) => false,
        };
        if ok {
            None
        } else {
            Some(json!({
                "input": self.to_json(),
                "expected": if hits.is_empty() { json!("None") } else { json!({"Some, one of": hits.iter().collect::<Vec<_>>()}) },
                "got": match got { Ok(None) => json!("None"), Ok(Some(t)) => json!({"Some": t}), Err(e) => json!(e) },
            }))
        }
    }
}

fn reach_enumerate(mut f: impl FnMut(&ReachCase) -> bool) {
    // all graphs with n <= 3 nodes, m <= 3 edges over SMALL_KINDS
    for n in 1..=3usize {
        let choices: Vec<(usize, usize, String)> = (0..n).flat_map(|a| (0..n).flat_map(move |b| {
            SMALL_KINDS.iter().map(move |k| (a, b, k.to_string()))
        })).collect();
        let c = choices.len();
        for m in 0..=3usize {
            let total = c.pow(m as u32);
            for code in 0..total {
                let mut x = code;
                let mut edges = Vec::new();
                for _ in 0..m {
                    edges.push(choices[x % c].clone());
                    x /= c;
                }
                for start in 0..n {
                    for (check, use_) in [("A", "B"), ("A", "A"), ("B", "A")] {
                        let case = ReachCase { n, edges: edges.clone(), start, check: check.into(), use_: use_.into() };
                        if !f(&case) {
                            return;
                        }
                    }
                }
            }
        }
    }
}

fn reach_random(rng: &mut Rng) -> ReachCase {
    let n = 1 + (rng.next() % 8) as usize;
    let m = (rng.next() % 17) as usize;
    let edges = (0..m).map(|_| {
        let a = (rng.next() % n as u64) as usize;
        let b = (rng.next() % n as u64) as usize;
        // extern calls and plain intraprocedural edges are the interesting ones: bias towards them
        let k = match rng.next() % 10 {
            0 | 1 => "ext:A",
            2 | 3 => "ext:B",
            4 => "block",
            5 => "jump",
            _ => KINDS[(rng.next() % KINDS.len() as u64) as usize],
        };
        (a, b, k.to_string())
    }).collect();
    let syms = ["A", "B", "C"];
    ReachCase {
        n,
        edges,
        start: (rng.next() % n as u64) as usize,
        check: syms[(rng.next() % 3) as usize].into(),
        use_: syms[(rng.next() % 3) as usize].into(),
    }
}

fn reach_search(seed: u64, random_cases: usize) -> (u64, Option<Value>) {
    let mut cases = 0u64;
    let mut found = None;
    reach_enumerate(|c| {
        cases += 1;
        if let Some(d) = c.check() {
            found = Some(d);
            return false;
        }
        true
    });
    if found.is_some() {
        return (cases, found);
    }
    let mut rng = Rng(seed ^ 0xC17);
    for _ in 0..random_cases {
        cases += 1;
        if let Some(d) = reach_random(&mut rng).check() {
            return (cases, Some(d));
        }
    }
    (cases, None)
}

// ------------------------------------------------------------------------------------------------------------------------
// dispatch
// ------------------------------------------------------------------------------------------------------------------------

pub fn search(twin: &str, _case: Option<&str>, seed: u64) -> Option<Value> {
    match twin {
        "c17.reach" => reach_search(seed, 20_000).1,
        _ => None,
    }
}

pub fn replay(twin: &str, input: &Value) -> Value {
    match input["fn"].as_str().unwrap_or(twin.trim_start_matches("c17.")) {
        "reach" => match ReachCase::from_json(input).check() {
            None => json!({"agrees": true}),
            Some(d) => json!({"agrees": false, "expected": d["expected"], "got": d["got"]}),
        },
        _ => json!({"agrees": true, "note": "unknown c17 twin"}),
    }
}

pub fn sweep(twin: &str, seed: u64) -> Value {
    match twin {
        "c17.reach" => {
            let (cases, d) = reach_search(seed, 200_000);
            json!({"cases": cases, "disagreements": if d.is_some() { 1 } else { 0 }, "first": d})
        }
        _ => json!({"cases": 0, "disagreements": 0, "note": "unknown c17 twin"}),
    }
}
