//! C17 twins: the reachability-based checkers (utils/graph_utils.rs, checkers/cwe_367.rs, checkers/cwe_243.rs), run on the
//! REAL crate.
//!
//!   "Reachability-based checkers follow their path specification. The TOCTOU check reports a (check, use) pair at a call to
//!    the check function exactly when a call to the use function is reachable from it along intraprocedural control flow
//!    without passing another call to the check function. The chroot check reports a chroot call exactly when no chdir call
//!    is reachable after it in that sense and its function does not call both chdir and a privilege-dropping function (or
//!    when chdir is not imported at all); it handles every program without failing."
//!
//! All twins are BOUNDED (enumeration + seeded random cases), never counted as proof.
//!
//! Twin `c17.reach`: `is_sink_call_reachable_from_source_call` on ARBITRARY control flow graphs (as in the Verus unit
//!   `reachcheck`, the graph is an input, not the output of the CFG builder).
//!   graphs     n nodes (all `BlkStart` of one dummy block: the function never reads node weights), a list of edges
//!              (from, to, kind) with kind one of: block, jump, call, crcall, crreturn, callcombine, returncombine,
//!              ext:A / ext:B / ext:C (ExternCallStub of a direct call to symbol A / B / C), extind (ExternCallStub of an
//!              indirect call).  Cycles, self-loops, parallel edges allowed.  Every jump term has its own tid.
//!   enumerated ALL graphs with <= 3 nodes and <= 3 edges over the kinds {block, call, crreturn, ext:A, ext:B, extind},
//!              every start node, (check, use) in {(A,B), (A,A), (B,A)}; seeded random graphs with <= 8 nodes, <= 16 edges.
//!   reference  (from the property statement, not from the code under test) the set R of nodes reachable from the start
//!              node is computed by ROUND-BASED relaxation over the whole edge list (no worklist, no visited-marking on
//!              push), using only edges that are intraprocedural (not call / crreturn) and are not a direct extern call
//!              to `check`; the hits are the edges leaving a node of R that are a direct extern call to `use`.
//!              expected: `Some(tid)` with tid the jump tid of one of the hits iff there is a hit, else `None`.
//!
//! Twin `c17.toctou` / `c17.chroot`: the two `check_cwe` functions on PROGRAMS, through the real `get_program_cfg`
//!   (see the section further down).
use crate::util::Rng;
use cwe_checker_lib::analysis::graph::{Edge, Graph, Node};
use cwe_checker_lib::intermediate_representation::*;
use cwe_checker_lib::utils::graph_utils::is_sink_call_reachable_from_source_call;
use petgraph::graph::NodeIndex;
use serde_json::{json, Value};
use std::collections::BTreeSet;
use std::panic::{catch_unwind, AssertUnwindSafe};

// ------------------------------------------------------------------------------------------------------------------------
// c17.reach
// ------------------------------------------------------------------------------------------------------------------------

const KINDS: [&str; 11] = [
    "block", "jump", "call", "crcall", "crreturn", "callcombine", "returncombine", "ext:A", "ext:B", "ext:C", "extind",
];
const SMALL_KINDS: [&str; 6] = ["block", "call", "crreturn", "ext:A", "ext:B", "extind"];

#[derive(Clone, Debug)]
pub struct ReachCase {
    n: usize,
    edges: Vec<(usize, usize, String)>,
    start: usize,
    check: String,
    use_: String,
}

impl ReachCase {
    fn to_json(&self) -> Value {
        json!({"fn": "reach", "n": self.n, "start": self.start, "check": self.check, "use": self.use_,
               "edges": self.edges.iter().map(|(a, b, k)| json!([a, b, k])).collect::<Vec<_>>()})
    }
    fn from_json(v: &Value) -> ReachCase {
        ReachCase {
            n: v["n"].as_u64().unwrap_or(1) as usize,
            start: v["start"].as_u64().unwrap_or(0) as usize,
            check: v["check"].as_str().unwrap_or("A").to_string(),
            use_: v["use"].as_str().unwrap_or("B").to_string(),
            edges: v["edges"].as_array().map(|a| a.iter().map(|e| {
                (e[0].as_u64().unwrap_or(0) as usize, e[1].as_u64().unwrap_or(0) as usize, e[2].as_str().unwrap_or("block").to_string())
            }).collect()).unwrap_or_default(),
        }
    }
    fn jump_tid(k: usize) -> Tid {
        Tid::new(format!("jmp{}", k))
    }
    /// the jump term edge number `k` carries (for kinds without a jump it is unused)
    fn jump_term(k: usize, kind: &str) -> Term<Jmp> {
        let term = match kind {
            "ext:A" | "ext:B" | "ext:C" => Jmp::Call { target: Tid::new(&kind[4..]), return_: Some(Tid::new("ret")) },
            "extind" => Jmp::CallInd { target: Expression::Const(Bitvector::from_u64(0x1000)), return_: Some(Tid::new("ret")) },
            "call" | "callcombine" | "returncombine" => Jmp::Call { target: Tid::new("internal"), return_: Some(Tid::new("ret")) },
            _ => Jmp::Branch(Tid::new("blk")),
        };
        Term { tid: Self::jump_tid(k), term }
    }
    fn is_intra(kind: &str) -> bool {
        kind != "call" && kind != "crreturn"
    }
    fn calls(kind: &str, sym: &str) -> bool {
        kind.len() == 5 && kind.starts_with("ext:") && &kind[4..] == sym
    }
    /// the tids of the hits, computed from the property's words
    fn expected_hits(&self) -> BTreeSet<String> {
        let mut reach = vec![false; self.n.max(self.start + 1)];
        reach[self.start] = true;
        loop {
            let mut changed = false;
            for (a, b, k) in &self.edges {
                if reach[*a] && !reach[*b] && Self::is_intra(k) && !Self::calls(k, &self.check) {
                    reach[*b] = true;
                    changed = true;
                }
            }
            if !changed {
                break;
            }
        }
        self.edges.iter().enumerate()
            .filter(|(_, (a, _, k))| reach[*a] && Self::calls(k, &self.use_))
            .map(|(i, _)| format!("{}", Self::jump_tid(i)))
            .collect()
    }
    /// run the real function on the real petgraph graph
    fn run_real(&self) -> Result<Option<String>, String> {
        let blk = Term { tid: Tid::new("blk"), term: Blk { defs: vec![], jmps: vec![], indirect_jmp_targets: vec![] } };
        let sub = Term {
            tid: Tid::new("sub"),
            term: Sub { name: "sub".into(), blocks: vec![], calling_convention: None },
        };
        let jumps: Vec<Term<Jmp>> = self.edges.iter().enumerate().map(|(i, (_, _, k))| Self::jump_term(i, k)).collect();
        let mut graph: Graph = Graph::new();
        let nodes: Vec<NodeIndex> = (0..self.n).map(|_| graph.add_node(Node::BlkStart(&blk, &sub))).collect();
        for (i, (a, b, k)) in self.edges.iter().enumerate() {
            let j = &jumps[i];
            let w = match k.as_str() {
                "block" => Edge::Block,
                "jump" => Edge::Jump(j, None),
                "call" => Edge::Call(j),
                "crcall" => Edge::CrCallStub,
                "crreturn" => Edge::CrReturnStub,
                "callcombine" => Edge::CallCombine(j),
                "returncombine" => Edge::ReturnCombine(j),
                _ => Edge::ExternCallStub(j),
            };
            graph.add_edge(nodes[*a], nodes[*b], w);
        }
        let start = if self.start < self.n { nodes[self.start] } else { NodeIndex::new(self.start) };
        let (check, use_) = (Tid::new(&self.check), Tid::new(&self.use_));
        catch_unwind(AssertUnwindSafe(|| {
            is_sink_call_reachable_from_source_call(&graph, start, &check, &use_).map(|t| format!("{}", t))
        })).map_err(|_| "panic".to_string())
    }
    /// None = agreement, Some(..) = disagreement record
    fn check(&self) -> Option<Value> {
        let hits = self.expected_hits();
        let got = self.run_real();
        let ok = match &got {
            Ok(None) => hits.is_empty(),
            Ok(Some(t)) => hits.contains(t),
            Err(_) => false,
        };
        if ok {
            None
        } else {
            Some(json!({
                "input": self.to_json(),
                "expected": if hits.is_empty() { json!("None") } else { json!({"Some, one of": hits.iter().collect::<Vec<_>>()}) },
                "got": match got { Ok(None) => json!("None"), Ok(Some(t)) => json!({"Some": t}), Err(e) => json!(e) },
            }))
        }
    }
}

fn reach_enumerate(mut f: impl FnMut(&ReachCase) -> bool) {
    // all graphs with n <= 3 nodes, m <= 3 edges over SMALL_KINDS
    for n in 1..=3usize {
        let choices: Vec<(usize, usize, String)> = (0..n).flat_map(|a| (0..n).flat_map(move |b| {
            SMALL_KINDS.iter().map(move |k| (a, b, k.to_string()))
        })).collect();
        let c = choices.len();
        for m in 0..=3usize {
            let total = c.pow(m as u32);
            for code in 0..total {
                let mut x = code;
                let mut edges = Vec::new();
                for _ in 0..m {
                    edges.push(choices[x % c].clone());
                    x /= c;
                }
                for start in 0..n {
                    for (check, use_) in [("A", "B"), ("A", "A"), ("B", "A")] {
                        let case = ReachCase { n, edges: edges.clone(), start, check: check.into(), use_: use_.into() };
                        if !f(&case) {
                            return;
                        }
                    }
                }
            }
        }
    }
}

fn reach_random(rng: &mut Rng) -> ReachCase {
    let n = 1 + (rng.next() % 8) as usize;
    let m = (rng.next() % 17) as usize;
    let edges = (0..m).map(|_| {
        let a = (rng.next() % n as u64) as usize;
        let b = (rng.next() % n as u64) as usize;
        // extern calls and plain intraprocedural edges are the interesting ones: bias towards them
        let k = match rng.next() % 10 {
            0 | 1 => "ext:A",
            2 | 3 => "ext:B",
            4 => "block",
            5 => "jump",
            _ => KINDS[(rng.next() % KINDS.len() as u64) as usize],
        };
        (a, b, k.to_string())
    }).collect();
    let syms = ["A", "B", "C"];
    ReachCase {
        n,
        edges,
        start: (rng.next() % n as u64) as usize,
        check: syms[(rng.next() % 3) as usize].into(),
        use_: syms[(rng.next() % 3) as usize].into(),
    }
}

fn reach_search(seed: u64, random_cases: usize) -> (u64, Option<Value>) {
    let mut cases = 0u64;
    let mut found = None;
    reach_enumerate(|c| {
        cases += 1;
        if let Some(d) = c.check() {
            found = Some(d);
            return false;
        }
        true
    });
    if found.is_some() {
        return (cases, found);
    }
    let mut rng = Rng(seed ^ 0xC17);
    for _ in 0..random_cases {
        cases += 1;
        if let Some(d) = reach_random(&mut rng).check() {
            return (cases, Some(d));
        }
    }
    (cases, None)
}

// ------------------------------------------------------------------------------------------------------------------------
// c17.toctou / c17.chroot: the two check functions on PROGRAMS (real get_program_cfg + real check_cwe)
// ------------------------------------------------------------------------------------------------------------------------
//   programs   1..=2 functions f0, f1; every function has 1..=5 blocks; a block ends in one of the jump lists
//                [] | [branch b] | [cbranch b, branch b'] | [return] | [ext X -> b] | [ext X, no return] |
//                [cbranch b, ext X -> b'] | [call f1 -> b] (from f0 only) | [callind -> b]
//              with X one of the imported symbols among chroot, chdir, setuid, access, open.  All jump targets exist.
//   reference  (from the property statement, on the PROGRAM, not on the graph) block-level successor relation of a
//              function: branch / cbranch -> target; returning extern or indirect call -> return block; returning internal
//              call -> return block when the callee contains a return instruction; everything else: no successor.
//              "a call to X" = a block successor produced by a DIRECT extern call to X.  Reachability by round-based
//              relaxation without the successors that are calls to the check function.
//   toctou     expected: for every configured pair with both names imported and every returning direct call to the check
//              function, one warning iff a call to the use function is reachable from the return block; compared as
//              multisets of (check name, use name, first tid of the warning), and the second tid must be the jump of a
//              reachable use call.
//   chroot     expected: for every block that holds a direct call to chroot, one warning iff chdir is not imported, or no
//              chdir call is reachable from the block after the call and the function does not call both chdir and an
//              imported configured privilege-dropping function; compared as multisets of the warning's tid.
//              "after it" = from the block the chroot call returns to; a chroot call without return target has nothing
//              after it.  Any panic is a disagreement (the property: "handles every program without failing").
//              History: before /repo commit b82ac12 the check panicked for a chroot block with no successor (call without
//              return target) or two (conditional jump + call) -- finding K1, reproductions kept in
//              /verif/seeded/findings/c17_k1a.json and c17_k1b.json (they agree now).
use cwe_checker_lib::analysis::graph::get_program_cfg;
use cwe_checker_lib::checkers::{cwe_243, cwe_367};

use cwe_checker_lib::pipeline::AnalysisResults;
use std::collections::BTreeMap;

const SYMS: [&str; 5] = ["chroot", "chdir", "setuid", "access", "open"];

#[derive(Clone, Debug, PartialEq)]
enum J {
    Branch(usize),
    CBranch(usize),
    Return,
    Ext(usize, Option<usize>),
    Int(Option<usize>),
    Ind(Option<usize>),
}

#[derive(Clone, Debug)]
pub struct ProgCase {
    /// fns[f][b] = jump list of block b of function f
    fns: Vec<Vec<Vec<J>>>,
    /// which of SYMS are extern symbols of the program
    imported: Vec<bool>,
    /// cwe_243: configured privilege-dropping functions; cwe_367: configured pairs
    privs: Vec<String>,
    pairs: Vec<(String, String)>,
}

fn blk_tid(f: usize, b: usize) -> Tid {
    Tid::new(format!("f{}_b{}", f, b))
}
fn jmp_tid(f: usize, b: usize, k: usize) -> Tid {
    Tid::new(format!("f{}_b{}_j{}", f, b, k))
}
fn sym_tid(s: usize) -> Tid {
    Tid::new(format!("sym_{}", SYMS[s]))
}
fn var(name: &str) -> Variable {
    Variable { name: name.to_string(), size: ByteSize::new(8), is_temp: false }
}

impl ProgCase {
    fn to_json(&self, which: &str) -> Value {
        let jj = |j: &J| match j {
            J::Branch(t) => json!(["branch", t]),
            J::CBranch(t) => json!(["cbranch", t]),
            J::Return => json!(["return"]),
            J::Ext(s, r) => json!(["ext", SYMS[*s], r]),
            J::Int(r) => json!(["call_f1", r]),
            J::Ind(r) => json!(["callind", r]),
        };
        json!({"fn": which,
               "fns": self.fns.iter().map(|f| f.iter().map(|b| b.iter().map(jj).collect::<Vec<_>>()).collect::<Vec<_>>()).collect::<Vec<_>>(),
               "imported": SYMS.iter().enumerate().filter(|(i, _)| self.imported[*i]).map(|(_, s)| *s).collect::<Vec<_>>(),
               "privs": self.privs, "pairs": self.pairs.iter().map(|(a, b)| json!([a, b])).collect::<Vec<_>>()})
    }
    fn from_json(v: &Value) -> ProgCase {
        let opt = |x: &Value| x.as_u64().map(|u| u as usize);
        let jj = |j: &Value| match j[0].as_str().unwrap_or("") {
            "branch" => J::Branch(opt(&j[1]).unwrap_or(0)),
            "cbranch" => J::CBranch(opt(&j[1]).unwrap_or(0)),
            "ext" => J::Ext(SYMS.iter().position(|s| Some(*s) == j[1].as_str()).unwrap_or(0), opt(&j[2])),
            "call_f1" => J::Int(opt(&j[1])),
            "callind" => J::Ind(opt(&j[1])),
            _ => J::Return,
        };
        let arr = |x: &Value| x.as_array().cloned().unwrap_or_default();
        ProgCase {
            fns: arr(&v["fns"]).iter().map(|f| arr(f).iter().map(|b| arr(b).iter().map(jj).collect()).collect()).collect(),
            imported: SYMS.iter().map(|s| arr(&v["imported"]).iter().any(|x| x.as_str() == Some(*s))).collect(),
            privs: arr(&v["privs"]).iter().filter_map(|x| x.as_str().map(|s| s.to_string())).collect(),
            pairs: arr(&v["pairs"]).iter().map(|x| (x[0].as_str().unwrap_or("").to_string(), x[1].as_str().unwrap_or("").to_string())).collect(),
        }
    }

    fn project(&self) -> Project {
        let mut subs = BTreeMap::new();
        for (f, blocks) in self.fns.iter().enumerate() {
            let blks = blocks.iter().enumerate().map(|(b, js)| {
                let jmps = js.iter().enumerate().map(|(k, j)| {
                    let term = match j {
                        J::Branch(t) => Jmp::Branch(blk_tid(f, *t)),
                        J::CBranch(t) => Jmp::CBranch { target: blk_tid(f, *t), condition: Expression::Var(var("ZF")) },
                        J::Return => Jmp::Return(Expression::Var(var("RAX"))),
                        J::Ext(s, r) => Jmp::Call { target: sym_tid(*s), return_: r.map(|r| blk_tid(f, r)) },
                        J::Int(r) => Jmp::Call { target: Tid::new("f1"), return_: r.map(|r| blk_tid(f, r)) },
                        J::Ind(r) => Jmp::CallInd { target: Expression::Var(var("RAX")), return_: r.map(|r| blk_tid(f, r)) },
                    };
                    Term { tid: jmp_tid(f, b, k), term }
                }).collect();
                Term { tid: blk_tid(f, b), term: Blk { defs: vec![], jmps, indirect_jmp_targets: vec![] } }
            }).collect();
            let tid = Tid::new(format!("f{}", f));
            subs.insert(tid.clone(), Term { tid, term: Sub { name: format!("f{}", f), blocks: blks, calling_convention: None } });
        }
        let mut extern_symbols = BTreeMap::new();
        for (s, name) in SYMS.iter().enumerate() {
            if self.imported[s] {
                extern_symbols.insert(sym_tid(s), ExternSymbol {
                    tid: sym_tid(s),
                    addresses: vec!["0x3000".to_string()],
                    name: name.to_string(),
                    calling_convention: None,
                    parameters: vec![],
                    return_values: vec![],
                    no_return: false,
                    has_var_args: false,
                });
            }
        }
        let program = Program { subs, extern_symbols, entry_points: BTreeSet::from([Tid::new("f0")]), address_base_offset: 0 };
        Project {
            program: Term { tid: Tid::new("program"), term: program },
            cpu_architecture: "x86_64".to_string(),
            stack_pointer_register: var("RSP"),
            calling_conventions: BTreeMap::new(),
            register_set: BTreeSet::new(),
            datatype_properties: DatatypeProperties {
                char_size: ByteSize::new(1), double_size: ByteSize::new(8), float_size: ByteSize::new(4), integer_size: ByteSize::new(4),
                long_double_size: ByteSize::new(8), long_long_size: ByteSize::new(8), long_size: ByteSize::new(8),
                pointer_size: ByteSize::new(8), short_size: ByteSize::new(2),
            },
            runtime_memory_image: RuntimeMemoryImage::empty(true),
        }
    }

    // ---- reference, from the property statement ----

    fn fn_returns(&self, f: usize) -> bool {
        self.fns.get(f).map(|bs| bs.iter().any(|js| js.contains(&J::Return))).unwrap_or(false)
    }
    /// successors of block b of function f: (target block, Some((symbol, jump number)) when produced by a direct extern call)
    fn succ(&self, f: usize, b: usize) -> Vec<(usize, Option<(usize, usize)>)> {
        let mut out = Vec::new();
        for (k, j) in self.fns[f][b].iter().enumerate() {
            match j {
                J::Branch(t) | J::CBranch(t) => out.push((*t, None)),
                J::Ext(s, Some(r)) => out.push((*r, Some((*s, k)))),
                J::Int(Some(r)) if self.fns.len() > 1 && !self.fns[1].is_empty() && self.fn_returns(1) => out.push((*r, None)),
                J::Ind(Some(r)) => out.push((*r, None)),
                _ => (),
            }
        }
        out
    }
    /// jump tids of the calls to `use_` reachable from block `start` of function f without passing a call to `check`
    fn hits(&self, f: usize, start: usize, check: usize, use_: usize) -> BTreeSet<String> {
        let n = self.fns[f].len();
        let mut reach = vec![false; n];
        reach[start] = true;
        loop {
            let mut changed = false;
            for b in 0..n {
                if !reach[b] { continue; }
                for (t, c) in self.succ(f, b) {
                    if c.map(|(s, _)| s) != Some(check) && !reach[t] {
                        reach[t] = true;
                        changed = true;
                    }
                }
            }
            if !changed { break; }
        }
        let mut out = BTreeSet::new();
        for b in 0..n {
            if reach[b] {
                for (_, c) in self.succ(f, b) {
                    if let Some((s, k)) = c {
                        if s == use_ { out.insert(format!("{}", jmp_tid(f, b, k))); }
                    }
                }
            }
        }
        out
    }
    fn sym_index(&self, name: &str) -> Option<usize> {
        SYMS.iter().position(|s| *s == name).filter(|i| self.imported[*i])
    }
    fn fn_calls(&self, f: usize, s: usize) -> bool {
        self.fns[f].iter().any(|js| js.iter().any(|j| matches!(j, J::Ext(x, _) if *x == s)))
    }

    /// expected toctou warnings: (check, use, return block tid) -> admissible second tids
    fn toctou_expected(&self) -> Vec<((String, String, String), BTreeSet<String>)> {
        let mut out = Vec::new();
        for (c, u) in &self.pairs {
            if let (Some(ci), Some(ui)) = (self.sym_index(c), self.sym_index(u)) {
                for f in 0..self.fns.len() {
                    for b in 0..self.fns[f].len() {
                        for j in &self.fns[f][b] {
                            if let J::Ext(s, Some(r)) = j {
                                if *s == ci {
                                    let h = self.hits(f, *r, ci, ui);
                                    if !h.is_empty() {
                                        out.push(((c.clone(), u.clone(), format!("{}", blk_tid(f, *r))), h));
                                    }
                                }
                            }
                        }
                    }
                }
            }
        }
        out
    }
    fn toctou_real(&self) -> Result<Vec<((String, String, String), String)>, String> {
        let case = self.clone();
        catch_unwind(AssertUnwindSafe(move || {
            let project = case.project();
            let graph = get_program_cfg(&project.program);
            let results = AnalysisResults::new(&[], &graph, &project);
            let (_logs, warnings) = cwe_367::check_cwe(&results, &json!({"pairs": case.pairs.iter().map(|(a, b)| json!([a, b])).collect::<Vec<_>>()}));
            warnings.iter().map(|w| ((w.symbols[0].clone(), w.symbols[1].clone(), w.tids[0].clone()), w.tids[1].clone())).collect()
        })).map_err(|_| "panic".to_string())
    }
    fn toctou_check(&self) -> Option<Value> {
        let mut exp = self.toctou_expected();
        let got = self.toctou_real();
        let ok = match &got {
            Err(_) => false,
            Ok(ws) => {
                let mut ok = ws.len() == exp.len();
                for (key, second) in ws {
                    match exp.iter().position(|(k, h)| k == key && h.contains(second)) {
                        Some(i) => { exp.remove(i); }
                        None => { ok = false; }
                    }
                }
                ok
            }
        };
        if ok { None } else {
            Some(json!({"input": self.to_json("toctou"),
                        "expected": self.toctou_expected().iter().map(|(k, h)| json!([k.0, k.1, k.2, h.iter().collect::<Vec<_>>()])).collect::<Vec<_>>(),
                        "got": match got { Ok(ws) => json!(ws.iter().map(|(k, s)| json!([k.0, k.1, k.2, s])).collect::<Vec<_>>()), Err(e) => json!(e) }}))
        }
    }

    /// expected warning tids, from the property statement
    fn chroot_expected(&self) -> Vec<String> {
        let mut out = Vec::new();
        let chroot = match self.sym_index("chroot") { Some(i) => i, None => return out };
        let chdir = self.sym_index("chdir");
        for f in 0..self.fns.len() {
            for b in 0..self.fns[f].len() {
                let first = self.fns[f][b].iter().position(|j| matches!(j, J::Ext(s, _) if *s == chroot));
                let Some(k) = first else { continue };
                let tid = format!("{}", jmp_tid(f, b, k));
                match chdir {
                    None => out.push(tid),
                    Some(cd) => {
                        // the block the chroot call returns to, if it returns
                        let after = match &self.fns[f][b][k] { J::Ext(_, r) => *r, _ => None };
                        let reachable = after.map(|a| !self.hits(f, a, chroot, cd).is_empty()).unwrap_or(false);
                        let both = self.fn_calls(f, cd) && self.privs.iter().any(|p| self.sym_index(p).map(|s| self.fn_calls(f, s)).unwrap_or(false));
                        if !reachable && !both { out.push(tid); }
                    }
                }
            }
        }
        out.sort();
        out
    }
    fn chroot_real(&self) -> Result<Vec<String>, String> {
        let case = self.clone();
        catch_unwind(AssertUnwindSafe(move || {
            let mut project = case.project();
            // C17_NORMALIZE=1: run the project normalisation passes first (used to show that finding K1 survived them)
            if std::env::var("C17_NORMALIZE").is_ok() {
                let _ = project.normalize();
            }
            let graph = get_program_cfg(&project.program);
            let results = AnalysisResults::new(&[], &graph, &project);
            let (_logs, warnings) = cwe_243::check_cwe(&results, &json!({"priviledge_dropping_functions": case.privs}));
            let mut v: Vec<String> = warnings.iter().map(|w| w.tids[0].clone()).collect();
            v.sort();
            v
        })).map_err(|_| "panic".to_string())
    }
    fn chroot_check(&self) -> Option<Value> {
        let exp = self.chroot_expected();
        let got = self.chroot_real();
        match got {
            Ok(ref v) if *v == exp => None,
            _ => Some(json!({"input": self.to_json("chroot"), "expected": exp, "got": match got { Ok(v) => json!(v), Err(e) => json!(e) }})),
        }
    }
}

fn prog_random(rng: &mut Rng, chroot_bias: bool) -> ProgCase {
    let nf = 1 + (rng.next() % 2) as usize;
    let mut imported: Vec<bool> = (0..SYMS.len()).map(|_| rng.next() % 4 != 0).collect();
    if chroot_bias { imported[0] = true; }
    let imp: Vec<usize> = (0..SYMS.len()).filter(|i| imported[*i]).collect();
    let mut fns = Vec::new();
    for f in 0..nf {
        let nb = 1 + (rng.next() % 5) as usize;
        let mut blocks = Vec::new();
        for _ in 0..nb {
            let t = |rng: &mut Rng| (rng.next() % nb as u64) as usize;
            let ext = |rng: &mut Rng| if imp.is_empty() { None } else { Some(imp[(rng.next() % imp.len() as u64) as usize]) };
            let js = match rng.next() % 16 {
                0 => vec![],
                1 | 2 => vec![J::Branch(t(rng))],
                3 | 4 => vec![J::CBranch(t(rng)), J::Branch(t(rng))],
                5 => vec![J::Return],
                6..=10 => match ext(rng) { Some(s) => vec![J::Ext(s, Some(t(rng)))], None => vec![J::Return] },
                11 => match ext(rng) { Some(s) => vec![J::Ext(s, None)], None => vec![] },
                12 => match ext(rng) { Some(s) => vec![J::CBranch(t(rng)), J::Ext(s, Some(t(rng)))], None => vec![] },
                13 => if f == 0 && nf > 1 { vec![J::Int(Some(t(rng)))] } else { vec![J::Branch(t(rng))] },
                14 => vec![J::Ind(Some(t(rng)))],
                _ => match ext(rng) { Some(s) => vec![J::Ext(s, Some(t(rng)))], None => vec![J::Return] },
            };
            blocks.push(js);
        }
        fns.push(blocks);
    }
    let names = ["setuid", "open", "nonexistent", "chdir"];
    let privs = (0..(rng.next() % 3)).map(|_| names[(rng.next() % 4) as usize].to_string()).collect();
    let pn = ["access", "open", "chroot", "chdir", "nonexistent"];
    let pairs = (0..(1 + rng.next() % 2)).map(|_| (pn[(rng.next() % 5) as usize].to_string(), pn[(rng.next() % 5) as usize].to_string())).collect();
    ProgCase { fns, imported, privs, pairs }
}

/// (cases, first disagreement)
fn prog_search(which: &str, seed: u64, n: usize) -> (u64, Option<Value>) {
    let mut rng = Rng(seed ^ if which == "toctou" { 0x367 } else { 0x243 });
    let mut cases = 0u64;
    for _ in 0..n {
        let c = prog_random(&mut rng, which == "chroot");
        cases += 1;
        let d = if which == "toctou" { c.toctou_check() } else { c.chroot_check() };
        if d.is_some() {
            return (cases, d);
        }
    }
    (cases, None)
}

// ------------------------------------------------------------------------------------------------------------------------
// dispatch
// ------------------------------------------------------------------------------------------------------------------------

pub fn search(twin: &str, _case: Option<&str>, seed: u64) -> Option<Value> {
    match twin {
        "c17.reach" => reach_search(seed, 20_000).1,
        "c17.toctou" => prog_search("toctou", seed, 20_000).1,
        "c17.chroot" => prog_search("chroot", seed, 20_000).1,
        _ => None,
    }
}

pub fn replay(twin: &str, input: &Value) -> Value {
    match input["fn"].as_str().unwrap_or(twin.trim_start_matches("c17.")) {
        "reach" => match ReachCase::from_json(input).check() {
            None => json!({"agrees": true}),
            Some(d) => json!({"agrees": false, "expected": d["expected"], "got": d["got"]}),
        },
        "toctou" => match ProgCase::from_json(input).toctou_check() {
            None => json!({"agrees": true}),
            Some(d) => json!({"agrees": false, "expected": d["expected"], "got": d["got"]}),
        },
        "chroot" => match ProgCase::from_json(input).chroot_check() {
            None => json!({"agrees": true}),
            Some(d) => json!({"agrees": false, "expected": d["expected"], "got": d["got"]}),
        },
        _ => json!({"agrees": true, "note": "unknown c17 twin"}),
    }
}

pub fn sweep(twin: &str, seed: u64) -> Value {
    match twin {
        "c17.reach" => {
            let (cases, d) = reach_search(seed, 200_000);
            json!({"cases": cases, "disagreements": if d.is_some() { 1 } else { 0 }, "first": d})
        }
        "c17.toctou" | "c17.chroot" => {
            let (cases, d) = prog_search(&twin[4..], seed, 100_000);
            json!({"cases": cases, "disagreements": if d.is_some() { 1 } else { 0 }, "first": d})
        }
        _ => json!({"cases": 0, "disagreements": 0, "note": "unknown c17 twin"}),
    }
}
