//! C22 -- executable twins for unit `modsel` ("check selection runs exactly the requested checks").
//!
//! Only the LIBRARY half of the property can be reached from this crate: `cwe_checker_lib::get_modules()` and
//! `cwe_checker_lib::checkers::MODULES_LKM`.  `filter_modules_for_partial_run`, the default filter (`name != "CWE78"`), the
//! kernel-module filter and the `--module-versions` loop are private items / inline statements of the BINARY crate
//! `cwe_checker` (src/caller/src/main.rs): they cannot be called from here, so there is NO bounded stand-in for them.
//!
//! Twin `c22.modules` (no input: the "cases" are the facts below, checked on the real constants of the tree under test):
//!   F1  the names of `get_modules()` are pairwise different                         ("names every known check once")
//!   F2  the set of names is exactly the 19 known names (checkers.rs module list + "Memory")
//!   F3  exactly one module is named "CWE78"                                          ("every check except the OS-command-injection check")
//!   F4  `MODULES_LKM` has no entry twice
//!   F5  every entry of `MODULES_LKM` other than the recorded dangling entry "CWE457" (observation O1) is the name of a module
//!   F6  STAND-IN for the inline kernel-module filter of run_with_ghidra (`MODULES_LKM.contains(&module.name)`, retyped here because
//!       the statement lives in the binary crate): for every module of `get_modules()` the expression answers exactly
//!       "the name is one of the documented kernel-module checks" (LKM_DOC: the check keys of src/lkm_config.json).  The expression
//!       is written so that it compiles for every type of `MODULES_LKM` the caller's text compiles for (an array / slice of names:
//!       element equality; a `&str`: SUBSTRING test, which answers true for "CWE78" inside "CWE789").  F4 / F5 need the entries and
//!       are skipped when `MODULES_LKM` is not a list.
//!   O1  is REPORTED in the sweep output (`dangling_lkm_entries`), not counted as a disagreement.
//!
//! Twin `c22.split` (ASSUMPTION CHECK of shim/modsel.rs): the deductive unit verifies `filter_modules_for_partial_run` against
//! the contract "`s.split(',').collect::<HashSet<&str>>()` is the set of the maximal comma-free substrings of `s`"
//! (`ms_is_piece` / `ms_piece_at`) and "`into_iter()` yields every element of the set exactly once".  `model_pieces` is an
//! executable copy of `ms_is_piece`; it is compared with real std on ALL strings over {',', 'a', 'B'} up to length 9 and on seeded
//! random strings made of check names, commas, blanks and non-ASCII characters.
use crate::util::Rng;
use serde_json::{json, Value};
use std::collections::{BTreeSet, HashSet};

const KNOWN: [&str; 19] = [
    "CWE78", "CWE119", "CWE134", "CWE190", "CWE215", "CWE243", "CWE252", "CWE332", "CWE337", "CWE367", "CWE416", "CWE426", "CWE467",
    "CWE476", "CWE560", "CWE676", "CWE782", "CWE789", "Memory",
];
const OSCMD: &str = "CWE78";
const DANGLING: [&str; 1] = ["CWE457"];
/// the kernel-module checks as documented: the keys of src/lkm_config.json that are check names
const LKM_DOC: [&str; 10] = ["CWE134", "CWE190", "CWE215", "CWE252", "CWE416", "CWE457", "CWE467", "CWE476", "CWE676", "CWE789"];

/// the entries of `MODULES_LKM`, whatever its type: a list of names has entries, a single string has none
trait LkmView {
    fn entries(&self) -> Option<Vec<&'static str>>;
}
impl<const N: usize> LkmView for [&'static str; N] {
    fn entries(&self) -> Option<Vec<&'static str>> {
        Some(self.to_vec())
    }
}
impl LkmView for &'static [&'static str] {
    fn entries(&self) -> Option<Vec<&'static str>> {
        Some(self.to_vec())
    }
}
impl LkmView for &'static str {
    fn entries(&self) -> Option<Vec<&'static str>> {
        None
    }
}

fn facts() -> Vec<(&'static str, Value, Value)> {
    // (fact, expected, got)
    let names: Vec<&str> = cwe_checker_lib::get_modules().iter().map(|m| m.name).collect();
    let lkm_entries: Option<Vec<&str>> = cwe_checker_lib::checkers::MODULES_LKM.entries();
    let mut out = Vec::new();
    let mut dup: Vec<&str> = Vec::new();
    for (i, n) in names.iter().enumerate() {
        if names[..i].contains(n) {
            dup.push(n);
        }
    }
    out.push(("F1 names of get_modules() pairwise different", json!([]), json!(dup)));
    let got: BTreeSet<&str> = names.iter().cloned().collect();
    let want: BTreeSet<&str> = KNOWN.iter().cloned().collect();
    out.push(("F2 names of get_modules() == known names", json!(want), json!(got)));
    out.push(("F3 exactly one module named CWE78", json!(1), json!(names.iter().filter(|n| **n == OSCMD).count())));
    if let Some(lkm) = &lkm_entries {
        let mut bad: Vec<&str> = Vec::new();
        for (i, n) in lkm.iter().enumerate() {
            if lkm[..i].contains(n) {
                bad.push(n);
            }
        }
        out.push(("F4 MODULES_LKM: no entry twice", json!([]), json!(bad)));
        let unknown: Vec<&str> = lkm.iter().cloned().filter(|n| !names.contains(n) && !DANGLING.contains(n)).collect();
        out.push(("F5 every MODULES_LKM entry (except the recorded dangling CWE457) names a module", json!([]), json!(unknown)));
    }
    // F6: the caller's membership expression, module by module
    let selected: Vec<&str> = names.iter().cloned().filter(|name| { let module_name: &str = name; cwe_checker_lib::checkers::MODULES_LKM.contains(&module_name) }).collect();
    let expected: Vec<&str> = names.iter().cloned().filter(|name| LKM_DOC.contains(name)).collect();
    out.push(("F6 `MODULES_LKM.contains(&module.name)` selects exactly the documented kernel-module checks", json!(expected), json!(selected)));
    out
}

fn dangling() -> Vec<&'static str> {
    let names: Vec<&str> = cwe_checker_lib::get_modules().iter().map(|m| m.name).collect();
    cwe_checker_lib::checkers::MODULES_LKM.entries().unwrap_or_default().into_iter().filter(|n| !names.contains(n)).collect()
}

/// executable copy of `ms_is_piece(s, c, p)`: all `s[a..b]` with `ms_piece_at(s, c, a, b)`
fn model_pieces(s: &[char], c: char) -> BTreeSet<String> {
    let n = s.len();
    let mut out = BTreeSet::new();
    for a in 0..=n {
        for b in a..=n {
            let inner = (a..b).all(|k| s[k] != c);
            let left = a == 0 || s[a - 1] == c;
            let right = b == n || s[b] == c;
            if inner && left && right {
                out.insert(s[a..b].iter().collect::<String>());
            }
        }
    }
    out
}

fn check_split(text: &str) -> Option<Value> {
    let chars: Vec<char> = text.chars().collect();
    let want = model_pieces(&chars, ',');
    let set: HashSet<&str> = text.split(',').collect();
    let got: BTreeSet<String> = set.iter().map(|p| p.to_string()).collect();
    // `into_iter`: every element exactly once
    let yielded: Vec<&str> = set.clone().into_iter().collect();
    let once = yielded.len() == got.len() && yielded.iter().map(|p| p.to_string()).collect::<BTreeSet<String>>() == got;
    if want != got || !once {
        return Some(json!({"input": {"text": text}, "expected": want, "got": got, "into_iter_yields_each_once": once}));
    }
    None
}

fn enumerate_split(seed: u64, evaluations: &mut u64) -> Option<Value> {
    let alphabet = [',', 'a', 'B'];
    for len in 0..=9usize {
        let total = 3usize.pow(len as u32);
        for code in 0..total {
            let mut x = code;
            let mut s = String::new();
            for _ in 0..len {
                s.push(alphabet[x % 3]);
                x /= 3;
            }
            *evaluations += 1;
            if let Some(v) = check_split(&s) {
                return Some(v);
            }
        }
    }
    let mut rng = Rng(seed ^ 0xC22);
    let atoms = ["CWE78", "CWE119", "CWE416", "Memory", "", ",", ",,", " ", "CWE", "\u{e9}", "\u{4e2d}", "x,y", "CWE78,CWE78"];
    for _ in 0..20000 {
        let k = (rng.next() % 9) as usize;
        let mut s = String::new();
        for i in 0..k {
            s.push_str(atoms[(rng.next() % atoms.len() as u64) as usize]);
            if i + 1 < k && rng.next() % 3 != 0 {
                s.push(',');
            }
        }
        *evaluations += 1;
        if let Some(v) = check_split(&s) {
            return Some(v);
        }
    }
    None
}

pub fn search(twin: &str, _case: Option<&str>, seed: u64) -> Option<Value> {
    match twin {
        "c22.modules" => {
            for (fact, expected, got) in facts() {
                if expected != got {
                    return Some(json!({"input": {"fact": fact}, "expected": expected, "got": got}));
                }
            }
            None
        }
        "c22.split" => {
            let mut evaluations = 0;
            enumerate_split(seed, &mut evaluations)
        }
        _ => None,
    }
}

pub fn replay(twin: &str, input: &Value) -> Value {
    match twin {
        "c22.modules" => {
            let want = input["fact"].as_str().unwrap_or("");
            for (fact, expected, got) in facts() {
                if fact == want || want.is_empty() {
                    if expected != got {
                        return json!({"agrees": false, "fact": fact, "expected": expected, "got": got, "input": input});
                    }
                }
            }
            json!({"agrees": true, "input": input})
        }
        "c22.split" => {
            let text = input["text"].as_str().unwrap_or("");
            match check_split(text) {
                Some(v) => json!({"agrees": false, "expected": v["expected"], "got": v["got"], "input": input}),
                None => json!({"agrees": true, "input": input}),
            }
        }
        _ => json!({"agrees": true, "note": "unknown twin"}),
    }
}

pub fn sweep(twin: &str, seed: u64) -> Value {
    match twin {
        "c22.modules" => {
            let fs = facts();
            let bad: Vec<Value> = fs.iter().filter(|(_, e, g)| e != g).map(|(f, e, g)| json!({"fact": f, "expected": e, "got": g})).collect();
            json!({"twin": twin, "bounded": false, "cases": fs.len(), "evaluations": fs.len(), "disagreements": bad.len(), "first": bad.first(),
                   "dangling_lkm_entries": dangling()})
        }
        "c22.split" => {
            let mut evaluations = 0;
            let r = enumerate_split(seed, &mut evaluations);
            json!({"twin": twin, "bounded": true, "cases": evaluations, "evaluations": evaluations, "disagreements": if r.is_some() { 1 } else { 0 }, "first": r})
        }
        _ => json!({"evaluations": 0, "disagreements": 0}),
    }
}
