//! C16 twins: the four call-site checkers, run on the REAL crate (`check_cwe` of cwe_676 / cwe_782 / cwe_426 / cwe_332).
//!
//!   "Call-site checkers report exactly the specified call sites. For every program and configuration: the
//!    dangerous-function check reports one warning per call to an imported symbol on the configured list; the ioctl
//!    check reports one warning per call to ioctl; the untrusted-search-path check reports each function that calls
//!    both system and a configured privilege-changing function; the PRNG check reports each configured
//!    (initializer, generator) pair whose generator is imported while the initializer is not."
//!
//! BOUNDED stand-in (an enumeration, never counted as proof) for the Verus units `callsites*`.
//!   programs   1..=4 functions (keys in an order that differs from the index order), 0..=3 blocks each, 0..=3 jumps
//!              per block; a jump is a direct call to an extern symbol, a direct call to an internal function or to a
//!              dangling tid, an indirect call, a branch; every jump has its own tid; two neighbouring jumps share an address
//!   symbols    a subset of a small pool of names (ioctl, system, setuid, setgid, strcpy, rand, srand, ..)
//!   configs    random sub-lists of the pool (with repetitions), random (initializer, generator) pairs
//! Reference = the property statement, evaluated position by position (no code shared with the checkers).
//! The default domain keeps the NAMES of the extern symbols pairwise distinct; `--case dup` lifts that restriction:
//! there the find_symbol-based checks (782, 426) only look at the FIRST symbol with a name (see the report of the unit).
//!
//! Twins: c16.dangerous (cwe_676), c16.ioctl (cwe_782), c16.searchpath (cwe_426), c16.prng (cwe_332).
use crate::util::Rng;
use cwe_checker_lib::analysis::graph::get_program_cfg;
use cwe_checker_lib::intermediate_representation::*;
use cwe_checker_lib::pipeline::AnalysisResults;
use cwe_checker_lib::utils::log::CweWarning;
use serde_json::{json, Value};
use std::collections::{BTreeMap, BTreeSet};
use std::panic::{catch_unwind, AssertUnwindSafe};

const NAMES: [&str; 9] = ["ioctl", "system", "setuid", "setgid", "strcpy", "rand", "srand", "ioct", "memcpy"];
/// keys of the functions: the BTreeMap order (b < k < m < zz) differs from the index order
const FN_KEYS: [&str; 4] = ["m", "zz", "b", "k"];

#[derive(Clone, Debug, PartialEq)]
enum J {
    /// direct call to the extern symbol with this index
    Ext(usize),
    /// direct call to the internal function with this index
    Int(usize),
    /// direct call to a tid that is neither
    Dangling,
    Ind,
    Branch,
}

#[derive(Clone, Debug)]
struct Case {
    /// extern symbols: index into NAMES (the tid of symbol i is "sym<i>", also its key)
    syms: Vec<usize>,
    fns: Vec<Vec<Vec<J>>>,
    list: Vec<String>,
    pairs: Vec<(String, String)>,
}

fn tid_at(id: String, addr: String) -> Tid {
    let mut t = Tid::new(id);
    t.address = addr;
    t
}
fn sym_tid(i: usize) -> Tid { tid_at(format!("sym{}", i), format!("0x30{:02}", i)) }
fn fn_tid(f: usize) -> Tid { tid_at(FN_KEYS[f].to_string(), format!("0x10{:02}", f)) }
fn fn_name(f: usize) -> String { format!("fun_{}", FN_KEYS[f]) }
/// every jump has its own tid ID; the ADDRESS is that of its instruction, and one instruction can produce two IR jumps
/// (the jumps k = 2m and k = 2m+1 of a block share an address): a warning list deduplicated by address is then wrong
fn jmp_tid(f: usize, b: usize, k: usize) -> Tid { tid_at(format!("jmp_{}_{}_{}", f, b, k), format!("0x2{}{}{}", f, b, k / 2)) }

impl Case {
    fn to_json(&self) -> Value {
        json!({
            "syms": self.syms.iter().map(|s| NAMES[*s]).collect::<Vec<_>>(),
            "fns": self.fns.iter().map(|bs| bs.iter().map(|js| js.iter().map(|j| match j {
                J::Ext(i) => json!(["ext", i]), J::Int(i) => json!(["int", i]), J::Dangling => json!(["dangling"]),
                J::Ind => json!(["ind"]), J::Branch => json!(["branch"]),
            }).collect::<Vec<_>>()).collect::<Vec<_>>()).collect::<Vec<_>>(),
            "list": self.list, "pairs": self.pairs.iter().map(|(a, b)| json!([a, b])).collect::<Vec<_>>(),
        })
    }
    fn from_json(v: &Value) -> Case {
        let arr = |x: &Value| x.as_array().cloned().unwrap_or_default();
        Case {
            syms: arr(&v["syms"]).iter().map(|s| NAMES.iter().position(|n| Some(*n) == s.as_str()).unwrap_or(8)).collect(),
            fns: arr(&v["fns"]).iter().take(4).map(|bs| arr(bs).iter().map(|js| arr(js).iter().map(|j| {
                let i = j[1].as_u64().unwrap_or(0) as usize;
                match j[0].as_str().unwrap_or("") { "ext" => J::Ext(i), "int" => J::Int(i), "dangling" => J::Dangling, "ind" => J::Ind, _ => J::Branch }
            }).collect()).collect()).collect(),
            list: arr(&v["list"]).iter().filter_map(|s| s.as_str().map(|s| s.to_string())).collect(),
            pairs: arr(&v["pairs"]).iter().map(|p| (p[0].as_str().unwrap_or("").to_string(), p[1].as_str().unwrap_or("").to_string())).collect(),
        }
    }

    fn project(&self) -> Project {
        let mut subs = BTreeMap::new();
        for (f, blocks) in self.fns.iter().enumerate() {
            let blks = blocks.iter().enumerate().map(|(b, js)| {
                let jmps = js.iter().enumerate().map(|(k, j)| {
                    let ret = if k % 2 == 0 { Some(Tid::new(format!("blk_{}_{}", f, b + 1))) } else { None };
                    let term = match j {
                        J::Ext(i) => Jmp::Call { target: sym_tid(*i), return_: ret },
                        J::Int(i) => Jmp::Call { target: fn_tid(*i % 4), return_: ret },
                        J::Dangling => Jmp::Call { target: Tid::new("nowhere"), return_: ret },
                        J::Ind => Jmp::CallInd { target: Expression::Const(Bitvector::from_u64(0x3000)), return_: ret },
                        J::Branch => Jmp::Branch(Tid::new(format!("blk_{}_{}", f, b))),
                    };
                    Term { tid: jmp_tid(f, b, k), term }
                }).collect();
                Term { tid: Tid::new(format!("blk_{}_{}", f, b)), term: Blk { defs: vec![], jmps, indirect_jmp_targets: vec![] } }
            }).collect();
            subs.insert(fn_tid(f), Term { tid: fn_tid(f), term: Sub { name: fn_name(f), blocks: blks, calling_convention: None } });
        }
        let mut extern_symbols = BTreeMap::new();
        for (i, n) in self.syms.iter().enumerate() {
            extern_symbols.insert(sym_tid(i), ExternSymbol {
                tid: sym_tid(i), addresses: vec![format!("0x30{:02}", i)], name: NAMES[*n].to_string(), calling_convention: None,
                parameters: vec![], return_values: vec![], no_return: false, has_var_args: false,
            });
        }
        let program = Program { subs, extern_symbols, entry_points: BTreeSet::new(), address_base_offset: 0 };
        Project {
            program: Term { tid: Tid::new("program"), term: program },
            cpu_architecture: "x86_64".to_string(),
            stack_pointer_register: Variable { name: "RSP".to_string(), size: ByteSize::new(8), is_temp: false },
            calling_conventions: BTreeMap::new(),
            register_set: BTreeSet::new(),
            datatype_properties: DatatypeProperties {
                char_size: ByteSize::new(1), double_size: ByteSize::new(8), float_size: ByteSize::new(4), integer_size: ByteSize::new(4),
                long_double_size: ByteSize::new(8), long_long_size: ByteSize::new(8), long_size: ByteSize::new(8),
                pointer_size: ByteSize::new(8), short_size: ByteSize::new(2),
            },
            runtime_memory_image: RuntimeMemoryImage::empty(true),
        }
    }

    // ---- the property, evaluated on the case ---------------------------------------------------------------------
    /// name of the extern symbol a jump calls directly (None: not a direct call to an imported symbol)
    fn callee_name(&self, j: &J) -> Option<&'static str> {
        match j { J::Ext(i) if *i < self.syms.len() => Some(NAMES[self.syms[*i]]), _ => None }
    }
    /// (address, tid, symbol) of one warning per call site whose callee name satisfies `p`
    fn per_call(&self, p: &dyn Fn(&str) -> bool) -> Vec<(String, String, String)> {
        let mut out = Vec::new();
        for (f, bs) in self.fns.iter().enumerate() {
            for (b, js) in bs.iter().enumerate() {
                for (k, j) in js.iter().enumerate() {
                    if self.callee_name(j).map(|n| p(n)).unwrap_or(false) {
                        out.push((jmp_tid(f, b, k).address, format!("{}", jmp_tid(f, b, k)), fn_name(f)));
                    }
                }
            }
        }
        out
    }
    fn calls_some(&self, f: usize, p: &dyn Fn(&str) -> bool) -> bool {
        self.fns[f].iter().any(|js| js.iter().any(|j| self.callee_name(j).map(|n| p(n)).unwrap_or(false)))
    }
    fn imported(&self, name: &str) -> bool { self.syms.iter().any(|s| NAMES[*s] == name) }
}

fn observed(ws: &[CweWarning]) -> Vec<(String, String, String)> {
    let mut v: Vec<_> = ws.iter().map(|w| (w.addresses.join(","), w.tids.join(","), w.symbols.join(","))).collect();
    v.sort();
    v
}

/// Runs the real check of `twin` on the case; Some(report) on a disagreement with the property.
fn check(twin: &str, case: &Case) -> Option<Value> {
    let project = case.project();
    std::panic::set_hook(Box::new(|_| {}));
    let run = catch_unwind(AssertUnwindSafe(|| {
        // the four checkers never look at the control flow graph: it is built from an EMPTY program, so that the CFG
        // builder (which panics on dangling call targets / empty blocks) does not restrict the programs tried here
        let empty = Term { tid: Tid::new("empty"), term: Program { subs: BTreeMap::new(), extern_symbols: BTreeMap::new(),
                                                                   entry_points: BTreeSet::new(), address_base_offset: 0 } };
        let graph = get_program_cfg(&empty);
        let results = AnalysisResults::new(&[], &graph, &project);
        match twin {
            "c16.dangerous" => cwe_checker_lib::checkers::cwe_676::check_cwe(&results, &json!({"symbols": case.list})),
            "c16.ioctl" => cwe_checker_lib::checkers::cwe_782::check_cwe(&results, &json!({})),
            "c16.searchpath" => cwe_checker_lib::checkers::cwe_426::check_cwe(&results, &json!({"symbols": case.list})),
            _ => cwe_checker_lib::checkers::cwe_332::check_cwe(&results, &json!({"pairs": case.pairs})),
        }
    }));
    let _ = std::panic::take_hook();
    let (logs, ws) = match run {
        Ok(r) => r,
        Err(_) => return Some(json!({"input": case.to_json(), "check": "no-panic", "got": "panic", "expected": "warnings"})),
    };
    if !logs.is_empty() {
        return Some(json!({"input": case.to_json(), "check": "no-log-messages", "got": logs.len(), "expected": 0}));
    }
    let report = |want: Vec<(String, String, String)>, got: Vec<(String, String, String)>| {
        if want != got { Some(json!({"input": case.to_json(), "twin": twin, "expected": want, "got": got})) } else { None }
    };
    match twin {
        "c16.dangerous" => {
            let mut want = case.per_call(&|n| case.list.iter().any(|l| l == n));
            want.sort();
            report(want, observed(&ws))
        }
        "c16.ioctl" => {
            let mut want = case.per_call(&|n| n == "ioctl");
            want.sort();
            report(want, observed(&ws))
        }
        "c16.searchpath" => {
            let mut want: Vec<_> = (0..case.fns.len())
                .filter(|f| case.calls_some(*f, &|n| n == "system") && case.calls_some(*f, &|n| case.list.iter().any(|l| l == n)))
                .map(|f| (fn_tid(f).address, format!("{}", fn_tid(f)), fn_name(f)))
                .collect();
            want.sort();
            report(want, observed(&ws))
        }
        _ => {
            // the pair is only visible in the description text
            let want: Vec<String> = case.pairs.iter().filter(|(init, gen)| case.imported(gen) && !case.imported(init))
                .map(|(init, gen)| format!("(Insufficient Entropy in PRNG) program uses {gen} without calling {init} before")).collect();
            let got: Vec<String> = ws.iter().map(|w| w.description.clone()).collect();
            let bare = ws.iter().all(|w| w.addresses.is_empty() && w.tids.is_empty() && w.symbols.is_empty());
            if want != got || !bare { Some(json!({"input": case.to_json(), "twin": twin, "expected": want, "got": got, "bare": bare})) } else { None }
        }
    }
}

fn random_case(rng: &mut Rng, dup: bool) -> Case {
    // extern symbols: names pairwise distinct unless `dup`
    let nsyms = (rng.next() % 6) as usize;
    let mut syms: Vec<usize> = Vec::new();
    while syms.len() < nsyms {
        let s = (rng.next() % NAMES.len() as u64) as usize;
        if dup || !syms.contains(&s) { syms.push(s); }
    }
    let nf = 1 + (rng.next() % 4) as usize;
    let fns = (0..nf).map(|_| (0..rng.next() % 4).map(|_| (0..rng.next() % 4).map(|_| match rng.next() % 10 {
        0 => J::Int((rng.next() % 4) as usize),
        1 => J::Dangling,
        2 => J::Ind,
        3 => J::Branch,
        _ => J::Ext((rng.next() % 6) as usize),
    }).collect()).collect()).collect();
    let list = (0..rng.next() % 4).map(|_| NAMES[(rng.next() % NAMES.len() as u64) as usize].to_string()).collect();
    let pairs = (0..rng.next() % 4).map(|_| (NAMES[(rng.next() % NAMES.len() as u64) as usize].to_string(),
                                             NAMES[(rng.next() % NAMES.len() as u64) as usize].to_string())).collect();
    Case { syms, fns, list, pairs }
}

fn enumerate(twin: &str, seed: u64, dup: bool, evaluations: &mut u64) -> Option<Value> {
    let mut rng = Rng(seed ^ 0xC16);
    for _ in 0..20000 {
        let case = random_case(&mut rng, dup);
        *evaluations += 1;
        if let Some(v) = check(twin, &case) {
            return Some(v);
        }
    }
    None
}

const TWINS: [&str; 4] = ["c16.dangerous", "c16.ioctl", "c16.searchpath", "c16.prng"];

pub fn search(twin: &str, case: Option<&str>, seed: u64) -> Option<Value> {
    if !TWINS.contains(&twin) { return None; }
    let mut evaluations = 0;
    enumerate(twin, seed, case == Some("dup"), &mut evaluations)
}

pub fn replay(twin: &str, input: &Value) -> Value {
    let case = Case::from_json(input);
    match check(twin, &case) {
        Some(v) => json!({"agrees": false, "expected": v["expected"], "got": v["got"], "input": input}),
        None => json!({"agrees": true, "input": input}),
    }
}

pub fn sweep(twin: &str, seed: u64) -> Value {
    let mut evaluations = 0;
    let r = if TWINS.contains(&twin) { enumerate(twin, seed, false, &mut evaluations) } else { None };
    json!({"twin": twin, "bounded": true, "cases": evaluations, "evaluations": evaluations, "disagreements": if r.is_some() { 1 } else { 0 }, "first": r})
}
