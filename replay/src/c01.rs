//! C01 twins: P-Code reference semantics of integer operations over (width, u128).
use crate::util::*;
use cwe_checker_lib::intermediate_representation::*;
use serde_json::{json, Value};

pub const BIN_OPS: &[(&str, BinOpType)] = &[
    ("Piece", BinOpType::Piece), ("IntEqual", BinOpType::IntEqual), ("IntNotEqual", BinOpType::IntNotEqual),
    ("IntLess", BinOpType::IntLess), ("IntSLess", BinOpType::IntSLess), ("IntLessEqual", BinOpType::IntLessEqual),
    ("IntSLessEqual", BinOpType::IntSLessEqual), ("IntAdd", BinOpType::IntAdd), ("IntSub", BinOpType::IntSub),
    ("IntCarry", BinOpType::IntCarry), ("IntSCarry", BinOpType::IntSCarry), ("IntSBorrow", BinOpType::IntSBorrow),
    ("IntXOr", BinOpType::IntXOr), ("IntAnd", BinOpType::IntAnd), ("IntOr", BinOpType::IntOr),
    ("IntLeft", BinOpType::IntLeft), ("IntRight", BinOpType::IntRight), ("IntSRight", BinOpType::IntSRight),
    ("IntMult", BinOpType::IntMult), ("IntDiv", BinOpType::IntDiv), ("IntRem", BinOpType::IntRem),
    ("IntSDiv", BinOpType::IntSDiv), ("IntSRem", BinOpType::IntSRem), ("BoolXOr", BinOpType::BoolXOr),
    ("BoolAnd", BinOpType::BoolAnd), ("BoolOr", BinOpType::BoolOr), ("FloatEqual", BinOpType::FloatEqual),
    ("FloatNotEqual", BinOpType::FloatNotEqual), ("FloatLess", BinOpType::FloatLess),
    ("FloatLessEqual", BinOpType::FloatLessEqual), ("FloatAdd", BinOpType::FloatAdd), ("FloatSub", BinOpType::FloatSub),
    ("FloatMult", BinOpType::FloatMult), ("FloatDiv", BinOpType::FloatDiv),
];
pub const UN_OPS: &[(&str, UnOpType)] = &[
    ("IntNegate", UnOpType::IntNegate), ("Int2Comp", UnOpType::Int2Comp), ("BoolNegate", UnOpType::BoolNegate),
    ("FloatNegate", UnOpType::FloatNegate), ("FloatAbs", UnOpType::FloatAbs), ("FloatSqrt", UnOpType::FloatSqrt),
    ("FloatCeil", UnOpType::FloatCeil), ("FloatFloor", UnOpType::FloatFloor), ("FloatRound", UnOpType::FloatRound),
    ("FloatNaN", UnOpType::FloatNaN),
];
pub const CAST_OPS: &[(&str, CastOpType)] = &[
    ("IntZExt", CastOpType::IntZExt), ("IntSExt", CastOpType::IntSExt), ("Int2Float", CastOpType::Int2Float),
    ("Float2Float", CastOpType::Float2Float), ("Trunc", CastOpType::Trunc), ("PopCount", CastOpType::PopCount),
    ("LzCount", CastOpType::LzCount),
];

fn b2(b: bool) -> Option<(u32, u128)> {
    Some((8, b as u128))
}

/// P-Code reference value; None = no integer value defined (float, division by zero).
pub fn ref_bin(op: BinOpType, wa: u32, ua: u128, wb: u32, ub: u128) -> Option<(u32, u128)> {
    use BinOpType::*;
    let w = wa;
    let (sa, sb) = (sval(wa, ua), sval(wb, ub));
    let (lo, hi) = (-(1i128 << (w - 1)), (1i128 << (w - 1)) - 1); // only used for w <= 64
    match op {
        Piece => Some((wa + wb, (ua << wb) | ub)),
        IntEqual => b2(ua == ub),
        IntNotEqual => b2(ua != ub),
        IntLess => b2(ua < ub),
        IntSLess => b2(sa < sb),
        IntLessEqual => b2(ua <= ub),
        IntSLessEqual => b2(sa <= sb),
        IntAdd => Some((w, ua.wrapping_add(ub) & mask(w))),
        IntSub => Some((w, ua.wrapping_sub(ub) & mask(w))),
        IntCarry => b2(ua + ub > mask(w)),
        IntSCarry => b2(sa + sb > hi || sa + sb < lo),
        IntSBorrow => b2(sa - sb > hi || sa - sb < lo),
        IntXOr | BoolXOr => Some((w, ua ^ ub)),
        IntAnd | BoolAnd => Some((w, ua & ub)),
        IntOr | BoolOr => Some((w, ua | ub)),
        IntLeft => Some((w, if ub >= w as u128 { 0 } else { (ua << ub) & mask(w) })),
        IntRight => Some((w, if ub >= w as u128 { 0 } else { ua >> ub })),
        IntSRight => Some((w, if ub >= w as u128 { if sa < 0 { mask(w) } else { 0 } } else { trunc(w, sa >> ub) })),
        IntMult => Some((w, ua.wrapping_mul(ub) & mask(w))),
        IntDiv => if ub == 0 { None } else { Some((w, ua / ub)) },
        IntRem => if ub == 0 { None } else { Some((w, ua % ub)) },
        IntSDiv => if ub == 0 { None } else { Some((w, trunc(w, sa.wrapping_div(sb)))) },
        IntSRem => if ub == 0 { None } else { Some((w, trunc(w, sa.wrapping_rem(sb)))) },
        _ => None,
    }
}

fn unsupported_bin(op: BinOpType, wa: u32, ub: u128) -> bool {
    use BinOpType::*;
    let float = matches!(op, FloatEqual | FloatNotEqual | FloatLess | FloatLessEqual | FloatAdd | FloatSub | FloatMult | FloatDiv);
    let div = matches!(op, IntDiv | IntSDiv | IntRem | IntSRem);
    float || ((div || op == IntMult) && wa > 64) || (div && ub == 0)
}

pub fn ref_un(op: UnOpType, w: u32, u: u128) -> Option<(u32, u128)> {
    match op {
        UnOpType::IntNegate => Some((w, !u & mask(w))),
        UnOpType::Int2Comp => Some((w, u.wrapping_neg() & mask(w))),
        UnOpType::BoolNegate => Some((8, (u == 0) as u128)),
        _ => None,
    }
}

pub fn ref_cast(kind: CastOpType, w: u32, u: u128, t: u32) -> Option<(u32, u128)> {
    match kind {
        CastOpType::IntZExt => Some((t, u)),
        CastOpType::IntSExt => Some((t, trunc(t, sval(w, u)))),
        CastOpType::PopCount => Some((t, (u.count_ones() as u128) & mask(t))),
        CastOpType::LzCount => Some((t, ((u.leading_zeros() - (128 - w)) as u128) & mask(t))),
        _ => None,
    }
}

fn check_bin(name: &str, op: BinOpType, wa: u32, ua: u128, wb: u32, ub: u128) -> Option<Value> {
    let (a, b) = (mk(wa, ua), mk(wb, ub));
    // a panic of the real function on a well-sized input is a disagreement, not a crash of the search
    let prev = std::panic::take_hook();
    std::panic::set_hook(Box::new(|_| {}));
    let caught = std::panic::catch_unwind(|| a.bin_op(op, &b));
    std::panic::set_hook(prev);
    let got = match caught {
        Ok(g) => g,
        Err(_) => {
            return Some(json!({
                "input": {"fn": "bin_op", "op": name, "wa": wa, "a": hex(ua), "wb": wb, "b": hex(ub)},
                "observed": "panic",
                "expected": match ref_bin(op, wa, ua, wb, ub) { Some((w, u)) => json!({"width": w, "value": hex(u)}), None => json!("Err (unknown)") },
            }));
        }
    };
    let want = ref_bin(op, wa, ua, wb, ub);
    let unsupported = unsupported_bin(op, wa, ub);
    let bad = match (&got, want) {
        (Ok(v), Some(wv)) => val(v) != wv,
        (Ok(_), None) => true,
        (Err(_), _) => !unsupported,
    } || (got.is_ok() && unsupported);
    if bad {
        Some(json!({
            "input": {"fn": "bin_op", "op": name, "wa": wa, "a": hex(ua), "wb": wb, "b": hex(ub)},
            "observed": match &got { Ok(v) => json!({"width": val(v).0, "value": hex(val(v).1)}), Err(_) => json!("Err") },
            "expected": match want { Some((w, u)) if !unsupported => json!({"width": w, "value": hex(u)}), _ => json!("Err (unknown)") },
        }))
    } else {
        None
    }
}

/// BitvectorDomain::bin_op on two known values: Value(v) exactly when the reference defines v and the operation
/// is supported, Top of the P-Code result size otherwise.
fn check_domain_bin(name: &str, op: BinOpType, wa: u32, ua: u128, wb: u32, ub: u128) -> Option<Value> {
    use cwe_checker_lib::abstract_domain::{BitvectorDomain, RegisterDomain};
    let (a, b) = (BitvectorDomain::Value(mk(wa, ua)), BitvectorDomain::Value(mk(wb, ub)));
    let prev = std::panic::take_hook();
    std::panic::set_hook(Box::new(|_| {}));
    let caught = std::panic::catch_unwind(|| a.bin_op(op, &b));
    std::panic::set_hook(prev);
    let want = if unsupported_bin(op, wa, ub) { None } else { ref_bin(op, wa, ua, wb, ub) };
    let out_bytes = match op {
        BinOpType::Piece => (wa + wb) / 8,
        _ => match ref_bin(op, wa, ua, wb, if ub == 0 { 1 } else { ub }) { Some((w, _)) => w / 8, None => if name.starts_with("Float") && (name.contains("Equal") || name.contains("Less")) { 1 } else { wa / 8 } },
    };
    let (bad, observed) = match caught {
        Err(_) => (true, json!("panic")),
        Ok(BitvectorDomain::Value(v)) => (want != Some(val(&v)), json!({"Value": {"width": val(&v).0, "value": hex(val(&v).1)}})),
        Ok(BitvectorDomain::Top(size)) => (want.is_some() || u64::from(size) as u32 != out_bytes, json!({"Top": u64::from(size)})),
    };
    if bad {
        Some(json!({"input": {"fn": "domain_bin_op", "op": name, "wa": wa, "a": hex(ua), "wb": wb, "b": hex(ub)}, "observed": observed,
            "expected": match want { Some((w, u)) => json!({"Value": {"width": w, "value": hex(u)}}), None => json!({"Top": out_bytes}) }}))
    } else { None }
}

fn widths_for(op: BinOpType, wa: u32) -> u32 {
    // second operand width: equal, except shifts use a 1-byte amount half of the time
    let _ = op;
    wa
}

pub fn search(twin: &str, case: Option<&str>, seed: u64) -> Option<Value> {
    let mut rng = Rng(seed);
    match twin {
        "c01.domain_bin_op" => {
            for (name, op) in BIN_OPS {
                if let Some(c) = case { if c != *name { continue; } }
                for ua in 0..256u128 { for ub in 0..256u128 {
                    if let Some(v) = check_domain_bin(name, *op, 8, ua, 8, ub) { return Some(v); }
                }}
                for w in [16u32, 32, 64] { for _ in 0..5000 {
                    let (ua, ub) = (rng.interesting(w), if rng.next() % 4 == 0 { 0 } else { rng.interesting(w) });
                    if let Some(v) = check_domain_bin(name, *op, w, ua, w, ub) { return Some(v); }
                }}
            }
            None
        }
        "c01.bin_op" => {
            for (name, op) in BIN_OPS {
                if let Some(c) = case { if c != *name { continue; } }
                // exhaustive 8 bit
                for ua in 0..256u128 { for ub in 0..256u128 {
                    if let Some(v) = check_bin(name, *op, 8, ua, 8, ub) { return Some(v); }
                }}
                let is_shift = matches!(op, BinOpType::IntLeft | BinOpType::IntRight | BinOpType::IntSRight);
                for w in [16u32, 32, 64] {
                    for _ in 0..20000 {
                        let (ua, ub) = (rng.interesting(w), rng.interesting(w));
                        let wb = widths_for(*op, w);
                        let ub = if is_shift && rng.next() % 2 == 0 { ub % (w as u128 + 3) } else { ub };
                        if let Some(v) = check_bin(name, *op, w, ua, wb, ub) { return Some(v); }
                    }
                }
                if is_shift || *op == BinOpType::Piece {
                    // P-Code allows a shift amount (and the lower piece) of a different size than the value
                    for (wa, wb) in [(8u32, 16u32), (8, 64), (16, 8), (32, 8), (64, 8), (64, 16), (16, 64)] {
                        for _ in 0..6000 {
                            let ua = rng.interesting(wa);
                            let ub = if is_shift { (rng.next() % (wa.max(wb) as u64 + 4)) as u128 & mask(wb) } else { rng.interesting(wb) };
                            if let Some(v) = check_bin(name, *op, wa, ua, wb, ub) { return Some(v); }
                        }
                    }
                }
            }
            None
        }
        "c01.un_op" => {
            for (name, op) in UN_OPS {
                if let Some(c) = case { if c != *name { continue; } }
                for w in [8u32, 16, 32, 64] {
                    let n = if w == 8 { 256 } else { 20000 };
                    for i in 0..n {
                        let u = if w == 8 { i as u128 } else { rng.interesting(w) };
                        if *op == UnOpType::BoolNegate && (w != 8 || u > 1) { continue; }
                        if let Some(v) = check_un(name, *op, w, u) { return Some(v); }
                    }
                }
            }
            None
        }
        "c01.cast" => {
            for (name, kind) in CAST_OPS {
                if let Some(c) = case { if c != *name { continue; } }
                for w in [8u32, 16, 32, 64] { for t in [8u32, 16, 32, 64, 128] {
                    if matches!(kind, CastOpType::IntZExt | CastOpType::IntSExt) && t < w { continue; }
                    let n = if w == 8 { 256 } else { 5000 };
                    for i in 0..n {
                        let u = if w == 8 { i as u128 } else { rng.interesting(w) };
                        if let Some(v) = check_cast(name, *kind, w, u, t) { return Some(v); }
                    }
                }}
            }
            None
        }
        "c01.domain_cast" => {
            for (name, kind) in CAST_OPS {
                if let Some(c) = case { if c != *name { continue; } }
                for w in [8u32, 16, 32, 64] { for t in [8u32, 16, 32, 64, 128] {
                    if matches!(kind, CastOpType::IntZExt | CastOpType::IntSExt) && t < w { continue; }
                    let n = if w == 8 { 256 } else { 1500 };
                    for i in 0..n {
                        let u = if w == 8 { i as u128 } else { rng.interesting(w) };
                        if let Some(v) = check_domain_cast(name, *kind, w, u, t) { return Some(v); }
                    }
                }}
            }
            None
        }
        "c01.domain_un_op" => {
            for (name, op) in UN_OPS {
                if let Some(c) = case { if c != *name { continue; } }
                for w in [8u32, 16, 32, 64] {
                    let n = if w == 8 { 256 } else { 3000 };
                    for i in 0..n {
                        let u = if w == 8 { i as u128 } else { rng.interesting(w) };
                        // BoolNegate is defined on the 1-byte booleans 0 and 1 only (documented assert in the code under test)
                        if *op == UnOpType::BoolNegate && (w != 8 || u > 1) { continue; }
                        if let Some(v) = check_domain_un(name, *op, w, u) { return Some(v); }
                    }
                }
            }
            None
        }
        "c01.domain_subpiece" => {
            for w in [8u32, 16, 32, 64] { for low in 0..(w / 8) { for size in 1..=(w / 8 - low) {
                let n = if w == 8 { 256 } else { 1000 };
                for i in 0..n {
                    let u = if w == 8 { i as u128 } else { rng.interesting(w) };
                    if let Some(v) = check_domain_subpiece(w, u, low, size) { return Some(v); }
                }
            }}}
            None
        }
        "c01.subpiece" => {
            for w in [8u32, 16, 32, 64] { for low in 0..(w / 8) { for size in 1..=(w / 8) {
                let n = if w == 8 { 256 } else { 3000 };
                for i in 0..n {
                    let u = if w == 8 { i as u128 } else { rng.interesting(w) };
                    let got = val(&mk(w, u).subpiece(bs(low as u64), bs(size as u64)));
                    let want = (size * 8, (u >> (low * 8)) & mask(size * 8));
                    if got != want {
                        return Some(json!({"input": {"fn": "subpiece", "w": w, "a": hex(u), "low_byte": low, "size": size},
                            "observed": {"width": got.0, "value": hex(got.1)}, "expected": {"width": want.0, "value": hex(want.1)}}));
                    }
                }
            }}}
            None
        }
        "c01.apint_err" => {
            // the Err / Ok conditions that shim/apint.rs ASSUMES for apint (Kani cannot afford the error paths):
            // width mismatch, shift amount >= width, extension to a narrower / truncation to a wider target, division by zero
            for wa in [8u32, 16, 32, 64] { for wb in [8u32, 16, 32, 64] {
                for _ in 0..400 {
                    let (ua, ub) = (rng.interesting(wa), rng.interesting(wb));
                    let (a, b) = (mk(wa, ua), mk(wb, ub));
                    let same = wa == wb;
                    let checks: [(&str, bool, bool); 12] = [
                        ("into_checked_add", a.clone().into_checked_add(&b).is_ok(), same),
                        ("into_checked_sub", a.clone().into_checked_sub(&b).is_ok(), same),
                        ("into_checked_mul", a.clone().into_checked_mul(&b).is_ok(), same),
                        ("into_checked_udiv", a.clone().into_checked_udiv(&b).is_ok(), same && ub != 0),
                        ("into_checked_sdiv", a.clone().into_checked_sdiv(&b).is_ok(), same && ub != 0),
                        ("into_checked_urem", a.clone().into_checked_urem(&b).is_ok(), same && ub != 0),
                        ("into_checked_srem", a.clone().into_checked_srem(&b).is_ok(), same && ub != 0),
                        ("checked_ult", a.checked_ult(&b).is_ok(), same),
                        ("checked_sle", a.checked_sle(&b).is_ok(), same),
                        ("into_zero_extend", a.clone().into_zero_extend(wb as usize).is_ok(), wb >= wa),
                        ("into_sign_extend", a.clone().into_sign_extend(wb as usize).is_ok(), wb >= wa),
                        ("into_truncate", a.clone().into_truncate(wb as usize).is_ok(), wb <= wa),
                    ];
                    for (name, got, want) in checks {
                        if got != want {
                            return Some(json!({"input": {"fn": "apint_err", "op": name, "wa": wa, "a": hex(ua), "wb": wb, "b": hex(ub)},
                                "observed": if got { "Ok" } else { "Err" }, "expected": if want { "Ok" } else { "Err" }}));
                        }
                    }
                    let n = (rng.next() % (wa as u64 + 8)) as usize;
                    for (name, got) in [("into_checked_shl", a.clone().into_checked_shl(n).is_ok()), ("into_checked_lshr", a.clone().into_checked_lshr(n).is_ok()), ("into_checked_ashr", a.clone().into_checked_ashr(n).is_ok())] {
                        if got != (n < wa as usize) {
                            return Some(json!({"input": {"fn": "apint_err", "op": name, "wa": wa, "a": hex(ua), "n": n}, "observed": if got { "Ok" } else { "Err" }, "expected": if n < wa as usize { "Ok" } else { "Err" }}));
                        }
                    }
                    // division results including the wrapping case MIN / -1
                    if same && ub != 0 {
                        let (sa, sb) = (sval(wa, ua), sval(wb, ub));
                        let q = val(&a.clone().into_checked_sdiv(&b).unwrap()).1;
                        let r = val(&a.clone().into_checked_srem(&b).unwrap()).1;
                        if q != trunc(wa, sa.wrapping_div(sb)) || r != trunc(wa, sa.wrapping_rem(sb)) || val(&a.clone().into_checked_udiv(&b).unwrap()).1 != ua / ub || val(&a.clone().into_checked_urem(&b).unwrap()).1 != ua % ub {
                            return Some(json!({"input": {"fn": "apint_err", "op": "div/rem value", "wa": wa, "a": hex(ua), "wb": wb, "b": hex(ub)}, "observed": hex(q), "expected": hex(trunc(wa, sa.wrapping_div(sb)))}));
                        }
                    }
                }
            }}
            None
        }
        "c01.add_ovf" | "c01.sub_ovf" | "c01.mul_flag" => {
            for w in [8u32, 16, 32, 64] {
                let n: u64 = if w == 8 { 65536 } else { 40000 };
                for i in 0..n {
                    let (ua, ub) = if w == 8 { ((i / 256) as u128, (i % 256) as u128) } else { (rng.interesting(w), rng.interesting(w)) };
                    if let Some(v) = check_ovf(twin, w, ua, ub) { return Some(v); }
                }
            }
            None
        }
        _ => None,
    }
}

fn check_un(name: &str, op: UnOpType, w: u32, u: u128) -> Option<Value> {
    let got = mk(w, u).un_op(op);
    let want = ref_un(op, w, u);
    let bad = match (&got, want) { (Ok(v), Some(wv)) => val(v) != wv, (Ok(_), None) => true, (Err(_), Some(_)) => true, (Err(_), None) => false };
    if bad {
        Some(json!({"input": {"fn": "un_op", "op": name, "w": w, "a": hex(u)},
            "observed": match &got { Ok(v) => json!({"width": val(v).0, "value": hex(val(v).1)}), Err(_) => json!("Err") },
            "expected": match want { Some((w, u)) => json!({"width": w, "value": hex(u)}), None => json!("Err (unknown)") }}))
    } else { None }
}

fn check_cast(name: &str, kind: CastOpType, w: u32, u: u128, t: u32) -> Option<Value> {
    let got = mk(w, u).cast(kind, bs((t / 8) as u64));
    let want = ref_cast(kind, w, u, t);
    let bad = match (&got, want) { (Ok(v), Some(wv)) => val(v) != wv, (Ok(_), None) => true, (Err(_), Some(_)) => true, (Err(_), None) => false };
    if bad {
        Some(json!({"input": {"fn": "cast", "op": name, "w": w, "a": hex(u), "t": t},
            "observed": match &got { Ok(v) => json!({"width": val(v).0, "value": hex(val(v).1)}), Err(_) => json!("Err") },
            "expected": match want { Some((w, u)) => json!({"width": w, "value": hex(u)}), None => json!("Err (unknown)") }}))
    } else { None }
}

/// BitvectorDomain::{cast, un_op, subpiece} on a known value: Value(v) exactly when the reference defines v, Top of the
/// result size otherwise (property: "reports 'unknown' instead of a value; never a wrong value").
fn domain_observed(caught: std::thread::Result<cwe_checker_lib::abstract_domain::BitvectorDomain>, want: Option<(u32, u128)>, out_bytes: u32) -> (bool, Value) {
    use cwe_checker_lib::abstract_domain::BitvectorDomain;
    match caught {
        Err(_) => (true, json!("panic")),
        Ok(BitvectorDomain::Value(v)) => (want != Some(val(&v)), json!({"Value": {"width": val(&v).0, "value": hex(val(&v).1)}})),
        Ok(BitvectorDomain::Top(size)) => (want.is_some() || u64::from(size) as u32 != out_bytes, json!({"Top": u64::from(size)})),
    }
}
fn quiet<T>(f: impl FnOnce() -> T + std::panic::UnwindSafe) -> std::thread::Result<T> {
    let prev = std::panic::take_hook();
    std::panic::set_hook(Box::new(|_| {}));
    let r = std::panic::catch_unwind(f);
    std::panic::set_hook(prev);
    r
}
fn expected_json(want: Option<(u32, u128)>, out_bytes: u32) -> Value {
    match want { Some((w, u)) => json!({"Value": {"width": w, "value": hex(u)}}), None => json!({"Top": out_bytes}) }
}
fn check_domain_cast(name: &str, kind: CastOpType, w: u32, u: u128, t: u32) -> Option<Value> {
    use cwe_checker_lib::abstract_domain::{BitvectorDomain, RegisterDomain};
    let a = BitvectorDomain::Value(mk(w, u));
    let caught = quiet(move || a.cast(kind, bs((t / 8) as u64)));
    let want = ref_cast(kind, w, u, t);
    let (bad, observed) = domain_observed(caught, want, t / 8);
    if bad { Some(json!({"input": {"fn": "domain_cast", "op": name, "w": w, "a": hex(u), "t": t}, "observed": observed, "expected": expected_json(want, t / 8)})) } else { None }
}
fn check_domain_un(name: &str, op: UnOpType, w: u32, u: u128) -> Option<Value> {
    use cwe_checker_lib::abstract_domain::{BitvectorDomain, RegisterDomain};
    let a = BitvectorDomain::Value(mk(w, u));
    let caught = quiet(move || a.un_op(op));
    // the reference of the bitvector-level twin: None = unsupported (float) operation
    let want = ref_un(op, w, u);
    // P-Code result size: FloatNaN yields a 1-byte boolean, every other unary operation keeps the operand size
    let out = if op == UnOpType::FloatNaN { 1 } else { w / 8 };
    let (bad, observed) = domain_observed(caught, want, out);
    if bad { Some(json!({"input": {"fn": "domain_un_op", "op": name, "w": w, "a": hex(u)}, "observed": observed, "expected": expected_json(want, out)})) } else { None }
}
fn check_domain_subpiece(w: u32, u: u128, low: u32, size: u32) -> Option<Value> {
    use cwe_checker_lib::abstract_domain::{BitvectorDomain, RegisterDomain};
    let a = BitvectorDomain::Value(mk(w, u));
    let caught = quiet(move || a.subpiece(bs(low as u64), bs(size as u64)));
    let want = Some((size * 8, (u >> (low * 8)) & mask(size * 8)));
    let (bad, observed) = domain_observed(caught, want, size);
    if bad { Some(json!({"input": {"fn": "domain_subpiece", "w": w, "a": hex(u), "low_byte": low, "size": size}, "observed": observed, "expected": expected_json(want, size)})) } else { None }
}

fn check_ovf(twin: &str, w: u32, ua: u128, ub: u128) -> Option<Value> {
    let (a, b) = (mk(w, ua), mk(w, ub));
    let (sa, sb) = (sval(w, ua), sval(w, ub));
    let (lo, hi) = (-(1i128 << (w - 1)), (1i128 << (w - 1)) - 1);
    let (observed, expected, bad);
    match twin {
        "c01.add_ovf" | "c01.sub_ovf" => {
            let (got, exact) = if twin == "c01.add_ovf" { (a.signed_add_overflow_checked(&b), sa + sb) } else { (a.signed_sub_overflow_checked(&b), sa - sb) };
            let fits = exact >= lo && exact <= hi;
            bad = match &got { Some(v) => !fits || sval(w, val(v).1) != exact, None => fits };
            observed = match &got { Some(v) => json!(hex(val(v).1)), None => json!("None") };
            expected = if fits { json!(hex(trunc(w, exact))) } else { json!("None") };
        }
        _ => {
            let got = a.signed_mult_with_overflow_flag(&b).unwrap();
            let exact = sa * sb;
            let fits = exact >= lo && exact <= hi;
            bad = (got.1 == fits) || (!got.1 && sval(w, val(&got.0).1) != exact);
            observed = json!({"value": hex(val(&got.0).1), "flag": got.1});
            expected = json!({"value": hex(trunc(w, exact)), "flag": !fits});
        }
    }
    if bad {
        Some(json!({"input": {"fn": twin, "w": w, "a": hex(ua), "b": hex(ub)}, "observed": observed, "expected": expected}))
    } else { None }
}

fn find<T: Copy>(table: &[(&str, T)], name: &str) -> T {
    table.iter().find(|(n, _)| *n == name).expect("unknown op").1
}

pub fn replay(twin: &str, input: &Value) -> Value {
    let f = input["fn"].as_str().unwrap_or("");
    let g = |k: &str| input[k].as_u64().unwrap() as u32;
    let h = |k: &str| unhex(input[k].as_str().unwrap());
    let r = match f {
        "bin_op" => check_bin(input["op"].as_str().unwrap(), find(BIN_OPS, input["op"].as_str().unwrap()), g("wa"), h("a"), g("wb"), h("b")),
        "domain_bin_op" => check_domain_bin(input["op"].as_str().unwrap(), find(BIN_OPS, input["op"].as_str().unwrap()), g("wa"), h("a"), g("wb"), h("b")),
        "un_op" => check_un(input["op"].as_str().unwrap(), find(UN_OPS, input["op"].as_str().unwrap()), g("w"), h("a")),
        "domain_cast" => check_domain_cast(input["op"].as_str().unwrap(), find(CAST_OPS, input["op"].as_str().unwrap()), g("w"), h("a"), g("t")),
        "domain_un_op" => check_domain_un(input["op"].as_str().unwrap(), find(UN_OPS, input["op"].as_str().unwrap()), g("w"), h("a")),
        "domain_subpiece" => check_domain_subpiece(g("w"), h("a"), g("low_byte"), g("size")),
        "cast" => check_cast(input["op"].as_str().unwrap(), find(CAST_OPS, input["op"].as_str().unwrap()), g("w"), h("a"), g("t")),
        "subpiece" => {
            let (w, u, low, size) = (g("w"), h("a"), g("low_byte"), g("size"));
            let got = val(&mk(w, u).subpiece(bs(low as u64), bs(size as u64)));
            let want = (size * 8, (u >> (low * 8)) & mask(size * 8));
            if got != want { Some(json!({"observed": {"width": got.0, "value": hex(got.1)}, "expected": {"width": want.0, "value": hex(want.1)}})) } else { None }
        }
        "c01.add_ovf" | "c01.sub_ovf" | "c01.mul_flag" => check_ovf(f, g("w"), h("a"), h("b")),
        _ => None,
    };
    let _ = twin;
    match r {
        Some(v) => json!({"agrees": false, "observed": v["observed"], "expected": v["expected"], "input": input}),
        None => json!({"agrees": true, "input": input}),
    }
}

/// assumption sweep: every C01 twin over its whole search space, counting evaluations
pub fn sweep(twin: &str, seed: u64) -> Value {
    let r = search(twin, None, seed);
    json!({"twin": twin, "disagreements": if r.is_some() { 1 } else { 0 }, "first": r})
}
