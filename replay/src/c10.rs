//! C10 / C12 twin for unit `exprsubst`: the expression rewriter `Expression::substitute_trivial_operations`
//! (intermediate_representation/expression/trivial_operation_substitution.rs), run on the REAL crate.
//!
//!   C10 clause carried: "the value every read of the expression yields is unchanged" -- for every valuation under which
//!       the ORIGINAL expression has a P-Code value, the rewritten expression has the same value.
//!   C12 clause carried: the rewritten expression is well-sized and has the byte size of the original.
//!
//! Twin `c10.subst` (BOUNDED -- random search, not a proof):
//!   trees       random well-sized expression trees, depth <= 4, sizes 1/2/4/8 bytes (other sizes up to 16 through
//!               Piece / Subpiece / casts), all integer operations, shifts, Piece, casts, Subpiece, unary operations,
//!               a few float operations and `Unknown` (no value: only the size clauses are checked there);
//!               constants biased to 0, 1, -1, MIN, MAX; variables x / y / z of each size;
//!               shapes biased towards the rewriter's patterns (equal operands, `c == a - b`, `a < b || a == b`,
//!               `(a - b < 0) != sborrow(a, b)`, `(a + c1) + c2`, subpiece of extension / piece / subpiece, cast of cast,
//!               negation of a comparison, and / or / xor with 0, 1, -1) INCLUDING near misses of each pattern
//!   valuations  every combination of {0, 1, 2, -1, MIN, MAX} when at most 3 variables occur, plus seeded random and
//!               boundary-biased values
//!   evaluator   `eval`: recursion over the tree with the REAL `Bitvector::{bin_op, un_op, cast, subpiece}` (proved equal to
//!               the P-Code oracle by C01, unit `bitvector`).  It returns None ("no value") for `Unknown`, float
//!               operations, division by zero, multiplication/division above 8 bytes, and -- STRICT reading, P-Code
//!               reference manual: BOOL_AND / BOOL_OR / BOOL_XOR / BOOL_NEGATE take booleans -- when an operand of a
//!               boolean operation is not 0 or 1.  The LOOSE reading (boolean operations are bitwise on bytes, as
//!               `Bitvector::bin_op` computes them) is evaluated as well and reported separately (`class: nonbool`),
//!               it is not counted as a disagreement.
//!   reference   `wf` (well-sizedness as P-Code demands per operation) is written from the property statement C12.
//!   history     on the tree before /repo commit e127fe6 this twin reported ONE class of disagreement in 59 million trees:
//!               `1 == a - b` rewritten to `a != b` (and `1 != a - b` to `a == b`), also when the `1 == ..` shape only arises
//!               after a rewrite of a child or of the parent (seeded/findings/C10-one-eq-sub.json; the three fixed cases below).
//!               `VERIF_C10_DUMP=file` appends every disagreement, shrunk, as a JSON line; `VERIF_C10_ROUNDS=n` sets the number of trees.
use crate::util::{hex, mask, mk, unhex, val, Rng};
use cwe_checker_lib::intermediate_representation::*;
use serde_json::{json, Value};
use std::collections::BTreeMap;
use std::panic::{catch_unwind, AssertUnwindSafe};

type Env = BTreeMap<(String, u64), u128>;

fn bz(s: ByteSize) -> u64 {
    u64::from(s)
}

// ------------------------------------------------------------------ reference: sizes

fn is_bool_result(op: BinOpType) -> bool {
    use BinOpType::*;
    matches!(
        op,
        IntEqual | IntNotEqual | IntLess | IntSLess | IntLessEqual | IntSLessEqual | IntCarry | IntSCarry | IntSBorrow | BoolXOr
            | BoolOr | BoolAnd | FloatEqual | FloatNotEqual | FloatLess | FloatLessEqual
    )
}
fn is_shift(op: BinOpType) -> bool {
    matches!(op, BinOpType::IntLeft | BinOpType::IntRight | BinOpType::IntSRight)
}
fn is_boolop(op: BinOpType) -> bool {
    matches!(op, BinOpType::BoolAnd | BinOpType::BoolOr | BinOpType::BoolXOr)
}

/// byte size folded over the structure (P-Code sizing rules); independent of `Expression::bytesize`
fn size_of(e: &Expression) -> u64 {
    match e {
        Expression::Var(v) => bz(v.size),
        Expression::Const(c) => (apint::Width::width(c).to_usize() as u64 + 7) / 8,
        Expression::BinOp { op, lhs, rhs } => {
            if *op == BinOpType::Piece {
                size_of(lhs) + size_of(rhs)
            } else if is_bool_result(*op) {
                1
            } else {
                size_of(lhs)
            }
        }
        Expression::UnOp { op, arg } => {
            if *op == UnOpType::FloatNaN {
                1
            } else {
                size_of(arg)
            }
        }
        Expression::Cast { size, .. } | Expression::Unknown { size, .. } | Expression::Subpiece { size, .. } => bz(*size),
    }
}

/// well-sized: operands of same-size operations have equal sizes, piece/subpiece/extension sizes are consistent with
/// their operands, boolean operations work on single bytes, constants are whole bytes.  Err(reason) otherwise.
fn wf(e: &Expression) -> Result<(), String> {
    match e {
        Expression::Var(v) => {
            if bz(v.size) >= 1 {
                Ok(())
            } else {
                Err(format!("variable {} of size 0", v.name))
            }
        }
        Expression::Const(c) => {
            if apint::Width::width(c).to_usize() % 8 == 0 {
                Ok(())
            } else {
                Err("constant is not a whole number of bytes".into())
            }
        }
        Expression::BinOp { op, lhs, rhs } => {
            wf(lhs)?;
            wf(rhs)?;
            let (a, b) = (size_of(lhs), size_of(rhs));
            if *op == BinOpType::Piece || is_shift(*op) {
                Ok(())
            } else if is_boolop(*op) {
                if a == 1 && b == 1 {
                    Ok(())
                } else {
                    Err(format!("{:?} on operands of {} and {} bytes", op, a, b))
                }
            } else if a == b {
                Ok(())
            } else {
                Err(format!("{:?} on operands of {} and {} bytes", op, a, b))
            }
        }
        Expression::UnOp { op, arg } => {
            wf(arg)?;
            if *op == UnOpType::BoolNegate && size_of(arg) != 1 {
                Err(format!("BoolNegate on {} bytes", size_of(arg)))
            } else {
                Ok(())
            }
        }
        Expression::Cast { op, size, arg } => {
            wf(arg)?;
            if bz(*size) == 0 {
                return Err("cast to size 0".into());
            }
            if matches!(op, CastOpType::IntZExt | CastOpType::IntSExt) && bz(*size) < size_of(arg) {
                Err(format!("{:?} from {} to {} bytes", op, size_of(arg), bz(*size)))
            } else {
                Ok(())
            }
        }
        Expression::Unknown { size, .. } => {
            if bz(*size) >= 1 {
                Ok(())
            } else {
                Err("unknown of size 0".into())
            }
        }
        Expression::Subpiece { low_byte, size, arg } => {
            wf(arg)?;
            if bz(*size) >= 1 && bz(*low_byte) + bz(*size) <= size_of(arg) {
                Ok(())
            } else {
                Err(format!("subpiece [{}, {}+{}) of {} bytes", bz(*low_byte), bz(*low_byte), bz(*size), size_of(arg)))
            }
        }
    }
}

// ------------------------------------------------------------------ evaluator on the real Bitvector operations

fn is_boolval(b: &Bitvector) -> bool {
    let (w, u) = val(b);
    w == 8 && u <= 1
}

/// value of a WELL-SIZED expression; `strict`: boolean operations only on 0/1
fn eval(e: &Expression, env: &Env, strict: bool) -> Option<Bitvector> {
    match e {
        Expression::Var(v) => env.get(&(v.name.clone(), bz(v.size))).map(|u| mk((bz(v.size) * 8) as u32, *u)),
        Expression::Const(c) => Some(c.clone()),
        Expression::Unknown { .. } => None,
        Expression::BinOp { op, lhs, rhs } => {
            let a = eval(lhs, env, strict)?;
            let b = eval(rhs, env, strict)?;
            if is_boolop(*op) && strict && !(is_boolval(&a) && is_boolval(&b)) {
                return None;
            }
            if is_shift(*op) && val(&b).1 > u64::MAX as u128 {
                return None;
            }
            if *op != BinOpType::Piece && !is_shift(*op) && val(&a).0 != val(&b).0 {
                return None; // ill-sized: callers check `wf` first, this only avoids a panic
            }
            a.bin_op(*op, &b).ok()
        }
        Expression::UnOp { op, arg } => {
            let a = eval(arg, env, strict)?;
            if *op == UnOpType::BoolNegate {
                if is_boolval(&a) {
                    a.un_op(*op).ok()
                } else if strict || val(&a).0 != 8 {
                    None
                } else {
                    Some(mk(8, (val(&a).1 == 0) as u128))
                }
            } else {
                a.un_op(*op).ok()
            }
        }
        Expression::Cast { op, size, arg } => {
            let a = eval(arg, env, strict)?;
            if matches!(op, CastOpType::IntZExt | CastOpType::IntSExt) && (bz(*size) * 8) < val(&a).0 as u64 {
                return None;
            }
            a.cast(*op, *size).ok()
        }
        Expression::Subpiece { low_byte, size, arg } => {
            let a = eval(arg, env, strict)?;
            if bz(*size) == 0 || (bz(*low_byte) + bz(*size)) * 8 > val(&a).0 as u64 {
                return None;
            }
            Some(a.subpiece(*low_byte, *size))
        }
    }
}

// ------------------------------------------------------------------ generator

const NAMES: [&str; 3] = ["x", "y", "z"];
const VSIZES: [u64; 4] = [1, 2, 4, 8];

fn var(name: &str, size: u64) -> Expression {
    Expression::Var(Variable { name: name.to_string(), size: ByteSize::new(size), is_temp: false })
}
fn cst(size: u64, u: u128) -> Expression {
    Expression::Const(mk((size * 8) as u32, u))
}
fn bin(op: BinOpType, l: Expression, r: Expression) -> Expression {
    Expression::BinOp { op, lhs: Box::new(l), rhs: Box::new(r) }
}
fn un(op: UnOpType, a: Expression) -> Expression {
    Expression::UnOp { op, arg: Box::new(a) }
}
fn cast(op: CastOpType, size: u64, a: Expression) -> Expression {
    Expression::Cast { op, size: ByteSize::new(size), arg: Box::new(a) }
}
fn sub(low: u64, size: u64, a: Expression) -> Expression {
    Expression::Subpiece { low_byte: ByteSize::new(low), size: ByteSize::new(size), arg: Box::new(a) }
}

fn const_val(rng: &mut Rng, size: u64) -> u128 {
    let w = (size * 8) as u32;
    let m = mask(w);
    match rng.next() % 10 {
        0 | 1 => 0,
        2 | 3 => 1,
        4 => m,
        5 => 1u128 << (w - 1),
        6 => (1u128 << (w - 1)) - 1,
        7 => 2,
        _ => rng.interesting(w),
    }
}

fn leaf(rng: &mut Rng, size: u64) -> Expression {
    if VSIZES.contains(&size) && rng.next() % 10 < 6 {
        var(NAMES[(rng.next() % 3) as usize], size)
    } else if rng.next() % 40 == 0 {
        Expression::Unknown { description: "unk".to_string(), size: ByteSize::new(size) }
    } else {
        cst(size, const_val(rng, size))
    }
}

const ARITH: [BinOpType; 10] = [
    BinOpType::IntAdd,
    BinOpType::IntSub,
    BinOpType::IntMult,
    BinOpType::IntDiv,
    BinOpType::IntRem,
    BinOpType::IntSDiv,
    BinOpType::IntSRem,
    BinOpType::IntAnd,
    BinOpType::IntOr,
    BinOpType::IntXOr,
];
const CMP: [BinOpType; 9] = [
    BinOpType::IntEqual,
    BinOpType::IntNotEqual,
    BinOpType::IntLess,
    BinOpType::IntSLess,
    BinOpType::IntLessEqual,
    BinOpType::IntSLessEqual,
    BinOpType::IntCarry,
    BinOpType::IntSCarry,
    BinOpType::IntSBorrow,
];
const SHIFTS: [BinOpType; 3] = [BinOpType::IntLeft, BinOpType::IntRight, BinOpType::IntSRight];
const BOOLS: [BinOpType; 3] = [BinOpType::BoolAnd, BinOpType::BoolOr, BinOpType::BoolXOr];

fn pick<T: Copy>(rng: &mut Rng, xs: &[T]) -> T {
    xs[(rng.next() % xs.len() as u64) as usize]
}
fn opsize(rng: &mut Rng) -> u64 {
    pick(rng, &VSIZES)
}
fn flip(rng: &mut Rng) -> bool {
    rng.next() % 2 == 0
}
/// either `a` again or a fresh expression of the same size (near miss of an "equal operands" pattern)
fn same_or_fresh(rng: &mut Rng, a: &Expression, size: u64, depth: u32) -> Expression {
    if rng.next() % 4 != 0 {
        a.clone()
    } else {
        gen(rng, size, depth)
    }
}

/// an expression of `size` bytes shaped like (or almost like) one of the rewriter's patterns
fn template(rng: &mut Rng, size: u64, depth: u32) -> Option<Expression> {
    use BinOpType::*;
    let d = depth.saturating_sub(2);
    let s = opsize(rng);
    let a = gen(rng, s, d);
    let b = gen(rng, s, d);
    if size == 1 {
        Some(match rng.next() % 9 {
            0 => {
                // c == a - b, a - b == c, != ; near miss: IntAdd, other comparison
                let c = cst(s, const_val(rng, s));
                let inner_op = if rng.next() % 6 == 0 { IntAdd } else { IntSub };
                let cmp = match rng.next() % 8 {
                    0 => pick(rng, &CMP),
                    n if n % 2 == 0 => IntEqual,
                    _ => IntNotEqual,
                };
                let d = bin(inner_op, a, b);
                if flip(rng) {
                    bin(cmp, c, d)
                } else {
                    bin(cmp, d, c)
                }
            }
            1 | 2 => {
                // (a < b) || (a == b) and the like, operands possibly swapped / different
                let less = pick(rng, &[IntLess, IntSLess, IntLessEqual, IntSLessEqual]);
                let eq = pick(rng, &[IntEqual, IntNotEqual]);
                let conn = pick(rng, &[BoolOr, BoolAnd, BoolOr, BoolAnd, BoolXOr]);
                let (a2, b2) = (same_or_fresh(rng, &a, s, d), same_or_fresh(rng, &b, s, d));
                let l = bin(less, a, b);
                let r = if flip(rng) { bin(eq, a2, b2) } else { bin(eq, b2, a2) };
                if flip(rng) {
                    bin(conn, l, r)
                } else {
                    bin(conn, r, l)
                }
            }
            3 | 4 => {
                // ((a - b) <s 0) != sborrow(a, b)
                let zero = if rng.next() % 5 == 0 { cst(s, const_val(rng, s)) } else { cst(s, 0) };
                let lessop = if rng.next() % 6 == 0 { IntLess } else { IntSLess };
                let (a2, b2) = (same_or_fresh(rng, &a, s, d), same_or_fresh(rng, &b, s, d));
                let l = bin(lessop, bin(IntSub, a, b), zero);
                let bo = pick(rng, &[IntSBorrow, IntSBorrow, IntSBorrow, IntSCarry, IntCarry]);
                let r = if rng.next() % 5 == 0 { bin(bo, b2, a2) } else { bin(bo, a2, b2) };
                let cmp = pick(rng, &[IntEqual, IntNotEqual, IntEqual, IntNotEqual, BoolXOr]);
                if flip(rng) {
                    bin(cmp, l, r)
                } else {
                    bin(cmp, r, l)
                }
            }
            5 | 6 => {
                // negation of a comparison, double negation
                let c = bin(pick(rng, &CMP), a, b);
                let n = un(UnOpType::BoolNegate, c);
                if rng.next() % 3 == 0 {
                    un(UnOpType::BoolNegate, n)
                } else {
                    n
                }
            }
            7 => {
                // boolean operation with a constant
                let c = cst(1, pick(rng, &[0u128, 1, 1, 0, 0xff, 2]));
                let x = gen_bool(rng, d);
                let op = pick(rng, &BOOLS);
                if flip(rng) {
                    bin(op, c, x)
                } else {
                    bin(op, x, c)
                }
            }
            _ => {
                // comparison of equal operands
                let a2 = same_or_fresh(rng, &a, s, d);
                bin(pick(rng, &CMP), a, a2)
            }
        })
    } else {
        let a = gen(rng, size, d);
        Some(match rng.next() % 8 {
            0 => {
                // (a -/+ c1) -/+ c2, (c1 + a) + c2, c1 + c2
                let c1 = cst(size, const_val(rng, size));
                let c2 = cst(size, const_val(rng, size));
                let o1 = pick(rng, &[IntAdd, IntSub]);
                let o2 = if rng.next() % 4 == 0 { pick(rng, &[IntAdd, IntSub]) } else { o1 };
                match rng.next() % 4 {
                    0 => bin(o2, bin(o1, c1, a), c2),
                    1 => bin(o1, c1, c2),
                    2 => bin(o2, c2, bin(o1, a, c1)),
                    _ => bin(o2, bin(o1, a, c1), c2),
                }
            }
            1 => {
                // and / or / xor with 0, 1, -1
                let c = cst(size, pick(rng, &[0u128, 0, 1, mask((size * 8) as u32), mask((size * 8) as u32), 2]));
                let op = pick(rng, &[IntAnd, IntOr, IntXOr]);
                if flip(rng) {
                    bin(op, c, a)
                } else {
                    bin(op, a, c)
                }
            }
            2 => {
                // equal operands
                let a2 = same_or_fresh(rng, &a, size, d);
                bin(pick(rng, &ARITH), a, a2)
            }
            3 => {
                // subpiece of an extension
                let big = (size + rng.next() % 5).min(16);
                let inner_size = if rng.next() % 3 == 0 { 1 + rng.next() % big } else { size };
                let inner = gen(rng, inner_size, d);
                let ext = cast(pick(rng, &[CastOpType::IntZExt, CastOpType::IntSExt, CastOpType::PopCount]), big, inner);
                let low = if rng.next() % 3 == 0 { rng.next() % (big - size + 1) } else { 0 };
                sub(low, size, ext)
            }
            4 => {
                // subpiece of a piece
                if size >= 16 {
                    return None;
                }
                let other = 1 + rng.next() % 4.min(16 - size);
                let o = gen(rng, other, d);
                match rng.next() % 4 {
                    0 => sub(other, size, bin(Piece, a, o)),
                    1 => sub(0, size, bin(Piece, o, a)),
                    2 => sub(rng.next() % (other + 1), size, bin(Piece, a, o)),
                    _ => sub(rng.next() % (other + 1), size, bin(Piece, o, a)),
                }
            }
            5 => {
                // subpiece of a subpiece
                let mid = (size + rng.next() % 3).min(16);
                let big = (mid + rng.next() % 3).min(16);
                let inner = gen(rng, big, d);
                let l1 = rng.next() % (big - mid + 1);
                let l2 = rng.next() % (mid - size + 1);
                sub(l2, size, sub(l1, mid, inner))
            }
            6 => {
                // cast of a cast
                let s1 = 1 + rng.next() % size;
                let s2 = s1 + rng.next() % (size - s1 + 1);
                let inner = gen(rng, s1, d);
                let k1 = pick(rng, &[CastOpType::IntZExt, CastOpType::IntSExt]);
                let k2 = if rng.next() % 3 == 0 { pick(rng, &[CastOpType::IntZExt, CastOpType::IntSExt]) } else { k1 };
                cast(k2, size, cast(k1, s2, inner))
            }
            _ => {
                // double unary
                let o1 = pick(rng, &[UnOpType::IntNegate, UnOpType::Int2Comp]);
                let o2 = if rng.next() % 4 == 0 { pick(rng, &[UnOpType::IntNegate, UnOpType::Int2Comp]) } else { o1 };
                un(o2, un(o1, a))
            }
        })
    }
}

/// a 1-byte expression that is (mostly) boolean valued
fn gen_bool(rng: &mut Rng, depth: u32) -> Expression {
    if depth == 0 {
        return if rng.next() % 3 == 0 { cst(1, rng.next() as u128 % 2) } else { var(NAMES[(rng.next() % 3) as usize], 1) };
    }
    match rng.next() % 8 {
        0 => gen_bool(rng, 0),
        1 | 2 => {
            let s = opsize(rng);
            let a = gen(rng, s, depth - 1);
            let b = if rng.next() % 4 == 0 { a.clone() } else { gen(rng, s, depth - 1) };
            bin(pick(rng, &CMP), a, b)
        }
        3 | 4 => {
            let a = gen_bool(rng, depth - 1);
            let b = if rng.next() % 4 == 0 { a.clone() } else { gen_bool(rng, depth - 1) };
            bin(pick(rng, &BOOLS), a, b)
        }
        5 => un(UnOpType::BoolNegate, gen_bool(rng, depth - 1)),
        _ => template(rng, 1, depth).unwrap(),
    }
}

/// a well-sized expression of `size` bytes and depth <= `depth`
fn gen(rng: &mut Rng, size: u64, depth: u32) -> Expression {
    use BinOpType::*;
    if depth == 0 || rng.next() % 8 == 0 {
        return leaf(rng, size);
    }
    let d = depth - 1;
    if depth >= 2 && rng.next() % 3 == 0 {
        if let Some(t) = template(rng, size, depth) {
            return t;
        }
    }
    if size == 1 && rng.next() % 2 == 0 {
        return gen_bool(rng, depth);
    }
    match rng.next() % 16 {
        0..=4 => {
            let a = gen(rng, size, d);
            let b = if rng.next() % 5 == 0 { a.clone() } else { gen(rng, size, d) };
            bin(pick(rng, &ARITH), a, b)
        }
        5 => {
            let s = opsize(rng);
            bin(pick(rng, &SHIFTS), gen(rng, size, d), gen(rng, s, d))
        }
        6 | 7 => {
            if size >= 2 {
                let l = 1 + rng.next() % (size - 1);
                bin(Piece, gen(rng, l, d), gen(rng, size - l, d))
            } else {
                un(pick(rng, &[UnOpType::IntNegate, UnOpType::Int2Comp]), gen(rng, size, d))
            }
        }
        8 => un(pick(rng, &[UnOpType::IntNegate, UnOpType::Int2Comp]), gen(rng, size, d)),
        9 | 10 => {
            let s = 1 + rng.next() % size;
            cast(pick(rng, &[CastOpType::IntZExt, CastOpType::IntSExt]), size, gen(rng, s, d))
        }
        11 => {
            let s = opsize(rng);
            cast(pick(rng, &[CastOpType::PopCount, CastOpType::LzCount]), size, gen(rng, s, d))
        }
        12 | 13 => {
            let big = (size + rng.next() % (17 - size).min(8)).min(16);
            let low = rng.next() % (big - size + 1);
            sub(low, size, gen(rng, big, d))
        }
        14 => {
            // no value: float operations (only the size clauses are checked)
            match rng.next() % 3 {
                0 => bin(pick(rng, &[FloatAdd, FloatSub, FloatMult, FloatDiv]), gen(rng, size, d), gen(rng, size, d)),
                1 => un(pick(rng, &[UnOpType::FloatNegate, UnOpType::FloatAbs, UnOpType::FloatSqrt]), gen(rng, size, d)),
                _ => {
                    let s = opsize(rng);
                    cast(pick(rng, &[CastOpType::Int2Float, CastOpType::Float2Float, CastOpType::Trunc]), size, gen(rng, s, d))
                }
            }
        }
        _ => leaf(rng, size),
    }
}

// ------------------------------------------------------------------ valuations

fn collect_vars(e: &Expression, out: &mut Vec<(String, u64)>) {
    for v in e.input_vars() {
        let k = (v.name.clone(), bz(v.size));
        if !out.contains(&k) {
            out.push(k);
        }
    }
}

fn boundary(size: u64) -> [u128; 6] {
    let w = (size * 8) as u32;
    [0, 1, 2, mask(w), 1u128 << (w - 1), (1u128 << (w - 1)) - 1]
}

fn envs(rng: &mut Rng, vars: &[(String, u64)], random: usize) -> Vec<Env> {
    let mut out = Vec::new();
    if vars.len() <= 3 {
        let mut idx = vec![0usize; vars.len()];
        loop {
            let mut env = Env::new();
            for (k, v) in vars.iter().enumerate() {
                env.insert(v.clone(), boundary(v.1)[idx[k]]);
            }
            out.push(env);
            let mut k = 0;
            while k < idx.len() {
                idx[k] += 1;
                if idx[k] < 6 {
                    break;
                }
                idx[k] = 0;
                k += 1;
            }
            if k == idx.len() {
                break;
            }
        }
    }
    for _ in 0..random {
        let mut env = Env::new();
        for v in vars {
            let w = (v.1 * 8) as u32;
            let u = if v.1 == 1 && rng.next() % 2 == 0 {
                (rng.next() % 2) as u128
            } else if rng.next() % 3 == 0 {
                rng.interesting(w) & 0xf | (rng.interesting(w) & !0xf & if flip(rng) { mask(w) } else { 0 })
            } else {
                rng.interesting(w)
            };
            env.insert(v.clone(), u & mask(w));
        }
        out.push(env);
    }
    out
}

// ------------------------------------------------------------------ one case

fn show_val(v: &Option<Bitvector>) -> Value {
    match v {
        None => json!(null),
        Some(b) => {
            let (w, u) = val(b);
            json!({"bits": w, "value": hex(u)})
        }
    }
}
fn env_json(env: &Env) -> Value {
    let mut m = serde_json::Map::new();
    for ((n, s), u) in env {
        m.insert(format!("{}:{}", n, s), json!(hex(*u)));
    }
    Value::Object(m)
}
fn env_from_json(v: &Value) -> Env {
    let mut env = Env::new();
    if let Some(m) = v.as_object() {
        for (k, u) in m {
            let mut it = k.split(':');
            let n = it.next().unwrap_or("x").to_string();
            let s: u64 = it.next().and_then(|s| s.parse().ok()).unwrap_or(1);
            env.insert((n, s), unhex(u.as_str().unwrap_or("0x0")));
        }
    }
    env
}

struct Verdict {
    /// a clause of the contract is violated (strict reading)
    bad: Option<Value>,
    /// only under the loose (bitwise) reading of boolean operations
    nonbool: Option<Value>,
    /// the rewriter changed the tree
    changed: bool,
}

fn rewrite(e: &Expression) -> Result<Expression, String> {
    let mut n = e.clone();
    match catch_unwind(AssertUnwindSafe(|| {
        n.substitute_trivial_operations();
        n
    })) {
        Ok(n) => Ok(n),
        Err(_) => Err("panic in substitute_trivial_operations".to_string()),
    }
}

fn check(e: &Expression, envs: &[Env]) -> Verdict {
    let mut v = Verdict { bad: None, nonbool: None, changed: false };
    let new = match rewrite(e) {
        Ok(n) => n,
        Err(msg) => {
            v.bad = Some(json!({"clause": "no panic", "expected": "returns", "got": msg}));
            return v;
        }
    };
    v.changed = new != *e;
    if let Err(msg) = wf(&new) {
        v.bad = Some(json!({"clause": "C12 well-sized result", "expected": "well-sized", "got": msg, "result": format!("{}", new)}));
        return v;
    }
    if size_of(&new) != size_of(e) || bz(new.bytesize()) != size_of(e) {
        v.bad = Some(json!({"clause": "C12 size preserved", "expected": size_of(e), "got": size_of(&new), "result": format!("{}", new)}));
        return v;
    }
    if !v.changed {
        return v;
    }
    for env in envs {
        let r = catch_unwind(AssertUnwindSafe(|| {
            let old_s = eval(e, env, true);
            let new_s = eval(&new, env, true);
            let old_l = eval(e, env, false);
            let new_l = eval(&new, env, false);
            (old_s, new_s, old_l, new_l)
        }));
        let (old_s, new_s, old_l, new_l) = match r {
            Ok(t) => t,
            Err(_) => {
                v.bad = Some(json!({"clause": "evaluator", "expected": "no panic", "got": "panic while evaluating", "env": env_json(env),
                    "result": format!("{}", new)}));
                return v;
            }
        };
        if old_s.is_some() && new_s != old_s {
            v.bad = Some(json!({"clause": "C10 value preserved", "env": env_json(env), "expected": show_val(&old_s), "got": show_val(&new_s),
                "result": format!("{}", new)}));
            return v;
        }
        if v.nonbool.is_none() && old_l.is_some() && new_l != old_l {
            v.nonbool = Some(json!({"clause": "value preserved when boolean operations are read bitwise on non-boolean bytes",
                "env": env_json(env), "expected": show_val(&old_l), "got": show_val(&new_l), "result": format!("{}", new)}));
        }
    }
    v
}

fn case_json(e: &Expression, verdict: &Value) -> Value {
    let mut out = verdict.clone();
    out["input"] = json!({"expr": serde_json::to_value(e).unwrap(), "text": format!("{}", e), "env": verdict["env"].clone()});
    out
}

fn fixed_cases() -> Vec<(Expression, Env)> {
    use BinOpType::*;
    let mut out = Vec::new();
    let env = |x: u128, y: u128| -> Env {
        let mut e = Env::new();
        e.insert(("x".to_string(), 1), x);
        e.insert(("y".to_string(), 1), y);
        e
    };
    // regression: D4 (fixed by /repo commit e127fe6): `1 == x - y` was rewritten to `x != y`
    out.push((bin(IntEqual, cst(1, 1), bin(IntSub, var("x", 1), var("y", 1))), env(3, 1)));
    out.push((bin(IntNotEqual, bin(IntSub, var("x", 1), var("y", 1)), cst(1, 1)), env(3, 1)));
    out.push((bin(IntEqual, cst(1, 0), bin(IntSub, var("x", 1), var("y", 1))), env(3, 1)));
    out
}

// ------------------------------------------------------------------ shrinking a failing case

/// all trees obtained from `e` by one simplification step (a subtree replaced by one of its children of the same size, or
/// by a leaf of the same size)
fn simpler(e: &Expression) -> Vec<Expression> {
    let mut out = Vec::new();
    let sz = size_of(e);
    let kids: Vec<&Expression> = match e {
        Expression::BinOp { lhs, rhs, .. } => vec![&**lhs, &**rhs],
        Expression::UnOp { arg, .. } | Expression::Cast { arg, .. } | Expression::Subpiece { arg, .. } => vec![&**arg],
        _ => vec![],
    };
    for k in &kids {
        if size_of(k) == sz {
            out.push((*k).clone());
        }
    }
    if !kids.is_empty() {
        if VSIZES.contains(&sz) {
            out.push(var("x", sz));
            out.push(var("y", sz));
        }
        out.push(cst(sz, 0));
        out.push(cst(sz, 1));
    }
    match e {
        Expression::BinOp { op, lhs, rhs } => {
            for l in simpler(lhs) {
                out.push(bin(*op, l, (**rhs).clone()));
            }
            for r in simpler(rhs) {
                out.push(bin(*op, (**lhs).clone(), r));
            }
        }
        Expression::UnOp { op, arg } => {
            for a in simpler(arg) {
                out.push(un(*op, a));
            }
        }
        Expression::Cast { op, size, arg } => {
            for a in simpler(arg) {
                out.push(cast(*op, bz(*size), a));
            }
        }
        Expression::Subpiece { low_byte, size, arg } => {
            for a in simpler(arg) {
                out.push(sub(bz(*low_byte), bz(*size), a));
            }
        }
        _ => {}
    }
    out
}

fn nodes(e: &Expression) -> usize {
    match e {
        Expression::BinOp { lhs, rhs, .. } => 1 + nodes(lhs) + nodes(rhs),
        Expression::UnOp { arg, .. } | Expression::Cast { arg, .. } | Expression::Subpiece { arg, .. } => 1 + nodes(arg),
        _ => 1,
    }
}

/// greedy: a smaller well-sized tree that still violates the same clause (under some valuation of the usual set)
fn shrink(e: &Expression, clause: &str) -> (Expression, Value) {
    let mut cur = e.clone();
    let mut rng = Rng(99);
    let mut verdict = json!(null);
    loop {
        let mut progress = false;
        for cand in simpler(&cur) {
            if nodes(&cand) >= nodes(&cur) || wf(&cand).is_err() {
                continue;
            }
            let mut vars = Vec::new();
            collect_vars(&cand, &mut vars);
            let es = envs(&mut rng, &vars, 24);
            let v = check(&cand, &es);
            if let Some(b) = v.bad {
                if b["clause"] == clause {
                    cur = cand;
                    verdict = b;
                    progress = true;
                    break;
                }
            }
        }
        if !progress {
            return (cur, verdict);
        }
    }
}

// ------------------------------------------------------------------ entry points

const ROUNDS: u64 = 40_000;

struct Tally {
    cases: u64,
    changed: u64,
    bad: u64,
    first: Option<Value>,
    first_nonbool: Option<Value>,
}

impl Tally {
    /// true: a (new) disagreement was recorded
    fn handle(&mut self, e: &Expression, v: Verdict) -> bool {
        self.cases += 1;
        if v.changed {
            self.changed += 1;
        }
        if let Some(nb) = v.nonbool {
            if self.first_nonbool.is_none() {
                self.first_nonbool = Some(case_json(e, &nb));
            }
        }
        if let Some(b) = v.bad {
            self.bad += 1;
            if let Ok(path) = std::env::var("VERIF_C10_DUMP") {
                use std::io::Write;
                let clause = b["clause"].as_str().unwrap_or("").to_string();
                let (small, sv) = shrink(e, &clause);
                let line = if sv.is_null() { case_json(e, &b) } else { case_json(&small, &sv) };
                if let Ok(mut f) = std::fs::OpenOptions::new().create(true).append(true).open(path) {
                    let _ = writeln!(f, "{}", json!({"clause": line["clause"], "text": line["input"]["text"], "result": line["result"],
                        "env": line["env"], "expected": line["expected"], "got": line["got"]}));
                }
            }
            if self.first.is_none() {
                self.first = Some(case_json(e, &b));
            }
            return true;
        }
        false
    }
}

fn run(seed: u64, rounds: u64, stop_at_first: bool) -> Tally {
    let mut rng = Rng(seed.wrapping_mul(0x51ED_2701).wrapping_add(10));
    let mut t = Tally { cases: 0, changed: 0, bad: 0, first: None, first_nonbool: None };
    for (e, env) in fixed_cases() {
        let v = check(&e, &[env]);
        if t.handle(&e, v) && stop_at_first {
            return t;
        }
    }
    for _ in 0..rounds {
        let size = if rng.next() % 8 == 0 { 1 + rng.next() % 16 } else { opsize(&mut rng) };
        let depth = 1 + (rng.next() % 4) as u32;
        let e = gen(&mut rng, size, depth);
        if let Err(msg) = wf(&e) {
            // generator bug: never pass silently
            t.bad += 1;
            if t.first.is_none() {
                t.first = Some(json!({"clause": "generator", "expected": "well-sized input", "got": msg, "input": {"text": format!("{}", e)}}));
            }
            continue;
        }
        let mut vars = Vec::new();
        collect_vars(&e, &mut vars);
        let es = envs(&mut rng, &vars, 24);
        let v = check(&e, &es);
        if t.handle(&e, v) && stop_at_first {
            return t;
        }
    }
    t
}

pub fn search(_twin: &str, _case: Option<&str>, seed: u64) -> Option<Value> {
    run(seed, ROUNDS, true).first
}

pub fn replay(_twin: &str, input: &Value) -> Value {
    let e: Expression = match serde_json::from_value(input["expr"].clone()) {
        Ok(e) => e,
        Err(err) => return json!({"agrees": false, "error": format!("cannot read expression: {}", err)}),
    };
    if let Err(msg) = wf(&e) {
        return json!({"agrees": true, "note": format!("input is not well-sized ({}): outside the contract", msg)});
    }
    let mut es = Vec::new();
    if input["env"].is_object() {
        es.push(env_from_json(&input["env"]));
    } else {
        let mut vars = Vec::new();
        collect_vars(&e, &mut vars);
        es = envs(&mut Rng(7), &vars, 64);
    }
    let v = check(&e, &es);
    let new = rewrite(&e).map(|n| format!("{}", n)).unwrap_or_else(|m| m);
    match v.bad {
        Some(b) => json!({"agrees": false, "input": format!("{}", e), "rewritten": new, "clause": b["clause"], "env": b["env"],
            "expected": b["expected"], "got": b["got"]}),
        None => json!({"agrees": true, "input": format!("{}", e), "rewritten": new}),
    }
}

pub fn sweep(_twin: &str, seed: u64) -> Value {
    let rounds = std::env::var("VERIF_C10_ROUNDS").ok().and_then(|s| s.parse().ok()).unwrap_or(ROUNDS);
    let t = run(seed, rounds, false);
    json!({"cases": t.cases, "rewritten": t.changed, "disagreements": t.bad, "first": t.first, "nonbool_note": t.first_nonbool})
}
