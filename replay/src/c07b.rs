//! C07 twin, part b: the adapter `GeneralizedContext` of `analysis::forward_interprocedural_fixpoint` -- the code that DEFINES the
//! transfer system (merge / update_edge) which the worklist solver of C07 is run on -- and the two worklist constructors,
//! run on the REAL crate.
//!
//! Twin `c07b.adapter` (BOUNDED -- an enumeration of small / seeded random programs, not a proof).  For a program it builds the
//! real interprocedural CFG (`get_program_cfg`) and a TRACING interprocedural `Context` over `Value = String`: every method
//! returns a string that records its own name and all of its arguments (the incoming value, tids of the terms, the condition,
//! the `is_true` flag, the calling convention, the target node), or `None` when a salted hash of that string says "blocked" --
//! so every method is a deterministic function of its arguments that tells apart any two different calls.  Then
//!   update_edge  for EVERY edge of the graph and node values of the variant that belongs to the source node (plain value; all
//!                four None/Some combinations of the two CallFlowCombinator slots): the real `GeneralizedContext::update_edge`
//!                against a reference written from the module documentation of forward_interprocedural_fixpoint.rs (per edge
//!                kind: Block = fold of update_def, None as soon as one def blocks; CallCombine = identity; Call = update_call
//!                with the target node and the callee's calling convention; CrCallStub / CrReturnStub = combinator with the value
//!                in the call_stub / interprocedural_flow slot; ReturnCombine = update_return(flow, stub, call term, FIRST jump of
//!                the returned-from block, calling convention of the returned-from function); ExternCallStub = update_call_stub;
//!                Jump = specialize_conditional (true for a taken CBranch, false after an untaken one; None => the edge yields
//!                None) and then update_jump),
//!   merge        Value/Value and all combinator slot combinations against "merge of the analysis, slot-wise merge_option",
//!   precondition on every CFG that `get_program_cfg` builds for a well-formed program (<= 2 jumps per block, two jumps = conditional
//!                branch first, targets exist) every edge connects node kinds such that the transfer is defined for a node value of
//!                the variant that belongs to its source node (CallReturn: combinator, else plain value) -- the part unit
//!                fwd_fixpoint leaves undecided (ff_edge_kinds_ok), sampled here,
//!   worklists    create_bottom_up_worklist / create_top_down_worklist list every node index of the graph exactly once.
//! Twin `c07b.backward`: the same programs, the REVERSED graph (`graph.reverse()`), a tracing context for the trait of
//! `analysis::backward_interprocedural_fixpoint`, and the real backward `GeneralizedContext::{update_edge, merge}` against the
//! executable version of bf_update_edge / bf_merge (spec/bwd_fixpoint.rs): Block = update_def over the defs LAST to first;
//! ReturnCombine = identity; Call = combinator with the value in the interprocedural_flow slot; CrCallStub = combinator with
//! split_call_stub(value) in the call_stub slot; CrReturnStub = split_return_stub(value, returned-from function); CallCombine =
//! update_callsite(flow, stub, calling function, FIRST jump of the callsite block, term of the edge); ExternCallStub =
//! update_call_stub; Jump = update_jumpsite(value, jump, untaken, jumpsite block) without conditional specialisation.
//! This is the executable version of the contracts of unit `fwd_fixpoint` (spec/fwd_fixpoint.rs: ff_update_edge, ff_merge,
//! ff_is_node_permutation).
use crate::util::Rng;
use cwe_checker_lib::analysis::fixpoint::Context as GeneralFPContext;
use cwe_checker_lib::analysis::forward_interprocedural_fixpoint::{
    create_bottom_up_worklist, create_top_down_worklist, Context, GeneralizedContext,
};
use cwe_checker_lib::analysis::backward_interprocedural_fixpoint as bwd;
use cwe_checker_lib::analysis::graph::{get_program_cfg, Edge, Graph, Node};
use cwe_checker_lib::analysis::interprocedural_fixpoint_generic::NodeValue;
use cwe_checker_lib::intermediate_representation::*;
use petgraph::graph::EdgeIndex;
use petgraph::visit::EdgeRef;
use serde_json::{json, Value};
use std::collections::{BTreeMap, BTreeSet};
use std::panic::{catch_unwind, AssertUnwindSafe};

#[derive(Clone, Debug)]
enum J {
    Branch(String),
    CBranch(String),
    Call(String, Option<String>),
    CallInd(Option<String>),
    Return,
}

#[derive(Clone, Debug)]
struct B {
    tid: String,
    defs: usize,
    jmps: Vec<J>,
}

#[derive(Clone, Debug)]
struct Case {
    /// functions: name, calling convention, blocks
    subs: Vec<(String, Option<String>, Vec<B>)>,
    /// decides which calls of the tracing context are blocked (return None)
    salt: u64,
    /// replay only (`"lenient": true` in the input): also run programs that are not well-formed / normalized
    lenient: bool,
}

fn opt(v: &Value) -> Option<String> {
    v.as_str().map(|s| s.to_string())
}

fn j_to_json(j: &J) -> Value {
    match j {
        J::Branch(t) => json!(["branch", t]),
        J::CBranch(t) => json!(["cbranch", t]),
        J::Call(t, r) => json!(["call", t, r]),
        J::CallInd(r) => json!(["callind", r]),
        J::Return => json!(["return"]),
    }
}

fn j_from_json(v: &Value) -> J {
    match v[0].as_str().unwrap_or("return") {
        "branch" => J::Branch(v[1].as_str().unwrap_or("").to_string()),
        "cbranch" => J::CBranch(v[1].as_str().unwrap_or("").to_string()),
        "call" => J::Call(v[1].as_str().unwrap_or("").to_string(), opt(&v[2])),
        "callind" => J::CallInd(opt(&v[1])),
        _ => J::Return,
    }
}

impl Case {
    fn to_json(&self) -> Value {
        json!({
            "fn": "adapter",
            "salt": self.salt,
            "subs": self.subs.iter().map(|(n, cc, bs)| json!({
                "name": n, "cconv": cc,
                "blocks": bs.iter().map(|b| json!({"tid": b.tid, "defs": b.defs, "jmps": b.jmps.iter().map(j_to_json).collect::<Vec<_>>()})).collect::<Vec<_>>(),
            })).collect::<Vec<_>>(),
        })
    }

    fn from_json(v: &Value) -> Case {
        Case {
            salt: v["salt"].as_u64().unwrap_or(0),
            lenient: v["lenient"].as_bool().unwrap_or(false),
            subs: v["subs"].as_array().map(|a| a.iter().map(|s| (
                s["name"].as_str().unwrap_or("").to_string(),
                opt(&s["cconv"]),
                s["blocks"].as_array().map(|bs| bs.iter().map(|b| B {
                    tid: b["tid"].as_str().unwrap_or("").to_string(),
                    defs: b["defs"].as_u64().unwrap_or(0) as usize,
                    jmps: b["jmps"].as_array().map(|x| x.iter().map(j_from_json).collect()).unwrap_or_default(),
                }).collect()).unwrap_or_default(),
            )).collect()).unwrap_or_default(),
        }
    }

    fn block_term(b: &B) -> Term<Blk> {
        let var = |n: String| Variable { name: n, size: ByteSize::new(8), is_temp: false };
        let defs = (0..b.defs).map(|k| Term {
            tid: Tid::new(format!("{}_d{}", b.tid, k)),
            term: Def::Assign { var: var(format!("r{}", k)), value: Expression::Const(Bitvector::from_u64(k as u64)) },
        }).collect();
        let jmps = b.jmps.iter().enumerate().map(|(k, j)| Term {
            tid: Tid::new(format!("{}_j{}", b.tid, k)),
            term: match j {
                J::Branch(t) => Jmp::Branch(Tid::new(t)),
                // the condition names the jump, so that two conditions never look alike in a trace
                J::CBranch(t) => Jmp::CBranch { target: Tid::new(t), condition: Expression::Var(var(format!("cond_{}_j{}", b.tid, k))) },
                J::Call(t, r) => Jmp::Call { target: Tid::new(t), return_: r.as_ref().map(Tid::new) },
                J::CallInd(r) => Jmp::CallInd { target: Expression::Var(var("tgt".to_string())), return_: r.as_ref().map(Tid::new) },
                J::Return => Jmp::Return(Expression::Var(var("ret".to_string()))),
            },
        }).collect();
        Term { tid: Tid::new(&b.tid), term: Blk { defs, jmps, indirect_jmp_targets: Vec::new() } }
    }

    fn program(&self) -> Term<Program> {
        let mut subs = BTreeMap::new();
        for (name, cc, bs) in &self.subs {
            let blocks = bs.iter().map(Case::block_term).collect();
            subs.insert(Tid::new(name), Term { tid: Tid::new(name), term: Sub { name: name.clone(), blocks, calling_convention: cc.clone() } });
        }
        Term { tid: Tid::new("prog"), term: Program { subs, extern_symbols: BTreeMap::new(), entry_points: BTreeSet::new(), address_base_offset: 0 } }
    }

    /// every block tid named by a jump is a block of the SAME function, at most two jumps per block and then the first one is a
    /// conditional branch: the programs the CFG builder accepts
    fn well_formed(&self) -> bool {
        let mut seen = BTreeSet::new();
        for (name, _, bs) in &self.subs {
            if !seen.insert(name.clone()) {
                return false;
            }
            let here: BTreeSet<&String> = bs.iter().map(|b| &b.tid).collect();
            for b in bs {
                if !seen.insert(b.tid.clone()) || b.jmps.len() > 2 || (b.jmps.len() == 2 && !matches!(b.jmps[0], J::CBranch(_))) {
                    return false;
                }
                for j in &b.jmps {
                    let ok = match j {
                        J::Branch(t) | J::CBranch(t) => here.contains(t),
                        J::Call(_, r) | J::CallInd(r) => r.as_ref().map(|t| here.contains(t)).unwrap_or(true),
                        J::Return => true,
                    };
                    if !ok {
                        return false;
                    }
                }
            }
        }
        true
    }
}

// ---- the tracing interprocedural context ---------------------------------------------------------------------------------

struct Ctx<'a> {
    graph: &'a Graph<'a>,
    salt: u64,
}

fn fnv(s: &str, salt: u64) -> u64 {
    let mut h: u64 = 0xcbf2_9ce4_8422_2325 ^ salt;
    for b in s.bytes() {
        h ^= b as u64;
        h = h.wrapping_mul(0x0000_0100_0000_01b3);
    }
    h ^ (h >> 29)
}

impl<'a> Ctx<'a> {
    /// the result of a transfer: its trace, or None when the salted hash of the trace blocks it (one third of all calls)
    fn out(&self, trace: String) -> Option<String> {
        if fnv(&trace, self.salt) % 3 == 0 {
            None
        } else {
            Some(trace)
        }
    }
}

fn o(v: Option<&String>) -> String {
    match v {
        Some(s) => format!("Some({})", s),
        None => "None".to_string(),
    }
}

impl<'a> Context<'a> for Ctx<'a> {
    type Value = String;

    fn get_graph(&self) -> &Graph<'a> {
        self.graph
    }
    fn merge(&self, value1: &String, value2: &String) -> String {
        format!("M({},{})", value1, value2)
    }
    fn update_def(&self, value: &String, def: &Term<Def>) -> Option<String> {
        self.out(format!("D({},{})", value, def.tid))
    }
    fn update_jump(&self, value: &String, jump: &Term<Jmp>, untaken_conditional: Option<&Term<Jmp>>, target: &Term<Blk>) -> Option<String> {
        self.out(format!("J({},{},{},{})", value, jump.tid, untaken_conditional.map(|u| u.tid.to_string()).unwrap_or("-".to_string()), target.tid))
    }
    fn update_call(&self, value: &String, call: &Term<Jmp>, target: &Node, calling_convention: &Option<String>) -> Option<String> {
        self.out(format!("C({},{},{},{:?})", value, call.tid, target, calling_convention))
    }
    fn update_return(&self, value: Option<&String>, value_before_call: Option<&String>, call_term: &Term<Jmp>, return_term: &Term<Jmp>, calling_convention: &Option<String>) -> Option<String> {
        self.out(format!("R({},{},{},{},{:?})", o(value), o(value_before_call), call_term.tid, return_term.tid, calling_convention))
    }
    fn update_call_stub(&self, value: &String, call: &Term<Jmp>) -> Option<String> {
        self.out(format!("X({},{})", value, call.tid))
    }
    fn specialize_conditional(&self, value: &String, condition: &Expression, block_before_condition: &Term<Blk>, is_true: bool) -> Option<String> {
        self.out(format!("S({},{},{},{})", value, condition, block_before_condition.tid, is_true))
    }
}

// ---- the reference: the transfer system as the module documentation describes it ---------------------------------------------

type NV = NodeValue<String>;

fn wrap(v: Option<String>) -> Option<NV> {
    v.map(NodeValue::Value)
}

fn plain(nv: &NV) -> Option<&String> {
    match nv {
        NodeValue::Value(v) => Some(v),
        _ => None,
    }
}

fn blk<'a>(n: &Node<'a>) -> Option<&'a Term<Blk>> {
    match n {
        Node::BlkStart(b, _) | Node::BlkEnd(b, _) => Some(b),
        _ => None,
    }
}

fn sub<'a>(n: &Node<'a>) -> Option<&'a Term<Sub>> {
    match n {
        Node::BlkStart(_, s) | Node::BlkEnd(_, s) => Some(s),
        _ => None,
    }
}

/// `Err(())`: the input is outside the precondition (the real code is allowed to panic)
fn expected_edge(ctx: &Ctx, graph: &Graph, nv: &NV, e: EdgeIndex) -> Result<Option<NV>, ()> {
    let (s, t) = graph.edge_endpoints(e).ok_or(())?;
    let (src, dst) = (graph[s], graph[t]);
    match graph[e] {
        Edge::Block => {
            let mut acc = plain(nv).ok_or(())?.clone();
            for def in &blk(&src).ok_or(())?.term.defs {
                match ctx.update_def(&acc, def) {
                    Some(x) => acc = x,
                    None => return Ok(None),
                }
            }
            Ok(Some(NodeValue::Value(acc)))
        }
        Edge::CallCombine(_) => Ok(Some(NodeValue::Value(plain(nv).ok_or(())?.clone()))),
        Edge::Call(call) => Ok(wrap(ctx.update_call(plain(nv).ok_or(())?, call, &dst, &sub(&dst).ok_or(())?.term.calling_convention))),
        Edge::CrCallStub => Ok(Some(NodeValue::CallFlowCombinator { call_stub: Some(plain(nv).ok_or(())?.clone()), interprocedural_flow: None })),
        Edge::CrReturnStub => Ok(Some(NodeValue::CallFlowCombinator { call_stub: None, interprocedural_flow: Some(plain(nv).ok_or(())?.clone()) })),
        Edge::ReturnCombine(call_term) => match (nv, src) {
            (NodeValue::CallFlowCombinator { call_stub, interprocedural_flow }, Node::CallReturn { call: _, return_: (from_blk, from_sub) }) => {
                let first_jump = from_blk.term.jmps.first().ok_or(())?;
                Ok(wrap(ctx.update_return(interprocedural_flow.as_ref(), call_stub.as_ref(), call_term, first_jump, &from_sub.term.calling_convention)))
            }
            _ => Err(()),
        },
        Edge::ExternCallStub(call) => Ok(wrap(ctx.update_call_stub(plain(nv).ok_or(())?, call))),
        Edge::Jump(jump, untaken) => {
            let v = plain(nv).ok_or(())?;
            let specialised = match (&jump.term, untaken) {
                (Jmp::CBranch { condition, .. }, _) => ctx.specialize_conditional(v, condition, blk(&src).ok_or(())?, true),
                (_, Some(u)) => match &u.term {
                    Jmp::CBranch { condition, .. } => ctx.specialize_conditional(v, condition, blk(&src).ok_or(())?, false),
                    _ => return Err(()),
                },
                (_, None) => Some(v.clone()),
            };
            match specialised {
                // an unsatisfiable branch: the edge is not taken
                None => Ok(None),
                Some(v2) => Ok(wrap(ctx.update_jump(&v2, jump, untaken, blk(&dst).ok_or(())?))),
            }
        }
    }
}

fn expected_merge_option(ctx: &Ctx, a: &Option<String>, b: &Option<String>) -> Option<String> {
    match (a, b) {
        (Some(x), Some(y)) => Some(ctx.merge(x, y)),
        (Some(x), None) => Some(x.clone()),
        (None, Some(y)) => Some(y.clone()),
        (None, None) => None,
    }
}

fn expected_merge(ctx: &Ctx, a: &NV, b: &NV) -> Result<NV, ()> {
    match (a, b) {
        (NodeValue::Value(x), NodeValue::Value(y)) => Ok(NodeValue::Value(ctx.merge(x, y))),
        (NodeValue::CallFlowCombinator { call_stub: c1, interprocedural_flow: r1 }, NodeValue::CallFlowCombinator { call_stub: c2, interprocedural_flow: r2 }) => {
            Ok(NodeValue::CallFlowCombinator { call_stub: expected_merge_option(ctx, c1, c2), interprocedural_flow: expected_merge_option(ctx, r1, r2) })
        }
        _ => Err(()),
    }
}


// ---- the BACKWARD adapter (twin c07b.backward): tracing context and reference ---------------------------------------------------

struct BCtx<'a> {
    graph: &'a Graph<'a>,
    salt: u64,
}

impl<'a> BCtx<'a> {
    fn out(&self, trace: String) -> Option<String> {
        if fnv(&trace, self.salt) % 3 == 0 {
            None
        } else {
            Some(trace)
        }
    }
}

impl<'a> bwd::Context<'a> for BCtx<'a> {
    type Value = String;

    fn get_graph(&self) -> &Graph<'a> {
        self.graph
    }
    fn merge(&self, value1: &String, value2: &String) -> String {
        format!("M({},{})", value1, value2)
    }
    fn update_def(&self, value: &String, def: &Term<Def>) -> Option<String> {
        self.out(format!("D({},{})", value, def.tid))
    }
    fn update_jumpsite(&self, value_after_jump: &String, jump: &Term<Jmp>, untaken_conditional: Option<&Term<Jmp>>, jumpsite: &Term<Blk>) -> Option<String> {
        self.out(format!("J({},{},{},{})", value_after_jump, jump.tid, untaken_conditional.map(|u| u.tid.to_string()).unwrap_or("-".to_string()), jumpsite.tid))
    }
    fn update_callsite(&self, target_value: Option<&String>, return_value: Option<&String>, caller_sub: &Term<Sub>, call: &Term<Jmp>, return_: &Term<Jmp>) -> Option<String> {
        self.out(format!("C({},{},{},{},{})", o(target_value), o(return_value), caller_sub.tid, call.tid, return_.tid))
    }
    fn split_call_stub(&self, combined_value: &String) -> Option<String> {
        self.out(format!("SC({})", combined_value))
    }
    fn split_return_stub(&self, combined_value: &String, returned_from_sub: &Term<Sub>) -> Option<String> {
        self.out(format!("SR({},{})", combined_value, returned_from_sub.tid))
    }
    fn update_call_stub(&self, value_after_call: &String, call: &Term<Jmp>) -> Option<String> {
        self.out(format!("X({},{})", value_after_call, call.tid))
    }
    fn specialize_conditional(&self, value_after_jump: &String, condition: &Expression, is_true: bool) -> Option<String> {
        self.out(format!("S({},{},{})", value_after_jump, condition, is_true))
    }
}

/// The backward transfer system on the REVERSED graph (executable version of bf_update_edge, spec/bwd_fixpoint.rs).
/// `Err(())`: outside the precondition.
fn expected_edge_bwd(ctx: &BCtx, graph: &Graph, nv: &NV, e: EdgeIndex) -> Result<Option<NV>, ()> {
    use bwd::Context;
    let (s, t) = graph.edge_endpoints(e).ok_or(())?;
    let (src, dst) = (graph[s], graph[t]);
    match graph[e] {
        Edge::Block => {
            let mut acc = plain(nv).ok_or(())?.clone();
            for def in blk(&src).ok_or(())?.term.defs.iter().rev() {
                match ctx.update_def(&acc, def) {
                    Some(x) => acc = x,
                    None => return Ok(None),
                }
            }
            Ok(Some(NodeValue::Value(acc)))
        }
        Edge::ReturnCombine(_) => Ok(Some(NodeValue::Value(plain(nv).ok_or(())?.clone()))),
        Edge::Call(_) => Ok(Some(NodeValue::CallFlowCombinator { call_stub: None, interprocedural_flow: Some(plain(nv).ok_or(())?.clone()) })),
        Edge::CrCallStub => Ok(Some(NodeValue::CallFlowCombinator { call_stub: ctx.split_call_stub(plain(nv).ok_or(())?), interprocedural_flow: None })),
        Edge::CrReturnStub => match dst {
            Node::BlkEnd(_, returned_from_sub) => Ok(wrap(ctx.split_return_stub(plain(nv).ok_or(())?, returned_from_sub))),
            _ => Err(()),
        },
        Edge::CallCombine(term) => match (nv, src) {
            (NodeValue::CallFlowCombinator { call_stub, interprocedural_flow }, Node::CallSource { source: (call_blk, caller_sub), target: _ }) => {
                let first_jump = call_blk.term.jmps.first().ok_or(())?;
                Ok(wrap(ctx.update_callsite(interprocedural_flow.as_ref(), call_stub.as_ref(), caller_sub, first_jump, term)))
            }
            _ => Err(()),
        },
        Edge::ExternCallStub(call) => Ok(wrap(ctx.update_call_stub(plain(nv).ok_or(())?, call))),
        Edge::Jump(jump, untaken) => Ok(wrap(ctx.update_jumpsite(plain(nv).ok_or(())?, jump, untaken, blk(&dst).ok_or(())?))),
    }
}

fn expected_merge_bwd(ctx: &BCtx, a: &NV, b: &NV) -> Result<NV, ()> {
    use bwd::Context;
    let mo = |x: &Option<String>, y: &Option<String>| match (x, y) {
        (Some(x), Some(y)) => Some(ctx.merge(x, y)),
        (Some(x), None) => Some(x.clone()),
        (None, Some(y)) => Some(y.clone()),
        (None, None) => None,
    };
    match (a, b) {
        (NodeValue::Value(x), NodeValue::Value(y)) => Ok(NodeValue::Value(ctx.merge(x, y))),
        (NodeValue::CallFlowCombinator { call_stub: c1, interprocedural_flow: r1 }, NodeValue::CallFlowCombinator { call_stub: c2, interprocedural_flow: r2 }) => {
            Ok(NodeValue::CallFlowCombinator { call_stub: mo(c1, c2), interprocedural_flow: mo(r1, r2) })
        }
        _ => Err(()),
    }
}

/// twin c07b.backward on one program
fn check_backward(case: &Case, graph: &Graph) -> Option<Value> {
    let fail = |what: &str, detail: Value, expected: Value, got: Value| {
        Some(json!({"check": what, "detail": detail, "input": case.to_json(), "expected": expected, "got": got}))
    };
    let mut rgraph = graph.clone();
    rgraph.reverse();
    let gc = bwd::GeneralizedContext::new(BCtx { graph: &rgraph, salt: case.salt });
    let ctx = BCtx { graph: &rgraph, salt: case.salt };
    for er in rgraph.edge_references() {
        let e = er.id();
        let inputs: Vec<NV> = match rgraph[er.source()] {
            Node::CallSource { .. } => combinators("v"),
            _ => vec![NodeValue::Value("v".to_string()), NodeValue::Value("w".to_string())],
        };
        for nv in inputs {
            let detail = json!({"direction": "backward (reversed graph)", "edge_kind": edge_name(&rgraph[e]), "edge": e.index(), "source": format!("{}", rgraph[er.source()]),
                                "target": format!("{}", rgraph[er.target()]), "node_value": nv_desc(&Some(nv.clone()))});
            let want = match expected_edge_bwd(&ctx, &rgraph, &nv, e) {
                Ok(w) => w,
                Err(()) => return fail("edge_precondition", detail, json!("node kinds at the ends of the edge as the edge label promises"), json!("precondition of the backward update_edge violated on a reversed built CFG")),
            };
            cover(format!("bwd {}{}", edge_name(&rgraph[e]), if want.is_none() { " -> None" } else { "" }));
            let got = catch_unwind(AssertUnwindSafe(|| gc.update_edge(&nv, e)));
            match got {
                Err(_) => return fail("update_edge", detail, nv_desc(&want), json!("panic")),
                Ok(g) => {
                    if g != want {
                        return fail("update_edge", detail, nv_desc(&want), nv_desc(&g));
                    }
                }
            }
        }
    }
    let mut vals: Vec<NV> = vec![NodeValue::Value("a".to_string()), NodeValue::Value("b".to_string())];
    vals.extend(combinators("a"));
    vals.extend(combinators("b"));
    for a in &vals {
        for b in &vals {
            let want = match expected_merge_bwd(&ctx, a, b) {
                Ok(w) => w,
                Err(()) => continue,
            };
            let got = catch_unwind(AssertUnwindSafe(|| gc.merge(a, b)));
            let detail = json!({"direction": "backward", "left": nv_desc(&Some(a.clone())), "right": nv_desc(&Some(b.clone()))});
            match got {
                Err(_) => return fail("merge", detail, nv_desc(&Some(want)), json!("panic")),
                Ok(g) => {
                    if g != want {
                        return fail("merge", detail, nv_desc(&Some(want)), nv_desc(&Some(g)));
                    }
                }
            }
        }
    }
    None
}

fn nv_desc(nv: &Option<NV>) -> Value {
    match nv {
        None => json!(null),
        Some(NodeValue::Value(v)) => json!({"value": v}),
        Some(NodeValue::CallFlowCombinator { call_stub, interprocedural_flow }) => json!({"call_stub": call_stub, "interprocedural_flow": interprocedural_flow}),
    }
}

fn edge_name(e: &Edge) -> &'static str {
    match e {
        Edge::Block => "Block",
        Edge::Jump(..) => "Jump",
        Edge::Call(..) => "Call",
        Edge::ExternCallStub(..) => "ExternCallStub",
        Edge::CrCallStub => "CrCallStub",
        Edge::CrReturnStub => "CrReturnStub",
        Edge::CallCombine(..) => "CallCombine",
        Edge::ReturnCombine(..) => "ReturnCombine",
    }
}

/// how many edge transfers of each kind (and how many that yield None) a sweep compared -- reported by `sweep`
static COVERAGE: std::sync::Mutex<BTreeMap<String, u64>> = std::sync::Mutex::new(BTreeMap::new());

fn cover(key: String) {
    if let Ok(mut m) = COVERAGE.lock() {
        *m.entry(key).or_insert(0) += 1;
    }
}

fn combinators(tag: &str) -> Vec<NV> {
    let mut out = Vec::new();
    for cs in [None, Some(format!("{}s", tag))] {
        for fl in [None, Some(format!("{}f", tag))] {
            out.push(NodeValue::CallFlowCombinator { call_stub: cs.clone(), interprocedural_flow: fl });
        }
    }
    out
}

/// `check_inner` with the panic messages of the code under test silenced (a panic is caught and reported as a disagreement)
fn check(case: &Case, backward: bool) -> Option<Value> {
    let prev = std::panic::take_hook();
    std::panic::set_hook(Box::new(|_| {}));
    let r = check_inner(case, backward);
    std::panic::set_hook(prev);
    r
}

fn check_inner(case: &Case, backward: bool) -> Option<Value> {
    if !case.well_formed() && !case.lenient {
        return None;
    }
    let program = case.program();
    let graph = match catch_unwind(AssertUnwindSafe(|| get_program_cfg(&program))) {
        Ok(g) => g,
        Err(_) => return None, // the CFG builder is C08's business
    };
    if backward {
        return check_backward(case, &graph);
    }
    let fail = |what: &str, detail: Value, expected: Value, got: Value| {
        Some(json!({"check": what, "detail": detail, "input": case.to_json(), "expected": expected, "got": got}))
    };
    // ---- worklists: every node exactly once
    for (name, list) in [
        ("create_bottom_up_worklist", catch_unwind(AssertUnwindSafe(|| create_bottom_up_worklist(&graph)))),
        ("create_top_down_worklist", catch_unwind(AssertUnwindSafe(|| create_top_down_worklist(&graph)))),
    ] {
        let want: Vec<usize> = (0..graph.node_count()).collect();
        match list {
            Err(_) => return fail(name, json!("panic"), json!(want), json!("panic")),
            Ok(l) => {
                let mut got: Vec<usize> = l.iter().map(|n| n.index()).collect();
                got.sort();
                if got != want {
                    return fail(name, json!("not a permutation of all node indices"), json!(want), json!(l.iter().map(|n| n.index()).collect::<Vec<_>>()));
                }
            }
        }
    }
    // ---- the edge transfers
    let gc = GeneralizedContext::new(Ctx { graph: &graph, salt: case.salt });
    let ctx = Ctx { graph: &graph, salt: case.salt };
    for er in graph.edge_references() {
        let e = er.id();
        let inputs: Vec<NV> = match graph[er.source()] {
            Node::CallReturn { .. } => combinators("v"),
            _ => vec![NodeValue::Value("v".to_string()), NodeValue::Value("w".to_string())],
        };
        for nv in inputs {
            let detail = json!({"edge_kind": edge_name(&graph[e]), "edge": e.index(), "source": format!("{}", graph[er.source()]),
                                "target": format!("{}", graph[er.target()]), "node_value": nv_desc(&Some(nv.clone()))});
            let want = match expected_edge(&ctx, &graph, &nv, e) {
                Ok(w) => w,
                // the graph of a well-formed program connects node kinds such that a node value of the variant belonging to the
                // source node satisfies the precondition of the edge transfer (ff_edge_kinds_ok / lemma_ff_pre_from_shape of
                // unit fwd_fixpoint: NOT proved for the graphs get_program_cfg builds, sampled here)
                Err(()) => return fail("edge_precondition", detail, json!("node kinds at the ends of the edge as the edge label promises"), json!("precondition of update_edge violated on a built CFG")),
            };
            cover(format!("{}{}", edge_name(&graph[e]), if want.is_none() { " -> None" } else { "" }));
            let got = catch_unwind(AssertUnwindSafe(|| gc.update_edge(&nv, e)));
            match got {
                Err(_) => return fail("update_edge", detail, nv_desc(&want), json!("panic")),
                Ok(g) => {
                    if g != want {
                        return fail("update_edge", detail, nv_desc(&want), nv_desc(&g));
                    }
                }
            }
        }
    }
    // ---- merge
    let mut vals: Vec<NV> = vec![NodeValue::Value("a".to_string()), NodeValue::Value("b".to_string())];
    vals.extend(combinators("a"));
    vals.extend(combinators("b"));
    for a in &vals {
        for b in &vals {
            let want = match expected_merge(&ctx, a, b) {
                Ok(w) => w,
                Err(()) => continue,
            };
            let got = catch_unwind(AssertUnwindSafe(|| gc.merge(a, b)));
            let detail = json!({"left": nv_desc(&Some(a.clone())), "right": nv_desc(&Some(b.clone()))});
            match got {
                Err(_) => return fail("merge", detail, nv_desc(&Some(want)), json!("panic")),
                Ok(g) => {
                    if g != want {
                        return fail("merge", detail, nv_desc(&Some(want)), nv_desc(&Some(g)));
                    }
                }
            }
        }
    }
    None
}

// ---- cases -----------------------------------------------------------------------------------------------------------------

fn random_case(rng: &mut Rng) -> Case {
    let nf = 1 + (rng.next() % 3) as usize;
    let mut subs = Vec::new();
    let mut next_blk = 0usize;
    let counts: Vec<usize> = (0..nf).map(|_| 1 + (rng.next() % 3) as usize).collect();
    for f in 0..nf {
        let first = next_blk;
        let nb = counts[f];
        next_blk += nb;
        let local = |rng: &mut Rng| format!("b{}", first + (rng.next() % nb as u64) as usize);
        let mut blocks = Vec::new();
        for i in 0..nb {
            let one = |rng: &mut Rng| -> J {
                match rng.next() % 8 {
                    0 | 1 => J::Branch(local(rng)),
                    2 | 3 | 4 => {
                        let target = if rng.next() % 6 == 0 { "unknown".to_string() } else { format!("f{}", rng.next() % nf as u64) };
                        let ret = if rng.next() % 4 != 0 { Some(local(rng)) } else { None };
                        J::Call(target, ret)
                    }
                    5 => J::CallInd(if rng.next() % 3 != 0 { Some(local(rng)) } else { None }),
                    _ => J::Return,
                }
            };
            let jmps = match rng.next() % 5 {
                0 => vec![],
                1 | 2 => vec![one(rng)],
                // a conditional branch followed by one more jump (also by a Return: then the returning block has two jumps)
                _ => vec![J::CBranch(local(rng)), one(rng)],
            };
            blocks.push(B { tid: format!("b{}", first + i), defs: (rng.next() % 4) as usize, jmps });
        }
        let cc = match rng.next() % 3 {
            0 => None,
            _ => Some(format!("cc{}", f)),
        };
        subs.push((format!("f{}", f), cc, blocks));
    }
    Case { subs, salt: rng.next(), lenient: false }
}

fn fixed_cases() -> Vec<Case> {
    let b = |tid: &str, defs: usize, jmps: Vec<J>| B { tid: tid.to_string(), defs, jmps };
    let mut out = Vec::new();
    for salt in 0..24u64 {
        // a conditional branch with both successors (the C07-F shape), three defs in the entry block
        out.push(Case {
            subs: vec![("f0".to_string(), Some("cc0".to_string()), vec![
                b("b0", 3, vec![J::CBranch("b1".to_string()), J::Branch("b2".to_string())]),
                b("b1", 1, vec![]),
                b("b2", 0, vec![]),
            ])],
            salt,
            lenient: false,
        });
        // caller / callee with a conditional return (the returning block ends with CBranch + Return) and a recursive call
        out.push(Case {
            subs: vec![
                ("f0".to_string(), Some("cc0".to_string()), vec![
                    b("b0", 2, vec![J::Call("f1".to_string(), Some("b1".to_string()))]),
                    b("b1", 1, vec![J::CallInd(Some("b0".to_string()))]),
                ]),
                ("f1".to_string(), Some("cc1".to_string()), vec![
                    b("b2", 1, vec![J::CBranch("b3".to_string()), J::Return]),
                    b("b3", 2, vec![J::Call("f1".to_string(), Some("b2".to_string()))]),
                ]),
            ],
            salt,
            lenient: false,
        });
    }
    out
}

fn enumerate(seed: u64, backward: bool, count: &mut u64, disagreements: &mut u64, first_only: bool) -> Option<Value> {
    let mut first = None;
    let mut rng = Rng(seed);
    let mut cases = fixed_cases();
    for _ in 0..3000 {
        cases.push(random_case(&mut rng));
    }
    for c in cases {
        if !c.well_formed() {
            continue;
        }
        *count += 1;
        if let Some(v) = check(&c, backward) {
            *disagreements += 1;
            if first.is_none() {
                first = Some(v);
            }
            if first_only {
                return first;
            }
        }
    }
    first
}

pub fn search(twin: &str, _case: Option<&str>, seed: u64) -> Option<Value> {
    match twin {
        "c07b.adapter" | "c07b.backward" => {
            let (mut n, mut d) = (0, 0);
            enumerate(seed, twin == "c07b.backward", &mut n, &mut d, true)
        }
        _ => None,
    }
}

pub fn replay(twin: &str, input: &Value) -> Value {
    let case = Case::from_json(input);
    match check(&case, twin == "c07b.backward") {
        Some(v) => json!({"agrees": false, "check": v["check"], "detail": v["detail"], "expected": v["expected"], "got": v["got"], "input": input}),
        None => json!({"agrees": true, "well_formed": case.well_formed(), "input": input}),
    }
}

pub fn sweep(twin: &str, seed: u64) -> Value {
    let (mut n, mut d) = (0, 0);
    let first = if twin == "c07b.adapter" || twin == "c07b.backward" { enumerate(seed, twin == "c07b.backward", &mut n, &mut d, false) } else { None };
    let coverage = COVERAGE.lock().map(|m| json!(*m)).unwrap_or(json!(null));
    json!({"twin": twin, "cases": n, "disagreements": d, "first": first, "edge_transfers_compared": coverage})
}
