//! C19 twins: global memory queries against a plain reference written from the property statement.
//!
//!   "For every set of disjoint memory segments and every address and size, a read returns the bytes stored at
//!    that address (in the image's byte order) exactly when the whole range lies in one read-only segment,
//!    reports 'unknown content' when it lies in one writable segment, and fails otherwise.  A string read at any
//!    address inside a read-only segment returns the NUL-terminated string stored there, and
//!    writability/readability queries report the flags of the segment containing the address."
//!
//! Twins:  c19.read (read, is_global_memory_address), c19.read_string, c19.flags (is_address_writeable,
//! is_interval_readable, is_interval_writeable, get_ro_data_pointer_at_address).
//! Layouts: a few hand-made ones (adjacent / gap / reversed vector order / top of the address space) and seeded
//! random ones: 1..4 pairwise disjoint segments, gaps 0 (ADJACENT), 1, 2, 7, lengths 0..17, mixed flags, both byte
//! orders, shuffled vector order.  Queries: all addresses within +-2 of every segment start and end.
//! The real functions are called on `RuntimeMemoryImage` / `MemorySegment` values built with struct literals;
//! a panic of the real function is caught and reported as observed = "panic".
use crate::util::*;
use cwe_checker_lib::intermediate_representation::*;
use cwe_checker_lib::utils::binary::MemorySegment;
use serde_json::{json, Value};
use std::panic::{catch_unwind, AssertUnwindSafe};

#[derive(Clone, Debug)]
struct Seg { base: u64, bytes: Vec<u8>, r: bool, w: bool, x: bool }
#[derive(Clone, Debug)]
struct Layout { segs: Vec<Seg>, le: bool }

#[derive(Clone, Debug)]
enum Query {
    Read { a: u64, size: u64 },
    IsGlobal { a: u64, width: u32 },
    ReadString { a: u64 },
    AddrWriteable { a: u64 },
    IntervalReadable { a: u64, e: u64 },
    IntervalWriteable { a: u64, e: u64 },
    RoPtr { a: u64 },
}

fn image(l: &Layout) -> RuntimeMemoryImage {
    RuntimeMemoryImage {
        memory_segments: l.segs.iter().map(|s| MemorySegment {
            bytes: s.bytes.clone(), base_address: s.base, read_flag: s.r, write_flag: s.w, execute_flag: s.x,
        }).collect(),
        is_little_endian: l.le,
        is_lkm: false,
    }
}

// ---------------- reference, from the property statement -----------------------------------------------------
fn seg_end(s: &Seg) -> u128 { s.base as u128 + s.bytes.len() as u128 }
/// base <= a < base + len
fn seg_contains(s: &Seg, a: u128) -> bool { s.base as u128 <= a && a < seg_end(s) }
/// the layout is a set of disjoint segments whose addresses are representable (adjacent segments are fine)
fn valid(l: &Layout) -> bool {
    for (i, s) in l.segs.iter().enumerate() {
        if seg_end(s) > u64::MAX as u128 { return false; }
        for t in l.segs.iter().skip(i + 1) {
            let disjoint = s.bytes.is_empty() || t.bytes.is_empty() || seg_end(s) <= t.base as u128 || seg_end(t) <= s.base as u128;
            if !disjoint { return false; }
        }
    }
    true
}
/// "the segment containing the address"
fn seg_of(l: &Layout, a: u128) -> Option<&Seg> {
    let hits: Vec<&Seg> = l.segs.iter().filter(|s| seg_contains(s, a)).collect();
    assert!(hits.len() <= 1, "generator produced overlapping segments");
    hits.first().copied()
}
/// the segment in which the whole range [a, a+n) lies (n >= 1)
fn range_seg(l: &Layout, a: u128, n: u128) -> Option<&Seg> {
    seg_of(l, a).filter(|s| a + n <= seg_end(s))
}
/// value of a byte string in the image's byte order
fn mem_value(bytes: &[u8], le: bool) -> u128 {
    let mut v: u128 = 0;
    if le { for b in bytes.iter().rev() { v = (v << 8) | *b as u128; } } else { for b in bytes.iter() { v = (v << 8) | *b as u128; } }
    v
}
/// the NUL-terminated string stored at address a of segment s: None = no NUL before the segment ends
fn cstring_at(s: &Seg, a: u128) -> Option<&[u8]> {
    let off = (a - s.base as u128) as usize;
    let mut k = off;
    while k < s.bytes.len() {
        if s.bytes[k] == 0 { return Some(&s.bytes[off..k]); }
        k += 1;
    }
    None
}

fn hexbytes(b: &[u8]) -> String { b.iter().map(|x| format!("{:02x}", x)).collect() }
fn unhexbytes(s: &str) -> Vec<u8> { (0..s.len() / 2).map(|i| u8::from_str_radix(&s[2 * i..2 * i + 2], 16).unwrap()).collect() }
fn flags(s: &Seg) -> String { format!("{}{}{}", if s.r { 'r' } else { '-' }, if s.w { 'w' } else { '-' }, if s.x { 'x' } else { '-' }) }

fn layout_json(l: &Layout) -> Value {
    json!({"little_endian": l.le, "segments": l.segs.iter().map(|s| json!({"base": hex(s.base as u128), "bytes": hexbytes(&s.bytes), "flags": flags(s)})).collect::<Vec<_>>()})
}
fn layout_from(v: &Value) -> Layout {
    Layout {
        le: v["little_endian"].as_bool().unwrap_or(true),
        segs: v["segments"].as_array().map(|a| a.iter().map(|s| {
            let f = s["flags"].as_str().unwrap_or("r--").as_bytes().to_vec();
            Seg { base: unhex(s["base"].as_str().unwrap()) as u64, bytes: unhexbytes(s["bytes"].as_str().unwrap()),
                  r: f.first() == Some(&b'r'), w: f.get(1) == Some(&b'w'), x: f.get(2) == Some(&b'x') }
        }).collect()).unwrap_or_default(),
    }
}
fn query_json(q: &Query) -> Value {
    match q {
        Query::Read { a, size } => json!({"fn": "read", "address": hex(*a as u128), "size": size}),
        Query::IsGlobal { a, width } => json!({"fn": "is_global_memory_address", "address": hex(*a as u128), "width": width}),
        Query::ReadString { a } => json!({"fn": "read_string_until_null_terminator", "address": hex(*a as u128)}),
        Query::AddrWriteable { a } => json!({"fn": "is_address_writeable", "address": hex(*a as u128)}),
        Query::IntervalReadable { a, e } => json!({"fn": "is_interval_readable", "address": hex(*a as u128), "end": hex(*e as u128)}),
        Query::IntervalWriteable { a, e } => json!({"fn": "is_interval_writeable", "address": hex(*a as u128), "end": hex(*e as u128)}),
        Query::RoPtr { a } => json!({"fn": "get_ro_data_pointer_at_address", "address": hex(*a as u128)}),
    }
}
fn query_from(v: &Value) -> Option<Query> {
    let a = unhex(v["address"].as_str()?) as u64;
    let e = || v["end"].as_str().map(|s| unhex(s) as u64);
    Some(match v["fn"].as_str()? {
        "read" => Query::Read { a, size: v["size"].as_u64()? },
        "is_global_memory_address" => Query::IsGlobal { a, width: v["width"].as_u64()? as u32 },
        "read_string_until_null_terminator" => Query::ReadString { a },
        "is_address_writeable" => Query::AddrWriteable { a },
        "is_interval_readable" => Query::IntervalReadable { a, e: e()? },
        "is_interval_writeable" => Query::IntervalWriteable { a, e: e()? },
        "get_ro_data_pointer_at_address" => Query::RoPtr { a },
        _ => return None,
    })
}

/// run the real function (panics caught); returns (observed, expected, acceptable alternatives)
fn eval(l: &Layout, q: &Query) -> (Value, Vec<Value>) {
    let img = image(l);
    let addr = |a: u64| Bitvector::from_u64(a);
    let guarded = |f: &dyn Fn() -> Value| -> Value { catch_unwind(AssertUnwindSafe(f)).unwrap_or(json!("panic")) };
    fn flag<E>(r: Result<bool, E>) -> Value { match r { Ok(b) => json!({"Ok": b}), Err(_) => json!("Err") } }
    match q {
        Query::Read { a, size } => {
            let obs = guarded(&|| match img.read(&addr(*a), ByteSize::new(*size)) {
                Ok(None) => json!("Ok(None)"),
                Ok(Some(v)) => json!({"width": val(&v).0, "value": hex(val(&v).1)}),
                Err(_) => json!("Err"),
            });
            let exp = match range_seg(l, *a as u128, *size as u128) {
                None => json!("Err"),
                Some(s) if s.w => json!("Ok(None)"),
                Some(s) => {
                    let off = (*a - s.base) as usize;
                    json!({"width": size * 8, "value": hex(mem_value(&s.bytes[off..off + *size as usize], l.le))})
                }
            };
            (obs, vec![exp])
        }
        Query::IsGlobal { a, width } => {
            let obs = guarded(&|| json!(img.is_global_memory_address(&mk(*width, *a as u128))));
            (obs, vec![json!(range_seg(l, *a as u128, (*width as u128 + 7) / 8).is_some())])
        }
        Query::ReadString { a } => {
            let obs = guarded(&|| match img.read_string_until_null_terminator(&addr(*a)) {
                Ok(s) => json!({"Ok": hexbytes(s.as_bytes())}),
                Err(_) => json!("Err"),
            });
            let mut exp = vec![];
            match seg_of(l, *a as u128) {
                None => exp.push(json!("Err")),
                Some(s) => {
                    match cstring_at(s, *a as u128) {
                        // the function returns &str: bytes that are not UTF-8 cannot be returned
                        Some(b) if std::str::from_utf8(b).is_ok() => exp.push(json!({"Ok": hexbytes(b)})),
                        _ => exp.push(json!("Err")),
                    }
                    // the property speaks about read-only segments only: in a writable one a refusal is acceptable too
                    if s.w && exp[0] != json!("Err") { exp.push(json!("Err")); }
                }
            }
            (obs, exp)
        }
        Query::AddrWriteable { a } => {
            let obs = guarded(&|| flag(img.is_address_writeable(&addr(*a))));
            (obs, vec![match seg_of(l, *a as u128) { Some(s) => json!({"Ok": s.w}), None => json!("Err") }])
        }
        Query::IntervalReadable { a, e } => {
            let obs = guarded(&|| flag(img.is_interval_readable(*a, *e)));
            (obs, vec![match seg_of(l, *a as u128) { Some(s) if *e as u128 <= seg_end(s) => json!({"Ok": s.r}), _ => json!("Err") }])
        }
        Query::IntervalWriteable { a, e } => {
            let obs = guarded(&|| flag(img.is_interval_writeable(*a, *e)));
            (obs, vec![match seg_of(l, *a as u128) { Some(s) if *e as u128 <= seg_end(s) => json!({"Ok": s.w}), _ => json!("Err") }])
        }
        Query::RoPtr { a } => {
            let obs = guarded(&|| match img.get_ro_data_pointer_at_address(&addr(*a)) {
                Ok((b, i)) => json!({"Ok": {"bytes": hexbytes(b), "index": i}}),
                Err(_) => json!("Err"),
            });
            (obs, vec![match seg_of(l, *a as u128) {
                Some(s) if !s.w => json!({"Ok": {"bytes": hexbytes(&s.bytes), "index": *a - s.base}}),
                _ => json!("Err"),
            }])
        }
    }
}

fn check(l: &Layout, q: &Query) -> Option<Value> {
    let (obs, exp) = eval(l, q);
    if exp.contains(&obs) { return None; }
    let mut input = query_json(q);
    let lay = layout_json(l);
    input["little_endian"] = lay["little_endian"].clone();
    input["segments"] = lay["segments"].clone();
    Some(json!({"input": input, "observed": obs, "expected": if exp.len() == 1 { exp[0].clone() } else { json!({"one_of": exp}) }}))
}

// ---------------- layouts and queries ----------------------------------------------------------------------------
fn seg(base: u64, bytes: &[u8], f: &str) -> Seg {
    let f = f.as_bytes();
    Seg { base, bytes: bytes.to_vec(), r: f[0] == b'r', w: f[1] == b'w', x: f[2] == b'x' }
}
fn fixed_layouts() -> Vec<Layout> {
    let mut base = vec![
        vec![seg(0x1000, b"ab\0", "r--"), seg(0x1003, b"cd\0", "r--")],                        // adjacent
        vec![seg(0x1003, b"cd\0", "r--"), seg(0x1000, b"ab\0", "r--")],                        // adjacent, reversed vector order
        vec![seg(0x1000, b"ab\0", "r--"), seg(0x1004, b"cd\0", "r--")],                        // gap of one byte
        vec![seg(0x1000, b"abcd", "r-x"), seg(0x1004, b"ef\0g", "rw-"), seg(0x1008, b"\0hi\0", "r--")], // ro | rw | ro adjacent
        vec![seg(0, b"\x01\x02\x03\x04", "r--"), seg(u64::MAX - 4, b"wxyz", "r--")],         // bottom and top of the address space
        vec![seg(0x2000, b"", "r--"), seg(0x2000, b"xy\0", "r--")],                            // an empty segment at the start of another
        vec![seg(0x3000, b"\x80\xff\0ok\0", "r--")],                                           // not UTF-8
    ];
    let mut out = vec![];
    for segs in base.drain(..) {
        for le in [true, false] { out.push(Layout { segs: segs.clone(), le }); }
    }
    out
}
fn random_layout(rng: &mut Rng) -> Layout {
    const ALPHABET: &[u8] = &[0, 0, b'a', b'b', b'c', b'd', b'e', 0x7f, 0x80, 0xff, 0xc3, 0xa9];
    let n = 1 + rng.next() % 4;
    let starts = [0u64, 1, 0x1000, 0xffff_fff8, 0x7fff_ffff_ffff_fff8, u64::MAX - 80];
    let mut cur = starts[(rng.next() % starts.len() as u64) as usize];
    let mut segs = vec![];
    for _ in 0..n {
        let gap = [0u64, 0, 0, 1, 2, 7][(rng.next() % 6) as usize];
        let len = match rng.next() % 16 { 0 => 0, 1 => 9 + rng.next() % 9, _ => 1 + rng.next() % 6 };
        if cur as u128 + gap as u128 + len as u128 > u64::MAX as u128 { break; }
        let base = cur + gap;
        let mut bytes: Vec<u8> = (0..len).map(|_| if rng.next() % 8 == 0 { (rng.next() & 0xff) as u8 } else { ALPHABET[(rng.next() % ALPHABET.len() as u64) as usize] }).collect();
        if len > 0 && rng.next() % 3 == 0 { let k = bytes.len() - 1; bytes[k] = b'z'; } // string running into the segment end
        let f = rng.next();
        segs.push(Seg { base, bytes, r: f & 1 != 0 || f & 8 != 0, w: f & 2 != 0, x: f & 4 != 0 });
        cur = base + len;
    }
    // shuffle the vector order (the lookup is a linear scan)
    for i in (1..segs.len()).rev() { let j = (rng.next() % (i as u64 + 1)) as usize; segs.swap(i, j); }
    let l = Layout { segs, le: rng.next() % 2 == 0 };
    assert!(valid(&l));
    l
}
/// all addresses within +-2 of every segment start and end
fn boundary_addresses(l: &Layout) -> Vec<u64> {
    let mut v = vec![];
    for s in &l.segs {
        for p in [s.base as u128, seg_end(s)] {
            for d in -2i128..=2 {
                let a = p as i128 + d;
                if a >= 0 && a <= u64::MAX as i128 { v.push(a as u64); }
            }
        }
    }
    v.sort();
    v.dedup();
    v
}
fn queries(twin: &str, case: Option<&str>, l: &Layout) -> Vec<Query> {
    let addrs = boundary_addresses(l);
    let want = |name: &str| case.map_or(true, |c| c == name);
    let mut q = vec![];
    for &a in &addrs {
        match twin {
            "c19.read" => {
                if want("read") {
                    let mut sizes: Vec<u64> = vec![1, 2, 3, 4, 5, 8, 16];
                    for s in &l.segs { let n = s.bytes.len() as u64; for m in [n.saturating_sub(1), n, n + 1] { if (1..=16).contains(&m) { sizes.push(m); } } }
                    sizes.sort(); sizes.dedup();
                    for size in sizes { q.push(Query::Read { a, size }); }
                }
                if want("is_global_memory_address") {
                    for width in [8u32, 16, 24, 32, 64] { if (a as u128) <= mask(width) { q.push(Query::IsGlobal { a, width }); } }
                }
            }
            "c19.read_string" => q.push(Query::ReadString { a }),
            "c19.flags" => {
                if want("is_address_writeable") { q.push(Query::AddrWriteable { a }); }
                if want("get_ro_data_pointer_at_address") { q.push(Query::RoPtr { a }); }
                for &e in &addrs {
                    if want("is_interval_readable") { q.push(Query::IntervalReadable { a, e }); }
                    if want("is_interval_writeable") { q.push(Query::IntervalWriteable { a, e }); }
                }
            }
            _ => {}
        }
    }
    q
}

const RANDOM_LAYOUTS: usize = 4000;

/// runs the whole space; returns (evaluations, disagreements, first disagreement); stops at the first one if `stop`
fn run(twin: &str, case: Option<&str>, seed: u64, stop: bool) -> (u64, u64, Option<Value>) {
    let hook = std::panic::take_hook();
    std::panic::set_hook(Box::new(|_| {}));
    let mut rng = Rng(seed);
    let (mut evals, mut bad, mut first) = (0u64, 0u64, None);
    let mut layouts = fixed_layouts();
    for _ in 0..RANDOM_LAYOUTS { layouts.push(random_layout(&mut rng)); }
    'outer: for l in &layouts {
        debug_assert!(valid(l));
        for q in queries(twin, case, l) {
            evals += 1;
            if let Some(v) = check(l, &q) {
                bad += 1;
                if first.is_none() { first = Some(v); }
                if stop { break 'outer; }
            }
        }
    }
    std::panic::set_hook(hook);
    (evals, bad, first)
}

pub fn search(twin: &str, case: Option<&str>, seed: u64) -> Option<Value> {
    run(twin, case, seed, true).2
}

pub fn replay(twin: &str, input: &Value) -> Value {
    let _ = twin;
    let l = layout_from(input);
    let q = match query_from(input) { Some(q) => q, None => return json!({"agrees": true, "input": input, "note": "unknown query"}) };
    if !valid(&l) { return json!({"agrees": true, "input": input, "note": "layout is not a set of disjoint segments: outside the property"}); }
    let hook = std::panic::take_hook();
    std::panic::set_hook(Box::new(|_| {}));
    let r = check(&l, &q);
    std::panic::set_hook(hook);
    match r {
        Some(v) => json!({"agrees": false, "observed": v["observed"], "expected": v["expected"], "input": input}),
        None => json!({"agrees": true, "input": input}),
    }
}

/// whole search space, counting evaluations and disagreements
pub fn sweep(twin: &str, seed: u64) -> Value {
    let (evals, bad, first) = run(twin, None, seed, false);
    json!({"twin": twin, "evaluations": evals, "disagreements": bad, "first": first})
}
