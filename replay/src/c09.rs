//! C09 twin: basic normalization (`Project::normalize_basic`), run on the REAL crate.
//!
//!   "Basic normalization establishes the IR invariants analyses rely on.  For every program as the P-Code extractor may emit
//!    it (jumps and calls to nonexistent targets, non-entry blocks shared between functions, duplicate identifiers, calls to
//!    non-returning functions, empty functions), basic normalization yields a program in which all term identifiers are
//!    unique, every function still starts with its original entry block, every direct jump, call and return target exists,
//!    and every intraprocedural target is a block of the same function.  Calls to non-returning functions return to the
//!    caller's artificial sink, and building the control flow graph of the result never fails."
//!
//! BOUNDED (seeded random + fixed malformed programs; never counted as proof).  The real `normalize_basic` is run inside
//! `catch_unwind`, then a STRAIGHTFORWARD CHECKER written from the property statement is run on the result:
//!   no-panic   normalize_basic returns
//!   unique     program / sub / block / def / jmp tids of the result are pairwise different
//!   subs       the result has exactly the functions of the input plus the artificial sink function
//!   entry      every function of the input that has blocks still starts with a block carrying the tid of its original first block
//!   targets    every Branch / CBranch target, every return target of Call / CallInd / CallOther and every indirect-jump
//!              target hint is the tid of a block of the result; every Call target is the tid of a function or an extern symbol
//!   intra      ... and that block is listed in the SAME function
//!   noreturn   a `Call { target, return_: Some(r) }` in function f (not the artificial sink function) whose target is an extern
//!              symbol flagged no_return, or a function of the result without any Return jump, has
//!              r = Tid::artificial_sink_block("_" + f), and f lists a block with that tid
//!   cfg        `get_program_cfg` on the result does not panic
//!   frame      (beyond the property; the shape of the stage-1 contracts) the blocks the input listed in a function are
//!              still listed there, in order, with their defs and jumps (tids), except terms whose tid occurred earlier
//!
//! Twins:
//!   c09.basic   programs "as the extractor may emit them": separate name spaces for functions / extern symbols / blocks /
//!               instructions, no name that collides with a generated one (artificial sink names, `<tid>_<function tid>`), at
//!               most two jumps per block, the key of a function is its tid, and the ENTRY block of a function does not
//!               carry a tid that occurred earlier (see c09.dupentry).  MUST AGREE on the unchanged tree.
//!   c09.dupentry  like basic, but a duplicate identifier may hit the FIRST block of a function: the duplicate removal then
//!               deletes the entry block ("every function still starts with its original entry block" is violated).
//!   c09.wild    no name-space discipline: jumps to function / extern tids, calls to block tids, names that collide with
//!               generated ones.  Exploration only; disagreements are reported by class.
use crate::util::Rng;
use cwe_checker_lib::analysis::graph::get_program_cfg;
use cwe_checker_lib::intermediate_representation::*;

use serde_json::{json, Value};
use std::collections::{BTreeMap, BTreeSet};
use std::panic::{catch_unwind, AssertUnwindSafe};

#[derive(Clone, Debug, PartialEq)]
enum J {
    Branch(String),
    CBranch(String),
    BranchInd,
    Call(String, Option<String>),
    CallInd(Option<String>),
    CallOther(Option<String>),
    Return,
}

#[derive(Clone, Debug)]
struct B {
    tid: String,
    defs: Vec<String>,
    jmps: Vec<(String, J)>,
    hints: Vec<String>,
}

#[derive(Clone, Debug)]
struct Case {
    subs: Vec<(String, Vec<B>)>,
    /// (tid, no_return)
    externs: Vec<(String, bool)>,
}

fn opt(v: &Value) -> Option<String> {
    v.as_str().map(|s| s.to_string())
}
fn j_to_json(j: &J) -> Value {
    match j {
        J::Branch(t) => json!(["branch", t]),
        J::CBranch(t) => json!(["cbranch", t]),
        J::BranchInd => json!(["branchind"]),
        J::Call(t, r) => json!(["call", t, r]),
        J::CallInd(r) => json!(["callind", r]),
        J::CallOther(r) => json!(["callother", r]),
        J::Return => json!(["return"]),
    }
}
fn j_from_json(v: &Value) -> J {
    match v[0].as_str().unwrap_or("") {
        "branch" => J::Branch(v[1].as_str().unwrap_or("").to_string()),
        "cbranch" => J::CBranch(v[1].as_str().unwrap_or("").to_string()),
        "branchind" => J::BranchInd,
        "call" => J::Call(v[1].as_str().unwrap_or("").to_string(), opt(&v[2])),
        "callind" => J::CallInd(opt(&v[1])),
        "callother" => J::CallOther(opt(&v[1])),
        _ => J::Return,
    }
}
fn strs(v: &Value) -> Vec<String> {
    v.as_array().map(|a| a.iter().map(|s| s.as_str().unwrap_or("").to_string()).collect()).unwrap_or_default()
}

impl Case {
    fn to_json(&self) -> Value {
        json!({
            "fn": "normalize_basic",
            "subs": self.subs.iter().map(|(n, bs)| json!({"tid": n, "blocks": bs.iter().map(|b| json!({
                "tid": b.tid, "defs": b.defs,
                "jmps": b.jmps.iter().map(|(t, j)| json!([t, j_to_json(j)])).collect::<Vec<_>>(),
                "hints": b.hints})).collect::<Vec<_>>()})).collect::<Vec<_>>(),
            "externs": self.externs.iter().map(|(t, n)| json!([t, n])).collect::<Vec<_>>(),
        })
    }
    fn from_json(v: &Value) -> Case {
        Case {
            subs: v["subs"].as_array().map(|a| a.iter().map(|s| {
                (s["tid"].as_str().unwrap_or("").to_string(),
                 s["blocks"].as_array().map(|bs| bs.iter().map(|b| B {
                    tid: b["tid"].as_str().unwrap_or("").to_string(),
                    defs: strs(&b["defs"]),
                    jmps: b["jmps"].as_array().map(|x| x.iter().map(|e| (e[0].as_str().unwrap_or("").to_string(), j_from_json(&e[1]))).collect()).unwrap_or_default(),
                    hints: strs(&b["hints"]),
                 }).collect()).unwrap_or_default())
            }).collect()).unwrap_or_default(),
            externs: v["externs"].as_array().map(|a| a.iter().map(|e| (e[0].as_str().unwrap_or("").to_string(), e[1].as_bool().unwrap_or(false))).collect()).unwrap_or_default(),
        }
    }

    fn block_term(b: &B) -> Term<Blk> {
        let e = || Expression::Const(Bitvector::from_u64(0));
        let var = Variable { name: "RAX".to_string(), size: ByteSize::new(8), is_temp: false };
        let defs = b.defs.iter().map(|t| Term { tid: Tid::new(t), term: Def::Assign { var: var.clone(), value: Expression::Const(Bitvector::from_u64(1)) } }).collect();
        let jmps = b.jmps.iter().map(|(t, j)| Term {
            tid: Tid::new(t),
            term: match j {
                J::Branch(t) => Jmp::Branch(Tid::new(t)),
                J::CBranch(t) => Jmp::CBranch { target: Tid::new(t), condition: e() },
                J::BranchInd => Jmp::BranchInd(e()),
                J::Call(t, r) => Jmp::Call { target: Tid::new(t), return_: r.as_ref().map(Tid::new) },
                J::CallInd(r) => Jmp::CallInd { target: e(), return_: r.as_ref().map(Tid::new) },
                J::CallOther(r) => Jmp::CallOther { description: "other".to_string(), return_: r.as_ref().map(Tid::new) },
                J::Return => Jmp::Return(e()),
            },
        }).collect();
        Term { tid: Tid::new(&b.tid), term: Blk { defs, jmps, indirect_jmp_targets: b.hints.iter().map(Tid::new).collect() } }
    }

    fn project(&self) -> Project {
        let mut subs = BTreeMap::new();
        for (name, bs) in &self.subs {
            let blocks = bs.iter().map(Case::block_term).collect();
            subs.insert(Tid::new(name), Term { tid: Tid::new(name), term: Sub { name: name.clone(), blocks, calling_convention: None } });
        }
        let mut extern_symbols = BTreeMap::new();
        for (x, no_return) in &self.externs {
            extern_symbols.insert(Tid::new(x), ExternSymbol {
                tid: Tid::new(x), addresses: Vec::new(), name: x.clone(), calling_convention: None,
                parameters: Vec::new(), return_values: Vec::new(), no_return: *no_return, has_var_args: false,
            });
        }
        let program = Program { subs, extern_symbols, entry_points: BTreeSet::new(), address_base_offset: 0 };
        Project {
            program: Term { tid: Tid::new("prog"), term: program },
            cpu_architecture: "x86_64".to_string(),
            stack_pointer_register: Variable { name: "RSP".to_string(), size: ByteSize::new(8), is_temp: false },
            calling_conventions: BTreeMap::new(),
            register_set: BTreeSet::new(),
            datatype_properties: DatatypeProperties {
                char_size: ByteSize::new(1), double_size: ByteSize::new(8), float_size: ByteSize::new(4), integer_size: ByteSize::new(4),
                long_double_size: ByteSize::new(8), long_long_size: ByteSize::new(8), long_size: ByteSize::new(8),
                pointer_size: ByteSize::new(8), short_size: ByteSize::new(2),
            },
            runtime_memory_image: RuntimeMemoryImage::empty(true),
        }
    }
}

// ---- the checker, from the property statement --------------------------------------------------------------------------

fn jump_targets(j: &Jmp) -> (Option<&Tid>, Option<&Tid>, Option<&Tid>) {
    // (intraprocedural target, call target, return target)
    match j {
        Jmp::Branch(t) => (Some(t), None, None),
        Jmp::CBranch { target, .. } => (Some(target), None, None),
        Jmp::BranchInd(_) | Jmp::Return(_) => (None, None, None),
        Jmp::Call { target, return_ } => (None, Some(target), return_.as_ref()),
        Jmp::CallInd { return_, .. } => (None, None, return_.as_ref()),
        Jmp::CallOther { return_, .. } => (None, None, return_.as_ref()),
    }
}

/// every violated clause, as (clause name, description)
fn violations(case: &Case, input: &Project, result: &Project) -> Vec<(String, String)> {
    let mut out: Vec<(String, String)> = Vec::new();
    let prog = &result.program;
    // unique
    let mut seen: BTreeSet<Tid> = BTreeSet::new();
    let dup = |t: &Tid, seen: &mut BTreeSet<Tid>| -> bool { !seen.insert(t.clone()) };
    if dup(&prog.tid, &mut seen) {
        out.push(("unique".into(), format!("{}", prog.tid)));
    }
    for sub in prog.term.subs.values() {
        if dup(&sub.tid, &mut seen) {
            out.push(("unique".into(), format!("function {}", sub.tid)));
        }
        for b in &sub.term.blocks {
            if dup(&b.tid, &mut seen) {
                out.push(("unique".into(), format!("block {} in {}", b.tid, sub.tid)));
            }
            for d in &b.term.defs {
                if dup(&d.tid, &mut seen) {
                    out.push(("unique".into(), format!("def {} in {}", d.tid, b.tid)));
                }
            }
            for j in &b.term.jmps {
                if dup(&j.tid, &mut seen) {
                    out.push(("unique".into(), format!("jmp {} in {}", j.tid, b.tid)));
                }
            }
        }
    }
    // subs
    let sink_sub = Tid::artificial_sink_sub();
    for k in input.program.term.subs.keys() {
        if !prog.term.subs.contains_key(k) {
            out.push(("subs".into(), format!("function {} is gone", k)));
        }
    }
    for (k, s) in prog.term.subs.iter() {
        if !input.program.term.subs.contains_key(k) && *k != sink_sub {
            out.push(("subs".into(), format!("new function {}", k)));
        }
        if *k != s.tid {
            out.push(("subs".into(), format!("function stored under {} has tid {}", k, s.tid)));
        }
    }
    // entry
    for (k, s0) in input.program.term.subs.iter() {
        if let (Some(b0), Some(s1)) = (s0.term.blocks.first(), prog.term.subs.get(k)) {
            match s1.term.blocks.first() {
                Some(b1) if b1.tid == b0.tid => {}
                other => out.push(("entry".into(), format!("function {} started with {}, now starts with {:?}", k, b0.tid, other.map(|b| format!("{}", b.tid))))),
            }
        }
    }
    // targets / intra / noreturn
    let all_blocks: BTreeSet<&Tid> = prog.term.subs.values().flat_map(|s| s.term.blocks.iter().map(|b| &b.tid)).collect();
    let returns = |s: &Term<Sub>| s.term.blocks.iter().any(|b| b.term.jmps.iter().any(|j| matches!(j.term, Jmp::Return(_))));
    for sub in prog.term.subs.values() {
        let own: BTreeSet<&Tid> = sub.term.blocks.iter().map(|b| &b.tid).collect();
        let sink_blk = Tid::artificial_sink_block(&format!("_{}", sub.tid));
        for b in &sub.term.blocks {
            let mut block_targets: Vec<(&Tid, String)> = Vec::new();
            for j in &b.term.jmps {
                let (intra, call, ret) = jump_targets(&j.term);
                if let Some(t) = intra {
                    block_targets.push((t, format!("target of {}", j.tid)));
                }
                if let Some(t) = ret {
                    block_targets.push((t, format!("return target of {}", j.tid)));
                }
                if let Some(t) = call {
                    if !prog.term.subs.values().any(|s| s.tid == *t) && !prog.term.extern_symbols.contains_key(t) {
                        out.push(("targets".into(), format!("call target {} of {} is no function / extern symbol", t, j.tid)));
                    }
                    if let Some(r) = ret {
                        if sub.tid != sink_sub {
                            let ext_noret = prog.term.extern_symbols.get(t).map(|e| e.no_return).unwrap_or(false);
                            let sub_noret = prog.term.subs.values().any(|s| s.tid == *t && !returns(s));
                            if (ext_noret || sub_noret) && (*r != sink_blk || !own.contains(&sink_blk)) {
                                out.push(("noreturn".into(), format!("call {} in {} to non-returning {} returns to {}", j.tid, sub.tid, t, r)));
                            }
                        }
                    }
                }
            }
            for h in &b.term.indirect_jmp_targets {
                block_targets.push((h, format!("indirect target hint of {}", b.tid)));
            }
            for (t, what) in block_targets {
                if !all_blocks.contains(t) {
                    out.push(("targets".into(), format!("{}: {} is no block", what, t)));
                } else if !own.contains(t) {
                    out.push(("intra".into(), format!("{}: {} is not a block of {}", what, t, sub.tid)));
                }
            }
        }
    }
    // frame: the original blocks, in order, minus later duplicates (tids only)
    {
        let mut known: BTreeSet<String> = BTreeSet::new();
        known.insert("prog".to_string());
        for (k, s1) in prog.term.subs.iter() {
            let Some((name, bs)) = case.subs.iter().find(|(n, _)| Tid::new(n) == *k) else { continue };
            known.insert(name.clone());
            let mut exp: Vec<(String, Vec<String>, Vec<String>)> = Vec::new();
            let mut kept: Vec<&B> = Vec::new();
            for b in bs {
                if known.insert(b.tid.clone()) {
                    kept.push(b);
                }
            }
            for b in kept {
                let defs: Vec<String> = b.defs.iter().filter(|d| known.insert((*d).clone())).cloned().collect();
                let jmps: Vec<String> = b.jmps.iter().filter(|(t, _)| known.insert(t.clone())).map(|(t, _)| t.clone()).collect();
                exp.push((b.tid.clone(), defs, jmps));
            }
            let got: Vec<(String, Vec<String>, Vec<String>)> = s1.term.blocks.iter().take(exp.len()).map(|b| {
                (format!("{}", b.tid), b.term.defs.iter().map(|d| format!("{}", d.tid)).collect(), b.term.jmps.iter().map(|j| format!("{}", j.tid)).collect())
            }).collect();
            if got != exp {
                out.push(("frame".into(), format!("function {}: expected prefix {:?}, got {:?}", k, exp, got)));
            }
        }
    }
    out
}

fn dump(p: &Project) -> Value {
    json!(p.program.term.subs.iter().map(|(k, s)| json!({
        "key": format!("{}", k), "tid": format!("{}", s.tid),
        "blocks": s.term.blocks.iter().map(|b| json!({
            "tid": format!("{}", b.tid),
            "defs": b.term.defs.iter().map(|d| format!("{}", d.tid)).collect::<Vec<_>>(),
            "jmps": b.term.jmps.iter().map(|j| {
                let (i, c, r) = jump_targets(&j.term);
                json!([format!("{}", j.tid), i.map(|t| format!("{}", t)), c.map(|t| format!("{}", t)), r.map(|t| format!("{}", t))])
            }).collect::<Vec<_>>(),
            "hints": b.term.indirect_jmp_targets.iter().map(|t| format!("{}", t)).collect::<Vec<_>>(),
        })).collect::<Vec<_>>()
    })).collect::<Vec<_>>())
}

/// run the real code and the checker; Some(report) when a clause is violated
fn check(case: &Case) -> Option<Value> {
    std::panic::set_hook(Box::new(|_| {}));
    let input = case.project();
    let mut result = input.clone();
    let ok = catch_unwind(AssertUnwindSafe(|| {
        let _ = result.normalize_basic();
    }));
    if ok.is_err() {
        return Some(json!({"input": case.to_json(), "check": "no-panic", "expected": "normalize_basic returns", "got": "panic in normalize_basic"}));
    }
    let mut v = violations(case, &input, &result);
    let cfg_ok = catch_unwind(AssertUnwindSafe(|| {
        let g = get_program_cfg(&result.program);
        g.node_count()
    }));
    if cfg_ok.is_err() {
        v.push(("cfg".into(), "get_program_cfg panics on the normalized program".into()));
    }
    if v.is_empty() {
        None
    } else {
        Some(json!({"input": case.to_json(), "check": v[0].0, "expected": "no clause of the property violated",
                    "got": v.iter().map(|(c, d)| format!("{}: {}", c, d)).collect::<Vec<_>>(), "result": dump(&result)}))
    }
}

// ---- generators ------------------------------------------------------------------------------------------------------------

#[derive(Clone, Copy, PartialEq)]
enum Mode {
    Basic,
    DupEntry,
    Wild,
}

fn pick<'a>(rng: &mut Rng, v: &'a [String]) -> &'a String {
    &v[(rng.next() % v.len() as u64) as usize]
}

fn random_case(rng: &mut Rng, mode: Mode) -> Case {
    let nf = 1 + (rng.next() % 4) as usize;
    let sub_names: Vec<String> = (0..nf).map(|i| format!("sub_{}", i)).collect();
    let ext_names: Vec<String> = (0..(rng.next() % 3)).map(|i| format!("ext_{}", i)).collect();
    let externs: Vec<(String, bool)> = ext_names.iter().map(|n| (n.clone(), rng.next() % 2 == 0)).collect();
    // block name pool: more names than blocks, so that some targets do not exist
    let nb_pool = 2 + (rng.next() % 7) as usize;
    let blk_names: Vec<String> = (0..nb_pool).map(|i| format!("blk_{}", i)).collect();
    let mut subs: Vec<(String, Vec<B>)> = sub_names.iter().map(|n| (n.clone(), Vec::new())).collect();
    let mut used_blocks: Vec<String> = Vec::new();
    let mut used_instr: Vec<String> = Vec::new();
    let mut counter = 0usize;
    for f in 0..nf {
        let nb = match rng.next() % 6 { 0 => 0, 1 | 2 => 1, 3 | 4 => 2, _ => 3 };
        for bi in 0..nb {
            // block tid: mostly a fresh name; sometimes a duplicate of an earlier block (or, wild, of anything)
            let fresh: Vec<String> = blk_names.iter().filter(|n| !used_blocks.contains(n)).cloned().collect();
            let want_dup = rng.next() % 7 == 0 && !used_blocks.is_empty() && (bi > 0 || mode != Mode::Basic);
            let tid = if want_dup || fresh.is_empty() {
                if used_blocks.is_empty() || (bi == 0 && mode == Mode::Basic) {
                    counter += 1;
                    format!("blk_x{}", counter)
                } else {
                    pick(rng, &used_blocks).clone()
                }
            } else {
                pick(rng, &fresh).clone()
            };
            used_blocks.push(tid.clone());
            let mut instr = |rng: &mut Rng, used: &mut Vec<String>| -> String {
                if rng.next() % 9 == 0 && !used.is_empty() {
                    pick(rng, used).clone()
                } else {
                    counter += 1;
                    let t = format!("instr_{}", counter);
                    used.push(t.clone());
                    t
                }
            };
            let defs: Vec<String> = (0..(rng.next() % 3)).map(|_| instr(rng, &mut used_instr)).collect();
            let blk_target = |rng: &mut Rng| -> String {
                match (mode, rng.next() % 12) {
                    (Mode::Wild, 0) => pick(rng, &sub_names).clone(),
                    (Mode::Wild, 1) if !ext_names.is_empty() => pick(rng, &ext_names).clone(),
                    (Mode::Wild, 2) => format!("{}_{}", pick(rng, &blk_names), pick(rng, &sub_names)),
                    (Mode::Wild, 3) => format!("Artificial Sink Block_{}", pick(rng, &sub_names)),
                    (Mode::Wild, 4) => "Artificial Sink Block".to_string(),
                    (_, 5) => "blk_nowhere".to_string(),
                    _ => pick(rng, &blk_names).clone(),
                }
            };
            let ret = |rng: &mut Rng| -> Option<String> { if rng.next() % 4 == 0 { None } else { Some(blk_target(rng)) } };
            let one = |rng: &mut Rng| -> J {
                match rng.next() % 10 {
                    0 | 1 => J::Branch(blk_target(rng)),
                    2 => J::BranchInd,
                    3 | 4 | 5 => {
                        let t = match rng.next() % 8 {
                            0 => "sub_nowhere".to_string(),
                            1 | 2 if !ext_names.is_empty() => pick(rng, &ext_names).clone(),
                            3 if mode == Mode::Wild => pick(rng, &blk_names).clone(),
                            4 if mode == Mode::Wild => "Artificial Sink Sub".to_string(),
                            _ => pick(rng, &sub_names).clone(),
                        };
                        J::Call(t, ret(rng))
                    }
                    6 => J::CallInd(ret(rng)),
                    7 => J::CallOther(ret(rng)),
                    _ => J::Return,
                }
            };
            let js = match rng.next() % 5 {
                0 => vec![],
                1 | 2 | 3 => vec![one(rng)],
                _ => vec![J::CBranch(blk_target(rng)), one(rng)],
            };
            let jmps: Vec<(String, J)> = js.into_iter().map(|j| (instr(rng, &mut used_instr), j)).collect();
            let hints: Vec<String> = (0..(rng.next() % 3)).map(|_| blk_target(rng)).collect();
            subs[f].1.push(B { tid, defs, jmps, hints });
        }
    }
    if mode == Mode::Wild {
        // name collisions of terms of different levels
        if rng.next() % 5 == 0 && !used_blocks.is_empty() {
            let n = pick(rng, &used_blocks).clone();
            let f = (rng.next() % nf as u64) as usize;
            subs[f].0 = n;
        }
        if rng.next() % 5 == 0 && !used_instr.is_empty() {
            let n = pick(rng, &used_instr).clone();
            let f = (rng.next() % nf as u64) as usize;
            if let Some(b) = subs[f].1.last_mut() {
                b.tid = n;
            }
        }
        if rng.next() % 6 == 0 {
            let f = (rng.next() % nf as u64) as usize;
            let g = (rng.next() % nf as u64) as usize;
            let name = format!("{}_{}", pick(rng, &blk_names), sub_names[g]);
            subs[f].1.push(B { tid: name, defs: vec![], jmps: vec![], hints: vec![] });
        }
    }
    Case { subs, externs }
}

fn fixed_cases() -> Vec<Case> {
    let b = |tid: &str, defs: Vec<&str>, jmps: Vec<(&str, J)>, hints: Vec<&str>| B {
        tid: tid.to_string(),
        defs: defs.iter().map(|s| s.to_string()).collect(),
        jmps: jmps.into_iter().map(|(t, j)| (t.to_string(), j)).collect(),
        hints: hints.iter().map(|s| s.to_string()).collect(),
    };
    let s = |x: &str| x.to_string();
    vec![
        // empty program; empty function
        Case { subs: vec![], externs: vec![] },
        Case { subs: vec![(s("sub_0"), vec![])], externs: vec![] },
        // dangling jump, call, return target, hint
        Case {
            subs: vec![(s("sub_0"), vec![
                b("blk_0", vec!["d0"], vec![("j0", J::CBranch(s("blk_9"))), ("j1", J::Call(s("sub_9"), Some(s("blk_1"))))], vec![]),
                b("blk_1", vec![], vec![("j2", J::Call(s("sub_0"), Some(s("blk_8"))))], vec![]),
                b("blk_2", vec![], vec![("j3", J::BranchInd)], vec!["blk_0", "blk_7"]),
                b("blk_3", vec![], vec![("j4", J::CallInd(Some(s("blk_6"))))], vec![]),
                b("blk_4", vec![], vec![("j5", J::CallOther(Some(s("blk_5"))))], vec![]),
            ])],
            externs: vec![],
        },
        // the example of the crate's own unit test: blocks shared through jumps, three functions
        Case {
            subs: vec![
                (s("sub_1"), vec![b("blk_1", vec![], vec![("jmp_blk_1", J::Branch(s("blk_2")))], vec![]), b("blk_2", vec![], vec![("jmp_blk_2", J::Branch(s("blk_1")))], vec![])]),
                (s("sub_2"), vec![b("blk_3", vec![], vec![("jmp_blk_3", J::Branch(s("blk_2")))], vec![])]),
                (s("sub_3"), vec![b("blk_4", vec![], vec![("jmp_blk_4", J::Branch(s("blk_3")))], vec![])]),
            ],
            externs: vec![],
        },
        // duplicate tids on all levels (non-entry block, def, jmp)
        Case {
            subs: vec![
                (s("sub_0"), vec![b("blk_0", vec!["d0", "d0"], vec![("j0", J::Branch(s("blk_1")))], vec![]), b("blk_1", vec!["d1"], vec![("j0", J::Return)], vec![])]),
                (s("sub_1"), vec![b("blk_2", vec!["d1"], vec![("j1", J::Return)], vec![]), b("blk_1", vec![], vec![("j2", J::Return)], vec![]), b("blk_2", vec![], vec![], vec![])]),
            ],
            externs: vec![],
        },
        // calls to a no_return extern, to a function that never returns, to one that does; recursion without return
        Case {
            subs: vec![
                (s("sub_0"), vec![
                    b("blk_0", vec![], vec![("j0", J::Call(s("ext_0"), Some(s("blk_1"))))], vec![]),
                    b("blk_1", vec![], vec![("j1", J::Call(s("sub_1"), Some(s("blk_2"))))], vec![]),
                    b("blk_2", vec![], vec![("j2", J::Call(s("sub_2"), Some(s("blk_3"))))], vec![]),
                    b("blk_3", vec![], vec![("j3", J::Call(s("ext_1"), Some(s("blk_4"))))], vec![]),
                    b("blk_4", vec![], vec![("j4", J::Return)], vec![]),
                ]),
                (s("sub_1"), vec![b("blk_5", vec![], vec![("j5", J::Call(s("sub_1"), Some(s("blk_5"))))], vec![])]),
                (s("sub_2"), vec![b("blk_6", vec![], vec![("j6", J::Return)], vec![])]),
                (s("sub_3"), vec![]),
            ],
            externs: vec![(s("ext_0"), true), (s("ext_1"), false)],
        },
        // a function that returns only through a block it shares with another function
        Case {
            subs: vec![
                (s("sub_0"), vec![b("blk_0", vec![], vec![("j0", J::Call(s("sub_1"), Some(s("blk_1"))))], vec![]), b("blk_1", vec![], vec![("j1", J::Return)], vec![])]),
                (s("sub_1"), vec![b("blk_2", vec![], vec![("j2", J::Branch(s("blk_1")))], vec![])]),
            ],
            externs: vec![],
        },
    ]
}

fn mode_of(twin: &str) -> Option<Mode> {
    match twin {
        "c09.basic" => Some(Mode::Basic),
        "c09.dupentry" => Some(Mode::DupEntry),
        "c09.wild" => Some(Mode::Wild),
        _ => None,
    }
}

/// which features of the property a case exercises (coverage of the generator, reported by `sweep`)
fn features(case: &Case) -> Vec<&'static str> {
    let input = case.project();
    let mut result = input.clone();
    if catch_unwind(AssertUnwindSafe(|| { let _ = result.normalize_basic(); })).is_err() {
        return vec!["panic"];
    }
    let mut f = Vec::new();
    let count = |p: &Project| -> usize { p.program.term.subs.values().map(|s| s.term.blocks.iter().map(|b| 1 + b.term.defs.len() + b.term.jmps.len()).sum::<usize>()).sum() };
    let n_in: usize = count(&input);
    let names = |p: &Project| -> Vec<String> { p.program.term.subs.values().flat_map(|s| s.term.blocks.iter().map(|b| format!("{}", b.tid))).collect() };
    let out_names = names(&result);
    if input.program.term.subs.values().any(|s| s.term.blocks.is_empty()) { f.push("empty-function"); }
    if out_names.iter().any(|n| n.starts_with("blk_") && n.contains("_sub_")) { f.push("block-duplicated"); }
    if out_names.iter().any(|n| n.starts_with("Artificial Sink Block_")) { f.push("sink-block-in-function"); }
    let kept: usize = result.program.term.subs.values().map(|s| s.term.blocks.iter().filter(|b| !format!("{}", b.tid).contains("_sub_") && !format!("{}", b.tid).starts_with("Artificial")).map(|b| 1 + b.term.defs.len() + b.term.jmps.len()).sum::<usize>()).sum();
    if kept < n_in { f.push("duplicate-removed"); }
    let calls_sink_sub = result.program.term.subs.values().any(|s| s.term.blocks.iter().any(|b| b.term.jmps.iter().any(|j| matches!(&j.term, Jmp::Call { target, .. } if target.is_artificial_sink_sub()))));
    if calls_sink_sub { f.push("call-retargeted"); }
    for s in result.program.term.subs.values() {
        let sink = Tid::artificial_sink_block(&format!("_{}", s.tid));
        for b in &s.term.blocks {
            for j in &b.term.jmps {
                if let Jmp::Call { target, return_: Some(r) } = &j.term {
                    if *r == sink && (result.program.term.extern_symbols.get(target).map(|e| e.no_return).unwrap_or(false)) { f.push("noreturn-extern"); }
                    if *r == sink && result.program.term.subs.contains_key(target) { f.push("noreturn-function"); }
                }
            }
        }
    }
    f.sort();
    f.dedup();
    f
}

fn enumerate(mode: Mode, seed: u64, count: &mut u64, disagreements: &mut u64, first_only: bool, classes: &mut BTreeMap<String, u64>) -> Option<Value> {
    let mut first = None;
    let mut rng = Rng(seed);
    let mut cases = fixed_cases();
    for _ in 0..4000 {
        cases.push(random_case(&mut rng, mode));
    }
    for c in cases {
        *count += 1;
        if !first_only {
            for f in features(&c) {
                *classes.entry(format!("feature:{}", f)).or_insert(0) += 1;
            }
        }
        if let Some(v) = check(&c) {
            *disagreements += 1;
            *classes.entry(v["check"].as_str().unwrap_or("").to_string()).or_insert(0) += 1;
            if first.is_none() {
                first = Some(v);
            }
            if first_only {
                return first;
            }
        }
    }
    first
}

pub fn search(twin: &str, _case: Option<&str>, seed: u64) -> Option<Value> {
    let mode = mode_of(twin)?;
    let (mut n, mut d) = (0, 0);
    enumerate(mode, seed, &mut n, &mut d, true, &mut BTreeMap::new())
}

pub fn replay(_twin: &str, input: &Value) -> Value {
    let case = Case::from_json(input);
    match check(&case) {
        Some(v) => json!({"agrees": false, "check": v["check"], "expected": v["expected"], "got": v["got"], "result": v["result"], "input": input}),
        None => json!({"agrees": true, "input": input}),
    }
}

pub fn sweep(twin: &str, seed: u64) -> Value {
    let (mut n, mut d) = (0, 0);
    let mut classes = BTreeMap::new();
    let first = match mode_of(twin) {
        Some(mode) => enumerate(mode, seed, &mut n, &mut d, false, &mut classes),
        None => None,
    };
    json!({"twin": twin, "cases": n, "disagreements": d, "classes": classes, "first": first})
}
