//! Executable twins of the public contracts, counterexample search and replay.
//!
//!   verif_replay search <twin> [--case NAME] [--seed N] [--out FILE]
//!       bounded search for an input on which the real function disagrees with the twin
//!       (all 8-bit operands + seeded wider samples); prints a JSON object, `{"found":false}` if none.
//!   verif_replay run <file.json>
//!       re-executes the `input` of a replay file against the real crate; exit 1 if it (still) fails.
//!   verif_replay sweep <twin> [--seed N]
//!       assumption check of the shim formulas (thorough tier); prints counts.
//!
//! The twins are plain Rust over u128/i128 and are written from the property statements
//! (P-Code semantics, gamma / inv of intervals, segment lookup), not from the code under test.
mod c01;
mod c02;
mod c03b;
mod c05;
mod c06;
mod c07;
mod c07b;
mod c08;
mod c09;
mod c11;
mod c10;
mod c16;
mod c17;
mod c18;
mod c19;
mod c20;
mod c22;
mod c24;
mod c25;
mod util;

use serde_json::{json, Value};

fn main() {
    let args: Vec<String> = std::env::args().collect();
    if args.len() < 3 {
        eprintln!("usage: verif_replay search|run|sweep ...");
        std::process::exit(2);
    }
    let get = |flag: &str| -> Option<String> {
        args.iter().position(|a| a == flag).and_then(|i| args.get(i + 1).cloned())
    };
    let seed: u64 = get("--seed").and_then(|s| s.parse().ok()).unwrap_or(1);
    match args[1].as_str() {
        "search" => {
            let twin = args[2].as_str();
            let case = get("--case");
            let res = search(twin, case.as_deref(), seed);
            let out = match res {
                Some(mut v) => {
                    // `known_only`: nothing but hits of a class recorded in known_findings.txt (the check prints them)
                    v["found"] = json!(v.get("known_only").is_none());
                    v["twin"] = json!(twin);
                    v
                }
                None => json!({"found": false, "twin": twin}),
            };
            println!("{}", out);
        }
        "run" => {
            let text = std::fs::read_to_string(&args[2]).expect("cannot read replay file");
            let v: Value = serde_json::from_str(&text).expect("replay file is not JSON");
            let twin = v["twin"].as_str().unwrap_or("").to_string();
            let input = &v["input"];
            if input.is_null() {
                println!("replay file carries no input (no-failing-input-found); obligation: {}", v["obligation"]);
                std::process::exit(0);
            }
            let r = replay(&twin, input);
            println!("{}", r);
            std::process::exit(if r["agrees"].as_bool().unwrap_or(false) { 0 } else { 1 });
        }
        "sweep" => {
            let twin = args[2].as_str();
            let r = sweep(twin, seed);
            println!("{}", r);
            std::process::exit(if r["disagreements"].as_u64().unwrap_or(1) == 0 { 0 } else { 1 });
        }
        _ => {
            eprintln!("unknown command");
            std::process::exit(2);
        }
    }
}

fn search(twin: &str, case: Option<&str>, seed: u64) -> Option<Value> {
    if c03b::handles(twin) {
        // c03.data_merge, c03.domain_map, c04.data_bounds, c04.data_intersect: before the generic c02./c03./c04. prefixes
        c03b::search(twin, case, seed)
    } else if twin.starts_with("c01.") {
        c01::search(twin, case, seed)
    } else if twin.starts_with("c02.") || twin.starts_with("c03.") || twin.starts_with("c04.") {
        c02::search(twin, case, seed)
    } else if twin.starts_with("c05.") {
        c05::search(twin, case, seed)
    } else if twin.starts_with("c06.") {
        c06::search(twin, case, seed)
    } else if twin.starts_with("c07b.") {
        c07b::search(twin, case, seed)
    } else if twin.starts_with("c07.") {
        c07::search(twin, case, seed)
    } else if twin.starts_with("c18.") {
        c18::search(twin, case, seed)
    } else if twin.starts_with("c19.") {
        c19::search(twin, case, seed)
    } else if twin.starts_with("c09.") {
        c09::search(twin, case, seed)
    } else if twin.starts_with("c10.") {
        c10::search(twin, case, seed)
    } else if twin.starts_with("c08.") {
        c08::search(twin, case, seed)
    } else if twin.starts_with("c11.") {
        c11::search(twin, case, seed)
    } else if twin.starts_with("c20.") {
        c20::search(twin, case, seed)
    } else if twin.starts_with("c22.") {
        c22::search(twin, case, seed)
    } else if twin.starts_with("c24.") {
        c24::search(twin, case, seed)
    } else if twin.starts_with("c25.") {
        c25::search(twin, case, seed)
    } else if twin.starts_with("c16.") {
        c16::search(twin, case, seed)
    } else if twin.starts_with("c17.") {
        c17::search(twin, case, seed)
    } else {
        None
    }
}

fn replay(twin: &str, input: &Value) -> Value {
    if c03b::handles(twin) {
        // c03.data_merge, c03.domain_map, c04.data_bounds, c04.data_intersect: before the generic c02./c03./c04. prefixes
        c03b::replay(twin, input)
    } else if twin.starts_with("c01.") {
        c01::replay(twin, input)
    } else if twin.starts_with("c02.") || twin.starts_with("c03.") || twin.starts_with("c04.") {
        c02::replay(twin, input)
    } else if twin.starts_with("c05.") {
        c05::replay(twin, input)
    } else if twin.starts_with("c06.") {
        c06::replay(twin, input)
    } else if twin.starts_with("c07b.") {
        c07b::replay(twin, input)
    } else if twin.starts_with("c07.") {
        c07::replay(twin, input)
    } else if twin.starts_with("c18.") {
        c18::replay(twin, input)
    } else if twin.starts_with("c19.") {
        c19::replay(twin, input)
    } else if twin.starts_with("c09.") {
        c09::replay(twin, input)
    } else if twin.starts_with("c10.") {
        c10::replay(twin, input)
    } else if twin.starts_with("c08.") {
        c08::replay(twin, input)
    } else if twin.starts_with("c11.") {
        c11::replay(twin, input)
    } else if twin.starts_with("c20.") {
        c20::replay(twin, input)
    } else if twin.starts_with("c22.") {
        c22::replay(twin, input)
    } else if twin.starts_with("c24.") {
        c24::replay(twin, input)
    } else if twin.starts_with("c25.") {
        c25::replay(twin, input)
    } else if twin.starts_with("c16.") {
        c16::replay(twin, input)
    } else if twin.starts_with("c17.") {
        c17::replay(twin, input)
    } else {
        json!({"agrees": true, "note": "unknown twin"})
    }
}

fn sweep(twin: &str, seed: u64) -> Value {
    if c03b::handles(twin) {
        // c03.data_merge, c03.domain_map, c04.data_bounds, c04.data_intersect: before the generic c02./c03./c04. prefixes
        c03b::sweep(twin, seed)
    } else if twin.starts_with("c01.") {
        c01::sweep(twin, seed)
    } else if twin.starts_with("c02.") || twin.starts_with("c03.") || twin.starts_with("c04.") {
        c02::sweep(twin, seed)
    } else if twin.starts_with("c05.") {
        c05::sweep(twin, seed)
    } else if twin.starts_with("c06.") {
        c06::sweep(twin, seed)
    } else if twin.starts_with("c07b.") {
        c07b::sweep(twin, seed)
    } else if twin.starts_with("c07.") {
        c07::sweep(twin, seed)
    } else if twin.starts_with("c18.") {
        c18::sweep(twin, seed)
    } else if twin.starts_with("c19.") {
        c19::sweep(twin, seed)
    } else if twin.starts_with("c09.") {
        c09::sweep(twin, seed)
    } else if twin.starts_with("c10.") {
        c10::sweep(twin, seed)
    } else if twin.starts_with("c08.") {
        c08::sweep(twin, seed)
    } else if twin.starts_with("c11.") {
        c11::sweep(twin, seed)
    } else if twin.starts_with("c20.") {
        c20::sweep(twin, seed)
    } else if twin.starts_with("c22.") {
        c22::sweep(twin, seed)
    } else if twin.starts_with("c24.") {
        c24::sweep(twin, seed)
    } else if twin.starts_with("c25.") {
        c25::sweep(twin, seed)
    } else if twin.starts_with("c16.") {
        c16::sweep(twin, seed)
    } else if twin.starts_with("c17.") {
        c17::sweep(twin, seed)
    } else {
        json!({"evaluations": 0, "disagreements": 0})
    }
}
