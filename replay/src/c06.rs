//! C06 -- string abstractions over-approximate the strings they describe.
//!
//! Bounded concretisation over a small alphabet, comparing the REAL functions of
//! `abstract_domain/character_inclusion.rs` and `abstract_domain/bricks*.rs` against enumeration.
//! Values are built through the types' own `Deserialize` impls (the brick type is private to the crate) and are
//! echoed in replay files in exactly that JSON form.
//!
//!   c06.ci_merge      gamma(a) u gamma(b)  <=  gamma(a.merge(b))                  CharacterInclusionDomain
//!   c06.ci_append     s in gamma(a), t in gamma(b)  ==>  s+t in gamma(a.append(b))
//!   c06.br_brick      BrickDomain::merge / widen: gamma(a) u gamma(b) <= gamma(result)
//!   c06.br_append     BricksDomain::append_string_domain: concatenations are represented
//!   c06.br_normalize  BricksDomain::normalize: gamma(normalize(x)) == gamma(x) (both inclusions), and it returns
//!   c06.br_widen      BricksDomain::widen: gamma(a) u gamma(b) <= gamma(a.widen(b))
//!   c06.br_merge      BricksDomain::merge: gamma(a) u gamma(b) <= gamma(a.merge(b)), and it returns
//!   c06.br_loop       the fixpoint iteration of a string-building loop, through the public constructors only:
//!                     x = from(p); repeat n times { x = x.merge(&x.append_string_domain(&from(s))) }; p s^k stays represented
//!
//! The concretisations are written from the module documentation and Costantini et al., "Static Analysis of String
//! Values": CI  Value(certain, possible) = { s | certain <= chars(s) <= possible };  brick [S]^{min,max} = all
//! concatenations of k strings of S with min <= k <= max; a brick list = concatenation of one member per brick; Top = all.
//! Bricks twins: a wrong result, a panic of the real function and a call that does not return within the time limit (`hangs`;
//! the bounded stand-in for termination, run in a child process that the parent kills) are all disagreements.  Top operands of
//! widen / normalize (the documented unwrap_value panic) are not generated.  Both classes were real once: before /repo commit
//! 8a58ccd normalize did not terminate (rule 4 / rule 5 ping-pong) and rule 4 overflowed u32 (seeded/findings/C06-*.json).
//! Character-inclusion twins: `panics` (merge of values whose certain set is `Top`, CharacterSet::intersection's documented
//! panic) are counted separately and are not disagreements.
use crate::util::Rng;
use cwe_checker_lib::abstract_domain::{
    AbstractDomain, BrickDomain, BricksDomain, CharacterInclusionDomain, CharacterSet, DomainInsertion,
};
use serde_json::{json, Value};
use std::collections::BTreeSet;
use std::panic::{catch_unwind, AssertUnwindSafe};
use std::sync::mpsc;
use std::time::Duration;

// =====================================================================================================================
// shared: strings over a small alphabet, running a real function with panic / time-out capture
// =====================================================================================================================

/// all strings over `alphabet` of length <= max_len
fn all_strings(alphabet: &[char], max_len: usize) -> Vec<String> {
    let mut out = vec![String::new()];
    let mut layer = vec![String::new()];
    for _ in 0..max_len {
        let mut next = Vec::new();
        for s in &layer {
            for c in alphabet {
                let mut t = s.clone();
                t.push(*c);
                next.push(t);
            }
        }
        out.extend(next.iter().cloned());
        layer = next;
    }
    out
}

static DIRECT_CALLS: std::sync::atomic::AtomicBool = std::sync::atomic::AtomicBool::new(false);

enum Outcome<T> {
    Done(T),
    Panicked,
    Hung,
}

/// runs `f` on its own thread; a panic is caught, a run longer than `ms` milliseconds is abandoned (the thread leaks)
fn run_limited<T: Send + 'static>(ms: u64, f: impl FnOnce() -> T + Send + 'static) -> Outcome<T> {
    if DIRECT_CALLS.load(std::sync::atomic::Ordering::Relaxed) {
        // child process of a sweep: the parent watches the clock and kills the whole process
        return match catch_unwind(AssertUnwindSafe(f)) {
            Ok(v) => Outcome::Done(v),
            Err(_) => Outcome::Panicked,
        };
    }
    let (tx, rx) = mpsc::channel();
    std::thread::Builder::new()
        .stack_size(16 << 20)
        .spawn(move || {
            let r = catch_unwind(AssertUnwindSafe(f));
            let _ = tx.send(r);
        })
        .expect("cannot spawn");
    match rx.recv_timeout(Duration::from_millis(ms)) {
        Ok(Ok(v)) => Outcome::Done(v),
        Ok(Err(_)) => Outcome::Panicked,
        Err(_) => Outcome::Hung,
    }
}

fn quiet_panics() {
    if std::env::var("C06_LOUD").is_ok() {
        return;
    }
    std::panic::set_hook(Box::new(|_| {}));
}

// =====================================================================================================================
// character inclusion
// =====================================================================================================================

const CI_ALPHABET: [char; 3] = ['a', 'b', 'c'];

fn ci_set_has(set: &CharacterSet, c: char) -> bool {
    match set {
        CharacterSet::Top => true,
        CharacterSet::Value(v) => v.contains(&c),
    }
}

/// certain <= chars(s) <= possible.  A `Top` certain set ("all allowed characters") is contained in chars(s) for no
/// (finite) string; over the bounded universe this is decided with one character outside the test alphabet.
fn ci_gamma(d: &CharacterInclusionDomain, s: &str) -> bool {
    match d {
        CharacterInclusionDomain::Top => true,
        CharacterInclusionDomain::Value((certain, possible)) => {
            let chars: BTreeSet<char> = s.chars().collect();
            let certain_ok = match certain {
                CharacterSet::Top => false,
                CharacterSet::Value(v) => v.iter().all(|c| chars.contains(c)),
            };
            certain_ok && chars.iter().all(|c| ci_set_has(possible, *c))
        }
    }
}

fn ci_sets() -> Vec<CharacterSet> {
    let mut out = vec![CharacterSet::Top];
    for mask in 0..8u32 {
        let set: BTreeSet<char> = CI_ALPHABET.iter().enumerate().filter(|(i, _)| mask >> i & 1 == 1).map(|(_, c)| *c).collect();
        out.push(CharacterSet::Value(set));
    }
    out
}

fn ci_values() -> Vec<CharacterInclusionDomain> {
    let mut out = vec![CharacterInclusionDomain::Top];
    for certain in ci_sets() {
        for possible in ci_sets() {
            out.push(CharacterInclusionDomain::Value((certain.clone(), possible.clone())));
        }
    }
    out
}

/// one pair of values; `Some(disagreement)` / panic flag
fn ci_check(twin: &str, a: &CharacterInclusionDomain, b: &CharacterInclusionDomain) -> (Option<Value>, bool) {
    let (a2, b2) = (a.clone(), b.clone());
    let is_merge = twin == "c06.ci_merge";
    let result = catch_unwind(AssertUnwindSafe(|| if is_merge { a2.merge(&b2) } else { a2.append_string_domain(&b2) }));
    let r = match result {
        Ok(r) => r,
        Err(_) => return (None, true),
    };
    let input = json!({"a": serde_json::to_value(a).unwrap(), "b": serde_json::to_value(b).unwrap()});
    if is_merge {
        for s in all_strings(&CI_ALPHABET, 4) {
            if (ci_gamma(a, &s) || ci_gamma(b, &s)) && !ci_gamma(&r, &s) {
                return (
                    Some(json!({"input": input, "expected": format!("the string {:?} (member of an input) is represented by the merge", s),
                        "got": serde_json::to_value(&r).unwrap()})),
                    false,
                );
            }
        }
    } else {
        let strings = all_strings(&CI_ALPHABET, 3);
        for s in strings.iter().filter(|s| ci_gamma(a, s)) {
            for t in strings.iter().filter(|t| ci_gamma(b, t)) {
                let st = format!("{}{}", s, t);
                if !ci_gamma(&r, &st) {
                    return (
                        Some(json!({"input": input, "expected": format!("the concatenation {:?} + {:?} is represented by the result", s, t),
                            "got": serde_json::to_value(&r).unwrap()})),
                        false,
                    );
                }
            }
        }
    }
    (None, false)
}

fn ci_sweep(twin: &str) -> (u64, u64, u64, Option<Value>) {
    let vals = ci_values();
    let (mut cases, mut bad, mut panics, mut first) = (0u64, 0u64, 0u64, None);
    for a in &vals {
        for b in &vals {
            cases += 1;
            let (d, p) = ci_check(twin, a, b);
            if p {
                panics += 1;
            }
            if let Some(d) = d {
                bad += 1;
                if first.is_none() {
                    first = Some(d);
                }
            }
        }
    }
    (cases, bad, panics, first)
}

// =====================================================================================================================
// dispatch
// =====================================================================================================================

pub fn search(twin: &str, _case: Option<&str>, seed: u64) -> Option<Value> {
    quiet_panics();
    if twin.starts_with("c06.ci_") {
        ci_sweep(twin).3
    } else {
        let r = br_sweep(twin, seed);
        // a wrong result first, then a call that did not return, then a panic: each is a disagreement
        r.first.or(r.first_hang).or(r.first_panic)
    }
}

pub fn replay(twin: &str, input: &Value) -> Value {
    quiet_panics();
    if twin.starts_with("c06.ci_") {
        let a: CharacterInclusionDomain = match serde_json::from_value(input["a"].clone()) {
            Ok(v) => v,
            Err(e) => return json!({"agrees": true, "note": format!("bad input: {}", e)}),
        };
        let b: CharacterInclusionDomain = match serde_json::from_value(input["b"].clone()) {
            Ok(v) => v,
            Err(e) => return json!({"agrees": true, "note": format!("bad input: {}", e)}),
        };
        let (d, p) = ci_check(twin, &a, &b);
        match d {
            Some(d) => json!({"agrees": false, "expected": d["expected"], "got": d["got"]}),
            None => json!({"agrees": true, "panicked": p}),
        }
    } else {
        br_replay(twin, input)
    }
}

pub fn sweep(twin: &str, seed: u64) -> Value {
    quiet_panics();
    if let Some((real_twin, start)) = twin.split_once("@child@") {
        br_child(real_twin, start.parse().unwrap_or(0), seed);
        return json!({"cases": 0, "disagreements": 0, "child": true});
    }
    if twin.starts_with("c06.ci_") {
        let (cases, bad, panics, first) = ci_sweep(twin);
        json!({"cases": cases, "evaluations": cases, "disagreements": bad, "panics": panics, "first": first})
    } else {
        let r = br_sweep(twin, seed);
        json!({"cases": r.cases, "evaluations": r.cases, "disagreements": r.bad + r.hangs + r.panics, "wrong_results": r.bad, "panics": r.panics, "hangs": r.hangs, "skipped_after_hangs": r.skipped,
            "first": r.first, "first_hang": r.first_hang, "first_panic": r.first_panic})
    }
}

// =====================================================================================================================
// bricks
// =====================================================================================================================

const BR_ALPHABET: [char; 2] = ['a', 'b'];
/// strings up to this length are enumerated for the language comparisons
const BR_MAX_LEN: usize = 6;
/// time limit for one call of the real function
const BR_LIMIT_MS: u64 = 1000;
/// after this many calls that did not return the sweep stops (the rest is counted as skipped)
const BR_MAX_HANGS: u64 = 60;
fn br_max_hangs() -> u64 {
    std::env::var("C06_MAX_HANGS").ok().and_then(|x| x.parse().ok()).unwrap_or(BR_MAX_HANGS)
}

/// model of a brick value, independent of the crate's private `Brick` type
#[derive(Clone, Debug, PartialEq)]
enum MBrick {
    Top,
    Val { seq: BTreeSet<String>, min: u32, max: u32 },
}

fn mbrick_json(b: &MBrick) -> Value {
    match b {
        MBrick::Top => json!("Top"),
        MBrick::Val { seq, min, max } => json!({"Value": {"sequence": seq.iter().collect::<Vec<_>>(), "min": min, "max": max}}),
    }
}
fn mbrick_from(v: &Value) -> Option<MBrick> {
    if v.as_str() == Some("Top") {
        return Some(MBrick::Top);
    }
    let b = v.get("Value")?;
    let seq: BTreeSet<String> = b.get("sequence")?.as_array()?.iter().filter_map(|x| x.as_str().map(|s| s.to_string())).collect();
    Some(MBrick::Val { seq, min: b.get("min")?.as_u64()? as u32, max: b.get("max")?.as_u64()? as u32 })
}
/// model of a brick list value: None = Top
type MBricks = Option<Vec<MBrick>>;
fn mbricks_json(l: &MBricks) -> Value {
    match l {
        None => json!("Top"),
        Some(l) => json!({"Value": l.iter().map(mbrick_json).collect::<Vec<_>>()}),
    }
}
fn mbricks_from(v: &Value) -> Option<MBricks> {
    if v.as_str() == Some("Top") {
        return Some(None);
    }
    let l = v.get("Value")?.as_array()?;
    let mut out = Vec::new();
    for b in l {
        out.push(mbrick_from(b)?);
    }
    Some(Some(out))
}
fn real_brick(b: &MBrick) -> BrickDomain {
    serde_json::from_value(mbrick_json(b)).expect("BrickDomain deserialisation")
}
fn real_bricks(l: &MBricks) -> BricksDomain {
    serde_json::from_value(mbricks_json(l)).expect("BricksDomain deserialisation")
}
fn model_brick(b: &BrickDomain) -> MBrick {
    mbrick_from(&serde_json::to_value(b).unwrap()).expect("BrickDomain serialisation")
}
fn model_bricks(l: &BricksDomain) -> MBricks {
    mbricks_from(&serde_json::to_value(l).unwrap()).expect("BricksDomain serialisation")
}

/// positions reachable in `w` from a position of `from` by reading one member of the brick:
/// [S]^{min,max} = concatenations of k members of S, min <= k <= max;  Top = every string
fn brick_step(b: &MBrick, w: &[u8], from: &[bool]) -> Vec<bool> {
    let n = w.len();
    let mut out = vec![false; n + 1];
    match b {
        MBrick::Top => {
            let mut seen = false;
            for p in 0..=n {
                seen |= from[p];
                out[p] = seen;
            }
        }
        MBrick::Val { seq, min, max } => {
            if min > max {
                return out;
            }
            // more than max(min, |w|) factors are never needed: beyond |w| factors the surplus ones are empty strings
            let kmax = (*max as u64).min((*min as u64).max(n as u64)) as usize;
            let mut cur: Vec<bool> = from.to_vec();
            for k in 0..=kmax {
                if k >= *min as usize {
                    for p in 0..=n {
                        out[p] |= cur[p];
                    }
                }
                if k == kmax {
                    break;
                }
                let mut next = vec![false; n + 1];
                for p in 0..=n {
                    if cur[p] {
                        for s in seq {
                            let sb = s.as_bytes();
                            if p + sb.len() <= n && &w[p..p + sb.len()] == sb {
                                next[p + sb.len()] = true;
                            }
                        }
                    }
                }
                cur = next;
            }
        }
    }
    out
}
fn brick_gamma(b: &MBrick, w: &str) -> bool {
    let mut from = vec![false; w.len() + 1];
    from[0] = true;
    brick_step(b, w.as_bytes(), &from)[w.len()]
}
/// a brick list represents the concatenations of one member of each brick, in order; Top represents every string
fn bricks_gamma(l: &MBricks, w: &str) -> bool {
    match l {
        None => true,
        Some(l) => {
            let mut cur = vec![false; w.len() + 1];
            cur[0] = true;
            for b in l {
                cur = brick_step(b, w.as_bytes(), &cur);
            }
            cur[w.len()]
        }
    }
}

const BR_STRINGS: [&str; 5] = ["", "a", "b", "ab", "ba"];

fn br_random_brick(rng: &mut Rng, normalish: bool) -> MBrick {
    if rng.next() % 12 == 0 {
        return MBrick::Top;
    }
    let mut seq = BTreeSet::new();
    let mask = rng.next() % 32;
    for (i, s) in BR_STRINGS.iter().enumerate() {
        // fewer members than the mask allows: most sets have one or two strings
        if mask >> i & 1 == 1 && (seq.len() < 2 || rng.next() % 4 == 0) {
            seq.insert(s.to_string());
        }
    }
    let (min, max) = if normalish {
        // the shapes the crate's own constructors and a previous normalisation produce
        match rng.next() % 4 {
            0 => (0, 0),
            1 | 2 => (1, 1),
            _ => (0, 1 + (rng.next() % 3) as u32),
        }
    } else {
        let min = (rng.next() % 4) as u32;
        let max = min + (rng.next() % 3) as u32;
        match rng.next() % 24 {
            0 => (0, u32::MAX),
            1 => (min, 9 + (rng.next() % 3) as u32),
            _ => (min, max),
        }
    };
    if min == 0 && max == 0 && rng.next() % 2 == 0 {
        seq.clear();
    }
    MBrick::Val { seq, min, max }
}
fn br_random_list(rng: &mut Rng, normalish: bool, max_bricks: u64) -> MBricks {
    if rng.next() % 16 == 0 {
        return None;
    }
    let n = rng.next() % (max_bricks + 1);
    Some((0..n).map(|_| br_random_brick(rng, normalish)).collect())
}
/// every brick over subsets of {"", a, b, ab} with 0 <= min <= max <= 3, and Top
fn br_all_small_bricks() -> Vec<MBrick> {
    let mut out = vec![MBrick::Top];
    for mask in 0..16u32 {
        let seq: BTreeSet<String> = BR_STRINGS[..4].iter().enumerate().filter(|(i, _)| mask >> i & 1 == 1).map(|(_, s)| s.to_string()).collect();
        for min in 0..=3u32 {
            for max in min..=3u32 {
                out.push(MBrick::Val { seq: seq.clone(), min, max });
            }
        }
    }
    out
}

enum BrVerdict {
    Agrees,
    Disagrees(Value),
    Panicked(Value),
    Hung(Value),
}

fn br_strings() -> Vec<String> {
    all_strings(&BR_ALPHABET, BR_MAX_LEN)
}

/// gamma(a) u gamma(b) <= gamma(r), over the enumerated strings
fn br_union_included(a: &MBricks, b: &MBricks, r: &MBricks) -> Option<String> {
    br_strings().into_iter().find(|w| (bricks_gamma(a, w) || bricks_gamma(b, w)) && !bricks_gamma(r, w))
}

fn br_check(twin: &str, input: &Value) -> BrVerdict {
    match twin {
        "c06.br_brick" => {
            let (a, b) = match (mbrick_from(&input["a"]), mbrick_from(&input["b"])) {
                (Some(a), Some(b)) => (a, b),
                _ => return BrVerdict::Agrees,
            };
            let (ra, rb) = (real_brick(&a), real_brick(&b));
            match run_limited(BR_LIMIT_MS, move || ra.merge(&rb)) {
                Outcome::Done(r) => {
                    let r = model_brick(&r);
                    for w in br_strings() {
                        if (brick_gamma(&a, &w) || brick_gamma(&b, &w)) && !brick_gamma(&r, &w) {
                            return BrVerdict::Disagrees(json!({"input": input, "expected": format!("the string {:?} (member of an input brick) is represented by the merged brick", w), "got": mbrick_json(&r)}));
                        }
                    }
                    BrVerdict::Agrees
                }
                Outcome::Panicked => BrVerdict::Panicked(json!({"input": input, "expected": "a merged brick", "got": "panic"})),
                Outcome::Hung => BrVerdict::Hung(json!({"input": input, "expected": "a merged brick", "got": "no result within the time limit"})),
            }
        }
        "c06.br_append" | "c06.br_widen" | "c06.br_merge" => {
            let (a, b) = match (mbricks_from(&input["a"]), mbricks_from(&input["b"])) {
                (Some(a), Some(b)) => (a, b),
                _ => return BrVerdict::Agrees,
            };
            let (ra, rb) = (real_bricks(&a), real_bricks(&b));
            let which = twin.to_string();
            let out = run_limited(BR_LIMIT_MS, move || match which.as_str() {
                "c06.br_append" => ra.append_string_domain(&rb),
                "c06.br_widen" => ra.widen(&rb),
                _ => ra.merge(&rb),
            });
            match out {
                Outcome::Done(r) => {
                    let r = model_bricks(&r);
                    if twin == "c06.br_append" {
                        let half = all_strings(&BR_ALPHABET, BR_MAX_LEN / 2);
                        for s in half.iter().filter(|s| bricks_gamma(&a, s)) {
                            for t in half.iter().filter(|t| bricks_gamma(&b, t)) {
                                if !bricks_gamma(&r, &format!("{}{}", s, t)) {
                                    return BrVerdict::Disagrees(json!({"input": input, "expected": format!("the concatenation {:?} + {:?} is represented by the result", s, t), "got": mbricks_json(&r)}));
                                }
                            }
                        }
                    } else if let Some(w) = br_union_included(&a, &b, &r) {
                        return BrVerdict::Disagrees(json!({"input": input, "expected": format!("the string {:?} (member of an input) is represented by the result", w), "got": mbricks_json(&r)}));
                    }
                    BrVerdict::Agrees
                }
                Outcome::Panicked => BrVerdict::Panicked(json!({"input": input, "expected": "a brick list", "got": "panic"})),
                Outcome::Hung => BrVerdict::Hung(json!({"input": input, "expected": "a brick list", "got": "no result within the time limit"})),
            }
        }
        "c06.br_loop" => {
            let prefix = input["prefix"].as_str().unwrap_or("").to_string();
            let suffix = input["suffix"].as_str().unwrap_or("").to_string();
            let rounds = input["rounds"].as_u64().unwrap_or(0) as usize;
            let mut x = BricksDomain::from(prefix.clone());
            for round in 1..=rounds {
                let (x1, sfx) = (x.clone(), suffix.clone());
                match run_limited(BR_LIMIT_MS, move || x1.merge(&x1.append_string_domain(&BricksDomain::from(sfx)))) {
                    Outcome::Done(r) => x = r,
                    Outcome::Panicked => return BrVerdict::Panicked(json!({"input": input, "expected": "a merged value", "got": format!("panic in round {}", round)})),
                    Outcome::Hung => return BrVerdict::Hung(json!({"input": input, "expected": "a merged value", "got": format!("no result within the time limit in round {}", round)})),
                }
                // every string  prefix suffix^k, k <= round,  was a member of an operand of one of the merges so far
                let m = model_bricks(&x);
                let mut w = prefix.clone();
                for k in 0..=round {
                    if w.len() <= 40 && !bricks_gamma(&m, &w) {
                        return BrVerdict::Disagrees(json!({"input": input, "expected": format!("after round {} the string {:?} (prefix + {} x suffix) is represented", round, w, k), "got": mbricks_json(&m)}));
                    }
                    w.push_str(&suffix);
                }
            }
            BrVerdict::Agrees
        }
        "c06.br_normalize" => {
            let x = match mbricks_from(&input["x"]) {
                Some(x) => x,
                None => return BrVerdict::Agrees,
            };
            let rx = real_bricks(&x);
            match run_limited(BR_LIMIT_MS, move || rx.normalize()) {
                Outcome::Done(r) => {
                    let r = model_bricks(&r);
                    for w in br_strings() {
                        let (before, after) = (bricks_gamma(&x, &w), bricks_gamma(&r, &w));
                        if before != after {
                            let what = if before { "represented before normalisation, not after" } else { "not represented before normalisation, but after" };
                            return BrVerdict::Disagrees(json!({"input": input, "expected": format!("the same set of strings; {:?} is {}", w, what), "got": mbricks_json(&r)}));
                        }
                    }
                    BrVerdict::Agrees
                }
                Outcome::Panicked => BrVerdict::Panicked(json!({"input": input, "expected": "a normalised brick list", "got": "panic"})),
                Outcome::Hung => BrVerdict::Hung(json!({"input": input, "expected": "a normalised brick list", "got": "no result within the time limit"})),
            }
        }
        _ => BrVerdict::Agrees,
    }
}

struct BrResult {
    skipped: u64,
    cases: u64,
    bad: u64,
    panics: u64,
    hangs: u64,
    first: Option<Value>,
    first_panic: Option<Value>,
    first_hang: Option<Value>,
}

fn br_inputs(twin: &str, seed: u64) -> Vec<Value> {
    let mut rng = Rng(seed ^ 0xC06);
    let mut out = Vec::new();
    match twin {
        "c06.br_brick" => {
            let all = br_all_small_bricks();
            // every pair of the small bricks with max <= 2, plus seeded pairs with wide bounds
            let small: Vec<&MBrick> = all.iter().filter(|b| !matches!(b, MBrick::Val { max, .. } if *max > 2)).collect();
            for a in &small {
                for b in &small {
                    out.push(json!({"a": mbrick_json(a), "b": mbrick_json(b)}));
                }
            }
            for _ in 0..2000 {
                out.push(json!({"a": mbrick_json(&br_random_brick(&mut rng, false)), "b": mbrick_json(&br_random_brick(&mut rng, false))}));
            }
        }
        "c06.br_normalize" => {
            // every single brick, every pair of bricks with max <= 2 over the sets with at most two strings, then seeded lists
            let all = br_all_small_bricks();
            for a in &all {
                out.push(json!({"x": mbricks_json(&Some(vec![a.clone()]))}));
            }
            let small: Vec<&MBrick> = all.iter().filter(|b| match b { MBrick::Top => true, MBrick::Val { seq, max, .. } => *max <= 2 && seq.len() <= 2 }).collect();
            for a in &small {
                for b in &small {
                    out.push(json!({"x": mbricks_json(&Some(vec![(*a).clone(), (*b).clone()]))}));
                }
            }
            for i in 0..3000 {
                let x = br_random_list(&mut rng, i % 2 == 0, 4);
                if x.is_none() {
                    // normalize panics on the Top list (merge tests for it before)
                    continue;
                }
                out.push(json!({"x": mbricks_json(&x)}));
            }
        }
        "c06.br_loop" => {
            for prefix in ["", "a", "ab"] {
                for suffix in ["", "a", "b", "ab"] {
                    for rounds in [1u64, 2, 3, 12] {
                        out.push(json!({"prefix": prefix, "suffix": suffix, "rounds": rounds}));
                    }
                }
            }
        }
        "c06.br_append" | "c06.br_widen" | "c06.br_merge" => {
            if twin == "c06.br_merge" {
                // values built with the crate's own constructors only: from(s1).append(from(s2)) against from(s3) and from(s3).append(from(s4))
                let lits = ["", "a", "b", "ab"];
                let mk = |s: &str| BricksDomain::from(s.to_string());
                for s1 in lits {
                    for s2 in lits {
                        let a = model_bricks(&mk(s1).append_string_domain(&mk(s2)));
                        for s3 in lits {
                            out.push(json!({"a": mbricks_json(&a), "b": mbricks_json(&model_bricks(&mk(s3)))}));
                            for s4 in lits {
                                let b = model_bricks(&mk(s3).append_string_domain(&mk(s4)));
                                out.push(json!({"a": mbricks_json(&a), "b": mbricks_json(&b)}));
                            }
                        }
                    }
                }
            }
            for i in 0..6000 {
                let normalish = i % 2 == 0;
                let a = br_random_list(&mut rng, normalish, 3);
                // related second operand (same list with one brick changed / dropped) half of the time: otherwise widen answers Top
                let b = if rng.next() % 2 == 0 {
                    match &a {
                        Some(l) if !l.is_empty() => {
                            let mut l2 = l.clone();
                            let k = (rng.next() % l2.len() as u64) as usize;
                            match rng.next() % 3 {
                                0 => { l2.remove(k); }
                                1 => { l2[k] = br_random_brick(&mut rng, normalish); }
                                _ => { l2.insert(k, br_random_brick(&mut rng, normalish)); }
                            }
                            Some(l2)
                        }
                        _ => br_random_list(&mut rng, normalish, 3),
                    }
                } else {
                    br_random_list(&mut rng, normalish, 3)
                };
                if twin == "c06.br_widen" && (a.is_none() || b.is_none()) {
                    // widen panics on a Top operand (merge tests for it before)
                    continue;
                }
                out.push(json!({"a": mbricks_json(&a), "b": mbricks_json(&b)}));
            }
        }
        _ => {}
    }
    // inputs of the shape on which normalize did not return before /repo commit 8a58ccd (a brick with 1 <= min < max, or
    // neighbours with the same strings that rule 4 merged into such a brick) go last: a call that does not return costs
    // BR_LIMIT_MS and the sweep stops after BR_MAX_HANGS of them
    let (late, mut early): (Vec<Value>, Vec<Value>) = out.into_iter().partition(br_hang_prone);
    early.extend(late);
    early
}

fn br_hang_prone(input: &Value) -> bool {
    if input.get("prefix").is_some() {
        return false;
    }
    ["a", "b", "x"].iter().any(|k| match mbricks_from(&input[*k]) {
        Some(Some(l)) => {
            l.iter().any(|b| matches!(b, MBrick::Val { min, max, .. } if *min >= 1 && *max > *min))
                || l.windows(2).any(|p| match (&p[0], &p[1]) {
                    (MBrick::Val { seq: s1, min: m1, max: x1 }, MBrick::Val { seq: s2, min: m2, max: x2 }) => {
                        s1 == s2 && (*m1 as u64 + *m2 as u64) >= 1 && (*x1 as u64 + *x2 as u64) > (*m1 as u64 + *m2 as u64) && (*m1, *x1, *m2, *x2) != (1, 1, 1, 1)
                    }
                    _ => false,
                })
        }
        _ => false,
    })
}

/// child side of a sweep (`sweep <twin>@child@<start>`): checks the inputs from index `start` on, one line `<index> <verdict>` each
fn br_child(twin: &str, start: usize, seed: u64) {
    use std::io::Write;
    DIRECT_CALLS.store(true, std::sync::atomic::Ordering::Relaxed);
    let inputs = br_inputs(twin, seed);
    let out = std::io::stdout();
    println!("ready");
    for (i, input) in inputs.iter().enumerate().skip(start) {
        let line = match br_check(twin, input) {
            BrVerdict::Agrees => json!({"v": "ok"}),
            BrVerdict::Disagrees(d) => json!({"v": "bad", "d": d}),
            BrVerdict::Panicked(d) => json!({"v": "panic", "d": d}),
            BrVerdict::Hung(d) => json!({"v": "hang", "d": d}),
        };
        let mut h = out.lock();
        let _ = writeln!(h, "{} {}", i, line);
        let _ = h.flush();
    }
}

/// The real functions may not return (see the findings of unit `bricks`): the inputs are checked in a child process that reports
/// after every case; when it stays silent for BR_LIMIT_MS the parent kills it, records the input it was working on as a hang and
/// starts a new child behind that input.
fn br_sweep(twin: &str, seed: u64) -> BrResult {
    use std::io::BufRead;
    let mut r = BrResult { skipped: 0, cases: 0, bad: 0, panics: 0, hangs: 0, first: None, first_panic: None, first_hang: None };
    let inputs = br_inputs(twin, seed);
    let exe = std::env::current_exe().expect("own path");
    let mut next = 0usize;
    while next < inputs.len() {
        if r.hangs >= br_max_hangs() {
            r.skipped = (inputs.len() - next) as u64;
            break;
        }
        let mut child = std::process::Command::new(&exe)
            .args(["sweep", &format!("{}@child@{}", twin, next), "--seed", &seed.to_string()])
            .stdout(std::process::Stdio::piped())
            .stderr(std::process::Stdio::null())
            .spawn()
            .expect("cannot start the child sweep");
        let stdout = child.stdout.take().unwrap();
        let (tx, rx) = mpsc::channel();
        std::thread::spawn(move || {
            for line in std::io::BufReader::new(stdout).lines() {
                match line {
                    Ok(l) => {
                        if tx.send(l).is_err() {
                            break;
                        }
                    }
                    Err(_) => break,
                }
            }
        });
        // the child says "ready" once it has built its inputs (start-up is not charged to the first case)
        let _ = rx.recv_timeout(Duration::from_millis(30_000));
        loop {
            if next >= inputs.len() {
                break;
            }
            match rx.recv_timeout(Duration::from_millis(BR_LIMIT_MS)) {
                Ok(line) => {
                    let mut parts = line.splitn(2, ' ');
                    let idx: usize = match parts.next().and_then(|x| x.parse().ok()) {
                        Some(i) => i,
                        None => continue,
                    };
                    let v: Value = serde_json::from_str(parts.next().unwrap_or("{}")).unwrap_or(json!({}));
                    r.cases += 1;
                    next = idx + 1;
                    match v["v"].as_str() {
                        Some("bad") => {
                            r.bad += 1;
                            r.first.get_or_insert(v["d"].clone());
                        }
                        Some("panic") => {
                            r.panics += 1;
                            r.first_panic.get_or_insert(v["d"].clone());
                        }
                        _ => {}
                    }
                }
                Err(mpsc::RecvTimeoutError::Timeout) => {
                    // silent for too long: the case `next` does not return
                    r.cases += 1;
                    r.hangs += 1;
                    if std::env::var("C06_SHOW_HANGS").is_ok() {
                        eprintln!("HANG {}", inputs[next]);
                    }
                    r.first_hang.get_or_insert(json!({"input": inputs[next], "expected": "a result", "got": "no result within the time limit"}));
                    next += 1;
                    break;
                }
                Err(mpsc::RecvTimeoutError::Disconnected) => {
                    // the child ended (all inputs done, or it died: then the case `next` is counted as a panic)
                    if next < inputs.len() {
                        r.cases += 1;
                        r.panics += 1;
                        r.first_panic.get_or_insert(json!({"input": inputs[next], "expected": "a result", "got": "the process died"}));
                        next += 1;
                    }
                    break;
                }
            }
        }
        let _ = child.kill();
        let _ = child.wait();
    }
    r
}

fn br_replay(twin: &str, input: &Value) -> Value {
    match br_check(twin, input) {
        BrVerdict::Agrees => json!({"agrees": true}),
        BrVerdict::Disagrees(d) | BrVerdict::Hung(d) | BrVerdict::Panicked(d) => json!({"agrees": false, "expected": d["expected"], "got": d["got"]}),
    }
}
