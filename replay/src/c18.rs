//! C18 -- BOUNDED end-to-end stand-in for the part of the property that is not under contract:
//! how the call block's definitions produce the parameter value (pointer-inference `State::{handle_store,
//! handle_register_assign, handle_load, eval_parameter_arg}`, `DataDomain::try_to_bitvec`) and the `check_cwe`
//! drivers of CWE-560 / CWE-467 (symbol map, call sites, warning generation).
//!
//! Twins  c18.umask  and  c18.sizeof : random call blocks (0..7 definitions: register copies, constants, add / sub /
//! and / or / xor / mult, zero / sign extension of a 4-byte register, 4- and 8-byte stack stores and loads at offsets
//! RSP-32 .. RSP-4) are run through the PUBLIC `cwe_560::check_cwe` / `cwe_467::check_cwe` of the real crate and
//! compared with a concrete little interpreter written from the property statement:
//!   * a value is KNOWN when it is computed from constants alone (registers and stack bytes start unknown);
//!   * it is EXACT when, in addition, it only went through steps the value analysis is expected to follow exactly
//!     (copies, add/sub/and/or/xor, extensions, a load of precisely the bytes of ONE earlier store that no later
//!     store overlapped); a multiplication or a load assembled from several stores is known but not exact.
//! Expectations (anything else: no expectation, the case is skipped):
//!   umask : KNOWN value that is not (> 0o177 and != 0o777)  => NO warning (whatever the analysis knows);
//!           EXACT value with (> 0o177 and != 0o777)         => exactly ONE warning at the call;
//!   sizeof: some parameter EXACT and == pointer size (8)     => one warning;
//!           all parameters KNOWN and none == 8               => no warning.
//! Bounds: <= 7 definitions, 5 registers, 8 stack slots of 4 bytes, `evaluations` random blocks per run.  Never a proof.
use crate::util::Rng;
use cwe_checker_lib::analysis::graph::get_program_cfg;
use cwe_checker_lib::checkers::{cwe_467, cwe_560};
use cwe_checker_lib::intermediate_representation::*;
use cwe_checker_lib::pipeline::AnalysisResults;
use serde_json::{json, Value};
use std::collections::{BTreeMap, BTreeSet};

const REGS8: [&str; 4] = ["RDI", "RSI", "RAX", "RBX"];
const REG4: &str = "ECX";

#[derive(Clone, Debug)]
enum Src {
    Const(u64),
    Reg(usize), // index into REGS8
}

#[derive(Clone, Debug)]
enum D {
    Set(usize, Src),
    Bin(usize, u8, Src, Src), // op: 0 add 1 sub 2 and 3 or 4 xor 5 mult
    Ext(usize, bool),         // reg8 := zext/sext(ECX)
    Set4(u32),                // ECX := const
    Store8(i64, Src),
    Store4(i64, u32),
    Load8(usize, i64),
    Load4(i64), // ECX := [RSP+off] (4 bytes)
}

#[derive(Clone, Debug)]
struct Case {
    defs: Vec<D>,
    sizeof: bool,
    /// sizeof only: the symbol has a third parameter passed on the stack at [RSP-8] (8 bytes)
    stack_param: bool,
    /// the block starts with `RSP := const` (an absolute stack pointer outside the (empty) memory image): every later stack
    /// access is an access to an absolute address that lies in no segment: stores are dropped, loads (and the evaluation of
    /// a stack parameter) fail, a failed load sets its register to unknown
    rsp_abs: Option<u64>,
}

fn src_json(s: &Src) -> Value {
    match s {
        Src::Const(c) => json!({"const": c.to_string()}),
        Src::Reg(r) => json!({"reg": r}),
    }
}
fn src_from(v: &Value) -> Src {
    if let Some(c) = v.get("const") {
        Src::Const(c.as_str().unwrap().parse().unwrap())
    } else {
        Src::Reg(v["reg"].as_u64().unwrap() as usize)
    }
}

impl Case {
    fn to_json(&self) -> Value {
        let defs: Vec<Value> = self
            .defs
            .iter()
            .map(|d| match d {
                D::Set(r, s) => json!({"k": "set", "r": r, "s": src_json(s)}),
                D::Bin(r, op, a, b) => json!({"k": "bin", "r": r, "op": op, "a": src_json(a), "b": src_json(b)}),
                D::Ext(r, signed) => json!({"k": "ext", "r": r, "signed": signed}),
                D::Set4(c) => json!({"k": "set4", "c": c}),
                D::Store8(o, s) => json!({"k": "store8", "off": o, "s": src_json(s)}),
                D::Store4(o, c) => json!({"k": "store4", "off": o, "c": c}),
                D::Load8(r, o) => json!({"k": "load8", "r": r, "off": o}),
                D::Load4(o) => json!({"k": "load4", "off": o}),
            })
            .collect();
        json!({"sizeof": self.sizeof, "stack_param": self.stack_param, "rsp_abs": self.rsp_abs.map(|x| x.to_string()), "defs": defs, "registers": REGS8, "reg4": REG4,
               "legend": "bin op: 0 add 1 sub 2 and 3 or 4 xor 5 mult; off is relative to RSP; parameters: umask(RDI), malloc-like(RDI, RSI)"})
    }
    fn from_json(v: &Value) -> Case {
        let defs = v["defs"]
            .as_array()
            .unwrap()
            .iter()
            .map(|d| {
                let r = d.get("r").and_then(|x| x.as_u64()).unwrap_or(0) as usize;
                let off = d.get("off").and_then(|x| x.as_i64()).unwrap_or(0);
                match d["k"].as_str().unwrap() {
                    "set" => D::Set(r, src_from(&d["s"])),
                    "bin" => D::Bin(r, d["op"].as_u64().unwrap() as u8, src_from(&d["a"]), src_from(&d["b"])),
                    "ext" => D::Ext(r, d["signed"].as_bool().unwrap()),
                    "set4" => D::Set4(d["c"].as_u64().unwrap() as u32),
                    "store8" => D::Store8(off, src_from(&d["s"])),
                    "store4" => D::Store4(off, d["c"].as_u64().unwrap() as u32),
                    "load8" => D::Load8(r, off),
                    _ => D::Load4(off),
                }
            })
            .collect();
        Case { defs, sizeof: v["sizeof"].as_bool().unwrap_or(false), stack_param: v["stack_param"].as_bool().unwrap_or(false),
               rsp_abs: v["rsp_abs"].as_str().and_then(|x| x.parse().ok()) }
    }
}

// ---------------------------------------------------------------------------------------------------------------
// the oracle: a concrete interpreter over "known / exact" values
#[derive(Clone, Copy, Debug)]
struct V {
    v: u64,
    exact: bool,
    /// some IntAdd / IntSub / IntMult on the way overflowed the SIGNED 64-bit range (the wrapped result is still a constant)
    ovf: bool,
}

#[derive(Clone, Copy)]
struct Byte {
    b: u8,
    store_id: usize, // which store wrote it
}

struct Machine {
    regs: [Option<V>; 4],
    ecx: Option<(u32, bool)>,
    mem: BTreeMap<i64, Byte>,
    /// per store: (offset, size, exact source, still intact)
    stores: Vec<(i64, u32, bool)>,
    /// RSP is an absolute address outside every segment: no stack cell is ever known
    abs: bool,
}

impl Machine {
    fn src(&self, s: &Src) -> Option<V> {
        match s {
            Src::Const(c) => Some(V { v: *c, exact: true, ovf: false }),
            Src::Reg(r) => self.regs[*r],
        }
    }
    fn store(&mut self, off: i64, size: u32, val: Option<(u64, bool)>) {
        if self.abs {
            return;
        }
        let id = self.stores.len();
        self.stores.push((off, size, val.map(|x| x.1).unwrap_or(false)));
        for i in 0..size as i64 {
            match val {
                Some((v, _)) => {
                    self.mem.insert(off + i, Byte { b: (v >> (8 * i)) as u8, store_id: id });
                }
                None => {
                    self.mem.remove(&(off + i));
                }
            }
        }
    }
    fn load(&self, off: i64, size: u32) -> Option<(u64, bool)> {
        if self.abs {
            return None;
        }
        let mut v: u64 = 0;
        let mut ids = BTreeSet::new();
        for i in 0..size as i64 {
            let byte = self.mem.get(&(off + i))?;
            v |= (byte.b as u64) << (8 * i);
            ids.insert(byte.store_id);
        }
        // exact: all bytes come from one store of exactly this offset and size whose value was exact
        let exact = ids.len() == 1 && {
            let (o, s, e) = self.stores[*ids.iter().next().unwrap()];
            o == off && s == size && e
        };
        Some((v, exact))
    }
    fn run(defs: &[D], abs: bool) -> Machine {
        let mut m = Machine { regs: [None; 4], ecx: None, mem: BTreeMap::new(), stores: Vec::new(), abs };
        for d in defs {
            match d {
                D::Set(r, s) => m.regs[*r] = m.src(s),
                D::Bin(r, op, a, b) => {
                    m.regs[*r] = match (m.src(a), m.src(b)) {
                        (Some(x), Some(y)) => {
                            let v = match op {
                                0 => x.v.wrapping_add(y.v),
                                1 => x.v.wrapping_sub(y.v),
                                2 => x.v & y.v,
                                3 => x.v | y.v,
                                4 => x.v ^ y.v,
                                _ => x.v.wrapping_mul(y.v),
                            };
                            let (a, b) = (x.v as i64, y.v as i64);
                            let o = match op {
                                0 => a.checked_add(b).is_none(),
                                1 => a.checked_sub(b).is_none(),
                                5 => a.checked_mul(b).is_none(),
                                _ => false,
                            };
                            Some(V { v, exact: x.exact && y.exact, ovf: x.ovf || y.ovf || o })
                        }
                        _ => None,
                    }
                }
                D::Ext(r, signed) => {
                    m.regs[*r] = m.ecx.map(|(c, e)| V { v: if *signed { c as i32 as i64 as u64 } else { c as u64 }, exact: e, ovf: false })
                }
                D::Set4(c) => m.ecx = Some((*c, true)),
                D::Store8(o, s) => {
                    let v = m.src(s).map(|x| (x.v, x.exact && !x.ovf));
                    m.store(*o, 8, v)
                }
                D::Store4(o, c) => m.store(*o, 4, Some((*c as u64, true))),
                D::Load8(r, o) => m.regs[*r] = m.load(*o, 8).map(|(v, e)| V { v, exact: e, ovf: false }),
                D::Load4(o) => m.ecx = m.load(*o, 4).map(|(v, e)| (v as u32, e)),
            }
        }
        m
    }
}

// ---------------------------------------------------------------------------------------------------------------
// the real code: build the project and run the public checkers
fn var(name: &str, size: u64) -> Variable {
    Variable { name: name.to_string(), size: ByteSize::new(size), is_temp: false }
}
fn r8(i: usize) -> Variable {
    var(REGS8[i], 8)
}
fn expr(s: &Src) -> Expression {
    match s {
        Src::Const(c) => Expression::Const(Bitvector::from_u64(*c)),
        Src::Reg(r) => Expression::Var(r8(*r)),
    }
}
fn stack(off: i64) -> Expression {
    Expression::BinOp {
        op: BinOpType::IntAdd,
        lhs: Box::new(Expression::Var(var("RSP", 8))),
        rhs: Box::new(Expression::Const(Bitvector::from_i64(off))),
    }
}

fn project(case: &Case) -> Project {
    let defs: Vec<Term<Def>> = case
        .defs
        .iter()
        .enumerate()
        .map(|(i, d)| {
            let term = match d {
                D::Set(r, s) => Def::Assign { var: r8(*r), value: expr(s) },
                D::Bin(r, op, a, b) => Def::Assign {
                    var: r8(*r),
                    value: Expression::BinOp {
                        op: [BinOpType::IntAdd, BinOpType::IntSub, BinOpType::IntAnd, BinOpType::IntOr, BinOpType::IntXOr, BinOpType::IntMult][*op as usize % 6],
                        lhs: Box::new(expr(a)),
                        rhs: Box::new(expr(b)),
                    },
                },
                D::Ext(r, signed) => Def::Assign {
                    var: r8(*r),
                    value: Expression::Cast {
                        op: if *signed { CastOpType::IntSExt } else { CastOpType::IntZExt },
                        size: ByteSize::new(8),
                        arg: Box::new(Expression::Var(var(REG4, 4))),
                    },
                },
                D::Set4(c) => Def::Assign { var: var(REG4, 4), value: Expression::Const(Bitvector::from_u32(*c)) },
                D::Store8(o, s) => Def::Store { address: stack(*o), value: expr(s) },
                D::Store4(o, c) => Def::Store { address: stack(*o), value: Expression::Const(Bitvector::from_u32(*c)) },
                D::Load8(r, o) => Def::Load { var: r8(*r), address: stack(*o) },
                D::Load4(o) => Def::Load { var: var(REG4, 4), address: stack(*o) },
            };
            Term { tid: Tid::new(format!("def_{i}")), term }
        })
        .collect();
    let mut defs = defs;
    if let Some(a) = case.rsp_abs {
        defs.insert(0, Term { tid: Tid::new("def_rsp"), term: Def::Assign { var: var("RSP", 8), value: Expression::Const(Bitvector::from_u64(a)) } });
    }
    let (name, parameters) = if case.sizeof {
        let mut p = vec![Arg::from_var(r8(0), None), Arg::from_var(r8(1), None)];
        if case.stack_param {
            p.push(Arg::Stack { address: stack(-8), size: ByteSize::new(8), data_type: None });
        }
        ("malloc", p)
    } else {
        ("umask", vec![Arg::from_var(r8(0), None)])
    };
    let symbol_tid = Tid::new(name);
    let extern_symbol = ExternSymbol {
        tid: symbol_tid.clone(),
        addresses: vec!["0x3000".to_string()],
        name: name.to_string(),
        calling_convention: Some("__stdcall".to_string()),
        parameters,
        return_values: vec![Arg::from_var(var("RAX", 8), None)],
        no_return: false,
        has_var_args: false,
    };
    let call_block = Term {
        tid: Tid::new("call_blk"),
        term: Blk {
            defs,
            jmps: vec![Term { tid: Tid::new("the_call"), term: Jmp::Call { target: symbol_tid.clone(), return_: Some(Tid::new("return_blk")) } }],
            indirect_jmp_targets: Vec::new(),
        },
    };
    let return_block = Term {
        tid: Tid::new("return_blk"),
        term: Blk {
            defs: Vec::new(),
            jmps: vec![Term { tid: Tid::new("return_jmp"), term: Jmp::Return(Expression::Const(Bitvector::from_u64(0))) }],
            indirect_jmp_targets: Vec::new(),
        },
    };
    let sub = Term {
        tid: Tid::new("caller_fn"),
        term: Sub { name: "caller_fn".to_string(), blocks: vec![call_block, return_block], calling_convention: None },
    };
    let program = Program {
        subs: BTreeMap::from([(sub.tid.clone(), sub)]),
        extern_symbols: BTreeMap::from([(symbol_tid, extern_symbol)]),
        entry_points: BTreeSet::from([Tid::new("caller_fn")]),
        address_base_offset: 0,
    };
    let cconv = CallingConvention {
        name: "__stdcall".to_string(),
        integer_parameter_register: vec![var("RDI", 8), var("RSI", 8)],
        float_parameter_register: Vec::new(),
        integer_return_register: vec![var("RAX", 8)],
        float_return_register: Vec::new(),
        callee_saved_register: vec![var("RBX", 8)],
    };
    Project {
        program: Term { tid: Tid::new("program"), term: program },
        cpu_architecture: "x86_64".to_string(),
        stack_pointer_register: var("RSP", 8),
        calling_conventions: BTreeMap::from([("__stdcall".to_string(), cconv)]),
        register_set: ["RAX", "RBX", "RDI", "RSI", "RSP"].into_iter().map(|n| var(n, 8)).collect(),
        datatype_properties: DatatypeProperties {
            char_size: ByteSize::new(1),
            double_size: ByteSize::new(8),
            float_size: ByteSize::new(4),
            integer_size: ByteSize::new(4),
            long_double_size: ByteSize::new(8),
            long_long_size: ByteSize::new(8),
            long_size: ByteSize::new(8),
            pointer_size: ByteSize::new(8),
            short_size: ByteSize::new(2),
        },
        runtime_memory_image: RuntimeMemoryImage::empty(true),
    }
}

/// number of warnings of the real checker, or a caught panic
fn real(case: &Case) -> Result<usize, String> {
    let case = case.clone();
    let r = std::panic::catch_unwind(move || {
        let project = project(&case);
        let graph = get_program_cfg(&project.program);
        let results = AnalysisResults::new(&[], &graph, &project);
        let (_logs, warnings) = if case.sizeof {
            cwe_467::check_cwe(&results, &json!({"symbols": ["malloc"]}))
        } else {
            cwe_560::check_cwe(&results, &Value::Null)
        };
        for w in warnings.iter() {
            assert_eq!(w.addresses, vec![Tid::new("the_call").address], "warning reported at another address");
        }
        warnings.len()
    });
    r.map_err(|_| "panic in the code under test".to_string())
}

/// the one class of inputs recorded in /verif/known_findings.txt (open finding C18/K1)
pub const K1: &str = "K1-signed-overflow-in-constant-arithmetic";

/// Some((expected number of warnings, reason, known-finding class)) when the property statement determines the outcome.
/// The class is Some(K1) when the constant went through an IntAdd / IntSub / IntMult whose mathematical result leaves
/// the signed 64-bit range: the property statement still determines the outcome (the wrapped value is a constant computed
/// from constants alone), but the interval analysis answers Top for such an operation BY DESIGN (Interval::add / sub /
/// signed_mul), so the warning is not produced.  Recorded as an open finding, not as a disagreement.
fn expected(case: &Case) -> Option<(usize, String, Option<&'static str>)> {
    let m = Machine::run(&case.defs, case.rsp_abs.is_some());
    if case.sizeof {
        let mut p = vec![m.regs[0], m.regs[1]];
        if case.stack_param {
            p.push(m.load(-8, 8).map(|(v, e)| V { v, exact: e, ovf: false }));
        }
        if p.iter().any(|x| matches!(x, Some(v) if v.exact && !v.ovf && v.v == 8)) {
            Some((1, "a parameter is exactly the constant 8 = pointer size".to_string(), None))
        } else if p.iter().any(|x| matches!(x, Some(v) if v.exact && v.v == 8)) {
            Some((1, "a parameter is the constant 8 = pointer size (computed with a signed overflow on the way)".to_string(), Some(K1)))
        } else if p.iter().all(|x| matches!(x, Some(v) if v.v != 8)) {
            Some((0, format!("all parameters are constants different from 8 ({:?})", p.iter().map(|x| x.unwrap().v).collect::<Vec<_>>()), None))
        } else {
            None
        }
    } else {
        let v = m.regs[0]?;
        let chmod_style = v.v > 0o177 && v.v != 0o777;
        if !chmod_style {
            Some((0, format!("the parameter is the constant {:#o}: not (> 0o177 and != 0o777)", v.v), None))
        } else if v.exact {
            Some((1, format!("the parameter is the constant {:#o}: > 0o177 and != 0o777", v.v), if v.ovf { Some(K1) } else { None }))
        } else {
            None
        }
    }
}

/// Some(disagreement) ; a disagreement inside the known class carries "known_class"
fn check(case: &Case) -> Option<Value> {
    let (want, why, class) = expected(case)?;
    let mut v = match real(case) {
        Ok(n) if n == want => return None,
        Ok(n) => json!({"input": case.to_json(), "expected": {"warnings": want, "because": why}, "observed": {"warnings": n}}),
        Err(e) => json!({"input": case.to_json(), "expected": {"warnings": want, "because": why}, "observed": e}),
    };
    if let (Some(c), Some(0)) = (class, v["observed"]["warnings"].as_u64()) {
        // only the documented direction (a warning that is NOT produced) belongs to the class
        v["known_class"] = json!(c);
    }
    Some(v)
}

fn gen_src(rng: &mut Rng, sizeof: bool) -> Src {
    if rng.next() % 3 == 0 {
        Src::Reg((rng.next() % 4) as usize)
    } else {
        Src::Const(gen_const(rng, sizeof))
    }
}
fn gen_const(rng: &mut Rng, sizeof: bool) -> u64 {
    let interesting: &[u64] = if sizeof {
        &[8, 4, 16, 7, 9, 0, 1, 2, 0x1_0000_0008, u64::MAX - 7, 64]
    } else {
        &[0o177, 0o200, 0o777, 0o776, 0o1000, 0o22, 0o666, 0, 1, 0o100, 0o77, 0x1_0000_01b6, u64::MAX, 0o600]
    };
    match rng.next() % 8 {
        0 => rng.next(),
        1 => rng.next() % 1024,
        _ => interesting[(rng.next() % interesting.len() as u64) as usize],
    }
}
fn gen_off(rng: &mut Rng) -> i64 {
    -4 * (1 + (rng.next() % 8) as i64)
}

fn gen_case(rng: &mut Rng, sizeof: bool) -> Case {
    let n = (rng.next() % 8) as usize;
    let mut defs = Vec::new();
    for _ in 0..n {
        // bias the destination towards the parameter registers
        let r = if rng.next() % 2 == 0 { (rng.next() % 2) as usize } else { (rng.next() % 4) as usize };
        let d = match rng.next() % 12 {
            0 | 1 | 2 => D::Set(r, gen_src(rng, sizeof)),
            3 | 4 => D::Bin(r, (rng.next() % 6) as u8, gen_src(rng, sizeof), gen_src(rng, sizeof)),
            5 => D::Ext(r, rng.next() % 2 == 0),
            6 => D::Set4(gen_const(rng, sizeof) as u32),
            7 | 8 => D::Store8(gen_off(rng), gen_src(rng, sizeof)),
            9 => D::Store4(gen_off(rng), gen_const(rng, sizeof) as u32),
            10 => D::Load8(r, gen_off(rng)),
            _ => {
                if rng.next() % 2 == 0 {
                    D::Load8(r, gen_off(rng))
                } else {
                    D::Load4(gen_off(rng))
                }
            }
        };
        defs.push(d);
    }
    let stack_param = sizeof && rng.next() % 3 == 0;
    let rsp_abs = if rng.next() % 6 == 0 { Some(0x2000_8000 + 16 * (rng.next() % 4)) } else { None };
    Case { defs, sizeof, stack_param, rsp_abs }
}

fn enumerate(twin: &str, seed: u64, budget: usize, evaluations: &mut usize, decided: &mut usize, known: &mut Vec<Value>) -> Option<Value> {
    let sizeof = twin == "c18.sizeof";
    let mut rng = Rng(seed ^ if sizeof { 0x5151 } else { 0x1818 });
    // a few fixed shapes first (the ones a reader of the property would try)
    let mut cases: Vec<Case> = vec![
        vec![D::Set(0, Src::Const(if sizeof { 8 } else { 0o666 }))],
        vec![D::Set(0, Src::Const(0o22)), D::Set(1, Src::Const(4))],
        vec![D::Set(0, Src::Const(0o666)), D::Store8(-8, Src::Const(0o22)), D::Load8(0, -8), D::Set(1, Src::Const(1))],
        vec![D::Set(0, Src::Const(0o666)), D::Store4(-8, 0o22), D::Store4(-4, 0), D::Load8(0, -8), D::Set(1, Src::Const(1))],
        vec![D::Set(0, Src::Const(8)), D::Store8(-16, Src::Const(3)), D::Store4(-12, 0), D::Load8(0, -16), D::Set(1, Src::Const(1))],
        vec![D::Set(1, Src::Const(8)), D::Set(0, Src::Const(0o777))],
        vec![D::Store8(-24, Src::Const(if sizeof { 8 } else { 0o1000 })), D::Load8(0, -24), D::Set(1, Src::Const(0))],
    ]
    .into_iter()
    .map(|defs| Case { defs, sizeof, stack_param: false, rsp_abs: None })
    .collect();
    if sizeof {
        // a stack parameter that cannot be evaluated (absolute stack pointer outside the image) next to a pointer-sized one
        cases.push(Case { defs: vec![D::Set(0, Src::Const(8))], sizeof, stack_param: true, rsp_abs: Some(0x2000_8000) });
        cases.push(Case { defs: vec![D::Set(1, Src::Const(4)), D::Bin(1, 0, Src::Reg(1), Src::Const(4)), D::Set(0, Src::Const(0))], sizeof, stack_param: true, rsp_abs: Some(0x2000_8000) });
        cases.push(Case { defs: vec![D::Store8(-8, Src::Const(8)), D::Set(0, Src::Const(1)), D::Set(1, Src::Const(2))], sizeof, stack_param: true, rsp_abs: None });
    }
    for _ in 0..budget {
        cases.push(gen_case(&mut rng, sizeof));
    }
    for c in cases {
        *evaluations += 1;
        if expected(&c).is_some() {
            *decided += 1;
        }
        if let Some(v) = check(&c) {
            if v.get("known_class").is_some() {
                if known.len() < 3 {
                    known.push(v);
                }
            } else {
                return Some(v);
            }
        }
    }
    None
}

pub fn search(twin: &str, _case: Option<&str>, seed: u64) -> Option<Value> {
    let (mut e, mut d, mut known) = (0, 0, Vec::new());
    match enumerate(twin, seed, 1500, &mut e, &mut d, &mut known) {
        Some(mut v) => {
            v["known"] = json!(known);
            Some(v)
        }
        // nothing outside the recorded class: report the class hits only (main.rs prints found=false for `known_only`)
        None => Some(json!({"known_only": true, "known": known, "evaluations": e, "with_expectation": d})),
    }
}

pub fn replay(_twin: &str, input: &Value) -> Value {
    let case = Case::from_json(input);
    match check(&case) {
        Some(v) => json!({"agrees": false, "expected": v["expected"], "observed": v["observed"], "known_class": v["known_class"], "input": input}),
        None => json!({"agrees": true, "input": input}),
    }
}

pub fn sweep(twin: &str, seed: u64) -> Value {
    let (mut e, mut d, mut known) = (0, 0, Vec::new());
    let r = enumerate(twin, seed, 20000, &mut e, &mut d, &mut known);
    json!({"twin": twin, "bounded": true, "evaluations": e, "with_expectation": d,
           "bound": "call blocks of <= 7 definitions over 4 eight-byte registers, one four-byte register, stack offsets RSP-32..RSP-4",
           "known_class_hits": known,
           "disagreements": if r.is_some() { 1 } else { 0 }, "first": r})
}
