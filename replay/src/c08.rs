//! C08 twin: the interprocedural control flow graph of `analysis::graph`, run on the REAL crate.
//!
//!   "The control flow graph represents exactly the program's control flow.  For every well-formed normalized program, the
//!    interprocedural control flow graph has one start node, one end node and one block edge per (block, function) pair, a
//!    jump edge for every intraprocedural branch and indirect-jump target hint (marked with the untaken conditional where
//!    applicable), call/return linkage for every call to an internal function (callsite to callee entry, every callee
//!    return to the call's return site), a stub edge for every extern or indirect call that returns, and no other edges."
//!
//! Twin `c08.cfg` (BOUNDED -- an enumeration of small / seeded random programs, not a proof).  It runs the real
//! `get_program_cfg` and compares the MULTISET of labelled nodes and the MULTISET of labelled edges (node and edge indices
//! do not matter) with a reference that is written from the property statement, declaratively:
//!   pairs   the least set of (block, function) containing every block listed in a function and closed under
//!           "a jump of the block names block t" (branch / conditional branch target, indirect-jump target hint, return
//!           target of a direct or indirect call)  =>  (t, same function)
//!   nodes   BlkStart, BlkEnd per pair; one CallSource per direct call (in a pair) to an internal function that has a first
//!           block; one CallReturn per (such a call that has a return target, BlkEnd pair of the callee whose block returns)
//!   edges   Block per pair; Jump(jump, untaken conditional) per branch / hint; ExternCallStub per extern or indirect call
//!           with a return target; CallCombine + Call per internal call; CrCallStub + CrReturnStub + ReturnCombine(call)
//!           per CallReturn node; nothing else
//! Programs: 1..=3 functions with 0..=3 blocks each (a block may be listed in two functions), every block ends with 0, 1 or 2
//! jumps (2 = conditional branch + one more), targets are drawn from ALL blocks of the program (so pairs that are not listed
//! arise), calls go to internal functions (with and without blocks), extern symbols or unknown tids, with or without return.
use crate::util::Rng;
use cwe_checker_lib::analysis::graph::{get_program_cfg, Edge, Node};
use cwe_checker_lib::intermediate_representation::*;
use petgraph::visit::EdgeRef;
use serde_json::{json, Value};
use std::collections::{BTreeMap, BTreeSet};
use std::panic::{catch_unwind, AssertUnwindSafe};

#[derive(Clone, Debug)]
enum J {
    Branch(String),
    CBranch(String),
    BranchInd,
    Call(String, Option<String>),
    CallInd(Option<String>),
    CallOther(Option<String>),
    Return,
}

#[derive(Clone, Debug)]
struct B {
    tid: String,
    jmps: Vec<J>,
    hints: Vec<String>,
}

#[derive(Clone, Debug)]
struct Case {
    /// functions: name, list of indices into `blocks`
    subs: Vec<(String, Vec<usize>)>,
    blocks: Vec<B>,
    externs: Vec<String>,
}

fn j_to_json(j: &J) -> Value {
    match j {
        J::Branch(t) => json!(["branch", t]),
        J::CBranch(t) => json!(["cbranch", t]),
        J::BranchInd => json!(["branchind"]),
        J::Call(t, r) => json!(["call", t, r]),
        J::CallInd(r) => json!(["callind", r]),
        J::CallOther(r) => json!(["callother", r]),
        J::Return => json!(["return"]),
    }
}
fn opt(v: &Value) -> Option<String> {
    v.as_str().map(|s| s.to_string())
}
fn j_from_json(v: &Value) -> J {
    match v[0].as_str().unwrap_or("") {
        "branch" => J::Branch(v[1].as_str().unwrap_or("").to_string()),
        "cbranch" => J::CBranch(v[1].as_str().unwrap_or("").to_string()),
        "branchind" => J::BranchInd,
        "call" => J::Call(v[1].as_str().unwrap_or("").to_string(), opt(&v[2])),
        "callind" => J::CallInd(opt(&v[1])),
        "callother" => J::CallOther(opt(&v[1])),
        _ => J::Return,
    }
}

impl Case {
    fn to_json(&self) -> Value {
        json!({
            "fn": "cfg",
            "subs": self.subs.iter().map(|(n, bs)| json!([n, bs])).collect::<Vec<_>>(),
            "blocks": self.blocks.iter().map(|b| json!({"tid": b.tid, "jmps": b.jmps.iter().map(j_to_json).collect::<Vec<_>>(), "hints": b.hints})).collect::<Vec<_>>(),
            "externs": self.externs,
        })
    }
    fn from_json(v: &Value) -> Case {
        Case {
            subs: v["subs"].as_array().map(|a| a.iter().map(|e| {
                (e[0].as_str().unwrap_or("").to_string(), e[1].as_array().map(|x| x.iter().map(|i| i.as_u64().unwrap_or(0) as usize).collect()).unwrap_or_default())
            }).collect()).unwrap_or_default(),
            blocks: v["blocks"].as_array().map(|a| a.iter().map(|b| B {
                tid: b["tid"].as_str().unwrap_or("").to_string(),
                jmps: b["jmps"].as_array().map(|x| x.iter().map(j_from_json).collect()).unwrap_or_default(),
                hints: b["hints"].as_array().map(|x| x.iter().map(|s| s.as_str().unwrap_or("").to_string()).collect()).unwrap_or_default(),
            }).collect()).unwrap_or_default(),
            externs: v["externs"].as_array().map(|a| a.iter().map(|s| s.as_str().unwrap_or("").to_string()).collect()).unwrap_or_default(),
        }
    }

    fn jump_tid(b: &B, k: usize) -> String {
        format!("{}_j{}", b.tid, k)
    }

    fn block_term(&self, b: &B) -> Term<Blk> {
        let e = || Expression::Const(Bitvector::from_u64(0));
        let jmps = b.jmps.iter().enumerate().map(|(k, j)| Term {
            tid: Tid::new(Case::jump_tid(b, k)),
            term: match j {
                J::Branch(t) => Jmp::Branch(Tid::new(t)),
                J::CBranch(t) => Jmp::CBranch { target: Tid::new(t), condition: e() },
                J::BranchInd => Jmp::BranchInd(e()),
                J::Call(t, r) => Jmp::Call { target: Tid::new(t), return_: r.as_ref().map(Tid::new) },
                J::CallInd(r) => Jmp::CallInd { target: e(), return_: r.as_ref().map(Tid::new) },
                J::CallOther(r) => Jmp::CallOther { description: "other".to_string(), return_: r.as_ref().map(Tid::new) },
                J::Return => Jmp::Return(e()),
            },
        }).collect();
        Term { tid: Tid::new(&b.tid), term: Blk { defs: Vec::new(), jmps, indirect_jmp_targets: b.hints.iter().map(Tid::new).collect() } }
    }

    fn program(&self) -> Term<Program> {
        let mut subs = BTreeMap::new();
        for (name, bs) in &self.subs {
            let blocks = bs.iter().map(|i| self.block_term(&self.blocks[*i])).collect();
            subs.insert(Tid::new(name), Term { tid: Tid::new(name), term: Sub { name: name.clone(), blocks, calling_convention: None } });
        }
        let mut extern_symbols = BTreeMap::new();
        for x in &self.externs {
            extern_symbols.insert(Tid::new(x), ExternSymbol {
                tid: Tid::new(x), addresses: Vec::new(), name: x.clone(), calling_convention: None,
                parameters: Vec::new(), return_values: Vec::new(), no_return: false, has_var_args: false,
            });
        }
        Term { tid: Tid::new("prog"), term: Program { subs, extern_symbols, entry_points: BTreeSet::new(), address_base_offset: 0 } }
    }

    fn block_by_tid(&self, t: &str) -> Option<&B> {
        self.blocks.iter().find(|b| b.tid == t)
    }
}

type Bag = BTreeMap<String, usize>;
fn put(bag: &mut Bag, s: String) {
    *bag.entry(s).or_insert(0) += 1;
}

/// THE REFERENCE, from the property statement (see the module documentation).  Returns (nodes, edges) as multisets of
/// descriptions; None when the case is not a well-formed normalized program (a named block does not exist).
fn expected(case: &Case) -> Option<(Bag, Bag)> {
    // pairs: least fixed point
    let mut pairs: BTreeSet<(String, String)> = BTreeSet::new();
    let mut todo: Vec<(String, String)> = Vec::new();
    for (f, bs) in &case.subs {
        for i in bs {
            let p = (case.blocks[*i].tid.clone(), f.clone());
            if pairs.insert(p.clone()) {
                todo.push(p);
            }
        }
    }
    while let Some((b, f)) = todo.pop() {
        let blk = case.block_by_tid(&b)?;
        let mut named: Vec<String> = Vec::new();
        for j in &blk.jmps {
            match j {
                J::Branch(t) | J::CBranch(t) => named.push(t.clone()),
                J::BranchInd => named.extend(blk.hints.iter().cloned()),
                J::Call(_, Some(r)) | J::CallInd(Some(r)) => named.push(r.clone()),
                _ => {}
            }
        }
        for t in named {
            case.block_by_tid(&t)?;
            let p = (t, f.clone());
            if pairs.insert(p.clone()) {
                todo.push(p);
            }
        }
    }
    let start = |b: &str, f: &str| format!("BlkStart({},{})", b, f);
    let end = |b: &str, f: &str| format!("BlkEnd({},{})", b, f);
    let entry_of = |t: &str| -> Option<(String, String)> {
        case.subs.iter().find(|(n, bs)| n == t && !bs.is_empty()).map(|(n, bs)| (case.blocks[bs[0]].tid.clone(), n.clone()))
    };
    let mut nodes = Bag::new();
    let mut edges = Bag::new();
    for (b, f) in &pairs {
        put(&mut nodes, start(b, f));
        put(&mut nodes, end(b, f));
        put(&mut edges, format!("{} -> {} : Block", start(b, f), end(b, f)));
    }
    for (b, f) in &pairs {
        let blk = case.block_by_tid(b)?;
        if blk.jmps.len() > 2 || (blk.jmps.len() == 2 && !matches!(blk.jmps[0], J::CBranch(_))) {
            return None; // not normalized: at most two jumps, of two the first is a conditional branch
        }
        for (k, j) in blk.jmps.iter().enumerate() {
            let jt = Case::jump_tid(blk, k);
            let uc = if k == 1 { format!("Some({})", Case::jump_tid(blk, 0)) } else { "None".to_string() };
            match j {
                J::Branch(t) | J::CBranch(t) => put(&mut edges, format!("{} -> {} : Jump({},{})", end(b, f), start(t, f), jt, uc)),
                J::BranchInd => {
                    for t in &blk.hints {
                        put(&mut edges, format!("{} -> {} : Jump({},{})", end(b, f), start(t, f), jt, uc));
                    }
                }
                J::CallInd(Some(r)) => put(&mut edges, format!("{} -> {} : ExternCallStub({})", end(b, f), start(r, f), jt)),
                J::CallInd(None) | J::CallOther(_) | J::Return => {}
                J::Call(t, r) => {
                    if case.externs.contains(t) {
                        if let Some(r) = r {
                            put(&mut edges, format!("{} -> {} : ExternCallStub({})", end(b, f), start(r, f), jt));
                        }
                    } else if let Some((tb, tf)) = entry_of(t) {
                        let cs = format!("CallSource({},{} => {},{})", b, f, tb, tf);
                        put(&mut nodes, cs.clone());
                        put(&mut edges, format!("{} -> {} : CallCombine({})", end(b, f), cs, jt));
                        put(&mut edges, format!("{} -> {} : Call({})", cs, start(&tb, &tf), jt));
                        if let Some(r) = r {
                            // every callee return to the call's return site
                            for (rb, rf) in &pairs {
                                if rf == t && case.block_by_tid(rb)?.jmps.iter().any(|x| matches!(x, J::Return)) {
                                    let cr = format!("CallReturn(call {},{} return {},{})", b, f, rb, rf);
                                    put(&mut nodes, cr.clone());
                                    put(&mut edges, format!("{} -> {} : CrCallStub", cs, cr));
                                    put(&mut edges, format!("{} -> {} : CrReturnStub", end(rb, rf), cr));
                                    put(&mut edges, format!("{} -> {} : ReturnCombine({})", cr, start(r, f), jt));
                                }
                            }
                        }
                    }
                }
            }
        }
    }
    Some((nodes, edges))
}

fn node_desc(n: &Node) -> String {
    match n {
        Node::BlkStart(b, f) => format!("BlkStart({},{})", b.tid, f.tid),
        Node::BlkEnd(b, f) => format!("BlkEnd({},{})", b.tid, f.tid),
        Node::CallSource { source, target } => format!("CallSource({},{} => {},{})", source.0.tid, source.1.tid, target.0.tid, target.1.tid),
        Node::CallReturn { call, return_ } => format!("CallReturn(call {},{} return {},{})", call.0.tid, call.1.tid, return_.0.tid, return_.1.tid),
    }
}

fn edge_desc(e: &Edge) -> String {
    match e {
        Edge::Block => "Block".to_string(),
        Edge::Jump(j, uc) => format!("Jump({},{})", j.tid, match uc { Some(u) => format!("Some({})", u.tid), None => "None".to_string() }),
        Edge::Call(j) => format!("Call({})", j.tid),
        Edge::ExternCallStub(j) => format!("ExternCallStub({})", j.tid),
        Edge::CrCallStub => "CrCallStub".to_string(),
        Edge::CrReturnStub => "CrReturnStub".to_string(),
        Edge::CallCombine(j) => format!("CallCombine({})", j.tid),
        Edge::ReturnCombine(j) => format!("ReturnCombine({})", j.tid),
    }
}

fn diff(a: &Bag, b: &Bag) -> Vec<String> {
    let mut out = Vec::new();
    for (k, v) in a {
        let w = b.get(k).copied().unwrap_or(0);
        if *v > w {
            out.push(format!("{} x{}", k, v - w));
        }
    }
    out
}

fn check(case: &Case) -> Option<Value> {
    let want = match expected(case) {
        Some(w) => w,
        None => return None, // not a well-formed normalized program: outside the property
    };
    let program = case.program();
    std::panic::set_hook(Box::new(|_| {}));
    let run = catch_unwind(AssertUnwindSafe(|| {
        let graph = get_program_cfg(&program);
        let mut nodes = Bag::new();
        let mut edges = Bag::new();
        for n in graph.node_indices() {
            put(&mut nodes, node_desc(&graph[n]));
        }
        for e in graph.edge_references() {
            put(&mut edges, format!("{} -> {} : {}", node_desc(&graph[e.source()]), node_desc(&graph[e.target()]), edge_desc(e.weight())));
        }
        (nodes, edges)
    }));
    let _ = std::panic::take_hook();
    let got = match run {
        Ok(g) => g,
        Err(_) => return Some(json!({"input": case.to_json(), "check": "no-panic", "got": "panic", "expected": "a graph"})),
    };
    if got != want {
        return Some(json!({"input": case.to_json(), "check": "exactly-the-control-flow",
            "expected": {"missing_nodes": diff(&want.0, &got.0), "missing_edges": diff(&want.1, &got.1)},
            "got": {"extra_nodes": diff(&got.0, &want.0), "extra_edges": diff(&got.1, &want.1)}}));
    }
    None
}

fn random_case(rng: &mut Rng) -> Case {
    let nf = 1 + (rng.next() % 3) as usize;
    let nb = (rng.next() % 6) as usize;
    let externs: Vec<String> = (0..(rng.next() % 3)).map(|i| format!("ext{}", i)).collect();
    let fname = |i: usize| format!("f{}", i);
    let mut blocks: Vec<B> = (0..nb).map(|i| B { tid: format!("b{}", i), jmps: Vec::new(), hints: Vec::new() }).collect();
    let any_block = |rng: &mut Rng| format!("b{}", rng.next() % nb.max(1) as u64);
    let ret = |rng: &mut Rng| if nb > 0 && rng.next() % 3 != 0 { Some(format!("b{}", rng.next() % nb as u64)) } else { None };
    for i in 0..nb {
        let one = |rng: &mut Rng| -> J {
            match rng.next() % 9 {
                0 => J::Branch(any_block(rng)),
                1 => J::BranchInd,
                2 | 3 => {
                    let target = match rng.next() % 5 {
                        0 => if externs.is_empty() { "unknown".to_string() } else { externs[(rng.next() % externs.len() as u64) as usize].clone() },
                        1 => "unknown".to_string(),
                        _ => fname((rng.next() % nf as u64) as usize),
                    };
                    J::Call(target, ret(rng))
                }
                4 => J::CallInd(ret(rng)),
                5 => J::CallOther(ret(rng)),
                6 | 7 => J::Return,
                _ => J::Branch(any_block(rng)),
            }
        };
        let jmps = match rng.next() % 4 {
            0 => vec![],
            1 | 2 => vec![one(rng)],
            _ => vec![J::CBranch(any_block(rng)), one(rng)],
        };
        let hints = (0..(rng.next() % 3)).map(|_| any_block(rng)).collect();
        blocks[i].jmps = jmps;
        blocks[i].hints = hints;
    }
    // every block is listed in one function; sometimes also in a second one
    let mut subs: Vec<(String, Vec<usize>)> = (0..nf).map(|i| (fname(i), Vec::new())).collect();
    for i in 0..nb {
        let f = (rng.next() % nf as u64) as usize;
        subs[f].1.push(i);
        if rng.next() % 6 == 0 {
            let g = (rng.next() % nf as u64) as usize;
            if g != f {
                subs[g].1.push(i);
            }
        }
    }
    Case { subs, blocks, externs }
}

fn fixed_cases() -> Vec<Case> {
    let b = |tid: &str, jmps: Vec<J>, hints: Vec<&str>| B { tid: tid.to_string(), jmps, hints: hints.iter().map(|s| s.to_string()).collect() };
    vec![
        // empty program, function without blocks
        Case { subs: vec![], blocks: vec![], externs: vec![] },
        Case { subs: vec![("f0".into(), vec![])], blocks: vec![], externs: vec![] },
        // conditional + fall-through, indirect jump with two hints
        Case {
            subs: vec![("f0".into(), vec![0, 1, 2])],
            blocks: vec![
                b("b0", vec![J::CBranch("b1".into()), J::Branch("b2".into())], vec![]),
                b("b1", vec![J::BranchInd], vec!["b0", "b2"]),
                b("b2", vec![J::Return], vec![]),
            ],
            externs: vec![],
        },
        // internal call with return, callee with two returning blocks, recursion
        Case {
            subs: vec![("f0".into(), vec![0, 1]), ("f1".into(), vec![2, 3])],
            blocks: vec![
                b("b0", vec![J::Call("f1".into(), Some("b1".into()))], vec![]),
                b("b1", vec![J::Return], vec![]),
                b("b2", vec![J::CBranch("b3".into()), J::Return], vec![]),
                b("b3", vec![J::Call("f1".into(), Some("b2".into()))], vec![]),
            ],
            externs: vec![],
        },
        // extern call with and without return, indirect call, CallOther, call to an unknown tid, call to a function without blocks
        Case {
            subs: vec![("f0".into(), vec![0, 1, 2, 3, 4, 5]), ("f1".into(), vec![])],
            blocks: vec![
                b("b0", vec![J::Call("ext0".into(), Some("b1".into()))], vec![]),
                b("b1", vec![J::Call("ext0".into(), None)], vec![]),
                b("b2", vec![J::CallInd(Some("b3".into()))], vec![]),
                b("b3", vec![J::CallOther(Some("b4".into()))], vec![]),
                b("b4", vec![J::Call("unknown".into(), Some("b5".into()))], vec![]),
                b("b5", vec![J::Call("f1".into(), Some("b0".into()))], vec![]),
            ],
            externs: vec!["ext0".into()],
        },
        // a jump into a block of another function: the pair (b2, f0) is created on demand
        Case {
            subs: vec![("f0".into(), vec![0]), ("f1".into(), vec![1, 2])],
            blocks: vec![
                b("b0", vec![J::Branch("b2".into())], vec![]),
                b("b1", vec![J::Call("f0".into(), Some("b2".into()))], vec![]),
                b("b2", vec![J::Return], vec![]),
            ],
            externs: vec![],
        },
    ]
}

fn enumerate(seed: u64, count: &mut u64, disagreements: &mut u64, first_only: bool) -> Option<Value> {
    let mut first = None;
    let mut rng = Rng(seed);
    let mut cases = fixed_cases();
    for _ in 0..6000 {
        cases.push(random_case(&mut rng));
    }
    for c in cases {
        if expected(&c).is_none() {
            continue;
        }
        *count += 1;
        if let Some(v) = check(&c) {
            *disagreements += 1;
            if first.is_none() {
                first = Some(v);
            }
            if first_only {
                return first;
            }
        }
    }
    first
}

pub fn search(twin: &str, _case: Option<&str>, seed: u64) -> Option<Value> {
    match twin {
        "c08.cfg" => {
            let (mut n, mut d) = (0, 0);
            enumerate(seed, &mut n, &mut d, true)
        }
        _ => None,
    }
}

pub fn replay(_twin: &str, input: &Value) -> Value {
    let case = Case::from_json(input);
    match check(&case) {
        Some(v) => json!({"agrees": false, "check": v["check"], "expected": v["expected"], "got": v["got"], "input": input}),
        None => json!({"agrees": true, "well_formed": expected(&case).is_some(), "input": input}),
    }
}

pub fn sweep(twin: &str, seed: u64) -> Value {
    let (mut n, mut d) = (0, 0);
    let first = if twin == "c08.cfg" { enumerate(seed, &mut n, &mut d, false) } else { None };
    json!({"twin": twin, "cases": n, "disagreements": d, "first": first})
}
