//! C07 twin: the generic worklist solver `analysis::fixpoint::Computation`, run on the REAL crate.
//!
//!   "For every graph and every monotone transfer system over a finite-height join lattice, running the solver
//!    from given start values terminates with the least assignment that contains the start values and is closed
//!    under all edge transfers, whatever node priority order is used.  With a step bound, no node is processed
//!    more often than the bound, and the solver reports 'stabilized' only when the returned assignment is closed
//!    under all edge transfers."
//!
//! Twin `c07.closure` (BOUNDED -- an enumeration, not a proof):
//!   lattice   subsets of {0,1,2} as a bit mask (u8 < 8), merge = union
//!   edges     Block (None), Union(c) (v -> Some(v | c)), Guard(c) (v -> Some(v) if v & c != 0 else None): all monotone
//!   graphs    ALL directed graphs (self-loops allowed, no parallel edges) with 1..=3 nodes under several seeded edge
//!             labelings, ALL 65536 directed graphs with 4 nodes under one seeded labeling each, seeded random
//!             multigraphs with 5..=8 nodes
//!   order     ALL priority permutations for <= 4 nodes, seeded random permutations above
//!   start     optional default value, start values on a seeded random subset of the nodes (set_node_value)
//!   runs      `Computation::from_node_priority_list` + `compute()` and + `compute_with_max_steps(k)`, k = 1..=3
//! Checks (reference = the property statement, computed by naive chaotic iteration, not by the code under test):
//!   closed      compute(): stabilized and every edge is absorbed; max_steps: every edge whose source is not on the
//!               returned worklist is absorbed (so: stabilized ==> closed under all edge transfers)
//!   start       every start value is below the result
//!   bound       the transfer of an edge is evaluated at most k times (each processing of a node evaluates each of
//!               its outgoing edges once) -- counted inside the test `Context`
//!   terminates  the run evaluates at most EVAL_LIMIT edge transfers in total (finite lattice + monotone transfers:
//!               the real solver needs far fewer; a diverging solver is stopped by a panic inside the test Context)
//!   least       compute(): the result equals the least closed assignment above the start values; max_steps: the
//!               result is below it (this part is NOT decided by the Verus unit; it is sampled here)
use crate::util::Rng;
use cwe_checker_lib::analysis::fixpoint::{Computation, Context};
use petgraph::graph::{DiGraph, EdgeIndex, NodeIndex};
use serde_json::{json, Value};
use std::cell::RefCell;
use std::panic::{catch_unwind, AssertUnwindSafe};

#[derive(Clone, Copy, Debug, PartialEq, Eq)]
pub enum EdgeFn {
    Block,
    Union(u8),
    Guard(u8),
}

impl EdgeFn {
    fn apply(self, v: u8) -> Option<u8> {
        match self {
            EdgeFn::Block => None,
            EdgeFn::Union(c) => Some(v | c),
            EdgeFn::Guard(c) => if v & c != 0 { Some(v) } else { None },
        }
    }
    fn to_json(self) -> Value {
        match self {
            EdgeFn::Block => json!(["block", 0]),
            EdgeFn::Union(c) => json!(["union", c]),
            EdgeFn::Guard(c) => json!(["guard", c]),
        }
    }
    fn from_json(v: &Value) -> EdgeFn {
        let c = v[1].as_u64().unwrap_or(0) as u8 & 7;
        match v[0].as_str().unwrap_or("block") {
            "union" => EdgeFn::Union(c),
            "guard" => EdgeFn::Guard(c),
            _ => EdgeFn::Block,
        }
    }
}

/// More transfer evaluations than any terminating run on these inputs can need (<= 8 nodes, <= 24 edges,
/// lattice height 3: a node value changes at most 4 times).
const EVAL_LIMIT: u64 = 20_000;

struct Ctx {
    graph: DiGraph<(), EdgeFn>,
    /// number of evaluations of the transfer function, per edge
    calls: RefCell<Vec<u64>>,
    total: std::cell::Cell<u64>,
}

impl Context for Ctx {
    type EdgeLabel = EdgeFn;
    type NodeLabel = ();
    type NodeValue = u8;

    fn get_graph(&self) -> &DiGraph<(), EdgeFn> {
        &self.graph
    }
    fn merge(&self, val1: &u8, val2: &u8) -> u8 {
        val1 | val2
    }
    fn update_edge(&self, value: &u8, edge: EdgeIndex) -> Option<u8> {
        self.calls.borrow_mut()[edge.index()] += 1;
        self.total.set(self.total.get() + 1);
        if self.total.get() > EVAL_LIMIT {
            panic!("c07 twin: evaluation limit exceeded (solver does not terminate)");
        }
        self.graph[edge].apply(*value)
    }
}

#[derive(Clone, Debug)]
pub struct Case {
    n: usize,
    edges: Vec<(usize, usize, EdgeFn)>,
    /// priority_sorted_nodes: position = priority, entry = node
    prio: Vec<usize>,
    default: Option<u8>,
    starts: Vec<(usize, u8)>,
    /// 0 = compute(), k > 0 = compute_with_max_steps(k)
    max_steps: u64,
}

impl Case {
    fn to_json(&self) -> Value {
        json!({
            "fn": "closure", "n": self.n,
            "edges": self.edges.iter().map(|(a, b, f)| json!([a, b, f.to_json()])).collect::<Vec<_>>(),
            "priority_sorted_nodes": self.prio,
            "default": self.default,
            "starts": self.starts.iter().map(|(a, v)| json!([a, v])).collect::<Vec<_>>(),
            "max_steps": self.max_steps,
        })
    }
    fn from_json(v: &Value) -> Case {
        Case {
            n: v["n"].as_u64().unwrap_or(0) as usize,
            edges: v["edges"].as_array().map(|a| a.iter().map(|e| (e[0].as_u64().unwrap() as usize, e[1].as_u64().unwrap() as usize, EdgeFn::from_json(&e[2]))).collect()).unwrap_or_default(),
            prio: v["priority_sorted_nodes"].as_array().map(|a| a.iter().map(|x| x.as_u64().unwrap() as usize).collect()).unwrap_or_default(),
            default: v["default"].as_u64().map(|x| x as u8 & 7),
            starts: v["starts"].as_array().map(|a| a.iter().map(|e| (e[0].as_u64().unwrap() as usize, e[1].as_u64().unwrap() as u8 & 7)).collect()).unwrap_or_default(),
            max_steps: v["max_steps"].as_u64().unwrap_or(0),
        }
    }
}

/// The start assignment (default everywhere, overridden by the start values) and the least assignment above it
/// that is closed under all edge transfers -- naive iteration, written from the property statement.
fn reference(case: &Case) -> (Vec<Option<u8>>, Vec<Option<u8>>) {
    let mut start: Vec<Option<u8>> = vec![case.default; case.n];
    for (a, v) in &case.starts {
        start[*a] = Some(*v);
    }
    let mut val = start.clone();
    loop {
        let mut changed = false;
        for (a, b, f) in &case.edges {
            if let Some(v) = val[*a] {
                if let Some(x) = f.apply(v) {
                    let new = Some(x | val[*b].unwrap_or(0));
                    if new != val[*b] {
                        val[*b] = new;
                        changed = true;
                    }
                }
            }
        }
        if !changed {
            return (start, val);
        }
    }
}

/// Runs the real solver on the case; Some(report) on a disagreement with the property.
fn check(case: &Case) -> Option<Value> {
    let mut graph: DiGraph<(), EdgeFn> = DiGraph::new();
    for _ in 0..case.n {
        graph.add_node(());
    }
    for (a, b, f) in &case.edges {
        graph.add_edge(NodeIndex::new(*a), NodeIndex::new(*b), *f);
    }
    let ctx = Ctx { graph, calls: RefCell::new(vec![0; case.edges.len()]), total: std::cell::Cell::new(0) };
    let prio: Vec<NodeIndex> = case.prio.iter().map(|p| NodeIndex::new(*p)).collect();
    let (start, least) = reference(case);

    // a caught panic is reported in the JSON result; keep stderr quiet
    std::panic::set_hook(Box::new(|_| {}));
    let run = catch_unwind(AssertUnwindSafe(|| {
        let mut comp = Computation::from_node_priority_list(ctx, case.default, prio);
        for (a, v) in &case.starts {
            comp.set_node_value(NodeIndex::new(*a), *v);
        }
        if case.max_steps == 0 {
            comp.compute();
        } else {
            comp.compute_with_max_steps(case.max_steps);
        }
        let result: Vec<Option<u8>> = (0..case.n).map(|i| comp.get_node_value(NodeIndex::new(i)).copied()).collect();
        let worklist: Vec<usize> = comp.get_worklist().iter().map(|x| x.index()).collect();
        let calls = comp.get_context().calls.borrow().clone();
        (result, worklist, comp.has_stabilized(), calls)
    }));
    let _ = std::panic::take_hook();
    let (result, worklist, stabilized, calls) = match run {
        Ok(r) => r,
        Err(_) => return Some(json!({"input": case.to_json(), "check": "terminates",
            "observed": "panic (index out of bounds, or more than EVAL_LIMIT transfer evaluations: the solver does not terminate)",
            "expected": "terminates without panic", "least_closed_assignment": least})),
    };
    let fail = |check: &str, observed: Value, expected: Value| {
        Some(json!({"input": case.to_json(), "check": check, "observed": observed, "expected": expected,
            "result": result, "worklist": worklist, "stabilized": stabilized, "least_closed_assignment": least}))
    };
    // stabilized <=> empty worklist (has_stabilized contract)
    if stabilized != worklist.is_empty() {
        return fail("has_stabilized", json!(stabilized), json!(worklist.is_empty()));
    }
    if case.max_steps == 0 && !stabilized {
        return fail("closed", json!("compute() returned with a non-empty worklist"), json!("stabilized"));
    }
    // (a) closed: every edge whose source is not on the returned worklist is absorbed
    for (i, (a, b, f)) in case.edges.iter().enumerate() {
        if worklist.contains(a) {
            continue;
        }
        if let Some(v) = result[*a] {
            if let Some(x) = f.apply(v) {
                let ok = match result[*b] { Some(t) => x | t == t, None => false };
                if !ok {
                    return fail("closed", json!({"edge": i, "source": a, "target": b, "transfer_result": x, "target_value": result[*b]}),
                        json!("target value absorbs the transfer result"));
                }
            }
        }
    }
    // (b) start values are below the results
    for i in 0..case.n {
        if let Some(s) = start[i] {
            let ok = match result[i] { Some(t) => s | t == t, None => false };
            if !ok {
                return fail("start", json!({"node": i, "start": s, "result": result[i]}), json!("start value below the result"));
            }
        }
    }
    // (c) step bound
    if case.max_steps > 0 {
        for (i, c) in calls.iter().enumerate() {
            if *c > case.max_steps {
                return fail("bound", json!({"edge": i, "source": case.edges[i].0, "transfer_evaluations": c}), json!({"at_most": case.max_steps}));
            }
        }
    }
    // leastness / order independence (sampled, not proved)
    for i in 0..case.n {
        let below = match (result[i], least[i]) { (None, _) => true, (Some(r), Some(l)) => r | l == l, (Some(_), None) => false };
        if !below || (stabilized && result[i] != least[i]) {
            return fail("least", json!({"node": i, "result": result[i]}), json!({"least": least[i]}));
        }
    }
    None
}

fn permutations(n: usize) -> Vec<Vec<usize>> {
    fn rec(cur: &mut Vec<usize>, used: &mut Vec<bool>, n: usize, out: &mut Vec<Vec<usize>>) {
        if cur.len() == n {
            out.push(cur.clone());
            return;
        }
        for i in 0..n {
            if !used[i] {
                used[i] = true;
                cur.push(i);
                rec(cur, used, n, out);
                cur.pop();
                used[i] = false;
            }
        }
    }
    let mut out = Vec::new();
    rec(&mut Vec::new(), &mut vec![false; n], n, &mut out);
    out
}

fn random_fn(rng: &mut Rng) -> EdgeFn {
    match rng.next() % 8 {
        0 => EdgeFn::Block,
        1 | 2 => EdgeFn::Guard((rng.next() % 8) as u8),
        _ => EdgeFn::Union((rng.next() % 8) as u8),
    }
}

fn random_starts(rng: &mut Rng, n: usize) -> (Option<u8>, Vec<(usize, u8)>) {
    let default = if rng.next() % 4 == 0 { Some((rng.next() % 8) as u8) } else { None };
    let mut starts = Vec::new();
    for i in 0..n {
        if rng.next() % 2 == 0 {
            starts.push((i, (rng.next() % 8) as u8));
        }
    }
    if starts.is_empty() && default.is_none() {
        starts.push(((rng.next() % n as u64) as usize, (rng.next() % 8) as u8));
    }
    (default, starts)
}

/// all runs (compute, max_steps 1..=3) of one problem under one priority order
fn check_all_modes(case: &mut Case, evaluations: &mut u64) -> Option<Value> {
    for k in 0..=3u64 {
        case.max_steps = k;
        *evaluations += 1;
        if let Some(v) = check(case) {
            return Some(v);
        }
    }
    None
}

fn enumerate(seed: u64, evaluations: &mut u64) -> Option<Value> {
    let mut rng = Rng(seed);
    // exhaustive part: all graphs with n <= 4 nodes, all priority orders
    for n in 1..=4usize {
        let perms = permutations(n);
        let pairs: Vec<(usize, usize)> = (0..n).flat_map(|a| (0..n).map(move |b| (a, b))).collect();
        let labelings = if n <= 3 { 6 } else { 1 };
        for mask in 0..(1u32 << pairs.len()) {
            for _ in 0..labelings {
                let edges: Vec<(usize, usize, EdgeFn)> = pairs.iter().enumerate()
                    .filter(|(i, _)| mask >> i & 1 == 1)
                    .map(|(_, (a, b))| (*a, *b, random_fn(&mut rng))).collect();
                let (default, starts) = random_starts(&mut rng, n);
                for p in &perms {
                    let mut case = Case { n, edges: edges.clone(), prio: p.clone(), default, starts: starts.clone(), max_steps: 0 };
                    if let Some(v) = check_all_modes(&mut case, evaluations) {
                        return Some(v);
                    }
                }
            }
        }
    }
    // seeded random multigraphs with 5..=8 nodes
    for _ in 0..30000 {
        let n = 5 + (rng.next() % 4) as usize;
        let m = (rng.next() % (3 * n as u64)) as usize;
        let edges: Vec<(usize, usize, EdgeFn)> = (0..m)
            .map(|_| ((rng.next() % n as u64) as usize, (rng.next() % n as u64) as usize, random_fn(&mut rng))).collect();
        let (default, starts) = random_starts(&mut rng, n);
        let mut prio: Vec<usize> = (0..n).collect();
        for i in (1..n).rev() {
            let j = (rng.next() % (i as u64 + 1)) as usize;
            prio.swap(i, j);
        }
        let mut case = Case { n, edges, prio, default, starts, max_steps: 0 };
        if let Some(v) = check_all_modes(&mut case, evaluations) {
            return Some(v);
        }
    }
    None
}

pub fn search(twin: &str, _case: Option<&str>, seed: u64) -> Option<Value> {
    match twin {
        "c07.closure" => {
            let mut evaluations = 0;
            enumerate(seed, &mut evaluations)
        }
        _ => None,
    }
}

pub fn replay(_twin: &str, input: &Value) -> Value {
    let case = Case::from_json(input);
    match check(&case) {
        Some(v) => json!({"agrees": false, "check": v["check"], "observed": v["observed"], "expected": v["expected"],
            "result": v["result"], "worklist": v["worklist"], "input": input}),
        None => json!({"agrees": true, "input": input}),
    }
}

pub fn sweep(twin: &str, seed: u64) -> Value {
    let mut evaluations = 0;
    let r = if twin == "c07.closure" { enumerate(seed, &mut evaluations) } else { None };
    json!({"twin": twin, "bounded": true, "evaluations": evaluations, "disagreements": if r.is_some() { 1 } else { 0 }, "first": r})
}
