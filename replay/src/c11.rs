//! C11 twin: sub-register substitution of the P-Code -> IR lifting, run on the REAL crate.
//!
//!   "Lifting P-Code to the IR preserves behaviour.  For every P-Code program the extractor can emit, the intermediate
//!    representation produced from it executes every block with the same effect as the P-Code reference semantics: the same
//!    final contents of all base registers (where sub-registers alias bytes of their base register), the same memory writes,
//!    the same branch decisions and jump targets.  Implicit memory accesses through constant addresses become explicit reads
//!    and writes of the same addresses and sizes."
//!
//! BOUNDED (seeded random blocks; never counted as proof).  `replace_subregister_in_block` lives in a private module of the
//! crate; it is driven through its only production caller, the public `pcode::Project::into_ir_project`, on a project
//! with one function with one block.  So the twin sees the P-Code -> IR translation of defs / jumps as well
//! (`Def::into_ir_def`, `From<Jmp> for IrJmp`, the mnemonic tables), not only the substitution.
//!
//!   REFERENCE  the P-Code block (flat instructions `out = OP in0, in1`) is interpreted directly with ALIASING semantics: the
//!              machine state maps BASE registers to bit vectors, a register varnode (name, size) reads / writes bytes
//!              [lsb(name), lsb(name) + size) of its base register; temporaries (unique space) are cells of their own; memory is a
//!              map address -> byte over a fixed pseudo-random background, little endian; every STORE is logged (address, size, value).
//!   REAL       the block is lifted by the real `into_ir_project` and the resulting IR block is interpreted with PLAIN semantics:
//!              every variable name is a cell of its own.  A variable that is a register of the table but not a base register at
//!              full size must not occur any more (class `not_plain`); an expression whose operand sizes do not fit is class
//!              `ill_sized`.
//!   Both interpreters compute operations with the real `Bitvector::{bin_op, un_op, cast, subpiece}` (property C01).
//!   COMPARED   final contents of all base registers, final contents of the temporaries of the P-Code block, the sequence of memory
//!              writes, the values of the jump conditions / indirect targets.
//!
//! Twins:
//!   c11.subreg   blocks "as the extractor may emit them" over an x86-64 style table (RAX/EAX/AX/AL/AH, RCX/.., RSP/ESP, XMM0 with
//!                quad / double-word / word parts at lsb 0, 2, 4, 8, 12, flags).  A register varnode (first byte, size) carries the name
//!                the extractor gives it (`context.getRegister(varnode).getName()`): the smallest register of the table that starts
//!                at that byte and is at least that large -- so `ESP:2`, `XMM0_Da:1` (a sub-register NAME at a smaller size) occur.
//!                Temporaries are `$U..`; 1-6 instructions; often the pattern "sub-register write followed by a cast of it to its base
//!                register" (`is_next_def_cast_to_base_register`), with all four integer casts.  MUST AGREE on the unchanged tree.
//!   c11.castsmall  the same over a table that additionally has a base register whose LOW part has no name (`R8` with only
//!                `R8_hi` = bytes [4, 8)): its low bytes are then the BASE register NAME at a smaller size (`R8:4`, the same-name case
//!                the code documents in `into_subregister`), so `R8_hi:2 = ..; R8:4 = INT_ZEXT R8_hi:2` occurs: a cast into the base
//!                register's name that does NOT write the whole base register and must not be merged (finding F1, repaired in /repo
//!                commit 19618dc; seeded/findings/C11-castsmall.json).  MUST AGREE on the unchanged tree.
use crate::util::{mask, mk, val, Rng};
use cwe_checker_lib::intermediate_representation as ir;
use cwe_checker_lib::intermediate_representation::{
    BinOpType, Bitvector, BitvectorExtended, ByteSize, CastOpType, Term, Tid, UnOpType,
};
use cwe_checker_lib::pcode;
use cwe_checker_lib::pcode::ExpressionType as M;
use cwe_checker_lib::pcode::RegisterProperties;
use serde_json::{json, Value};
use std::collections::BTreeMap;
use std::panic::{catch_unwind, AssertUnwindSafe};

// ------------------------------------------------------------------------------------------------------------------
// the case
// ------------------------------------------------------------------------------------------------------------------

#[derive(Clone, Debug)]
struct Case {
    regs: Vec<RegisterProperties>,
    /// initial contents of the base registers
    init: BTreeMap<String, u128>,
    defs: Vec<Term<pcode::Def>>,
    jmps: Vec<Term<pcode::Jmp>>,
}

fn rp(name: &str, base: &str, lsb: u64, size: u64) -> RegisterProperties {
    RegisterProperties { register: name.to_string(), base_register: base.to_string(), lsb: ByteSize::new(lsb), size: ByteSize::new(size) }
}

fn table() -> Vec<RegisterProperties> { table_of(Mode::Subreg) }

fn table_of(mode: Mode) -> Vec<RegisterProperties> {
    let mut t = vec![
        rp("RAX", "RAX", 0, 8), rp("EAX", "RAX", 0, 4), rp("AX", "RAX", 0, 2), rp("AL", "RAX", 0, 1), rp("AH", "RAX", 1, 1),
        rp("RCX", "RCX", 0, 8), rp("ECX", "RCX", 0, 4), rp("CX", "RCX", 0, 2), rp("CL", "RCX", 0, 1), rp("CH", "RCX", 1, 1),
        rp("RSP", "RSP", 0, 8), rp("ESP", "RSP", 0, 4),
        rp("XMM0", "XMM0", 0, 16), rp("XMM0_Qa", "XMM0", 0, 8), rp("XMM0_Qb", "XMM0", 8, 8), rp("XMM0_Da", "XMM0", 0, 4),
        rp("XMM0_Db", "XMM0", 4, 4), rp("XMM0_Dd", "XMM0", 12, 4), rp("XMM0_Wb", "XMM0", 2, 2),
        rp("ZF", "ZF", 0, 1), rp("CF", "CF", 0, 1),
    ];
    if mode == Mode::CastSmall {
        // a base register whose LOW part has no name of its own: its low bytes are `R8:4`, `R8:2`, `R8:1` (domain of finding F1)
        t.push(rp("R8", "R8", 0, 8));
        t.push(rp("R8_hi", "R8", 4, 4));
    }
    t
}

fn b(n: u64) -> ByteSize { ByteSize::new(n) }
fn sz(s: ByteSize) -> u64 { u64::from(s) }

fn splitmix(x: u64) -> u64 {
    let mut z = x.wrapping_add(0x9E37_79B9_7F4A_7C15);
    z = (z ^ (z >> 30)).wrapping_mul(0xBF58_476D_1CE4_E5B9);
    z = (z ^ (z >> 27)).wrapping_mul(0x94D0_49BB_1331_11EB);
    z ^ (z >> 31)
}
/// content of memory that nobody wrote
fn background_byte(addr: u64) -> u8 { (splitmix(addr ^ 0xC11) & 0xff) as u8 }
/// content of a temporary that nobody wrote
fn background_temp(name: &str, size: u64) -> u128 {
    let mut h = 0xC11u64;
    for c in name.bytes() { h = splitmix(h ^ c as u64); }
    (((splitmix(h) as u128) << 64) | splitmix(h ^ 1) as u128) & mask((size * 8) as u32)
}

fn bvs(size: u64, u: u128) -> Bitvector { mk((size * 8) as u32, u) }
fn uval(x: &Bitvector) -> u128 { val(x).1 }
fn bytes_of(x: &Bitvector) -> u64 { (val(x).0 / 8) as u64 }

// ------------------------------------------------------------------------------------------------------------------
// memory (shared by both interpreters)
// ------------------------------------------------------------------------------------------------------------------

#[derive(Clone, Default, Debug)]
struct Mem {
    cells: BTreeMap<u64, u8>,
    writes: Vec<(u64, u64, u128)>,
}
impl Mem {
    fn load(&self, addr: u64, size: u64) -> u128 {
        let mut v: u128 = 0;
        for i in 0..size {
            let a = addr.wrapping_add(i);
            let byte = *self.cells.get(&a).unwrap_or(&background_byte(a));
            v |= (byte as u128) << (8 * i);
        }
        v
    }
    fn store(&mut self, addr: u64, size: u64, v: u128) {
        for i in 0..size {
            self.cells.insert(addr.wrapping_add(i), ((v >> (8 * i)) & 0xff) as u8);
        }
        self.writes.push((addr, size, v));
    }
}

// ------------------------------------------------------------------------------------------------------------------
// REFERENCE: P-Code with aliasing
// ------------------------------------------------------------------------------------------------------------------

struct RefMachine<'a> {
    regs: &'a [RegisterProperties],
    base: BTreeMap<String, (u64, u128)>,
    temps: BTreeMap<String, (u64, u128)>,
    mem: Mem,
}

fn bin_of(m: M) -> Option<BinOpType> {
    use BinOpType::*;
    Some(match m {
        M::PIECE => Piece, M::INT_EQUAL => IntEqual, M::INT_NOTEQUAL => IntNotEqual, M::INT_LESS => IntLess, M::INT_SLESS => IntSLess,
        M::INT_LESSEQUAL => IntLessEqual, M::INT_SLESSEQUAL => IntSLessEqual, M::INT_ADD => IntAdd, M::INT_SUB => IntSub,
        M::INT_CARRY => IntCarry, M::INT_SCARRY => IntSCarry, M::INT_SBORROW => IntSBorrow, M::INT_XOR => IntXOr, M::INT_AND => IntAnd,
        M::INT_OR => IntOr, M::INT_LEFT => IntLeft, M::INT_RIGHT => IntRight, M::INT_SRIGHT => IntSRight, M::INT_MULT => IntMult,
        _ => return None,
    })
}

impl<'a> RefMachine<'a> {
    fn new(case: &'a Case) -> Self {
        let mut base = BTreeMap::new();
        for r in &case.regs {
            if r.register == r.base_register {
                base.insert(r.register.clone(), (sz(r.size), case.init.get(&r.register).copied().unwrap_or(0) & mask((sz(r.size) * 8) as u32)));
            }
        }
        RefMachine { regs: &case.regs, base, temps: BTreeMap::new(), mem: Mem::default() }
    }
    fn reg(&self, name: &str) -> Option<&RegisterProperties> { self.regs.iter().find(|r| r.register == name) }

    fn read(&self, v: &pcode::Variable) -> Result<Bitvector, String> {
        let size = sz(v.size);
        if let Some(hex) = &v.value {
            let u = u128::from_str_radix(hex.trim_start_matches("0x"), 16).map_err(|e| e.to_string())?;
            return Ok(bvs(size, u));
        }
        let name = v.name.as_ref().ok_or("varnode without name")?;
        if v.is_virtual {
            return Ok(match self.temps.get(name) {
                Some((s, u)) if *s == size => bvs(size, *u),
                Some(_) => return Err(format!("generator: temporary {name} used with two sizes")),
                None => bvs(size, background_temp(name, size)),
            });
        }
        let r = self.reg(name).ok_or(format!("generator: unknown register {name}"))?;
        let (bsize, bval) = self.base[&r.base_register];
        let lsb = sz(r.lsb);
        if lsb + size > bsize { return Err(format!("generator: {name}:{size} exceeds its base register")); }
        Ok(bvs(size, (bval >> (8 * lsb)) & mask((size * 8) as u32)))
    }
    fn write(&mut self, v: &pcode::Variable, x: &Bitvector) -> Result<(), String> {
        let size = sz(v.size);
        if bytes_of(x) != size { return Err(format!("generator: value of {} bytes assigned to {:?}:{}", bytes_of(x), v.name, size)); }
        let name = v.name.as_ref().ok_or("output varnode without name")?;
        if v.is_virtual {
            self.temps.insert(name.clone(), (size, uval(x)));
            return Ok(());
        }
        let r = self.reg(name).ok_or(format!("generator: unknown register {name}"))?.clone();
        let (bsize, bval) = self.base[&r.base_register];
        let lsb = sz(r.lsb);
        if lsb + size > bsize { return Err(format!("generator: {name}:{size} exceeds its base register")); }
        let field = mask((size * 8) as u32) << (8 * lsb);
        let new = (bval & !field) | (uval(x) << (8 * lsb));
        self.base.insert(r.base_register.clone(), (bsize, new & mask((bsize * 8) as u32)));
        Ok(())
    }
    fn step(&mut self, d: &pcode::Def) -> Result<(), String> {
        let e = &d.rhs;
        let in0 = |m: &Self| m.read(e.input0.as_ref().ok_or("input0 missing")?);
        let in1 = |m: &Self| m.read(e.input1.as_ref().ok_or("input1 missing")?);
        let err = |x: String| format!("generator: operation failed: {x}");
        match e.mnemonic {
            M::STORE => {
                let a = uval(&in1(self)?) as u64;
                let v = self.read(e.input2.as_ref().ok_or("input2 missing")?)?;
                self.mem.store(a, bytes_of(&v), uval(&v));
                return Ok(());
            }
            _ => (),
        }
        let out = d.lhs.as_ref().ok_or("output missing")?;
        let osize = sz(out.size);
        let value = match e.mnemonic {
            M::LOAD => {
                let a = uval(&in1(self)?) as u64;
                bvs(osize, self.mem.load(a, osize))
            }
            M::COPY => in0(self)?,
            M::INT_NEGATE => in0(self)?.un_op(UnOpType::IntNegate).map_err(|x| err(x.to_string()))?,
            M::INT_2COMP => in0(self)?.un_op(UnOpType::Int2Comp).map_err(|x| err(x.to_string()))?,
            M::INT_ZEXT => in0(self)?.cast(CastOpType::IntZExt, b(osize)).map_err(|x| err(x.to_string()))?,
            M::INT_SEXT => in0(self)?.cast(CastOpType::IntSExt, b(osize)).map_err(|x| err(x.to_string()))?,
            M::POPCOUNT => in0(self)?.cast(CastOpType::PopCount, b(osize)).map_err(|x| err(x.to_string()))?,
            M::LZCOUNT => in0(self)?.cast(CastOpType::LzCount, b(osize)).map_err(|x| err(x.to_string()))?,
            M::SUBPIECE => {
                let low = uval(&in1(self)?) as u64;
                in0(self)?.subpiece(b(low), b(osize))
            }
            m => {
                let op = bin_of(m).ok_or(format!("generator: mnemonic {m:?} not modelled"))?;
                in0(self)?.bin_op(op, &in1(self)?).map_err(|x| err(x.to_string()))?
            }
        };
        self.write(out, &value)
    }
}

fn jump_varnode(j: &pcode::Jmp) -> Option<&pcode::Variable> {
    use pcode::JmpType::*;
    fn ind(l: &Option<pcode::Label>) -> Option<&pcode::Variable> {
        match l { Some(pcode::Label::Indirect(v)) => Some(v), _ => None }
    }
    match j.mnemonic {
        CBRANCH => j.condition.as_ref(),
        BRANCHIND | RETURN => ind(&j.goto),
        CALLIND => j.call.as_ref().and_then(|c| ind(&c.target)),
        _ => None,
    }
}

// ------------------------------------------------------------------------------------------------------------------
// REAL: lift with the real crate, interpret the IR with plain semantics
// ------------------------------------------------------------------------------------------------------------------

fn lift(case: &Case) -> Result<ir::Blk, String> {
    let blk = pcode::Blk { defs: case.defs.clone(), jmps: case.jmps.clone() };
    let sub = Term {
        tid: Tid::new("sub"),
        term: pcode::Sub { name: "f".to_string(), blocks: vec![Term { tid: Tid::new("blk"), term: blk }], calling_convention: None },
    };
    let program = Term {
        tid: Tid::new("prog"),
        term: pcode::Program { subs: vec![sub], extern_symbols: vec![], entry_points: vec![], image_base: "0".to_string() },
    };
    let project = pcode::Project {
        program,
        cpu_architecture: "x86_64".to_string(),
        stack_pointer_register: pcode::Variable { name: Some("RSP".to_string()), value: None, address: None, size: b(8), is_virtual: false },
        register_properties: case.regs.clone(),
        register_calling_convention: vec![],
        datatype_properties: ir::DatatypeProperties {
            char_size: b(1), double_size: b(8), float_size: b(4), integer_size: b(4), long_double_size: b(8), long_long_size: b(8),
            long_size: b(8), pointer_size: b(8), short_size: b(2),
        },
    };
    let res = catch_unwind(AssertUnwindSafe(|| project.into_ir_project(0)));
    match res {
        Ok(p) => {
            let sub = p.program.term.subs.values().next().ok_or("no function in the lifted program")?;
            Ok(sub.term.blocks.first().ok_or("no block in the lifted function")?.term.clone())
        }
        Err(_) => Err("panic".to_string()),
    }
}

struct PlainMachine<'a> {
    regs: &'a [RegisterProperties],
    /// (name, is_temp) -> (size, value)
    cells: BTreeMap<(String, bool), (u64, u128)>,
    mem: Mem,
}

/// classes of a failure of the plain interpreter
const NOT_PLAIN: &str = "not_plain";
const ILL_SIZED: &str = "ill_sized";

impl<'a> PlainMachine<'a> {
    fn new(case: &'a Case) -> Self {
        let mut cells = BTreeMap::new();
        for r in &case.regs {
            if r.register == r.base_register {
                cells.insert((r.register.clone(), false), (sz(r.size), case.init.get(&r.register).copied().unwrap_or(0) & mask((sz(r.size) * 8) as u32)));
            }
        }
        PlainMachine { regs: &case.regs, cells, mem: Mem::default() }
    }
    fn check_plain(&self, v: &ir::Variable) -> Result<(), (String, String)> {
        if v.is_temp { return Ok(()); }
        if let Some(r) = self.regs.iter().find(|r| r.register == v.name) {
            if r.register != r.base_register || sz(v.size) != sz(r.size) {
                return Err((NOT_PLAIN.to_string(), format!("variable {}:{} occurs after the substitution; it is not a base register at full size", v.name, sz(v.size))));
            }
        }
        Ok(())
    }
    fn read(&self, v: &ir::Variable) -> Result<Bitvector, (String, String)> {
        self.check_plain(v)?;
        let size = sz(v.size);
        match self.cells.get(&(v.name.clone(), v.is_temp)) {
            Some((s, u)) if *s == size => Ok(bvs(size, *u)),
            Some((s, _)) => Err((NOT_PLAIN.to_string(), format!("variable {} read with size {} but written with size {}", v.name, size, s))),
            None => Ok(bvs(size, background_temp(&v.name, size))),
        }
    }
    fn write(&mut self, v: &ir::Variable, x: &Bitvector) -> Result<(), (String, String)> {
        self.check_plain(v)?;
        if bytes_of(x) != sz(v.size) {
            return Err((ILL_SIZED.to_string(), format!("value of {} bytes assigned to {}:{}", bytes_of(x), v.name, sz(v.size))));
        }
        self.cells.insert((v.name.clone(), v.is_temp), (sz(v.size), uval(x)));
        Ok(())
    }
    fn eval(&self, e: &ir::Expression) -> Result<Bitvector, (String, String)> {
        use ir::Expression::*;
        let ill = |m: String| (ILL_SIZED.to_string(), m);
        match e {
            Var(v) => self.read(v),
            Const(c) => Ok(c.clone()),
            BinOp { op, lhs, rhs } => {
                let (l, r) = (self.eval(lhs)?, self.eval(rhs)?);
                let shift = matches!(op, BinOpType::IntLeft | BinOpType::IntRight | BinOpType::IntSRight);
                if *op == BinOpType::Piece {
                    if bytes_of(&l) + bytes_of(&r) > 16 { return Err(ill(format!("{e}: piece wider than 16 bytes"))); }
                } else if !shift && bytes_of(&l) != bytes_of(&r) {
                    return Err(ill(format!("{e}: operands of {} and {} bytes", bytes_of(&l), bytes_of(&r))));
                }
                l.bin_op(*op, &r).map_err(|x| ill(format!("{e}: {x}")))
            }
            UnOp { op, arg } => self.eval(arg)?.un_op(*op).map_err(|x| ill(format!("{e}: {x}"))),
            Cast { op, size, arg } => {
                let a = self.eval(arg)?;
                if matches!(op, CastOpType::IntZExt | CastOpType::IntSExt) && sz(*size) < bytes_of(&a) {
                    return Err(ill(format!("{e}: extension to a smaller size")));
                }
                a.cast(*op, *size).map_err(|x| ill(format!("{e}: {x}")))
            }
            Subpiece { low_byte, size, arg } => {
                let a = self.eval(arg)?;
                if sz(*low_byte) + sz(*size) > bytes_of(&a) || sz(*size) == 0 {
                    return Err(ill(format!("{e}: bytes [{}, {}) of a value of {} bytes", sz(*low_byte), sz(*low_byte) + sz(*size), bytes_of(&a))));
                }
                Ok(a.subpiece(*low_byte, *size))
            }
            Unknown { .. } => Err(ill(format!("{e}: unknown expression"))),
        }
    }
    fn step(&mut self, d: &ir::Def) -> Result<(), (String, String)> {
        match d {
            ir::Def::Assign { var, value } => {
                let v = self.eval(value)?;
                self.write(var, &v)
            }
            ir::Def::Load { var, address } => {
                let a = uval(&self.eval(address)?) as u64;
                let v = bvs(sz(var.size), self.mem.load(a, sz(var.size)));
                self.write(var, &v)
            }
            ir::Def::Store { address, value } => {
                let a = uval(&self.eval(address)?) as u64;
                let v = self.eval(value)?;
                self.mem.store(a, bytes_of(&v), uval(&v));
                Ok(())
            }
        }
    }
}

fn jump_expr(j: &ir::Jmp) -> Option<&ir::Expression> {
    match j {
        ir::Jmp::BranchInd(e) | ir::Jmp::Return(e) => Some(e),
        ir::Jmp::CBranch { condition, .. } => Some(condition),
        ir::Jmp::CallInd { target, .. } => Some(target),
        _ => None,
    }
}

// ------------------------------------------------------------------------------------------------------------------
// the comparison
// ------------------------------------------------------------------------------------------------------------------

fn hexv(u: u128) -> String { format!("0x{u:x}") }

fn show_var(v: &pcode::Variable) -> String {
    match (&v.name, &v.value, &v.address) {
        (Some(n), _, _) => format!("{}:{}", n, sz(v.size)),
        (_, Some(c), _) => format!("0x{}:{}", c, sz(v.size)),
        (_, _, Some(a)) => format!("*[{}]:{}", a, sz(v.size)),
        _ => "?".to_string(),
    }
}
fn show_def(d: &Term<pcode::Def>) -> String {
    let e = &d.term.rhs;
    let ins: Vec<String> = [&e.input0, &e.input1, &e.input2].iter().filter_map(|x| x.as_ref().map(show_var)).collect();
    match &d.term.lhs {
        Some(o) => format!("{}: {} = {:?} {}", d.tid, show_var(o), e.mnemonic, ins.join(", ")),
        None => format!("{}: {:?} {}", d.tid, e.mnemonic, ins.join(", ")),
    }
}
fn show_jmp(j: &Term<pcode::Jmp>) -> String {
    format!("{}: {:?} {}", j.tid, j.term.mnemonic, jump_varnode(&j.term).map(show_var).unwrap_or_default())
}

/// None = agreement (or a case the generator should not have produced: counted separately through `Err`)
fn check(case: &Case) -> Result<Option<Value>, String> {
    // reference
    let mut rm = RefMachine::new(case);
    for d in &case.defs {
        let r = catch_unwind(AssertUnwindSafe(|| rm.step(&d.term)));
        match r {
            Ok(Ok(())) => (),
            Ok(Err(m)) => return Err(m),
            Err(_) => return Err("generator: reference interpreter panicked".to_string()),
        }
    }
    let mut ref_jumps: Vec<Option<u128>> = Vec::new();
    for j in &case.jmps {
        ref_jumps.push(match jump_varnode(&j.term) { Some(v) => Some(uval(&rm.read(v)?)), None => None });
    }
    // real
    let expected = json!({
        "base_registers": rm.base.iter().map(|(k, v)| (k.clone(), json!(hexv(v.1)))).collect::<serde_json::Map<_, _>>(),
        "temporaries": rm.temps.iter().map(|(k, v)| (k.clone(), json!(hexv(v.1)))).collect::<serde_json::Map<_, _>>(),
        "writes": rm.mem.writes.iter().map(|w| json!([hexv(w.0 as u128), w.1, hexv(w.2)])).collect::<Vec<_>>(),
        "jumps": ref_jumps.iter().map(|j| json!(j.map(hexv))).collect::<Vec<_>>(),
    });
    let fail = |class: &str, what: String, blk: Option<&ir::Blk>, got: Value| {
        Ok(Some(json!({
            "check": class, "what": what, "expected": expected, "got": got,
            "pcode": case.defs.iter().map(show_def).chain(case.jmps.iter().map(show_jmp)).collect::<Vec<_>>(),
            "ir_after": blk.map(|b| b.defs.iter().map(|d| format!("{}: {}", d.tid, d.term)).chain(b.jmps.iter().map(|j| format!("{}: {}", j.tid, j.term))).collect::<Vec<_>>()),
        })))
    };
    let blk = match lift(case) {
        Ok(b) => b,
        Err(m) => return fail("panic", format!("into_ir_project: {m}"), None, json!(m)),
    };
    let mut pm = PlainMachine::new(case);
    for d in &blk.defs {
        let r = catch_unwind(AssertUnwindSafe(|| pm.step(&d.term)));
        match r {
            Ok(Ok(())) => (),
            Ok(Err((class, m))) => return fail(&class, format!("{}: {}", d.tid, m), Some(&blk), json!(m)),
            Err(_) => return fail(ILL_SIZED, format!("{}: evaluation panicked", d.tid), Some(&blk), json!("panic")),
        }
    }
    if blk.jmps.len() != case.jmps.len() {
        return fail("jump", "number of jumps differs".to_string(), Some(&blk), json!(blk.jmps.len()));
    }
    let mut got_jumps: Vec<Option<u128>> = Vec::new();
    for j in &blk.jmps {
        got_jumps.push(match jump_expr(&j.term) {
            Some(e) => match catch_unwind(AssertUnwindSafe(|| pm.eval(e))) {
                Ok(Ok(v)) => Some(uval(&v)),
                Ok(Err((class, m))) => return fail(&class, format!("{}: {}", j.tid, m), Some(&blk), json!(m)),
                Err(_) => return fail(ILL_SIZED, format!("{}: evaluation panicked", j.tid), Some(&blk), json!("panic")),
            },
            None => None,
        });
    }
    let got = json!({
        "base_registers": rm.base.keys().map(|k| (k.clone(), json!(pm.cells.get(&(k.clone(), false)).map(|v| hexv(v.1))))).collect::<serde_json::Map<_, _>>(),
        "temporaries": rm.temps.keys().map(|k| (k.clone(), json!(pm.cells.get(&(k.clone(), true)).map(|v| hexv(v.1))))).collect::<serde_json::Map<_, _>>(),
        "writes": pm.mem.writes.iter().map(|w| json!([hexv(w.0 as u128), w.1, hexv(w.2)])).collect::<Vec<_>>(),
        "jumps": got_jumps.iter().map(|j| json!(j.map(hexv))).collect::<Vec<_>>(),
    });
    for (k, (s, u)) in &rm.base {
        if pm.cells.get(&(k.clone(), false)) != Some(&(*s, *u)) {
            return fail("regs", format!("final content of base register {k} differs"), Some(&blk), got);
        }
    }
    for (k, (s, u)) in &rm.temps {
        if pm.cells.get(&(k.clone(), true)) != Some(&(*s, *u)) {
            return fail("temps", format!("final content of temporary {k} differs"), Some(&blk), got);
        }
    }
    if rm.mem.writes != pm.mem.writes {
        return fail("writes", "sequence of memory writes differs".to_string(), Some(&blk), got);
    }
    if ref_jumps != got_jumps {
        return fail("jump", "value of a jump condition / target differs".to_string(), Some(&blk), got);
    }
    Ok(None)
}

// ------------------------------------------------------------------------------------------------------------------
// generator
// ------------------------------------------------------------------------------------------------------------------

#[derive(Clone, Copy, PartialEq, Debug)]
enum Mode { Subreg, CastSmall }

fn mode_of(twin: &str) -> Option<Mode> {
    match twin {
        "c11.subreg" => Some(Mode::Subreg),
        "c11.castsmall" => Some(Mode::CastSmall),
        _ => None,
    }
}

struct Gen<'a> {
    rng: &'a mut Rng,
    regs: Vec<RegisterProperties>,
    /// every register varnode (name, size) the extractor can name over `regs`
    varnodes: Vec<(String, u64)>,
    n: usize,
}

fn nameable_varnodes(regs: &[RegisterProperties]) -> Vec<(String, u64)> {
    let mut out: Vec<(String, u64)> = Vec::new();
    for base in regs.iter().filter(|r| r.register == r.base_register) {
        let family: Vec<&RegisterProperties> = regs.iter().filter(|r| r.base_register == base.register).collect();
        let mut offsets: Vec<u64> = family.iter().map(|r| sz(r.lsb)).collect();
        offsets.sort();
        offsets.dedup();
        for off in offsets {
            for n in [1u64, 2, 4, 8, 16] {
                if off + n > sz(base.size) { continue; }
                let named = family.iter().filter(|r| sz(r.lsb) == off && sz(r.size) >= n).min_by_key(|r| sz(r.size));
                if let Some(r) = named {
                    if !out.contains(&(r.register.clone(), n)) { out.push((r.register.clone(), n)); }
                }
            }
        }
    }
    out
}

fn reg_var(name: &str, size: u64) -> pcode::Variable {
    pcode::Variable { name: Some(name.to_string()), value: None, address: None, size: b(size), is_virtual: false }
}

impl<'a> Gen<'a> {
    fn pick(&mut self, n: usize) -> usize { (self.rng.next() % n as u64) as usize }
    fn chance(&mut self, percent: u64) -> bool { self.rng.next() % 100 < percent }
    fn tid(&mut self, what: &str) -> Tid {
        self.n += 1;
        Tid::new(format!("{}_{}", what, self.n))
    }
    /// a register varnode of `size` bytes, named as the extractor names it (`context.getRegister(varnode).getName()`, i.e. Ghidra's
    /// `getRegister(address, size)`): the SMALLEST register of the table that starts at the varnode's first byte and has at
    /// least its size.  So `AX`'s bytes at size 1 are `AL:1`, the low two bytes of `RSP` (only `ESP` is named there) are `ESP:2`,
    /// and the low half of a base register without a named low part is the base register NAME at a smaller size.
    fn register(&mut self, size: u64) -> Option<pcode::Variable> {
        let cands: Vec<&(String, u64)> = self.varnodes.iter().filter(|v| v.1 == size).collect();
        if cands.is_empty() { return None; }
        let i = (self.rng.next() % cands.len() as u64) as usize;
        Some(reg_var(&cands[i].0, size))
    }
    fn temp(&mut self, size: u64) -> pcode::Variable {
        let i = self.pick(2);
        pcode::Variable::new_virtual(format!("$U{}00:{}", i + 1, size), b(size))
    }
    fn constant(&mut self, size: u64) -> pcode::Variable {
        let u = self.rng.interesting((size * 8) as u32);
        pcode::Variable::new_const(format!("{u:x}"), b(size))
    }
    fn input(&mut self, size: u64) -> pcode::Variable {
        let k = self.pick(100);
        if k < 50 { if let Some(r) = self.register(size) { return r; } }
        if k < 75 { self.temp(size) } else { self.constant(size) }
    }
    fn output(&mut self, size: u64) -> pcode::Variable {
        if self.chance(75) { if let Some(r) = self.register(size) { return r; } }
        self.temp(size)
    }
    fn size(&mut self) -> u64 { [1, 1, 2, 2, 4, 4, 4, 8, 8, 8, 16][self.pick(11)] }
    fn def(&mut self, lhs: Option<pcode::Variable>, m: M, i0: Option<pcode::Variable>, i1: Option<pcode::Variable>, i2: Option<pcode::Variable>) -> Term<pcode::Def> {
        Term { tid: self.tid("i"), term: pcode::Def { lhs, rhs: pcode::Expression { mnemonic: m, input0: i0, input1: i1, input2: i2 } } }
    }
    fn space() -> Option<pcode::Variable> { Some(pcode::Variable::new_const("1b1", b(8))) }

    fn random_def(&mut self) -> Term<pcode::Def> {
        let k = self.pick(100);
        if k < 14 {
            let n = self.size();
            let (o, i) = (self.output(n), self.input(n));
            self.def(Some(o), M::COPY, Some(i), None, None)
        } else if k < 34 {
            let mut n = self.size();
            let ops = [M::INT_ADD, M::INT_SUB, M::INT_XOR, M::INT_AND, M::INT_OR, M::INT_MULT, M::INT_LEFT, M::INT_RIGHT, M::INT_SRIGHT];
            let m = ops[self.pick(ops.len())];
            if m == M::INT_MULT && n == 16 { n = 8; }
            let shift = matches!(m, M::INT_LEFT | M::INT_RIGHT | M::INT_SRIGHT);
            let (o, i0) = (self.output(n), self.input(n));
            let i1 = if shift && self.chance(60) { self.input(1) } else if shift { self.input(n.min(8)) } else { self.input(n) };
            self.def(Some(o), m, Some(i0), Some(i1), None)
        } else if k < 42 {
            let n = self.size();
            let ops = [M::INT_EQUAL, M::INT_NOTEQUAL, M::INT_LESS, M::INT_SLESS, M::INT_LESSEQUAL, M::INT_SLESSEQUAL, M::INT_CARRY, M::INT_SCARRY, M::INT_SBORROW];
            let m = ops[self.pick(ops.len())];
            let (o, i0, i1) = (self.output(1), self.input(n), self.input(n));
            self.def(Some(o), m, Some(i0), Some(i1), None)
        } else if k < 54 {
            let sizes = [(1, 2), (1, 4), (1, 8), (2, 4), (2, 8), (4, 8), (8, 16), (4, 16)];
            let (n, t) = sizes[self.pick(sizes.len())];
            let m = [M::INT_ZEXT, M::INT_ZEXT, M::INT_SEXT, M::POPCOUNT, M::LZCOUNT][self.pick(5)];
            let (o, i) = (self.output(t), self.input(n));
            self.def(Some(o), m, Some(i), None, None)
        } else if k < 61 {
            let shapes = [(8, 0, 4), (8, 4, 4), (8, 1, 1), (8, 0, 1), (4, 2, 2), (4, 0, 1), (16, 8, 8), (16, 0, 4), (16, 3, 2), (2, 1, 1)];
            let (n, low, t) = shapes[self.pick(shapes.len())];
            let (o, i) = (self.output(t), self.input(n));
            let low = pcode::Variable::new_const(format!("{low:x}"), b(4));
            self.def(Some(o), M::SUBPIECE, Some(i), Some(low), None)
        } else if k < 66 {
            let shapes = [(1, 1), (2, 2), (4, 4), (8, 8), (1, 1), (4, 4)];
            let (hi, lo) = shapes[self.pick(shapes.len())];
            let (o, i0, i1) = (self.output(hi + lo), self.input(hi), self.input(lo));
            self.def(Some(o), M::PIECE, Some(i0), Some(i1), None)
        } else if k < 71 {
            let n = self.size();
            let m = if self.chance(50) { M::INT_NEGATE } else { M::INT_2COMP };
            let (o, i) = (self.output(n), self.input(n));
            self.def(Some(o), m, Some(i), None, None)
        } else if k < 86 {
            let n = self.size();
            let (o, a) = (self.output(n), self.address());
            self.def(Some(o), M::LOAD, Self::space(), Some(a), None)
        } else {
            let n = self.size();
            let (a, v) = (self.address(), self.input(n));
            self.def(None, M::STORE, Self::space(), Some(a), Some(v))
        }
    }
    /// address varnodes: mostly a handful of small constants so that loads meet earlier stores
    fn address(&mut self) -> pcode::Variable {
        if self.chance(45) {
            let a = [0x1000u64, 0x1001, 0x1004, 0x1008, 0xfffffffffffffffe][self.pick(5)];
            pcode::Variable::new_const(format!("{a:x}"), b(8))
        } else {
            self.input(8)
        }
    }
    /// `S = ..` just written (S a sub-register): the cast that `is_next_def_cast_to_base_register` looks for, or a near miss
    fn cast_after(&mut self, s: &pcode::Variable, mode: Mode) -> Option<Term<pcode::Def>> {
        let name = s.name.as_ref()?;
        let r = self.regs.iter().find(|r| &r.register == name)?.clone();
        let base = self.regs.iter().find(|x| x.register == r.base_register)?.clone();
        let n = sz(s.size);
        if sz(base.size) <= n { return None; }
        let m = [M::INT_ZEXT, M::INT_ZEXT, M::INT_ZEXT, M::INT_SEXT, M::POPCOUNT, M::LZCOUNT][self.pick(6)];
        let _ = mode;
        let k = self.pick(100);
        let out = if k < 60 {
            reg_var(&base.register, sz(base.size))
        } else if k < 90 {
            // any nameable register varnode that is larger (the base register name at a smaller size included, where it is nameable)
            let cands: Vec<(String, u64)> = self.varnodes.iter().filter(|x| x.1 > n).cloned().collect();
            let c = cands[self.pick(cands.len())].clone();
            reg_var(&c.0, c.1)
        } else {
            let t = [2u64, 4, 8, 16].iter().copied().filter(|t| *t > n).collect::<Vec<_>>();
            let t = t[self.pick(t.len())];
            self.temp(t)
        };
        Some(self.def(Some(out), m, Some(s.clone()), None, None))
    }
    fn jump(&mut self) -> Term<pcode::Jmp> {
        use pcode::JmpType::*;
        let k = self.pick(100);
        let t = self.tid("j");
        let direct = || Some(pcode::Label::Direct(Tid::new("blk_target")));
        let jmp = if k < 40 {
            pcode::Jmp { mnemonic: CBRANCH, goto: direct(), call: None, condition: Some(self.input(1)), target_hints: None }
        } else if k < 60 {
            let n = if self.chance(85) { 8 } else { 4 };
            pcode::Jmp { mnemonic: BRANCHIND, goto: Some(pcode::Label::Indirect(self.input(n))), call: None, condition: None, target_hints: None }
        } else if k < 75 {
            pcode::Jmp { mnemonic: RETURN, goto: Some(pcode::Label::Indirect(self.input(8))), call: None, condition: None, target_hints: None }
        } else if k < 90 {
            let call = pcode::Call { target: Some(pcode::Label::Indirect(self.input(8))), return_: direct(), call_string: None };
            pcode::Jmp { mnemonic: CALLIND, goto: None, call: Some(call), condition: None, target_hints: None }
        } else {
            pcode::Jmp { mnemonic: BRANCH, goto: direct(), call: None, condition: None, target_hints: None }
        };
        Term { tid: t, term: jmp }
    }
}

fn is_subregister_write(regs: &[RegisterProperties], d: &pcode::Def) -> Option<pcode::Variable> {
    let o = d.lhs.as_ref()?;
    if o.is_virtual || d.rhs.mnemonic == M::STORE { return None; }
    let name = o.name.as_ref()?;
    let r = regs.iter().find(|r| &r.register == name)?;
    if r.register != r.base_register || sz(o.size) < sz(r.size) { Some(o.clone()) } else { None }
}

fn generate(rng: &mut Rng, mode: Mode) -> Case {
    let regs = table_of(mode);
    let mut init = BTreeMap::new();
    for r in &regs {
        if r.register == r.base_register {
            init.insert(r.register.clone(), rng.interesting((sz(r.size) * 8) as u32));
        }
    }
    let mut g = Gen { rng, regs: regs.clone(), varnodes: nameable_varnodes(&regs), n: 0 };
    let want = 1 + g.pick(6);
    let mut defs: Vec<Term<pcode::Def>> = Vec::new();
    while defs.len() < want {
        let d = g.random_def();
        let sub = is_subregister_write(&regs, &d.term);
        defs.push(d);
        if let Some(s) = sub {
            if g.chance(45) {
                if let Some(c) = g.cast_after(&s, mode) { defs.push(c); }
            }
        }
    }
    let nj = g.pick(3);
    let jmps = (0..nj).map(|_| g.jump()).collect();
    Case { regs, init, defs, jmps }
}

// ------------------------------------------------------------------------------------------------------------------
// JSON, minimisation, entry points
// ------------------------------------------------------------------------------------------------------------------

impl Case {
    fn to_json(&self) -> Value {
        json!({
            "register_properties": serde_json::to_value(&self.regs).unwrap(),
            "init": self.init.iter().map(|(k, v)| (k.clone(), json!(hexv(*v)))).collect::<serde_json::Map<_, _>>(),
            "defs": serde_json::to_value(&self.defs).unwrap(),
            "jmps": serde_json::to_value(&self.jmps).unwrap(),
            "listing": self.defs.iter().map(show_def).chain(self.jmps.iter().map(show_jmp)).collect::<Vec<_>>(),
        })
    }
    fn from_json(v: &Value) -> Case {
        let regs: Vec<RegisterProperties> = serde_json::from_value(v["register_properties"].clone()).unwrap_or_else(|_| table());
        let mut init = BTreeMap::new();
        if let Some(m) = v["init"].as_object() {
            for (k, x) in m {
                init.insert(k.clone(), u128::from_str_radix(x.as_str().unwrap_or("0").trim_start_matches("0x"), 16).unwrap_or(0));
            }
        }
        Case {
            regs,
            init,
            defs: serde_json::from_value(v["defs"].clone()).unwrap_or_default(),
            jmps: serde_json::from_value(v["jmps"].clone()).unwrap_or_default(),
        }
    }
}

fn disagrees(c: &Case) -> Option<Value> {
    match check(c) { Ok(Some(v)) => Some(v), _ => None }
}

/// greedy shrinking: drop instructions / jumps, zero initial register contents, while a disagreement of the same class remains
fn minimise(case: &Case, class: &str) -> Case {
    let same = |c: &Case| disagrees(c).map(|v| v["check"] == class).unwrap_or(false);
    let mut cur = case.clone();
    loop {
        let mut changed = false;
        let mut i = 0;
        while i < cur.defs.len() {
            let mut t = cur.clone();
            t.defs.remove(i);
            if same(&t) { cur = t; changed = true; } else { i += 1; }
        }
        let mut i = 0;
        while i < cur.jmps.len() {
            let mut t = cur.clone();
            t.jmps.remove(i);
            if same(&t) { cur = t; changed = true; } else { i += 1; }
        }
        if !changed { break; }
    }
    cur
}

fn silence_panics() {
    std::panic::set_hook(Box::new(|_| {}));
}

fn enumerate(mode: Mode, seed: u64, n: &mut u64, d: &mut u64, skipped: &mut u64, stop_at_first: bool, classes: &mut BTreeMap<String, u64>) -> Option<Value> {
    silence_panics();
    let mut rng = Rng(seed ^ 0xC11_5B);
    let mut first = None;
    let total = 30000;
    for _ in 0..total {
        let case = generate(&mut rng, mode);
        match check(&case) {
            Err(_) => { *skipped += 1; }
            Ok(None) => { *n += 1; }
            Ok(Some(v)) => {
                *n += 1;
                *d += 1;
                let class = v["check"].as_str().unwrap_or("?").to_string();
                *classes.entry(class.clone()).or_insert(0) += 1;
                if first.is_none() {
                    let small = minimise(&case, &class);
                    let w = disagrees(&small).unwrap_or(v);
                    first = Some(json!({"input": small.to_json(), "check": w["check"], "what": w["what"], "expected": w["expected"], "got": w["got"],
                                        "pcode": w["pcode"], "ir_after": w["ir_after"]}));
                    if stop_at_first { return first; }
                }
            }
        }
    }
    first
}

pub fn search(twin: &str, _case: Option<&str>, seed: u64) -> Option<Value> {
    let mode = mode_of(twin)?;
    let (mut n, mut d, mut s) = (0, 0, 0);
    enumerate(mode, seed, &mut n, &mut d, &mut s, true, &mut BTreeMap::new())
}

pub fn replay(_twin: &str, input: &Value) -> Value {
    silence_panics();
    let case = Case::from_json(input);
    match check(&case) {
        Ok(Some(v)) => json!({"agrees": false, "check": v["check"], "what": v["what"], "expected": v["expected"], "got": v["got"],
                              "pcode": v["pcode"], "ir_after": v["ir_after"], "input": input}),
        Ok(None) => json!({"agrees": true, "input": input}),
        Err(m) => json!({"agrees": true, "note": format!("input outside the twin's domain: {m}"), "input": input}),
    }
}

pub fn sweep(twin: &str, seed: u64) -> Value {
    let (mut n, mut d, mut s) = (0, 0, 0);
    let mut classes = BTreeMap::new();
    let first = match mode_of(twin) {
        Some(mode) => enumerate(mode, seed, &mut n, &mut d, &mut s, false, &mut classes),
        None => None,
    };
    json!({"twin": twin, "cases": n, "disagreements": d, "outside_domain": s, "classes": classes, "first": first})
}
