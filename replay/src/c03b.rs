//! C03 / C04 twins for the two container families: `DataDomain<IntervalDomain>` (the pointer-inference value type `Data`)
//! and `DomainMap<K, V, S>`, run on the REAL crate.  BOUNDED stand-ins / counterexample sources, never counted as proof.
//!
//! ---------------------------------------------------------------------------------------------------------------------
//! DataDomain  (twins `c03.data_merge`, `c04.data_bounds`, `c04.data_intersect`)
//!
//! Concretisation over a tiny universe (from the doc comments of abstract_domain/data.rs): a concrete value is either an
//! absolute 1-byte bitvector `Abs(v)` or a pair `Rel(identifier, 1-byte offset)`.  A DataDomain value d represents c iff
//!     d.contains_top_values                                   ("values of fully unknown origin and offset": everything)
//!  || c = Abs(v)      and the absolute part of d is Some(i) with v in gamma(i)
//!  || c = Rel(id, o)  and d has the target id with an offset i, o in gamma(i)
//! gamma(i) of a strided signed interval = { v : start <=s v <=s end, stride == 0 ? v == start : (v - start) mod stride == 0 }.
//! The universe is 256 absolute values + 4 identifiers x 256 offsets = 1280 concrete values; three identifiers occur in
//! values, the fourth occurs in no value (only the Top flag represents it), so "has every listed target with every offset"
//! and "contains Top values" stay different.  All represented sets are ENUMERATED (bit sets), nothing is sampled.
//! Inputs are built with `new_empty` + `set_relative_values` / `set_absolute_value` / `set_contains_top_flag` (not with
//! the functions under test) and read back with the public getters; interval fields through the Serialize impl.
//!
//!   c03.data_merge      r = a.merge(&b):
//!       over-approximation   every concrete value represented by a or by b is represented by r
//!       stable               b's set inside a's set ==> r represents nothing outside a's set (and the same with a, b
//!                            swapped): merging a value with something it already absorbed does not enlarge it
//!       self-merge           a.merge(&a) represents exactly a's set
//!       well-formed          r is a 1-byte value, its intervals are well-formed 8-bit intervals, its targets are targets
//!                            of the inputs; no panic
//!   c04.data_bounds     r = a.add_{signed,unsigned}_{less,greater}_equal_bound(bound) / a.add_not_equal_bound(bound):
//!       Only the ABSOLUTE part is compared with the bound: the base of a relative target is unknown, so every
//!       Rel(id, o) represented by a can satisfy the comparison, and so can everything if a contains Top values.
//!       feasible(c) := a represents c and (c is Rel(..) or c = Abs(v) with `v cmp bound`)
//!       keeps-feasible       Ok(r): every feasible value is represented by r
//!       adds-none            Ok(r): r represents nothing that a does not represent ("the restriction of self")
//!       unsatisfiable        Err only if there is no feasible value
//!   c04.data_intersect  r = a.intersect(&b), in the model in which different identifiers denote different values
//!       (the doc comment of `intersect` lists exactly this as its source of unsoundness; it is the model of the unit):
//!       keeps-common         Ok(r): every concrete value represented by both a and b is represented by r
//!       unsatisfiable        Err only if a and b have no common concrete value
//!
//! ---------------------------------------------------------------------------------------------------------------------
//! DomainMap  (twin `c03.domain_map`), K = u64, V in { BitvectorDomain, Taint, DataDomain<IntervalDomain> } (1-byte values),
//! S in { UnionMergeStrategy, IntersectMergeStrategy, MergeTopStrategy }.
//!
//! Reference, from the module documentation of the three strategies:
//!   Union      a key absent from a map stands for the bottom value (represents nothing).  Keys of either map survive; a key
//!              of one map only keeps its value; common keys get merge(left, right); Top values and their keys are kept.
//!   Intersect  a key absent from a map stands for Top, and Top is assumed to be the maximal value (represents everything).
//!              Only common keys survive, with merge(left, right); keys whose merged value is Top are removed.
//!              (Run for BitvectorDomain and DataDomain only: Taint's `Top` = untainted is not maximal, the strategy's
//!              documented assumption does not hold for it.)
//!   MergeTop   a key absent from a map stands for the default element Top (represents what V's Top represents).  Every key
//!              of either map gets merge(left-or-Top, right-or-Top); keys whose merged value is Top are removed.
//! Value-level gamma: BitvectorDomain Top = all 256 bytes, Value(v) = {v}; Taint over {clean, tainted}: Top = {clean},
//! Tainted = {clean, tainted} (may be tainted); DataDomain as above.
//! Checks (m = a.merge(&b); G(x, k) = gamma(x[k]) or the strategy's reading of an absent key):
//!       over-approximation   for every key k: G(a, k) and G(b, k) are inside G(m, k)
//!       stable               (for every k: G(b, k) inside G(a, k)) ==> for every k: G(m, k) inside G(a, k); same swapped
//!       merge_with           `x = a.clone(); x.merge_with(&b)` leaves x == m
//!       self-merge           a.merge(&a) == a
//!       structure            m == the map the documentation describes (value-level merge / top / is_top taken from V;
//!                            under Intersect / MergeTop modulo stored Top values, which denote the same as an absent key:
//!                            `DomainMap::merge` returns equal inputs unchanged, stored Top values included, where the
//!                            documentation says "removed" -- an observation, not a disagreement)
//!
//! Spaces: exhaustive first (all ordered pairs of a pool of 20 DataDomain values; every pool value x 5 comparisons x 256
//! bounds; all ordered pairs of maps over the keys {0,1,2} with values from a pool of 5 (2 for Taint)), then seeded random
//! (random values / sub-values / maps over 6 keys).  `--case`: a comparison name (sle|sge|ule|uge|ne) for c04.data_bounds;
//! `domain`, `strategy` or `domain:strategy` for c03.domain_map (bitvector|taint|data, union|intersect|merge_top).
//!
//! Replay inputs:
//!   {"fn": "c03.data_merge" | "c04.data_intersect", "a": D, "b": D}
//!   {"fn": "c04.data_bounds", "a": D, "op": "sle"|"sge"|"ule"|"uge"|"ne", "bound": signed byte}
//!   {"fn": "c03.domain_map", "domain": .., "strategy": .., "a": {"key": V, ..}, "b": {..}}
//!   D = {"abs": I | null, "rel": {"id0": I, ..}, "top": bool},  I = {"start", "end", "stride"[, "lower_hint", "upper_hint"]}
//!   (signed bytes; `end` is rounded down into the residue class of `start`),  V = D | byte | null (bitvector Top) |
//!   "tainted" | "top".
use crate::util::{mask, mk, sval, val, Rng};
use cwe_checker_lib::abstract_domain::{
    AbstractDomain, AbstractIdentifier, AbstractLocation, BitvectorDomain, DataDomain, DomainMap, HasTop,
    IntersectMergeStrategy, Interval, IntervalDomain, MapMergeStrategy, MergeTopStrategy, SizedDomain,
    SpecializeByConditional, UnionMergeStrategy,
};
use cwe_checker_lib::analysis::taint::Taint;
use cwe_checker_lib::intermediate_representation::{Bitvector, ByteSize, Tid, Variable};
use serde_json::{json, Map, Value};
use std::collections::BTreeMap;
use std::panic::{catch_unwind, AssertUnwindSafe};

type Data = DataDomain<IntervalDomain>;

// ------------------------------------------------------------------------------------------------------------------
// sets over the tiny universe

/// identifiers that occur in values
const NIDS: usize = 3;
/// identifiers of the universe (the last one occurs in no value)
const UIDS: usize = NIDS + 1;
const DATA_UNIVERSE: usize = 256 * (1 + UIDS);
const WORDS: usize = DATA_UNIVERSE / 64;

#[derive(Clone, PartialEq, Debug)]
struct Set([u64; WORDS]);

impl Set {
    fn empty() -> Set {
        Set([0; WORDS])
    }
    /// the first n elements
    fn full(n: usize) -> Set {
        let mut s = Set::empty();
        for i in 0..n {
            s.put(i);
        }
        s
    }
    fn put(&mut self, i: usize) {
        self.0[i / 64] |= 1u64 << (i % 64);
    }
    fn union(&self, o: &Set) -> Set {
        let mut s = self.clone();
        for k in 0..WORDS {
            s.0[k] |= o.0[k];
        }
        s
    }
    fn inter(&self, o: &Set) -> Set {
        let mut s = self.clone();
        for k in 0..WORDS {
            s.0[k] &= o.0[k];
        }
        s
    }
    /// the first element of self that is not in o
    fn first_outside(&self, o: &Set) -> Option<usize> {
        for k in 0..WORDS {
            let d = self.0[k] & !o.0[k];
            if d != 0 {
                return Some(k * 64 + d.trailing_zeros() as usize);
            }
        }
        None
    }
    fn first(&self) -> Option<usize> {
        self.first_outside(&Set::empty())
    }
    fn subset_of(&self, o: &Set) -> bool {
        self.first_outside(o).is_none()
    }
    fn count(&self) -> u32 {
        self.0.iter().map(|w| w.count_ones()).sum()
    }
}

fn sbyte(u: usize) -> i64 {
    (u as u8) as i8 as i64
}

/// a concrete value of the DataDomain universe
fn data_elem(i: usize) -> Value {
    if i < 256 {
        json!({"abs": sbyte(i)})
    } else {
        json!({"id": format!("id{}", i / 256 - 1), "offset": sbyte(i % 256)})
    }
}

// ------------------------------------------------------------------------------------------------------------------
// reference side: intervals and DataDomain values as plain data

#[derive(Clone, Debug, PartialEq)]
struct Iv {
    start: i64,
    end: i64,
    stride: u64,
    lo: Option<i64>,
    hi: Option<i64>,
}

impl Iv {
    /// normalised to a well-formed 8-bit interval: start <= end, stride == 0 <=> start == end, end in the class of start
    fn new(start: i64, end: i64, stride: u64) -> Iv {
        let s = start.clamp(-128, 127);
        let e = end.clamp(-128, 127);
        let (s, mut e) = if s <= e { (s, e) } else { (e, s) };
        let mut stride = stride.min(255);
        if s != e {
            stride = stride.max(1);
            e = s + (e - s) / stride as i64 * stride as i64;
        }
        if s == e {
            stride = 0;
        }
        Iv { start: s, end: e, stride, lo: None, hi: None }
    }
    fn one(v: i64) -> Iv {
        Iv::new(v, v, 0)
    }
    fn hints(mut self, lo: Option<i64>, hi: Option<i64>) -> Iv {
        self.lo = lo.map(|v| v.clamp(-128, 127));
        self.hi = hi.map(|v| v.clamp(-128, 127));
        self
    }
    fn has(&self, v: i64) -> bool {
        v >= self.start && v <= self.end && if self.stride == 0 { v == self.start } else { (v - self.start) % self.stride as i64 == 0 }
    }
    fn count(&self) -> i64 {
        if self.stride == 0 { 1 } else { (self.end - self.start) / self.stride as i64 + 1 }
    }
    fn to_real(&self) -> IntervalDomain {
        let bv = |v: i64| mk(8, (v as i8 as u8) as u128);
        let mut r: IntervalDomain = Interval { start: bv(self.start), end: bv(self.end), stride: self.stride }.into();
        if let Some(l) = self.lo {
            r.update_widening_lower_bound(&Some(bv(l)));
        }
        if let Some(h) = self.hi {
            r.update_widening_upper_bound(&Some(bv(h)));
        }
        r
    }
    fn json(&self) -> Value {
        let mut o = json!({"start": self.start, "end": self.end, "stride": self.stride});
        if let Some(l) = self.lo {
            o["lower_hint"] = json!(l);
        }
        if let Some(h) = self.hi {
            o["upper_hint"] = json!(h);
        }
        o
    }
    fn from_json(v: &Value) -> Option<Iv> {
        if !v.is_object() {
            return None;
        }
        let start = v["start"].as_i64()?;
        let end = v["end"].as_i64().unwrap_or(start);
        let stride = v["stride"].as_u64().unwrap_or(1);
        Some(Iv::new(start, end, stride).hints(v["lower_hint"].as_i64(), v["upper_hint"].as_i64()))
    }
}

#[derive(Clone, Debug, PartialEq, Default)]
struct DSpec {
    abs: Option<Iv>,
    rel: BTreeMap<usize, Iv>,
    top: bool,
}

impl DSpec {
    fn abs(iv: Iv) -> DSpec {
        DSpec { abs: Some(iv), ..Default::default() }
    }
    fn rel(i: usize, iv: Iv) -> DSpec {
        DSpec { rel: BTreeMap::from([(i, iv)]), ..Default::default() }
    }
    fn and_abs(mut self, iv: Iv) -> DSpec {
        self.abs = Some(iv);
        self
    }
    fn and_rel(mut self, i: usize, iv: Iv) -> DSpec {
        self.rel.insert(i, iv);
        self
    }
    fn and_top(mut self) -> DSpec {
        self.top = true;
        self
    }
    /// the represented set, by the definition in the module comment
    fn gamma(&self) -> Set {
        if self.top {
            return Set::full(DATA_UNIVERSE);
        }
        let mut s = Set::empty();
        for u in 0..256usize {
            let v = sbyte(u);
            if self.abs.as_ref().map_or(false, |i| i.has(v)) {
                s.put(u);
            }
            for (id, i) in &self.rel {
                if i.has(v) {
                    s.put(256 * (1 + id) + u);
                }
            }
        }
        s
    }
    fn to_real(&self) -> Data {
        let mut d = Data::new_empty(ByteSize::new(1));
        d.set_relative_values(self.rel.iter().map(|(i, iv)| (ident(*i), iv.to_real())).collect());
        d.set_absolute_value(self.abs.as_ref().map(|iv| iv.to_real()));
        if self.top {
            d.set_contains_top_flag();
        }
        d
    }
    fn json(&self) -> Value {
        let rel: Map<String, Value> = self.rel.iter().map(|(i, iv)| (format!("id{}", i), iv.json())).collect();
        json!({"abs": self.abs.as_ref().map(|i| i.json()), "rel": rel, "top": self.top})
    }
    fn from_json(v: &Value) -> Option<DSpec> {
        if !v.is_object() {
            return None;
        }
        let mut d = DSpec { abs: Iv::from_json(&v["abs"]), top: v["top"].as_bool().unwrap_or(false), ..Default::default() };
        if let Some(m) = v["rel"].as_object() {
            for (k, iv) in m {
                let i: usize = k.trim_start_matches("id").parse().ok()?;
                if i >= NIDS {
                    return None;
                }
                d.rel.insert(i, Iv::from_json(iv)?);
            }
        }
        Some(d)
    }
}

/// the abstract identifier number i (public constructor; register locations at one program point)
fn ident(i: usize) -> AbstractIdentifier {
    AbstractIdentifier::new(
        Tid::new("twin_time"),
        AbstractLocation::Register(Variable { name: format!("R{}", i), size: ByteSize::new(8), is_temp: false }),
    )
}

// ------------------------------------------------------------------------------------------------------------------
// real side: what is read back from the crate

#[derive(Clone, Debug)]
struct RIv {
    ws: u32,
    we: u32,
    start: u128,
    end: u128,
    stride: u64,
}

/// private fields of an IntervalDomain through its Serialize impl
fn rd_iv(d: &IntervalDomain) -> RIv {
    let v = serde_json::to_value(d).expect("IntervalDomain serialises");
    let iv: Interval = serde_json::from_value(v["interval"].clone()).expect("interval field");
    let (ws, start) = val(&iv.start);
    let (we, end) = val(&iv.end);
    RIv { ws, we, start, end, stride: iv.stride }
}

impl RIv {
    fn problem(&self) -> Option<String> {
        if self.ws != 8 || self.we != 8 {
            return Some(format!("interval bounds of {} / {} bits in a 1-byte value", self.ws, self.we));
        }
        if sval(8, self.start) > sval(8, self.end) {
            return Some("interval with start >s end".to_string());
        }
        if (self.stride == 0) != (self.start == self.end) {
            return Some("interval violates (stride == 0) <=> (start == end)".to_string());
        }
        if self.stride > 0 && (self.end.wrapping_sub(self.start) & mask(8)) % self.stride as u128 != 0 {
            return Some("interval violates (end - start) mod stride == 0".to_string());
        }
        None
    }
    fn has(&self, u: usize) -> bool {
        let (s, e, x) = (sval(8, self.start), sval(8, self.end), sval(8, u as u128));
        x >= s && x <= e && if self.stride == 0 { x == s } else { (x - s) % self.stride as i128 == 0 }
    }
    fn json(&self) -> Value {
        if self.ws == 8 && self.we == 8 {
            json!({"start": sval(8, self.start), "end": sval(8, self.end), "stride": self.stride})
        } else {
            json!({"start": format!("0x{:x}", self.start), "w_start": self.ws, "end": format!("0x{:x}", self.end), "w_end": self.we, "stride": self.stride})
        }
    }
}

struct RData {
    size: u64,
    abs: Option<RIv>,
    /// (index of the identifier in the twin's universe, printed identifier, offset)
    rel: Vec<(Option<usize>, String, RIv)>,
    top: bool,
}

fn rd_data(d: &Data) -> RData {
    let ids: Vec<AbstractIdentifier> = (0..NIDS).map(ident).collect();
    RData {
        size: u64::from(d.bytesize()),
        abs: d.get_absolute_value().map(rd_iv),
        rel: d
            .get_relative_values()
            .iter()
            .map(|(k, v)| {
                let idx = ids.iter().position(|i| i == k);
                (idx, idx.map_or_else(|| format!("{}", k), |i| format!("id{}", i)), rd_iv(v))
            })
            .collect(),
        top: d.contains_top(),
    }
}

impl RData {
    /// the represented set of the value read back, by the same definition; Err = not a well-formed 1-byte value
    fn gamma(&self) -> Result<Set, String> {
        if self.size != 1 {
            return Err(format!("byte size {} (inputs have 1)", self.size));
        }
        for (idx, name, iv) in &self.rel {
            if idx.is_none() {
                return Err(format!("target {} occurs in no input", name));
            }
            if let Some(p) = iv.problem() {
                return Err(format!("offset of {}: {}", name, p));
            }
        }
        if let Some(p) = self.abs.as_ref().and_then(|a| a.problem()) {
            return Err(format!("absolute part: {}", p));
        }
        if self.top {
            return Ok(Set::full(DATA_UNIVERSE));
        }
        let mut s = Set::empty();
        for u in 0..256usize {
            if self.abs.as_ref().map_or(false, |i| i.has(u)) {
                s.put(u);
            }
            for (idx, _, iv) in &self.rel {
                if iv.has(u) {
                    s.put(256 * (1 + idx.unwrap()) + u);
                }
            }
        }
        Ok(s)
    }
    fn json(&self) -> Value {
        let rel: Map<String, Value> = self.rel.iter().map(|(_, n, iv)| (n.clone(), iv.json())).collect();
        let mut o = json!({"abs": self.abs.as_ref().map(|i| i.json()), "rel": rel, "top": self.top});
        if self.size != 1 {
            o["bytesize"] = json!(self.size);
        }
        o
    }
}

fn guard<T>(f: impl FnOnce() -> T) -> Result<T, String> {
    catch_unwind(AssertUnwindSafe(f)).map_err(|e| {
        if let Some(s) = e.downcast_ref::<&str>() {
            format!("panic: {}", s)
        } else if let Some(s) = e.downcast_ref::<String>() {
            format!("panic: {}", s)
        } else {
            "panic: (no message)".to_string()
        }
    })
}

fn quiet_panics() {
    if std::env::var("VERIF_PANIC_TRACE").is_err() {
        std::panic::set_hook(Box::new(|_| {}));
    }
}

fn fail(input: &Value, check: &str, expected: Value, observed: Value) -> Value {
    json!({"input": input, "check": check, "expected": expected, "observed": observed})
}

/// the real value built from a spec represents exactly the spec's set (guards the twin's own construction)
fn built_ok(input: &Value, name: &str, spec: &DSpec, real: &Data) -> Option<Value> {
    let r = rd_data(real);
    match r.gamma() {
        Ok(g) if g == spec.gamma() => None,
        other => Some(fail(
            input,
            "construction",
            json!({"clause": format!("the value built for `{}` represents the set of its description", name), "members": spec.gamma().count()}),
            json!({"built": r.json(), "problem": other.err()}),
        )),
    }
}

/// read a result back; Err = the disagreement to report
fn read_result(input: &Value, what: &str, r: Result<Data, String>) -> Result<(RData, Set), Value> {
    let d = r.map_err(|p| fail(input, "no-panic", json!(format!("{} returns", what)), json!(p)))?;
    let rd = rd_data(&d);
    match rd.gamma() {
        Ok(g) => Ok((rd, g)),
        Err(e) => Err(fail(
            input,
            "well-formed",
            json!("a 1-byte value with well-formed 8-bit intervals over targets of the inputs"),
            json!({"result": rd.json(), "problem": e}),
        )),
    }
}

// ------------------------------------------------------------------------------------------------------------------
// c03.data_merge

fn check_merge(a: &DSpec, b: &DSpec) -> Option<Value> {
    let input = json!({"fn": "c03.data_merge", "a": a.json(), "b": b.json()});
    let (ra, rb) = (a.to_real(), b.to_real());
    if let Some(v) = built_ok(&input, "a", a, &ra).or_else(|| built_ok(&input, "b", b, &rb)) {
        return Some(v);
    }
    let (ga, gb) = (a.gamma(), b.gamma());
    let (rr, gr) = match read_result(&input, "a.merge(&b)", guard(|| ra.merge(&rb))) {
        Ok(x) => x,
        Err(v) => return Some(v),
    };
    if let Some(c) = ga.union(&gb).first_outside(&gr) {
        let from = if ga.subset_of(&gr) { "b" } else { "a" };
        return Some(fail(
            &input,
            "over-approximation",
            json!({"clause": "every concrete value represented by either input is represented by the merge", "represented_by": from, "must_represent": data_elem(c)}),
            json!({"merge": rr.json(), "represents_it": false}),
        ));
    }
    for (x, y, gx, gy) in [("a", "b", &ga, &gb), ("b", "a", &gb, &ga)] {
        if gy.subset_of(gx) {
            if let Some(c) = gr.first_outside(gx) {
                return Some(fail(
                    &input,
                    "stable",
                    json!({"clause": format!("every value of {} is a value of {}: the merge represents nothing outside {}", y, x, x), "must_not_represent": data_elem(c)}),
                    json!({"merge": rr.json(), "represents_it": true}),
                ));
            }
        }
    }
    let (rs, gs) = match read_result(&input, "a.merge(&a)", guard(|| ra.merge(&ra))) {
        Ok(x) => x,
        Err(v) => return Some(v),
    };
    if gs != ga {
        let (c, must) = match ga.first_outside(&gs) {
            Some(c) => (c, true),
            None => (gs.first_outside(&ga).unwrap(), false),
        };
        return Some(fail(
            &input,
            "self-merge",
            json!({"clause": "a.merge(&a) represents exactly the set of a", "value": data_elem(c), "represented": must}),
            json!({"merge_with_itself": rs.json(), "represented": !must}),
        ));
    }
    None
}

// ------------------------------------------------------------------------------------------------------------------
// c04.data_bounds / c04.data_intersect

const CMP_OPS: [&str; 5] = ["sle", "sge", "ule", "uge", "ne"];

/// `v cmp bound` on bytes (u = unsigned reading)
fn cmp_holds(op: &str, u: usize, bound: u8) -> bool {
    let (sv, sb) = (sbyte(u), bound as i8 as i64);
    let (uv, ub) = (u as u8, bound);
    match op {
        "sle" => sv <= sb,
        "sge" => sv >= sb,
        "ule" => uv <= ub,
        "uge" => uv >= ub,
        _ => uv != ub,
    }
}

fn real_bound(op: &str, a: Data, bound: &Bitvector) -> Option<Data> {
    match op {
        "sle" => a.add_signed_less_equal_bound(bound),
        "sge" => a.add_signed_greater_equal_bound(bound),
        "ule" => a.add_unsigned_less_equal_bound(bound),
        "uge" => a.add_unsigned_greater_equal_bound(bound),
        _ => a.add_not_equal_bound(bound),
    }
    .ok()
}

fn check_bound(a: &DSpec, op: &str, bound: u8) -> Option<Value> {
    let op = CMP_OPS.iter().copied().find(|o| *o == op).unwrap_or("ne");
    let input = json!({"fn": "c04.data_bounds", "a": a.json(), "op": op, "bound": bound as i8});
    let ra = a.to_real();
    if let Some(v) = built_ok(&input, "a", a, &ra) {
        return Some(v);
    }
    let ga = a.gamma();
    // feasible: represented, and relative (unknown base) or an absolute value satisfying the comparison
    let mut feasible = Set::empty();
    for c in 0..DATA_UNIVERSE {
        if c >= 256 || cmp_holds(op, c, bound) {
            feasible.put(c);
        }
    }
    let feasible = feasible.inter(&ga);
    let bv = mk(8, bound as u128);
    let out = match guard(|| real_bound(op, ra.clone(), &bv)) {
        Ok(o) => o,
        Err(p) => return Some(fail(&input, "no-panic", json!("the refinement returns"), json!(p))),
    };
    match out {
        None => feasible.first().map(|c| {
            fail(
                &input,
                "unsatisfiable",
                json!({"clause": "Err only if no represented value can satisfy the comparison", "feasible": data_elem(c), "feasible_values": feasible.count()}),
                json!("Err"),
            )
        }),
        Some(r) => {
            let (rr, gr) = match read_result(&input, "the refinement", Ok(r)) {
                Ok(x) => x,
                Err(v) => return Some(v),
            };
            if let Some(c) = feasible.first_outside(&gr) {
                return Some(fail(
                    &input,
                    "keeps-feasible",
                    json!({"clause": "Ok(r): every represented value that can satisfy the comparison is represented by r", "must_represent": data_elem(c)}),
                    json!({"Ok": rr.json(), "represents_it": false}),
                ));
            }
            if let Some(c) = gr.first_outside(&ga) {
                return Some(fail(
                    &input,
                    "adds-none",
                    json!({"clause": "Ok(r): r is a restriction of the input", "must_not_represent": data_elem(c)}),
                    json!({"Ok": rr.json(), "represents_it": true}),
                ));
            }
            None
        }
    }
}

fn check_intersect(a: &DSpec, b: &DSpec) -> Option<Value> {
    let input = json!({"fn": "c04.data_intersect", "a": a.json(), "b": b.json()});
    let (ra, rb) = (a.to_real(), b.to_real());
    if let Some(v) = built_ok(&input, "a", a, &ra).or_else(|| built_ok(&input, "b", b, &rb)) {
        return Some(v);
    }
    let common = a.gamma().inter(&b.gamma());
    let out = match guard(|| ra.clone().intersect(&rb).ok()) {
        Ok(o) => o,
        Err(p) => return Some(fail(&input, "no-panic", json!("a.intersect(&b) returns"), json!(p))),
    };
    match out {
        None => common.first().map(|c| {
            fail(
                &input,
                "unsatisfiable",
                json!({"clause": "Err only if the inputs have no common concrete value", "common": data_elem(c), "common_values": common.count()}),
                json!("Err"),
            )
        }),
        Some(r) => {
            let (rr, gr) = match read_result(&input, "a.intersect(&b)", Ok(r)) {
                Ok(x) => x,
                Err(v) => return Some(v),
            };
            common.first_outside(&gr).map(|c| {
                fail(
                    &input,
                    "keeps-common",
                    json!({"clause": "Ok(r): every concrete value represented by both inputs is represented by r", "must_represent": data_elem(c)}),
                    json!({"Ok": rr.json(), "represents_it": false}),
                )
            })
        }
    }
}

// ------------------------------------------------------------------------------------------------------------------
// value pools and random values

/// 20 small DataDomain values: constants, ranges, strided ranges, one / two targets, mixed, Top flag, hints, empty, full
fn data_pool() -> Vec<DSpec> {
    let full = || Iv::new(-128, 127, 1);
    vec![
        DSpec::abs(Iv::one(1)),
        DSpec::abs(Iv::one(2)),
        DSpec::abs(Iv::new(0, 8, 1)),
        DSpec::abs(Iv::new(-3, 9, 3)),
        DSpec::abs(Iv::new(2, 3, 1)),
        DSpec::rel(0, Iv::one(4)),
        DSpec::rel(0, Iv::new(0, 8, 1)),
        DSpec::rel(1, Iv::one(0)),
        DSpec::rel(0, Iv::new(0, 8, 1)).and_abs(Iv::one(1)),
        DSpec::rel(0, Iv::one(4)).and_abs(Iv::one(2)),
        DSpec::rel(0, Iv::one(0)).and_rel(1, Iv::new(-4, 4, 4)),
        DSpec::default().and_top(),
        DSpec::abs(Iv::one(1)).and_top(),
        DSpec::abs(Iv::new(2, 3, 1)).and_top(),
        DSpec::rel(0, Iv::one(4)).and_top(),
        DSpec::rel(2, full()).and_abs(full()),
        DSpec::abs(Iv::new(0, 8, 1).hints(Some(-16), Some(32))),
        DSpec::rel(0, Iv::new(0, 4, 2).hints(Some(-8), Some(16))).and_abs(Iv::new(10, 20, 5)),
        DSpec::default(),
        DSpec::abs(Iv::new(120, 127, 1)).and_rel(1, Iv::new(-128, -120, 4)),
    ]
}

fn rnd_range(rng: &mut Rng, lo: i64, hi: i64) -> i64 {
    lo + (rng.next() % (hi - lo + 1) as u64) as i64
}

fn rnd_iv(rng: &mut Rng) -> Iv {
    let strides = [1u64, 1, 1, 2, 3, 4, 5, 8, 16];
    let base = match rng.next() % 6 {
        0 => rnd_range(rng, -128, -118),
        1 => rnd_range(rng, 100, 127),
        2 => rnd_range(rng, -128, 127),
        _ => rnd_range(rng, -12, 12),
    };
    let iv = match rng.next() % 8 {
        0 | 1 => Iv::one(base),
        2 => Iv::new(-128, 127, 1),
        3 => Iv::new(base, rnd_range(rng, -128, 127), strides[(rng.next() % 9) as usize]),
        _ => {
            let stride = strides[(rng.next() % 9) as usize];
            Iv::new(base, base + stride as i64 * rnd_range(rng, 1, 7), stride)
        }
    };
    if rng.next() % 5 == 0 {
        let lo = if rng.next() % 2 == 0 { Some(iv.start - rnd_range(rng, 1, 40)) } else { None };
        let hi = if rng.next() % 2 == 0 { Some(iv.end + rnd_range(rng, 1, 40)) } else { None };
        iv.hints(lo, hi)
    } else {
        iv
    }
}

fn rnd_spec(rng: &mut Rng) -> DSpec {
    let mut d = DSpec::default();
    if rng.next() % 2 == 0 {
        d.abs = Some(rnd_iv(rng));
    }
    for i in 0..NIDS {
        if rng.next() % 3 == 0 {
            d.rel.insert(i, rnd_iv(rng));
        }
    }
    d.top = rng.next() % 5 == 0;
    d
}

/// a sub-interval in the same residue class (so that "already absorbed" inputs occur)
fn rnd_sub_iv(iv: &Iv, rng: &mut Rng) -> Iv {
    let n = iv.count();
    let i = rnd_range(rng, 0, n - 1);
    let j = rnd_range(rng, i, n - 1);
    let m = if rng.next() % 3 == 0 { 2 } else { 1 };
    let s = iv.stride as i64;
    Iv::new(iv.start + i * s, iv.start + j * s, iv.stride * m).hints(if rng.next() % 4 == 0 { iv.lo } else { None }, if rng.next() % 4 == 0 { iv.hi } else { None })
}

fn rnd_sub_spec(a: &DSpec, rng: &mut Rng) -> DSpec {
    let mut d = DSpec::default();
    if let Some(iv) = &a.abs {
        if rng.next() % 3 != 0 {
            d.abs = Some(rnd_sub_iv(iv, rng));
        }
    }
    for (i, iv) in &a.rel {
        if rng.next() % 3 != 0 {
            d.rel.insert(*i, rnd_sub_iv(iv, rng));
        }
    }
    d.top = a.top && rng.next() % 2 == 0;
    d
}

fn rnd_pair(rng: &mut Rng) -> (DSpec, DSpec) {
    let a = rnd_spec(rng);
    match rng.next() % 4 {
        0 => {
            let b = rnd_sub_spec(&a, rng);
            (a, b)
        }
        1 => {
            let b = rnd_sub_spec(&a, rng);
            (b, a)
        }
        _ => {
            let b = rnd_spec(rng);
            (a, b)
        }
    }
}

// ------------------------------------------------------------------------------------------------------------------
// c03.domain_map

#[derive(Clone, Copy, PartialEq, Debug)]
enum Strat {
    Union,
    Intersect,
    MergeTop,
}

impl Strat {
    fn name(self) -> &'static str {
        match self {
            Strat::Union => "union",
            Strat::Intersect => "intersect",
            Strat::MergeTop => "merge_top",
        }
    }
    fn from_name(s: &str) -> Option<Strat> {
        [Strat::Union, Strat::Intersect, Strat::MergeTop].into_iter().find(|x| x.name() == s)
    }
}

/// what the twin needs from a value domain of a DomainMap
trait MapVal: AbstractDomain + HasTop + std::fmt::Debug {
    /// plain description of a value (input side)
    type Spec: Clone;
    const NAME: &'static str;
    /// number of concrete values of the domain's universe
    const UNIVERSE: usize;
    /// `is_top()` values represent everything (the assumption the Intersect strategy documents)
    const TOP_IS_MAX: bool;
    fn build(s: &Self::Spec) -> Self;
    /// the represented set; Err = ill-formed value
    fn gamma(&self) -> Result<Set, String>;
    fn top1() -> Self;
    fn show(&self) -> Value;
    fn elem(i: usize) -> Value;
    fn spec_json(s: &Self::Spec) -> Value;
    fn spec_from_json(v: &Value) -> Option<Self::Spec>;
    fn pool() -> Vec<Self::Spec>;
    fn random(rng: &mut Rng) -> Self::Spec;
}

impl MapVal for BitvectorDomain {
    type Spec = Option<u8>;
    const NAME: &'static str = "bitvector";
    const UNIVERSE: usize = 256;
    const TOP_IS_MAX: bool = true;
    fn build(s: &Option<u8>) -> Self {
        match s {
            Some(v) => BitvectorDomain::Value(mk(8, *v as u128)),
            None => BitvectorDomain::Top(ByteSize::new(1)),
        }
    }
    fn gamma(&self) -> Result<Set, String> {
        match self {
            BitvectorDomain::Top(s) if u64::from(*s) == 1 => Ok(Set::full(256)),
            BitvectorDomain::Value(b) if val(b).0 == 8 => {
                let mut s = Set::empty();
                s.put(val(b).1 as usize);
                Ok(s)
            }
            other => Err(format!("not a 1-byte value: {:?}", other)),
        }
    }
    fn top1() -> Self {
        BitvectorDomain::Top(ByteSize::new(1))
    }
    fn show(&self) -> Value {
        match self {
            BitvectorDomain::Top(s) => json!(format!("Top({})", u64::from(*s))),
            BitvectorDomain::Value(b) => json!(val(b).1 as u64),
        }
    }
    fn elem(i: usize) -> Value {
        json!(i)
    }
    fn spec_json(s: &Option<u8>) -> Value {
        json!(s)
    }
    fn spec_from_json(v: &Value) -> Option<Option<u8>> {
        if v.is_null() { Some(None) } else { v.as_i64().map(|x| Some(x as u8)) }
    }
    fn pool() -> Vec<Option<u8>> {
        vec![Some(0), Some(1), Some(2), Some(255), None]
    }
    fn random(rng: &mut Rng) -> Option<u8> {
        if rng.next() % 4 == 0 { None } else { Some((rng.next() % 4) as u8) }
    }
}

impl MapVal for Taint {
    /// true = tainted
    type Spec = bool;
    const NAME: &'static str = "taint";
    const UNIVERSE: usize = 2;
    const TOP_IS_MAX: bool = false;
    fn build(s: &bool) -> Self {
        if *s { Taint::Tainted(ByteSize::new(1)) } else { Taint::Top(ByteSize::new(1)) }
    }
    /// over {0: clean, 1: tainted}: Top = the value is clean; Tainted = the value may be tainted
    fn gamma(&self) -> Result<Set, String> {
        let mut s = Set::empty();
        s.put(0);
        match self {
            Taint::Tainted(b) if u64::from(*b) == 1 => s.put(1),
            Taint::Top(b) if u64::from(*b) == 1 => {}
            other => return Err(format!("not a 1-byte value: {:?}", other)),
        }
        Ok(s)
    }
    fn top1() -> Self {
        Taint::Top(ByteSize::new(1))
    }
    fn show(&self) -> Value {
        json!(format!("{:?}", self))
    }
    fn elem(i: usize) -> Value {
        json!(if i == 0 { "clean" } else { "tainted" })
    }
    fn spec_json(s: &bool) -> Value {
        json!(if *s { "tainted" } else { "top" })
    }
    fn spec_from_json(v: &Value) -> Option<bool> {
        match v.as_str()? {
            "tainted" => Some(true),
            "top" => Some(false),
            _ => None,
        }
    }
    fn pool() -> Vec<bool> {
        vec![true, false]
    }
    fn random(rng: &mut Rng) -> bool {
        rng.next() % 2 == 0
    }
}

impl MapVal for Data {
    type Spec = DSpec;
    const NAME: &'static str = "data";
    const UNIVERSE: usize = DATA_UNIVERSE;
    /// a DataDomain value with `is_top()` has the Top flag, i.e. represents everything
    const TOP_IS_MAX: bool = true;
    fn build(s: &DSpec) -> Self {
        s.to_real()
    }
    fn gamma(&self) -> Result<Set, String> {
        rd_data(self).gamma()
    }
    fn top1() -> Self {
        Data::new_top(ByteSize::new(1))
    }
    fn show(&self) -> Value {
        rd_data(self).json()
    }
    fn elem(i: usize) -> Value {
        data_elem(i)
    }
    fn spec_json(s: &DSpec) -> Value {
        s.json()
    }
    fn spec_from_json(v: &Value) -> Option<DSpec> {
        DSpec::from_json(v)
    }
    fn pool() -> Vec<DSpec> {
        vec![
            DSpec::abs(Iv::one(1)),
            DSpec::abs(Iv::new(2, 6, 2)),
            DSpec::rel(0, Iv::one(4)),
            DSpec::default().and_top(),
            DSpec::rel(0, Iv::new(0, 8, 1)).and_abs(Iv::one(1)).and_top(),
        ]
    }
    fn random(rng: &mut Rng) -> DSpec {
        if rng.next() % 3 == 0 {
            let p = data_pool();
            p[(rng.next() % p.len() as u64) as usize].clone()
        } else {
            rnd_spec(rng)
        }
    }
}

type SpecMap<V> = BTreeMap<u64, <V as MapVal>::Spec>;

fn map_json<V: MapVal>(m: &SpecMap<V>) -> Value {
    Value::Object(m.iter().map(|(k, s)| (k.to_string(), V::spec_json(s))).collect())
}

fn show_map<V: MapVal>(m: &BTreeMap<u64, V>) -> Value {
    Value::Object(m.iter().map(|(k, v)| (k.to_string(), v.show())).collect())
}

/// the three real operations: a.merge(&b), a.clone().merge_with(&b), a.merge(&a)
#[allow(clippy::type_complexity)]
fn real_maps<V: MapVal, S: MapMergeStrategy<u64, V> + Clone + Eq>(
    a: &BTreeMap<u64, V>,
    b: &BTreeMap<u64, V>,
) -> (BTreeMap<u64, V>, BTreeMap<u64, V>, BTreeMap<u64, V>) {
    let da: DomainMap<u64, V, S> = a.clone().into();
    let db: DomainMap<u64, V, S> = b.clone().into();
    let merged = da.merge(&db);
    let mut with = da.clone();
    with.merge_with(&db);
    let own = da.merge(&da);
    ((*merged).clone(), (*with).clone(), (*own).clone())
}

/// the merged map as the documentation of the strategy describes it (value-level merge / top / is_top from V)
fn ref_map<V: MapVal>(strat: Strat, a: &BTreeMap<u64, V>, b: &BTreeMap<u64, V>) -> BTreeMap<u64, V> {
    let mut out = BTreeMap::new();
    let keys: std::collections::BTreeSet<u64> = a.keys().chain(b.keys()).copied().collect();
    for k in keys {
        match (strat, a.get(&k), b.get(&k)) {
            (Strat::Union, Some(x), Some(y)) => {
                out.insert(k, x.merge(y));
            }
            (Strat::Union, Some(x), None) | (Strat::Union, None, Some(x)) => {
                out.insert(k, x.clone());
            }
            (Strat::Intersect, Some(x), Some(y)) => {
                let m = x.merge(y);
                if !m.is_top() {
                    out.insert(k, m);
                }
            }
            (Strat::Intersect, _, _) => {}
            (Strat::MergeTop, x, y) => {
                let m = match (x, y) {
                    (Some(x), Some(y)) => x.merge(y),
                    (Some(x), None) => x.merge(&x.top()),
                    (None, Some(y)) => y.top().merge(y),
                    (None, None) => continue,
                };
                if !m.is_top() {
                    out.insert(k, m);
                }
            }
            (_, None, None) => {}
        }
    }
    out
}

/// a map of the input side: description, real values, represented set of every stored value
struct Built<V: MapVal> {
    spec: SpecMap<V>,
    real: BTreeMap<u64, V>,
    sets: BTreeMap<u64, Set>,
}

fn build_map<V: MapVal>(spec: &SpecMap<V>) -> Built<V> {
    let real: BTreeMap<u64, V> = spec.iter().map(|(k, s)| (*k, V::build(s))).collect();
    let sets = real.iter().map(|(k, v)| (*k, v.gamma().expect("input value is well-formed"))).collect();
    Built { spec: spec.clone(), real, sets }
}

fn check_map<V: MapVal>(strat: Strat, a: &SpecMap<V>, b: &SpecMap<V>) -> Option<Value> {
    check_built(strat, &build_map::<V>(a), &build_map::<V>(b))
}

fn check_built<V: MapVal>(strat: Strat, a: &Built<V>, b: &Built<V>) -> Option<Value> {
    let input = || json!({"fn": "c03.domain_map", "domain": V::NAME, "strategy": strat.name(), "a": map_json::<V>(&a.spec), "b": map_json::<V>(&b.spec)});
    let (ma, mb) = (&a.real, &b.real);
    let real = guard(|| match strat {
        Strat::Union => real_maps::<V, UnionMergeStrategy>(ma, mb),
        Strat::Intersect => real_maps::<V, IntersectMergeStrategy>(ma, mb),
        Strat::MergeTop => real_maps::<V, MergeTopStrategy>(ma, mb),
    });
    let (merged, with, own) = match real {
        Ok(r) => r,
        Err(p) => return Some(fail(&input(), "no-panic", json!("merge / merge_with return"), json!(p))),
    };
    // the strategy's reading of an absent key
    let absent = match strat {
        Strat::Union => Set::empty(),
        Strat::Intersect => Set::full(V::UNIVERSE),
        Strat::MergeTop => V::top1().gamma().expect("top is well-formed"),
    };
    let reading = match strat {
        Strat::Union => "absent key = bottom (represents nothing)",
        Strat::Intersect => "absent key = Top, the maximal value (represents everything)",
        Strat::MergeTop => "absent key = the default element Top",
    };
    let at = |m: &BTreeMap<u64, V>, k: u64| -> Result<Set, String> { m.get(&k).map_or(Ok(absent.clone()), |v| v.gamma()) };
    let at_input = |m: &Built<V>, k: u64| -> Set { m.sets.get(&k).cloned().unwrap_or_else(|| absent.clone()) };
    let keys: std::collections::BTreeSet<u64> = ma.keys().chain(mb.keys()).chain(merged.keys()).copied().collect();
    let mut sets = Vec::new();
    for k in &keys {
        let gm = match at(&merged, *k) {
            Ok(g) => g,
            Err(e) => {
                return Some(fail(&input(), "well-formed", json!("well-formed 1-byte values in the merged map"), json!({"merge": show_map(&merged), "key": k, "problem": e})))
            }
        };
        sets.push((*k, at_input(a, *k), at_input(b, *k), gm));
    }
    for (k, ga, gb, gm) in &sets {
        if let Some(c) = ga.union(gb).first_outside(gm) {
            let from = if ga.subset_of(gm) { "b" } else { "a" };
            return Some(fail(
                &input(),
                "over-approximation",
                json!({"clause": "for every key the merged map represents what either input represents there", "reading": reading, "key": k, "represented_by": from, "must_represent": V::elem(c)}),
                json!({"merge": show_map(&merged), "at_key": merged.get(k).map(|v| v.show()), "represents_it": false}),
            ));
        }
    }
    for (x, y, sel) in [("a", "b", 0usize), ("b", "a", 1usize)] {
        let pick = |t: &(u64, Set, Set, Set), i: usize| if i == 0 { t.1.clone() } else { t.2.clone() };
        if sets.iter().all(|t| pick(t, 1 - sel).subset_of(&pick(t, sel))) {
            for t in &sets {
                if let Some(c) = t.3.first_outside(&pick(t, sel)) {
                    return Some(fail(
                        &input(),
                        "stable",
                        json!({"clause": format!("{} is absorbed by {} at every key: the merge represents nothing outside {}", y, x, x), "reading": reading, "key": t.0, "must_not_represent": V::elem(c)}),
                        json!({"merge": show_map(&merged), "at_key": merged.get(&t.0).map(|v| v.show()), "represents_it": true}),
                    ));
                }
            }
        }
    }
    if with != merged {
        return Some(fail(
            &input(),
            "merge_with",
            json!({"clause": "x = a.clone(); x.merge_with(&b) leaves the result of a.merge(&b) in x", "merge": show_map(&merged)}),
            json!({"merge_with": show_map(&with)}),
        ));
    }
    if own != *ma {
        return Some(fail(&input(), "self-merge", json!({"clause": "a.merge(&a) == a", "a": show_map(ma)}), json!({"merge_with_itself": show_map(&own)})));
    }
    // Under Intersect / MergeTop a stored Top value and an absent key denote the same thing; the documentation says such
    // keys are removed, `DomainMap::merge` returns equal inputs unchanged (self == other fast path, stored Top values
    // included).  The comparison is therefore modulo stored Top values for these two strategies.
    let norm = |m: &BTreeMap<u64, V>| -> BTreeMap<u64, V> {
        m.iter().filter(|(_, v)| strat == Strat::Union || !v.is_top()).map(|(k, v)| (*k, v.clone())).collect()
    };
    let want = ref_map(strat, ma, mb);
    if norm(&merged) != norm(&want) {
        return Some(fail(
            &input(),
            "structure",
            json!({"clause": "keys and values of the merged map as the strategy's documentation describes them", "reading": reading, "merge": show_map(&want)}),
            json!({"merge": show_map(&merged)}),
        ));
    }
    None
}

/// all maps over the keys 0..nkeys whose values come from the pool
fn all_maps<V: MapVal>(nkeys: u64) -> Vec<SpecMap<V>> {
    let pool = V::pool();
    let mut maps: Vec<SpecMap<V>> = vec![BTreeMap::new()];
    for k in 0..nkeys {
        let mut next = Vec::new();
        for m in &maps {
            next.push(m.clone());
            for s in &pool {
                let mut m2 = m.clone();
                m2.insert(k, s.clone());
                next.push(m2);
            }
        }
        maps = next;
    }
    maps
}

fn rnd_map<V: MapVal>(rng: &mut Rng) -> SpecMap<V> {
    let n = rng.next() % 5;
    (0..n).map(|_| (rng.next() % 6, V::random(rng))).collect()
}

/// b from a: some keys dropped, some values replaced, some keys added
fn rnd_related_map<V: MapVal>(a: &SpecMap<V>, rng: &mut Rng) -> SpecMap<V> {
    let mut b: SpecMap<V> = BTreeMap::new();
    for (k, s) in a {
        match rng.next() % 4 {
            0 => {}
            1 => {
                b.insert(*k, V::random(rng));
            }
            _ => {
                b.insert(*k, s.clone());
            }
        }
    }
    if rng.next() % 3 == 0 {
        b.insert(rng.next() % 6, V::random(rng));
    }
    b
}

// ------------------------------------------------------------------------------------------------------------------
// driver

#[derive(Default)]
struct Stats {
    cases: u64,
    fails: u64,
    first: Option<Value>,
    kinds: BTreeMap<String, u64>,
    stop_at_first: bool,
}

impl Stats {
    /// records one evaluated case; true = stop
    fn see(&mut self, r: Option<Value>) -> bool {
        self.cases += 1;
        if let Some(v) = r {
            self.fails += 1;
            *self.kinds.entry(v["check"].as_str().unwrap_or("?").to_string()).or_insert(0) += 1;
            if self.first.is_none() {
                self.first = Some(v);
            }
            return self.stop_at_first;
        }
        false
    }
}

fn strats_for<V: MapVal>() -> Vec<Strat> {
    let mut s = vec![Strat::Union];
    if V::TOP_IS_MAX {
        s.push(Strat::Intersect);
    }
    s.push(Strat::MergeTop);
    s
}

/// true = stopped at a disagreement
fn drive_maps<V: MapVal>(filter: (Option<&str>, Option<Strat>), seed: u64, nrandom: u64, st: &mut Stats) -> bool {
    if filter.0.map_or(false, |d| d != V::NAME) {
        return false;
    }
    let strats: Vec<Strat> = strats_for::<V>().into_iter().filter(|s| filter.1.map_or(true, |f| f == *s)).collect();
    let maps: Vec<Built<V>> = all_maps::<V>(3).iter().map(build_map::<V>).collect();
    for strat in &strats {
        for a in &maps {
            for b in &maps {
                if st.see(check_built::<V>(*strat, a, b)) {
                    return true;
                }
            }
        }
    }
    let mut rng = Rng(seed ^ 0xC03B_0D0);
    for round in 0..nrandom {
        if strats.is_empty() {
            break;
        }
        let strat = strats[(round % strats.len() as u64) as usize];
        let a = rnd_map::<V>(&mut rng);
        let b = if rng.next() % 2 == 0 { rnd_related_map::<V>(&a, &mut rng) } else { rnd_map::<V>(&mut rng) };
        let (a, b) = if rng.next() % 2 == 0 { (a, b) } else { (b, a) };
        if st.see(check_map::<V>(strat, &a, &b)) {
            return true;
        }
    }
    false
}

fn map_filter(case: Option<&str>) -> (Option<&'static str>, Option<Strat>) {
    let mut f = (None, None);
    for part in case.unwrap_or("").split(':') {
        if let Some(s) = Strat::from_name(part) {
            f.1 = Some(s);
        }
        if let Some(d) = ["bitvector", "taint", "data"].into_iter().find(|d| *d == part) {
            f.0 = Some(d);
        }
    }
    f
}

fn drive(twin: &str, case: Option<&str>, seed: u64, thorough: bool, stop_at_first: bool) -> Stats {
    quiet_panics();
    let mut st = Stats { stop_at_first, ..Default::default() };
    let pool = data_pool();
    match twin {
        "c03.data_merge" | "c04.data_intersect" => {
            let f: fn(&DSpec, &DSpec) -> Option<Value> = if twin == "c03.data_merge" { check_merge } else { check_intersect };
            for a in &pool {
                for b in &pool {
                    if st.see(f(a, b)) {
                        return st;
                    }
                }
            }
            let mut rng = Rng(seed ^ 0xC03B_DA7A);
            for _ in 0..(if thorough { 200_000 } else { 30_000 }) {
                let (a, b) = rnd_pair(&mut rng);
                if st.see(f(&a, &b)) {
                    return st;
                }
            }
        }
        "c04.data_bounds" => {
            let ops: Vec<&str> = CMP_OPS.iter().copied().filter(|o| case.map_or(true, |c| !CMP_OPS.contains(&c) || c == *o)).collect();
            for a in &pool {
                for op in &ops {
                    for bound in 0..=255u8 {
                        if st.see(check_bound(a, op, bound)) {
                            return st;
                        }
                    }
                }
            }
            let mut rng = Rng(seed ^ 0xC04B_0B0);
            for round in 0..(if thorough { 300_000u64 } else { 40_000 }) {
                let a = rnd_spec(&mut rng);
                let op = ops[(round % ops.len() as u64) as usize];
                // bounds near the ends of the absolute part and arbitrary ones
                let bound = match (&a.abs, rng.next() % 3) {
                    (Some(iv), 0) => (iv.start + rnd_range(&mut rng, -2, 2)) as u8,
                    (Some(iv), 1) => (iv.end + rnd_range(&mut rng, -2, 2)) as u8,
                    _ => rng.next() as u8,
                };
                if st.see(check_bound(&a, op, bound)) {
                    return st;
                }
            }
        }
        "c03.domain_map" => {
            let f = map_filter(case);
            let n = if thorough { 60_000 } else { 8_000 };
            let _ = drive_maps::<BitvectorDomain>(f, seed, n, &mut st)
                || drive_maps::<Taint>(f, seed, n, &mut st)
                || drive_maps::<Data>(f, seed, n, &mut st);
        }
        _ => {}
    }
    st
}

pub fn handles(twin: &str) -> bool {
    matches!(twin, "c03.data_merge" | "c03.domain_map" | "c04.data_bounds" | "c04.data_intersect")
}

pub fn search(twin: &str, case: Option<&str>, seed: u64) -> Option<Value> {
    drive(twin, case, seed, false, true).first
}

fn spec_map_from_json<V: MapVal>(v: &Value) -> SpecMap<V> {
    v.as_object()
        .map(|m| m.iter().filter_map(|(k, s)| Some((k.parse::<u64>().ok()?, V::spec_from_json(s)?))).collect())
        .unwrap_or_default()
}

fn replay_map<V: MapVal>(strat: Strat, input: &Value) -> Option<Value> {
    check_map::<V>(strat, &spec_map_from_json::<V>(&input["a"]), &spec_map_from_json::<V>(&input["b"]))
}

pub fn replay(twin: &str, input: &Value) -> Value {
    quiet_panics();
    let twin = input["fn"].as_str().filter(|f| handles(f)).unwrap_or(twin);
    let data = |k: &str| DSpec::from_json(&input[k]).unwrap_or_default();
    let r = match twin {
        "c03.data_merge" => check_merge(&data("a"), &data("b")),
        "c04.data_intersect" => check_intersect(&data("a"), &data("b")),
        "c04.data_bounds" => check_bound(&data("a"), input["op"].as_str().unwrap_or("ne"), input["bound"].as_i64().unwrap_or(0) as u8),
        "c03.domain_map" => {
            let strat = input["strategy"].as_str().and_then(Strat::from_name).unwrap_or(Strat::Union);
            match input["domain"].as_str().unwrap_or("bitvector") {
                "taint" => replay_map::<Taint>(strat, input),
                "data" => replay_map::<Data>(strat, input),
                _ => replay_map::<BitvectorDomain>(strat, input),
            }
        }
        _ => return json!({"agrees": true, "note": "unknown twin", "input": input}),
    };
    match r {
        Some(v) => json!({"agrees": false, "check": v["check"], "input": v["input"], "observed": v["observed"], "expected": v["expected"]}),
        None => json!({"agrees": true, "input": input}),
    }
}

pub fn sweep(twin: &str, seed: u64) -> Value {
    let st = drive(twin, None, seed, true, false);
    json!({"twin": twin, "bounded": true, "cases": st.cases, "evaluations": st.cases, "disagreements": st.fails, "kinds": st.kinds, "first": st.first})
}
