//! helpers shared by the twins
use cwe_checker_lib::intermediate_representation::{Bitvector, ByteSize};
use apint::Width;

/// splitmix64 -- seeded, dependency-free
pub struct Rng(pub u64);
impl Rng {
    pub fn next(&mut self) -> u64 {
        self.0 = self.0.wrapping_add(0x9E37_79B9_7F4A_7C15);
        let mut z = self.0;
        z = (z ^ (z >> 30)).wrapping_mul(0xBF58_476D_1CE4_E5B9);
        z = (z ^ (z >> 27)).wrapping_mul(0x94D0_49BB_1331_11EB);
        z ^ (z >> 31)
    }
    /// values biased towards the boundaries of a w-bit range
    pub fn interesting(&mut self, w: u32) -> u128 {
        let mask: u128 = if w >= 128 { u128::MAX } else { (1u128 << w) - 1 };
        let r = ((self.next() as u128) << 64 | self.next() as u128) & mask;
        let half = 1u128 << (w - 1);
        match self.next() % 8 {
            0 => (self.next() % 4) as u128 & mask,
            1 => mask - (self.next() % 4) as u128,
            2 => (half.wrapping_add((self.next() % 4) as u128)) & mask,
            3 => (half.wrapping_sub(1 + (self.next() % 4) as u128)) & mask,
            _ => r,
        }
    }
}

pub fn mask(w: u32) -> u128 {
    if w >= 128 { u128::MAX } else { (1u128 << w) - 1 }
}

/// two's complement reading of the low w bits
pub fn sval(w: u32, u: u128) -> i128 {
    if w >= 128 {
        u as i128
    } else if u >> (w - 1) & 1 == 1 {
        (u as i128) - (1i128 << w)
    } else {
        u as i128
    }
}

pub fn trunc(w: u32, x: i128) -> u128 {
    (x as u128) & mask(w)
}

/// Bitvector of `w` bits (w <= 128) with unsigned value u
pub fn mk(w: u32, u: u128) -> Bitvector {
    let b = Bitvector::from_u128(u & mask(w));
    if w == 128 { b } else { b.into_truncate(w as usize).unwrap() }
}

pub fn val(b: &Bitvector) -> (u32, u128) {
    let w = b.width().to_usize() as u32;
    let wide = if w < 128 { b.clone().into_zero_extend(128usize).unwrap() } else { b.clone() };
    (w, wide.try_to_u128().unwrap())
}

pub fn bs(n: u64) -> ByteSize {
    ByteSize::new(n)
}

pub fn hex(u: u128) -> String {
    format!("0x{:x}", u)
}
pub fn unhex(s: &str) -> u128 {
    u128::from_str_radix(s.trim_start_matches("0x"), 16).unwrap()
}
