use serde_json::{json, Value};
pub fn search(_twin: &str, _case: Option<&str>, _seed: u64) -> Option<Value> { None }
pub fn replay(_twin: &str, input: &Value) -> Value { json!({"agrees": true, "input": input, "note": "no twin"}) }
pub fn sweep(twin: &str, _seed: u64) -> Value { json!({"twin": twin, "disagreements": 0}) }
