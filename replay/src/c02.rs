//! C02 / C03 / C04 twins: strided signed intervals (`Interval`) and the interval value domain
//! (`IntervalDomain`, plus `BitvectorDomain::merge`) against a reference written from the
//! property statements.
//!
//! Reference semantics (all over `(w, u128)` = width in bits + unsigned value of the low `w` bits):
//!   gamma(I) = { v : start <=s v <=s end  and  (stride == 0 ? v == start : (v - start) mod stride == 0) }
//!   inv(I)   = widths of start/end equal, start <=s end, (stride == 0) <=> (start == end),
//!              stride > 0 ==> (end - start) mod stride == 0
//!   gamma(IntervalDomain) = gamma(its interval)   (widening hints never change the represented set)
//!
//! For every twin the result must have the P-Code result width and satisfy `inv`; the twin-specific
//! clause (soundness of an operation, superset for merges, "keeps every member that satisfies the
//! condition" for the specialisations) is checked on every member of the inputs (all members if the
//! input has at most `cap` members, a boundary-biased sample otherwise).  A panic of the real function
//! on a well-formed, well-sized input is reported as a disagreement.
//!
//! `case` (search only): `OpName`, `wN` (N in 8,16,32,64) or `OpName:wN`.
//! `sweep` additionally reports `member_checks` and `kinds` (disagreements by violated clause).
//! Environment: `VERIF_DUMP=n` prints the first n disagreements of every kind to stderr;
//! `VERIF_PANIC_TRACE=1` keeps the default panic hook (message + source location of a caught panic).
//! `c02.selftest` checks the reference against itself (no real code involved).
//!
//! Replay inputs: `{"fn": twin, "w": bits, "a": {"start","end","stride"[,"lower_hint","upper_hint"]},
//! ["b": {..}, "wb": bits,] ["op": name,] ["t" | "low_byte" | "size" | "stride","remainder" | "v" | "bound",]
//! ["x": member of a, "y": member of b]}`; with `x` / `y` only that member (pair) is re-checked,
//! without them all members (a sample above 65536 members).
use crate::c01::{ref_bin, ref_cast, ref_un, BIN_OPS, CAST_OPS, UN_OPS};
use crate::util::*;
use apint::Width;
use cwe_checker_lib::abstract_domain::{
    AbstractDomain, BitvectorDomain, Interval, IntervalDomain, RegisterDomain,
    SpecializeByConditional,
};
use cwe_checker_lib::intermediate_representation::*;
use serde_json::{json, Value};
use std::panic::{catch_unwind, AssertUnwindSafe};
use std::rc::Rc;

// ---------------------------------------------------------------------------------------------
// reference side
// ---------------------------------------------------------------------------------------------

/// membership in gamma of the triple (start, end, stride) of width w
fn in_gamma(w: u32, start: u128, end: u128, stride: u64, v: u128) -> bool {
    let (s, e, x) = (sval(w, start), sval(w, end), sval(w, v));
    if x < s || x > e {
        return false;
    }
    match stride {
        0 => v == start,
        1 => true,
        _ => (v.wrapping_sub(start) & mask(w)) % stride as u128 == 0,
    }
}

/// An input interval (reference side). `lo` / `hi` are the values handed to
/// `update_widening_lower_bound` / `update_widening_upper_bound` (IntervalDomain twins only).
#[derive(Clone, Debug, PartialEq)]
pub struct Dom {
    pub w: u32,
    pub start: u128,
    pub end: u128,
    pub stride: u64,
    pub lo: Option<u128>,
    pub hi: Option<u128>,
}

impl Dom {
    fn new(w: u32, s: i128, e: i128, stride: u64) -> Dom {
        Dom { w, start: trunc(w, s), end: trunc(w, e), stride, lo: None, hi: None }
    }
    fn ss(&self) -> i128 {
        sval(self.w, self.start)
    }
    fn se(&self) -> i128 {
        sval(self.w, self.end)
    }
    fn span(&self) -> u128 {
        self.end.wrapping_sub(self.start) & mask(self.w)
    }
    fn inv(&self) -> bool {
        self.ss() <= self.se()
            && (self.stride == 0) == (self.start == self.end)
            && (self.stride == 0 || self.span() % self.stride as u128 == 0)
    }
    fn count(&self) -> u128 {
        if self.stride == 0 { 1 } else { self.span() / self.stride as u128 + 1 }
    }
    fn nth(&self, k: u128) -> u128 {
        self.start.wrapping_add(k.wrapping_mul(self.stride as u128)) & mask(self.w)
    }
    fn has(&self, v: u128) -> bool {
        in_gamma(self.w, self.start, self.end, self.stride, v)
    }
    /// gamma(self) is a subset of gamma(other); both satisfy inv
    fn subset_of(&self, other: &Dom) -> bool {
        if !other.has(self.start) || !other.has(self.end) {
            return false;
        }
        if self.stride == 0 {
            return true;
        }
        // two different members of `other` => other.stride > 0
        self.stride as u128 % other.stride as u128 == 0
    }
    /// the plain range start..=end with stride 1 (0 for a single value)
    fn range(&self) -> Dom {
        Dom { stride: (self.start != self.end) as u64, lo: None, hi: None, ..self.clone() }
    }
    fn json(&self) -> Value {
        let mut o = json!({"start": hex(self.start), "end": hex(self.end), "stride": self.stride});
        if let Some(l) = self.lo {
            o["lower_hint"] = json!(hex(l));
        }
        if let Some(h) = self.hi {
            o["upper_hint"] = json!(hex(h));
        }
        o
    }
    fn from_json(w: u32, v: &Value) -> Dom {
        let h = |k: &str| v[k].as_str().map(unhex);
        Dom {
            w,
            start: h("start").expect("interval without start"),
            end: h("end").expect("interval without end"),
            stride: v["stride"].as_u64().unwrap_or(0),
            lo: h("lower_hint"),
            hi: h("upper_hint"),
        }
    }
}

/// members of `d` that are checked: all of them if there are at most `cap`, else a sample
/// (both ends, the neighbourhood of "interesting" values, seeded random ones)
fn members_of(d: &Dom, cap: u128, rng: &mut Rng) -> Vec<u128> {
    let n = d.count();
    if n <= cap {
        return (0..n).map(|k| d.nth(k)).collect();
    }
    let mut ks: Vec<u128> = vec![0, 1, 2, 3, n - 1, n - 2, n - 3, n - 4, n / 2];
    let st = d.stride.max(1) as u128;
    let w = d.w;
    let anchors: [i128; 9] = [0, 1 << (w / 2), -(1 << (w / 2)), 1 << (w / 2 - 1), -(1 << (w / 2 - 1)), 256, -256, 128, -128];
    for t in anchors {
        if t > d.ss() && t <= d.se() {
            let k = ((t - d.ss()) as u128) / st;
            for kk in [k.saturating_sub(1), k, k + 1] {
                if kk < n {
                    ks.push(kk);
                }
            }
        }
    }
    for _ in 0..24 {
        let r = ((rng.next() as u128) << 64 | rng.next() as u128) % n;
        ks.push(r);
    }
    ks.sort();
    ks.dedup();
    ks.into_iter().map(|k| d.nth(k)).collect()
}

#[derive(Clone)]
struct Operand {
    d: Dom,
    m: Rc<Vec<u128>>,
}
fn operand(d: Dom, cap: u128, rng: &mut Rng) -> Operand {
    let m = Rc::new(members_of(&d, cap, rng));
    Operand { d, m }
}

// ---------------------------------------------------------------------------------------------
// real side
// ---------------------------------------------------------------------------------------------

fn to_iv(d: &Dom) -> Interval {
    Interval { start: mk(d.w, d.start), end: mk(d.w, d.end), stride: d.stride }
}

fn to_dom(d: &Dom) -> IntervalDomain {
    let mut r: IntervalDomain = to_iv(d).into();
    if let Some(l) = d.lo {
        r.update_widening_lower_bound(&Some(mk(d.w, l)));
    }
    if let Some(h) = d.hi {
        r.update_widening_upper_bound(&Some(mk(d.w, h)));
    }
    r
}

/// what was read back from the real crate
#[derive(Clone, Debug)]
struct Res {
    ws: u32,
    we: u32,
    start: u128,
    end: u128,
    stride: u64,
    hints: Vec<(u32, u128)>,
}

fn rd_iv(i: &Interval) -> Res {
    let (ws, start) = val(&i.start);
    let (we, end) = val(&i.end);
    Res { ws, we, start, end, stride: i.stride, hints: vec![] }
}

/// private fields of an IntervalDomain through its Serialize impl
fn rd_dom(d: &IntervalDomain) -> Res {
    let v = serde_json::to_value(d).expect("IntervalDomain serialises");
    let iv: Interval = serde_json::from_value(v["interval"].clone()).expect("interval field");
    let mut r = rd_iv(&iv);
    for k in ["widening_lower_bound", "widening_upper_bound"] {
        let b: Option<Bitvector> = serde_json::from_value(v[k].clone()).expect("hint field");
        if let Some(b) = b {
            r.hints.push(val(&b));
        }
    }
    r
}

impl Res {
    fn inv_violation(&self, ew: u32) -> Option<String> {
        if self.ws != self.we {
            return Some(format!("width of start ({}) != width of end ({})", self.ws, self.we));
        }
        if self.ws != ew {
            return Some(format!("result width {} != expected width {}", self.ws, ew));
        }
        let w = self.ws;
        if sval(w, self.start) > sval(w, self.end) {
            return Some("start <=s end".to_string());
        }
        if (self.stride == 0) != (self.start == self.end) {
            return Some("(stride == 0) <=> (start == end)".to_string());
        }
        if self.stride > 0 && (self.end.wrapping_sub(self.start) & mask(w)) % self.stride as u128 != 0 {
            return Some("(end - start) mod stride == 0".to_string());
        }
        for (hw, _) in &self.hints {
            if *hw != w {
                return Some(format!("widening hint of width {} in an interval of width {}", hw, w));
            }
        }
        None
    }
    fn is_full(&self) -> bool {
        let w = self.ws;
        self.stride == 1 && self.start == 1u128 << (w - 1) && self.end == (1u128 << (w - 1)) - 1
    }
    fn has(&self, v: u128) -> bool {
        in_gamma(self.ws, self.start, self.end, self.stride, v)
    }
    /// same represented set (both sides satisfy inv, so the representation is canonical)
    fn same_set(&self, d: &Dom) -> bool {
        self.ws == d.w && self.start == d.start && self.end == d.end && self.stride == d.stride
    }
    fn json(&self) -> Value {
        let mut o = json!({"w": self.ws, "start": hex(self.start), "end": hex(self.end), "stride": self.stride});
        if self.ws != self.we {
            o["w_end"] = json!(self.we);
        }
        if !self.hints.is_empty() {
            o["hints"] = json!(self.hints.iter().map(|(w, u)| json!({"w": w, "value": hex(*u)})).collect::<Vec<_>>());
        }
        o
    }
}

fn guard<T>(f: impl FnOnce() -> T) -> Result<T, String> {
    catch_unwind(AssertUnwindSafe(f)).map_err(|e| {
        if let Some(s) = e.downcast_ref::<&str>() {
            format!("panic: {}", s)
        } else if let Some(s) = e.downcast_ref::<String>() {
            format!("panic: {}", s)
        } else {
            "panic: (no message)".to_string()
        }
    })
}

/// panics of the real code are caught and reported; VERIF_PANIC_TRACE=1 keeps the default hook
/// (message + location on stderr)
fn quiet_panics() {
    if std::env::var("VERIF_PANIC_TRACE").is_err() {
        std::panic::set_hook(Box::new(|_| {}));
    }
}

// ---------------------------------------------------------------------------------------------
// cases
// ---------------------------------------------------------------------------------------------

struct IvCase<'a> {
    twin: &'a str,
    op: Option<&'a str>,
    a: Operand,
    b: Option<Operand>,
    p0: u64,
    p1: u64,
    v: Option<u128>,
}

enum Case<'a> {
    Iv(IvCase<'a>),
    /// BitvectorDomain merge: None = Top
    Bv { w: u32, a: Option<u128>, b: Option<u128> },
}

#[derive(Default)]
struct Stats {
    evals: u64,
    members: u64,
    fails: u64,
    first: Option<Value>,
    /// disagreements by violated clause
    kinds: std::collections::BTreeMap<String, u64>,
}

/// short label of the violated clause of a disagreement
fn kind_of(v: &Value) -> String {
    if let Some(s) = v["observed"].as_str() {
        if s.starts_with("panic") {
            return s.chars().take(80).collect();
        }
        if s.starts_with("Err") {
            return "Err although a member satisfies the condition".to_string();
        }
    }
    match &v["expected"] {
        Value::Object(m) => match m.iter().find(|(k, _)| k.starts_with("inv")) {
            Some((k, msg)) => format!("{}: {}", k, msg.as_str().unwrap_or("")),
            None if m.contains_key("because") => m["because"].as_str().unwrap_or("").to_string(),
            None => m.keys().next().cloned().unwrap_or_default(),
        },
        other => format!("expected {}", other),
    }
}

fn find<T: Copy>(table: &[(&'static str, T)], name: &str) -> (&'static str, T) {
    *table.iter().find(|(n, _)| *n == name).unwrap_or_else(|| panic!("unknown op {}", name))
}

impl<'a> IvCase<'a> {
    fn unary(twin: &'a str, a: &Operand) -> IvCase<'a> {
        IvCase { twin, op: None, a: a.clone(), b: None, p0: 0, p1: 0, v: None }
    }
    fn binary(twin: &'a str, a: &Operand, b: &Operand) -> IvCase<'a> {
        IvCase { twin, op: None, a: a.clone(), b: Some(b.clone()), p0: 0, p1: 0, v: None }
    }
    fn with_op(mut self, op: &'a str) -> Self {
        self.op = Some(op);
        self
    }
    fn with_p(mut self, p0: u64, p1: u64) -> Self {
        self.p0 = p0;
        self.p1 = p1;
        self
    }
    fn with_v(mut self, v: u128) -> Self {
        self.v = Some(v);
        self
    }

    fn input_json(&self, x: Option<u128>, y: Option<u128>) -> Value {
        let a = &self.a.d;
        let mut o = json!({"fn": self.twin, "w": a.w, "a": a.json()});
        if let Some(op) = self.op {
            o["op"] = json!(op);
        }
        if let Some(b) = &self.b {
            o["b"] = b.d.json();
            if b.d.w != a.w {
                o["wb"] = json!(b.d.w);
            }
        }
        match self.twin {
            "c02.zero_extend" | "c02.domain_cast" => o["t"] = json!(self.p0),
            "c02.subpiece_higher" => o["low_byte"] = json!(self.p0),
            "c02.subpiece_lower" => o["size"] = json!(self.p0),
            "c02.subpiece" | "c02.domain_subpiece" => {
                o["low_byte"] = json!(self.p0);
                o["size"] = json!(self.p1);
            }
            "c02.adjust_to_stride_and_remainder" => {
                o["stride"] = json!(self.p0);
                o["remainder"] = json!(self.p1);
            }
            _ => (),
        }
        if let Some(v) = self.v {
            o[if self.twin == "c02.contains" { "v" } else { "bound" }] = json!(hex(v));
        }
        if let Some(x) = x {
            o["x"] = json!(hex(x));
        }
        if let Some(y) = y {
            o["y"] = json!(hex(y));
        }
        o
    }

    fn fail(&self, x: Option<u128>, y: Option<u128>, observed: Value, expected: Value) -> Option<Value> {
        Some(json!({"input": self.input_json(x, y), "observed": observed, "expected": expected}))
    }
}

/// which members of `a` a twin quantifies over: the members on the stride, or the whole range
fn uses_range(twin: &str) -> bool {
    twin == "c02.adjust_to_stride_and_remainder"
}
/// twins whose `a` is a raw (start, end, stride) triple that need not satisfy inv
fn raw_input(twin: &str) -> bool {
    matches!(twin, "c02.new" | "c02.adjust_end" | "c02.adjust_start")
}

fn case_from_json<'a>(twin: &'a str, input: &'a Value) -> Case<'a> {
    let w = input["w"].as_u64().expect("input without w") as u32;
    if twin == "c03.bitvector_merge" {
        let g = |k: &str| match input[k].as_str() {
            Some("top") => None,
            Some(s) => Some(unhex(s)),
            None => panic!("bitvector_merge input without {}", k),
        };
        return Case::Bv { w, a: g("a"), b: g("b") };
    }
    let mut rng = Rng(0x5eed);
    let hx = |k: &str| input[k].as_str().map(unhex);
    let a = Dom::from_json(w, &input["a"]);
    let am = match hx("x") {
        Some(x) => vec![x],
        None if raw_input(twin) => vec![],
        None if uses_range(twin) => members_of(&a.range(), 65536, &mut rng),
        None => members_of(&a, 65536, &mut rng),
    };
    let b = if input["b"].is_object() {
        let wb = input["wb"].as_u64().map(|x| x as u32).unwrap_or(w);
        let b = Dom::from_json(wb, &input["b"]);
        let bm = match hx("y") {
            Some(y) => vec![y],
            None => members_of(&b, 65536, &mut rng),
        };
        Some(Operand { d: b, m: Rc::new(bm) })
    } else {
        None
    };
    let u = |k: &str| input[k].as_u64().unwrap_or(0);
    let (p0, p1) = match twin {
        "c02.zero_extend" | "c02.domain_cast" => (u("t"), 0),
        "c02.subpiece_higher" => (u("low_byte"), 0),
        "c02.subpiece_lower" => (u("size"), 0),
        "c02.subpiece" | "c02.domain_subpiece" => (u("low_byte"), u("size")),
        "c02.adjust_to_stride_and_remainder" => (u("stride"), u("remainder")),
        _ => (0, 0),
    };
    Case::Iv(IvCase {
        twin,
        op: input["op"].as_str(),
        a: Operand { d: a, m: Rc::new(am) },
        b,
        p0,
        p1,
        v: hx("v").or(hx("bound")),
    })
}

// ---------------------------------------------------------------------------------------------
// judging
// ---------------------------------------------------------------------------------------------

const NO_PANIC: &str = "no panic on a well-formed, well-sized input";

/// soundness of an operation: for all x in gamma(a), y in gamma(b): f(x, y) in gamma(result)
fn judge(c: &IvCase, out: Result<Res, String>, ew: u32, f: &dyn Fn(u128, u128) -> Option<u128>, st: &mut Stats) -> Option<Value> {
    let r = match out {
        Err(p) => return c.fail(None, None, json!(p), json!(NO_PANIC)),
        Ok(r) => r,
    };
    if let Some(msg) = r.inv_violation(ew) {
        return c.fail(None, None, json!({"result": r.json()}), json!({"inv(result)": msg, "width": ew}));
    }
    if r.is_full() {
        return None;
    }
    let one = [0u128];
    let ys: &[u128] = match &c.b {
        Some(b) => &b.m,
        None => &one,
    };
    for &x in c.a.m.iter() {
        for &y in ys {
            st.members += 1;
            if let Some(v) = f(x, y) {
                if !r.has(v) {
                    return c.fail(Some(x), c.b.as_ref().map(|_| y), json!({"result": r.json()}), json!({"gamma(result) contains": hex(v)}));
                }
            }
        }
    }
    None
}

/// specialisation: Ok(r) contains every member x with sat(x); Err only if there is none
fn judge_opt(c: &IvCase, out: Result<Result<Res, String>, String>, ew: u32, sat: &dyn Fn(u128) -> bool, st: &mut Stats) -> Option<Value> {
    match out {
        Err(p) => c.fail(None, None, json!(p), json!(NO_PANIC)),
        Ok(Err(msg)) => {
            for &x in c.a.m.iter() {
                st.members += 1;
                if sat(x) {
                    return c.fail(Some(x), None, json!(format!("Err({})", msg)), json!({"Ok(result) with gamma(result) containing": hex(x)}));
                }
            }
            None
        }
        Ok(Ok(r)) => {
            if let Some(msg) = r.inv_violation(ew) {
                return c.fail(None, None, json!({"result": r.json()}), json!({"inv(result)": msg, "width": ew}));
            }
            if r.is_full() {
                return None;
            }
            for &x in c.a.m.iter() {
                st.members += 1;
                if sat(x) && !r.has(x) {
                    return c.fail(Some(x), None, json!({"result": r.json()}), json!({"gamma(result) contains": hex(x)}));
                }
            }
            None
        }
    }
}

/// result represents exactly gamma(want)
fn judge_exact(c: &IvCase, out: Result<Res, String>, want: &Dom) -> Option<Value> {
    let r = match out {
        Err(p) => return c.fail(None, None, json!(p), json!(NO_PANIC)),
        Ok(r) => r,
    };
    if let Some(msg) = r.inv_violation(want.w) {
        return c.fail(None, None, json!({"result": r.json()}), json!({"inv(result)": msg, "width": want.w}));
    }
    if !r.same_set(want) {
        return c.fail(None, None, json!({"result": r.json()}), json!({"result": want.json()}));
    }
    None
}

/// merge: gamma(a) u gamma(b) subset gamma(m); gamma(b) subset gamma(a) ==> gamma(m) == gamma(a)
fn judge_merge(c: &IvCase, out: Result<Res, String>, st: &mut Stats) -> Option<Value> {
    let (a, b) = (&c.a.d, &c.b.as_ref().unwrap().d);
    let r = match out {
        Err(p) => return c.fail(None, None, json!(p), json!(NO_PANIC)),
        Ok(r) => r,
    };
    if let Some(msg) = r.inv_violation(a.w) {
        return c.fail(None, None, json!({"result": r.json()}), json!({"inv(result)": msg, "width": a.w}));
    }
    if !r.is_full() {
        for &x in c.a.m.iter() {
            st.members += 1;
            if !r.has(x) {
                return c.fail(Some(x), None, json!({"result": r.json()}), json!({"gamma(result) contains": hex(x), "member of": "a"}));
            }
        }
        for &y in c.b.as_ref().unwrap().m.iter() {
            st.members += 1;
            if !r.has(y) {
                return c.fail(None, Some(y), json!({"result": r.json()}), json!({"gamma(result) contains": hex(y), "member of": "b"}));
            }
        }
    }
    if b.subset_of(a) && !r.same_set(a) {
        let why = if a == b { "merge(a, a) represents gamma(a)" } else { "gamma(b) subset of gamma(a) ==> gamma(merge(a, b)) == gamma(a)" };
        return c.fail(None, None, json!({"result": r.json()}), json!({"result": a.range_free_json(), "because": why}));
    }
    None
}

impl Dom {
    /// triple without hints (expected value of a represented set)
    fn range_free_json(&self) -> Value {
        json!({"w": self.w, "start": hex(self.start), "end": hex(self.end), "stride": self.stride})
    }
}

fn expected_bin_width(op: BinOpType, wa: u32, wb: u32) -> u32 {
    use BinOpType::*;
    match op {
        Piece => wa + wb,
        IntEqual | IntNotEqual | IntLess | IntSLess | IntLessEqual | IntSLessEqual | IntCarry | IntSCarry | IntSBorrow
        | BoolXOr | BoolAnd | BoolOr | FloatEqual | FloatNotEqual | FloatLess | FloatLessEqual => 8,
        _ => wa,
    }
}

fn expected_un_width(op: UnOpType, w: u32) -> u32 {
    match op {
        UnOpType::BoolNegate | UnOpType::FloatNaN => 8,
        _ => w,
    }
}

fn bsz(bits: u32) -> ByteSize {
    bs((bits / 8) as u64)
}

fn check_iv(c: &IvCase, st: &mut Stats) -> Option<Value> {
    st.evals += 1;
    let a = &c.a.d;
    let w = a.w;
    let bd = c.b.as_ref().map(|b| &b.d);
    match c.twin {
        "c02.add" | "c02.sub" | "c02.signed_mul" => {
            let b = bd.unwrap();
            let (ia, ib) = (to_iv(a), to_iv(b));
            let (op, out) = match c.twin {
                "c02.add" => (BinOpType::IntAdd, guard(|| rd_iv(&ia.add(&ib)))),
                "c02.sub" => (BinOpType::IntSub, guard(|| rd_iv(&ia.sub(&ib)))),
                _ => (BinOpType::IntMult, guard(|| rd_iv(&ia.signed_mul(&ib)))),
            };
            judge(c, out, w, &|x, y| ref_bin(op, w, x, w, y).map(|r| r.1), st)
        }
        "c02.int_2_comp" => {
            let ia = to_iv(a);
            judge(c, guard(|| rd_iv(&ia.int_2_comp())), w, &|x, _| ref_un(UnOpType::Int2Comp, w, x).map(|r| r.1), st)
        }
        "c02.bitwise_not" => {
            let ia = to_iv(a);
            judge(c, guard(|| rd_iv(&ia.bitwise_not())), w, &|x, _| ref_un(UnOpType::IntNegate, w, x).map(|r| r.1), st)
        }
        "c02.zero_extend" => {
            let (ia, t) = (to_iv(a), c.p0 as u32);
            judge(c, guard(|| rd_iv(&ia.zero_extend(bsz(t)))), t, &|x, _| Some(x), st)
        }
        "c02.subpiece_higher" => {
            let (ia, low) = (to_iv(a), c.p0 as u32);
            judge(c, guard(|| rd_iv(&ia.subpiece_higher(bs(low as u64)))), w - 8 * low, &|x, _| Some(x >> (8 * low)), st)
        }
        "c02.subpiece_lower" => {
            let (ia, size) = (to_iv(a), c.p0 as u32);
            judge(c, guard(|| rd_iv(&ia.subpiece_lower(bs(size as u64)))), 8 * size, &|x, _| Some(x & mask(8 * size)), st)
        }
        "c02.subpiece" => {
            let (ia, low, size) = (to_iv(a), c.p0 as u32, c.p1 as u32);
            judge(c, guard(|| rd_iv(&ia.subpiece(bs(low as u64), bs(size as u64)))), 8 * size, &|x, _| Some((x >> (8 * low)) & mask(8 * size)), st)
        }
        "c02.piece" => {
            let b = bd.unwrap();
            let (ia, ib, wb) = (to_iv(a), to_iv(b), b.w);
            judge(c, guard(|| rd_iv(&ia.piece(&ib))), w + wb, &|x, y| Some((x << wb) | y), st)
        }
        "c02.new" | "c02.adjust_end" => {
            // members of [start, end] on the stride, counted from start
            let n = if a.stride == 0 { 0 } else { a.span() / a.stride as u128 };
            let e = a.start.wrapping_add(n * a.stride as u128) & mask(w);
            let want = Dom { w, start: a.start, end: e, stride: if e == a.start { 0 } else { a.stride }, lo: None, hi: None };
            let out = if c.twin == "c02.new" {
                guard(|| rd_iv(&Interval::new(mk(w, a.start), mk(w, a.end), a.stride)))
            } else {
                let mut i = to_iv(a);
                guard(move || {
                    i.adjust_end_to_value_in_stride();
                    rd_iv(&i)
                })
            };
            judge_exact(c, out, &want)
        }
        "c02.adjust_start" => {
            // members of [start, end] on the stride, counted from end
            let n = if a.stride == 0 { 0 } else { a.span() / a.stride as u128 };
            let s = a.end.wrapping_sub(n * a.stride as u128) & mask(w);
            let want = Dom { w, start: s, end: a.end, stride: if s == a.end { 0 } else { a.stride }, lo: None, hi: None };
            let mut i = to_iv(a);
            let out = guard(move || {
                i.adjust_start_to_value_in_stride();
                rd_iv(&i)
            });
            judge_exact(c, out, &want)
        }
        "c02.adjust_to_stride_and_remainder" => {
            let (ia, s, r) = (to_iv(a), c.p0, c.p1);
            let out = guard(|| ia.adjust_to_stride_and_remainder(s, r).map(|i| rd_iv(&i)).map_err(|e| e.to_string()));
            judge_opt(c, out, w, &|x| (sval(w, x) - r as i128).rem_euclid(s as i128) == 0, st)
        }
        "c02.contains" => {
            let (ia, v) = (to_iv(a), c.v.unwrap());
            let want = a.has(v);
            match guard(|| ia.contains(&mk(w, v))) {
                Err(p) => c.fail(None, None, json!(p), json!(NO_PANIC)),
                Ok(got) if got != want => c.fail(None, None, json!(got), json!(want)),
                _ => None,
            }
        }
        "c02.domain_bin_op" => {
            let b = bd.unwrap();
            let (name, op) = find(BIN_OPS, c.op.expect("domain_bin_op without op"));
            let _ = name;
            let (da, db, wb) = (to_dom(a), to_dom(b), b.w);
            let out = guard(|| rd_dom(&da.bin_op(op, &db)));
            judge(c, out, expected_bin_width(op, w, wb), &|x, y| ref_bin(op, w, x, wb, y).map(|r| r.1), st)
        }
        "c02.domain_un_op" => {
            let (_, op) = find(UN_OPS, c.op.expect("domain_un_op without op"));
            let da = to_dom(a);
            let out = guard(|| rd_dom(&da.un_op(op)));
            let f = |x: u128, _: u128| {
                if op == UnOpType::BoolNegate && x > 1 { None } else { ref_un(op, w, x).map(|r| r.1) }
            };
            judge(c, out, expected_un_width(op, w), &f, st)
        }
        "c02.domain_cast" => {
            let (_, kind) = find(CAST_OPS, c.op.expect("domain_cast without op"));
            let (da, t) = (to_dom(a), c.p0 as u32);
            let out = guard(|| rd_dom(&da.cast(kind, bsz(t))));
            judge(c, out, t, &|x, _| ref_cast(kind, w, x, t).map(|r| r.1), st)
        }
        "c02.domain_subpiece" => {
            let (da, low, size) = (to_dom(a), c.p0 as u32, c.p1 as u32);
            let out = guard(|| rd_dom(&da.subpiece(bs(low as u64), bs(size as u64))));
            judge(c, out, 8 * size, &|x, _| Some((x >> (8 * low)) & mask(8 * size)), st)
        }
        "c03.interval_merge" => {
            let (ia, ib) = (to_iv(a), to_iv(bd.unwrap()));
            judge_merge(c, guard(|| rd_iv(&ia.signed_merge(&ib))), st)
        }
        "c03.domain_merge" => {
            let (da, db) = (to_dom(a), to_dom(bd.unwrap()));
            judge_merge(c, guard(|| rd_dom(&da.merge(&db))), st)
        }
        "c04.sle" | "c04.sge" | "c04.ule" | "c04.uge" | "c04.ne" => {
            let (da, v) = (to_dom(a), c.v.unwrap());
            let bv = mk(w, v);
            let out = guard(|| {
                match c.twin {
                    "c04.sle" => da.add_signed_less_equal_bound(&bv),
                    "c04.sge" => da.add_signed_greater_equal_bound(&bv),
                    "c04.ule" => da.add_unsigned_less_equal_bound(&bv),
                    "c04.uge" => da.add_unsigned_greater_equal_bound(&bv),
                    _ => da.add_not_equal_bound(&bv),
                }
                .map(|d| rd_dom(&d))
                .map_err(|e| e.to_string())
            });
            let sv = sval(w, v);
            let twin = c.twin;
            let sat = move |x: u128| match twin {
                "c04.sle" => sval(w, x) <= sv,
                "c04.sge" => sval(w, x) >= sv,
                "c04.ule" => x <= v,
                "c04.uge" => x >= v,
                _ => x != v,
            };
            judge_opt(c, out, w, &sat, st)
        }
        "c04.intersect" => {
            let b = bd.unwrap();
            let (da, db) = (to_dom(a), to_dom(b));
            let out = guard(|| da.intersect(&db).map(|d| rd_dom(&d)).map_err(|e| e.to_string()));
            judge_opt(c, out, w, &|x| b.has(x), st)
        }
        "c04.interval_intersect" => {
            let b = bd.unwrap();
            let (ia, ib) = (to_iv(a), to_iv(b));
            let out = guard(|| ia.signed_intersect(&ib).map(|i| rd_iv(&i)).map_err(|e| e.to_string()));
            judge_opt(c, out, w, &|x| b.has(x), st)
        }
        other => panic!("unknown twin {}", other),
    }
}

/// gamma of a BitvectorDomain value: Top = everything, Value(v) = {v}
fn check_bv(w: u32, a: Option<u128>, b: Option<u128>, st: &mut Stats) -> Option<Value> {
    st.evals += 1;
    let mkd = |v: Option<u128>| match v {
        Some(u) => BitvectorDomain::Value(mk(w, u)),
        None => BitvectorDomain::Top(bsz(w)),
    };
    let js = |v: Option<u128>| match v {
        Some(u) => json!(hex(u)),
        None => json!("top"),
    };
    let input = json!({"fn": "c03.bitvector_merge", "w": w, "a": js(a), "b": js(b)});
    let fail = |observed: Value, expected: Value| Some(json!({"input": input, "observed": observed, "expected": expected}));
    let (da, db) = (mkd(a), mkd(b));
    let m = match guard(|| da.merge(&db)) {
        Err(p) => return fail(json!(p), json!(NO_PANIC)),
        Ok(m) => m,
    };
    let (mw, mv) = match &m {
        BitvectorDomain::Top(sz) => (sz.as_bit_length() as u32, None),
        BitvectorDomain::Value(bv) => (bv.width().to_usize() as u32, Some(val(bv).1)),
    };
    let obs = json!({"w": mw, "value": js(mv)});
    if mw != w {
        return fail(obs, json!({"width": w}));
    }
    let has = |d: Option<u128>, v: u128| d.map_or(true, |u| u == v);
    // members: all of a singleton; for Top all 8-bit values or a sample
    let sample = |d: Option<u128>| -> Vec<u128> {
        match d {
            Some(u) => vec![u],
            None if w == 8 => (0..256).collect(),
            None => vec![0, 1, mask(w), 1 << (w - 1), (1 << (w - 1)) - 1, 0x1234 & mask(w)],
        }
    };
    for v in sample(a).into_iter().chain(sample(b)) {
        st.members += 1;
        if !has(mv, v) {
            return fail(obs, json!({"gamma(result) contains": hex(v)}));
        }
    }
    // gamma(b) subset gamma(a) (includes a == b) ==> gamma(m) == gamma(a)
    let b_in_a = a.is_none() || a == b;
    if b_in_a && mv != a {
        return fail(obs, json!({"w": w, "value": js(a), "because": "gamma(b) subset of gamma(a) ==> gamma(merge(a, b)) == gamma(a)"}));
    }
    None
}

fn check(c: &Case, st: &mut Stats) -> Option<Value> {
    match c {
        Case::Iv(c) => check_iv(c, st),
        Case::Bv { w, a, b } => check_bv(*w, *a, *b, st),
    }
}

// ---------------------------------------------------------------------------------------------
// input space
// ---------------------------------------------------------------------------------------------

const B8: [i128; 18] = [-128, -127, -126, -100, -8, -3, -2, -1, 0, 1, 2, 3, 7, 8, 100, 125, 126, 127];
const B8_SMALL: [i128; 10] = [-128, -127, -3, -1, 0, 1, 2, 8, 126, 127];
const STRIDES8: [u64; 9] = [1, 2, 3, 4, 5, 7, 8, 16, 64];

/// all well-formed 8-bit intervals with bounds in `bounds` and strides in STRIDES8 (0 for singletons) or
/// equal to end - start, plus `nrand` seeded random (start, stride, count) intervals
fn ivs8(bounds: &[i128], nrand: usize, rng: &mut Rng) -> Vec<Dom> {
    let mut out: Vec<Dom> = Vec::new();
    for &s in bounds {
        for &e in bounds {
            if s == e {
                out.push(Dom::new(8, s, e, 0));
            } else if s < e {
                for st in STRIDES8 {
                    if (e - s) % st as i128 == 0 {
                        out.push(Dom::new(8, s, e, st));
                    }
                }
                // two members: stride == end - start (strides up to 255, beyond the signed maximum)
                if !STRIDES8.contains(&((e - s) as u64)) {
                    out.push(Dom::new(8, s, e, (e - s) as u64));
                }
            }
        }
    }
    for _ in 0..nrand {
        let st = STRIDES8[(rng.next() % 9) as usize];
        let s = (rng.next() % 256) as i128 - 128;
        let maxcount = (127 - s) / st as i128 + 1;
        let d = if maxcount < 2 {
            Dom::new(8, s, s, 0)
        } else {
            let count = 2 + (rng.next() % (maxcount as u64 - 1)) as i128;
            Dom::new(8, s, s + (count - 1) * st as i128, st)
        };
        if !out.contains(&d) {
            out.push(d);
        }
    }
    debug_assert!(out.iter().all(|d| d.inv()));
    out
}

fn ops8(bounds: &[i128], nrand: usize, rng: &mut Rng) -> Vec<Operand> {
    ivs8(bounds, nrand, rng).into_iter().map(|d| operand(d, 256, rng)).collect()
}

fn pick_stride(w: u32, rng: &mut Rng) -> u64 {
    let lim: u64 = if w >= 64 { 1 << 62 } else { 1 << (w - 2) };
    let s = match rng.next() % 8 {
        0..=2 => STRIDES8[(rng.next() % 9) as usize],
        3 => 1u64 << (rng.next() % (w as u64 - 2)),
        4 => (1u64 << (rng.next() % (w as u64 - 2))).wrapping_add(if rng.next() % 2 == 0 { 1 } else { u64::MAX }),
        5 => [255u64, 256, 257, 65535, 65536, 65537][(rng.next() % 6) as usize],
        _ => rng.next() % lim,
    };
    s.clamp(1, lim)
}

/// seeded random well-formed interval of width w in {16, 32, 64}: at most 64 members, placed near a
/// boundary (signed min / max, 0 / -1, +-2^(w/2), +-2^(w/2-1), byte boundary) or, one time in eight,
/// a "large" interval between two boundary-biased values (its members are sampled), or, one time in
/// sixteen, the two-member interval {p, q} with stride q - p
fn gen_wide(w: u32, rng: &mut Rng) -> Dom {
    let (min, max) = (-(1i128 << (w - 1)), (1i128 << (w - 1)) - 1);
    loop {
        let stride = pick_stride(w, rng);
        let mode = rng.next() % 16;
        if mode < 3 {
            let (p, q) = (sval(w, rng.interesting(w)), sval(w, rng.interesting(w)));
            let (s, e) = (p.min(q), p.max(q));
            if mode == 2 {
                // two members, stride == end - start (may exceed the signed maximum of the width)
                return Dom::new(w, s, e, (e - s) as u64);
            }
            let e = s + ((e - s) / stride as i128) * stride as i128;
            return Dom::new(w, s, e, if s == e { 0 } else { stride });
        }
        let count: i128 = match rng.next() % 4 {
            0 => 1,
            1 => 2 + (rng.next() % 3) as i128,
            _ => 2 + (rng.next() % 63) as i128,
        };
        let span = (count - 1) * stride as i128;
        if span > max - min {
            continue;
        }
        let anchor: i128 = match rng.next() % 11 {
            0 => min,
            1 => max,
            2 => 0,
            3 => -1,
            4 => 1 << (w / 2),
            5 => -(1 << (w / 2)),
            6 => 1 << (w / 2 - 1),
            7 => -(1 << (w / 2 - 1)),
            8 => 256,
            9 => -256,
            _ => sval(w, rng.interesting(w)),
        };
        let delta = (rng.next() % 4) as i128;
        let mut s = match rng.next() % 3 {
            0 => anchor + delta,
            1 => anchor - delta - span,
            _ => anchor - (rng.next() as i128 % count) * stride as i128 - delta,
        };
        if s < min {
            s = min + delta;
        }
        if s + span > max {
            s = max - delta - span;
        }
        if s < min || s + span > max {
            continue;
        }
        let d = Dom::new(w, s, s + span, if count == 1 { 0 } else { stride });
        debug_assert!(d.inv());
        return d;
    }
}

/// an interval related to `a` (so that intersections / inclusions are not always trivial)
fn gen_related(a: &Dom, rng: &mut Rng) -> Dom {
    let w = a.w;
    let (min, max) = (-(1i128 << (w - 1)), (1i128 << (w - 1)) - 1);
    let n = a.count();
    for _ in 0..20 {
        let k = ((rng.next() as u128) << 64 | rng.next() as u128) % n;
        let delta = match rng.next() % 3 { 0 => 0, 1 => 1, _ => -1 } * (rng.next() % 2) as i128;
        let s = sval(w, a.nth(k)) + delta;
        let stride: u64 = match rng.next() % 5 {
            0 => a.stride.max(1),
            1 => a.stride.max(1).saturating_mul(1 + rng.next() % 4),
            2 => STRIDES8[(rng.next() % 9) as usize],
            3 => (a.stride.max(1) / 2).max(1),
            _ => pick_stride(w, rng),
        };
        let count: i128 = match rng.next() % 3 { 0 => 1, _ => 2 + (rng.next() % 63) as i128 };
        let span = match (count - 1).checked_mul(stride as i128) { Some(x) => x, None => continue };
        if s < min || s > max || s + span > max {
            continue;
        }
        let d = Dom::new(w, s, s + span, if count == 1 { 0 } else { stride });
        debug_assert!(d.inv());
        return d;
    }
    gen_wide(w, rng)
}

fn wide_ops(w: u32, n: usize, cap: u128, rng: &mut Rng) -> Vec<Operand> {
    (0..n).map(|_| { let d = gen_wide(w, rng); operand(d, cap, rng) }).collect()
}

fn wide_pair(w: u32, cap: u128, rng: &mut Rng) -> (Operand, Operand) {
    let a = gen_wide(w, rng);
    let b = match rng.next() % 5 {
        0 => a.clone(),
        1 | 2 => gen_related(&a, rng),
        _ => gen_wide(w, rng),
    };
    (operand(a, cap, rng), operand(b, cap, rng))
}

/// widening-hint variants of an interval: none, lower at start-1 / start-8, upper at end+1 / end+8,
/// both, and both at two strides distance; only where representable
fn hint_variants(o: &Operand) -> Vec<Operand> {
    let d = &o.d;
    let w = d.w;
    let (min, max) = (-(1i128 << (w - 1)), (1i128 << (w - 1)) - 1);
    let (s, e, st) = (d.ss(), d.se(), d.stride.max(1) as i128);
    let cands: [(Option<i128>, Option<i128>); 8] = [
        (None, None),
        (Some(s - 1), None),
        (Some(s - 8), None),
        (None, Some(e + 1)),
        (None, Some(e + 8)),
        (Some(s - 1), Some(e + 1)),
        (Some(s - 8), Some(e + 8)),
        (Some(s - 2 * st), Some(e + 2 * st)),
    ];
    let mut out: Vec<Operand> = Vec::new();
    for (lo, hi) in cands {
        if lo.map_or(false, |l| l < min) || hi.map_or(false, |h| h > max) {
            continue;
        }
        let nd = Dom { lo: lo.map(|l| trunc(w, l)), hi: hi.map(|h| trunc(w, h)), ..d.clone() };
        if !out.iter().any(|x| x.d == nd) {
            out.push(Operand { d: nd, m: o.m.clone() });
        }
    }
    out
}

fn random_hint(o: &Operand, rng: &mut Rng) -> Operand {
    let v = hint_variants(o);
    v[(rng.next() % v.len() as u64) as usize].clone()
}

struct Filt {
    op: Option<String>,
    w: Option<u32>,
}
impl Filt {
    fn parse(case: Option<&str>) -> Filt {
        let mut f = Filt { op: None, w: None };
        for tok in case.unwrap_or("").split(':').filter(|t| !t.is_empty()) {
            match tok.strip_prefix('w').and_then(|n| n.parse::<u32>().ok()) {
                Some(n) => f.w = Some(n),
                None => f.op = Some(tok.to_string()),
            }
        }
        f
    }
    fn w(&self, w: u32) -> bool {
        self.w.map_or(true, |x| x == w)
    }
    fn op(&self, name: &str) -> bool {
        self.op.as_deref().map_or(true, |x| x == name)
    }
}

const WIDE: [u32; 3] = [16, 32, 64];

/// bounds worth trying against interval `d` (wide widths): members +-1, range ends, extremes, random
fn bounds_for(d: &Dom, m: &[u128], rng: &mut Rng) -> Vec<u128> {
    let w = d.w;
    let mut out: Vec<u128> = vec![0, 1, mask(w), 1 << (w - 1), (1 << (w - 1)) - 1];
    for &x in m.iter().take(6).chain(m.iter().rev().take(6)) {
        for dl in [-1i128, 0, 1] {
            out.push(trunc(w, sval(w, x) + dl));
        }
    }
    for _ in 0..6 {
        out.push(rng.interesting(w));
    }
    out.sort();
    out.dedup();
    out
}

/// Enumerates the input space of `twin`; `visit` returns true to stop.
fn enumerate(twin: &str, case: Option<&str>, seed: u64, visit: &mut dyn FnMut(&Case) -> bool) {
    let mut rng = Rng(seed);
    let f = Filt::parse(case);
    macro_rules! v {
        ($c:expr) => {
            if visit(&Case::Iv($c)) {
                return;
            }
        };
    }
    match twin {
        // ---- Interval, binary -------------------------------------------------------------------
        "c02.add" | "c02.sub" | "c02.signed_mul" | "c03.interval_merge" | "c04.interval_intersect" => {
            if f.w(8) {
                let l = ops8(&B8, 150, &mut rng);
                for a in &l {
                    for b in &l {
                        v!(IvCase::binary(twin, a, b));
                    }
                }
            }
            for w in WIDE {
                if !f.w(w) {
                    continue;
                }
                for _ in 0..6000 {
                    let (a, b) = wide_pair(w, 64, &mut rng);
                    v!(IvCase::binary(twin, &a, &b));
                }
            }
        }
        "c02.piece" => {
            for (wa, wb) in [(8u32, 8u32), (8, 16), (16, 8), (16, 16), (8, 32), (32, 8), (32, 32), (16, 64), (64, 16), (64, 64), (8, 64), (64, 8)] {
                if !f.w(wa) {
                    continue;
                }
                if (wa, wb) == (8, 8) {
                    let l = ops8(&B8, 60, &mut rng);
                    for a in &l {
                        for b in &l {
                            v!(IvCase::binary(twin, a, b));
                        }
                    }
                    continue;
                }
                let la = if wa == 8 { ops8(&B8_SMALL, 20, &mut rng) } else { wide_ops(wa, 60, 64, &mut rng) };
                let lb = if wb == 8 { ops8(&B8_SMALL, 20, &mut rng) } else { wide_ops(wb, 60, 64, &mut rng) };
                for a in &la {
                    for b in &lb {
                        v!(IvCase::binary(twin, a, b));
                    }
                }
            }
        }
        // ---- Interval, unary --------------------------------------------------------------------
        "c02.int_2_comp" | "c02.bitwise_not" => {
            if f.w(8) {
                for a in &ops8(&B8, 300, &mut rng) {
                    v!(IvCase::unary(twin, a));
                }
            }
            for w in WIDE {
                if f.w(w) {
                    for a in &wide_ops(w, 6000, 256, &mut rng) {
                        v!(IvCase::unary(twin, a));
                    }
                }
            }
        }
        "c02.zero_extend" => {
            for w in [8u32, 16, 32, 64] {
                if !f.w(w) {
                    continue;
                }
                let l = if w == 8 { ops8(&B8, 300, &mut rng) } else { wide_ops(w, 3000, if w == 16 { 65536 } else { 256 }, &mut rng) };
                for a in &l {
                    for t in [8u32, 16, 32, 64, 128] {
                        if t >= w {
                            v!(IvCase::unary(twin, a).with_p(t as u64, 0));
                        }
                    }
                }
            }
        }
        "c02.subpiece_higher" | "c02.subpiece_lower" | "c02.subpiece" | "c02.domain_subpiece" => {
            for w in [8u32, 16, 32, 64] {
                if !f.w(w) {
                    continue;
                }
                let bytes = (w / 8) as u64;
                let l = if w == 8 { ops8(&B8, 100, &mut rng) } else { wide_ops(w, if w == 16 { 1500 } else { 2500 }, if w == 16 { 65536 } else { 256 }, &mut rng) };
                for a in &l {
                    let vars = if twin == "c02.domain_subpiece" { hint_variants(a) } else { vec![a.clone()] };
                    for a in &vars {
                        match twin {
                            "c02.subpiece_higher" => {
                                for low in 0..bytes {
                                    v!(IvCase::unary(twin, a).with_p(low, 0));
                                }
                            }
                            "c02.subpiece_lower" => {
                                for size in 1..=bytes {
                                    v!(IvCase::unary(twin, a).with_p(size, 0));
                                }
                            }
                            _ => {
                                for low in 0..bytes {
                                    for size in 1..=(bytes - low) {
                                        v!(IvCase::unary(twin, a).with_p(low, size));
                                    }
                                }
                            }
                        }
                    }
                }
            }
        }
        "c02.new" | "c02.adjust_end" | "c02.adjust_start" => {
            // raw triples: start <=s end, any stride
            if f.w(8) {
                for s in -128i128..=127 {
                    for e in s..=127 {
                        for st in [0u64, 1, 2, 3, 4, 5, 6, 7, 8, 16, 64, 127, 128, 255, 256, 1000] {
                            let a = Operand { d: Dom::new(8, s, e, st), m: Rc::new(vec![]) };
                            v!(IvCase::unary(twin, &a));
                        }
                    }
                }
            }
            for w in WIDE {
                if !f.w(w) {
                    continue;
                }
                for _ in 0..60000 {
                    let (p, q) = (sval(w, rng.interesting(w)), sval(w, rng.interesting(w)));
                    let st = match rng.next() % 6 { 0 => 0, 1 => rng.next(), _ => pick_stride(w, &mut rng) };
                    let a = Operand { d: Dom::new(w, p.min(q), p.max(q), st), m: Rc::new(vec![]) };
                    v!(IvCase::unary(twin, &a));
                }
            }
        }
        "c02.adjust_to_stride_and_remainder" => {
            let rems = |st: u64, rng: &mut Rng| -> Vec<u64> {
                let mut r: Vec<u64> = (0..st.min(16)).collect();
                r.extend([st - 1, st / 2, st, st + 1, rng.next() % st]);
                r.sort();
                r.dedup();
                r
            };
            if f.w(8) {
                for d in ivs8(&B8, 100, &mut rng) {
                    let a = Operand { m: Rc::new(members_of(&d.range(), 256, &mut rng)), d };
                    for st in [1u64, 2, 3, 4, 5, 7, 8, 16, 64, 100, 255, 256] {
                        for r in rems(st, &mut rng) {
                            v!(IvCase::unary(twin, &a).with_p(st, r));
                        }
                    }
                }
            }
            for w in WIDE {
                if !f.w(w) {
                    continue;
                }
                for _ in 0..4000 {
                    let d = gen_wide(w, &mut rng);
                    let a = Operand { m: Rc::new(members_of(&d.range(), 256, &mut rng)), d };
                    for _ in 0..4 {
                        let st = match rng.next() % 3 { 0 => a.d.stride.max(1), 1 => rng.next() | 1, _ => pick_stride(w, &mut rng) };
                        let r = match rng.next() % 3 {
                            0 => sval(w, a.d.start).rem_euclid(st as i128) as u64,
                            1 => rng.next() % st,
                            _ => sval(w, a.d.end).rem_euclid(st as i128) as u64,
                        };
                        v!(IvCase::unary(twin, &a).with_p(st, r));
                    }
                }
            }
        }
        "c02.contains" => {
            if f.w(8) {
                for a in &ops8(&B8, 300, &mut rng) {
                    for x in 0..256u128 {
                        v!(IvCase::unary(twin, a).with_v(x));
                    }
                }
            }
            for w in WIDE {
                if !f.w(w) {
                    continue;
                }
                for a in &wide_ops(w, 4000, 64, &mut rng) {
                    let mut vs: Vec<u128> = Vec::new();
                    for &x in a.m.iter() {
                        vs.extend([x, trunc(w, sval(w, x) + 1), trunc(w, sval(w, x) - 1)]);
                    }
                    vs.extend([0, mask(w), 1 << (w - 1), (1 << (w - 1)) - 1, rng.interesting(w), rng.interesting(w)]);
                    vs.sort();
                    vs.dedup();
                    for x in vs {
                        v!(IvCase::unary(twin, a).with_v(x));
                    }
                }
            }
        }
        // ---- IntervalDomain as RegisterDomain ---------------------------------------------------
        "c02.domain_bin_op" => {
            let single_op = f.op.is_some();
            for (name, op) in BIN_OPS {
                if !f.op(name) {
                    continue;
                }
                use BinOpType::*;
                let shift = matches!(op, IntLeft | IntRight | IntSRight);
                let boolean = matches!(op, BoolAnd | BoolOr | BoolXOr);
                if *op == Piece {
                    for (wa, wb) in [(8u32, 8u32), (8, 16), (16, 8), (32, 32), (64, 64), (8, 64), (64, 8)] {
                        if !f.w(wa) {
                            continue;
                        }
                        let la = if wa == 8 { ops8(&B8_SMALL, 15, &mut rng) } else { wide_ops(wa, 50, 64, &mut rng) };
                        let lb = if wb == 8 { ops8(&B8_SMALL, 15, &mut rng) } else { wide_ops(wb, 50, 64, &mut rng) };
                        for a in &la {
                            for b in &lb {
                                v!(IvCase::binary(twin, a, b).with_op(name));
                                let (ha, hb) = (random_hint(a, &mut rng), random_hint(b, &mut rng));
                                v!(IvCase::binary(twin, &ha, &hb).with_op(name));
                            }
                        }
                    }
                    continue;
                }
                if f.w(8) {
                    let l = if single_op { ops8(&B8, 100, &mut rng) } else { ops8(&B8_SMALL, 30, &mut rng) };
                    for a in &l {
                        for b in &l {
                            v!(IvCase::binary(twin, a, b).with_op(name));
                            let (ha, hb) = (random_hint(a, &mut rng), random_hint(b, &mut rng));
                            if ha.d != a.d || hb.d != b.d {
                                v!(IvCase::binary(twin, &ha, &hb).with_op(name));
                            }
                        }
                    }
                }
                if boolean {
                    continue; // booleans are 1 byte in P-Code
                }
                // small 1-byte shift amounts for every width
                let amounts: Vec<Operand> = if shift {
                    let mut l: Vec<Dom> = (0..=66).map(|k| Dom::new(8, k, k, 0)).collect();
                    l.extend([Dom::new(8, 0, 3, 1), Dom::new(8, 1, 65, 1), Dom::new(8, 0, 64, 8), Dom::new(8, -1, -1, 0), Dom::new(8, -128, -128, 0)]);
                    l.into_iter().map(|d| operand(d, 256, &mut rng)).collect()
                } else {
                    vec![]
                };
                for w in [8u32, 16, 32, 64] {
                    if !f.w(w) {
                        continue;
                    }
                    if shift {
                        let la = if w == 8 { ops8(&B8_SMALL, 20, &mut rng) } else { wide_ops(w, 60, 64, &mut rng) };
                        for a in &la {
                            for b in &amounts {
                                let ha = random_hint(a, &mut rng);
                                v!(IvCase::binary(twin, &ha, b).with_op(name));
                            }
                        }
                    }
                    if w == 8 {
                        continue;
                    }
                    for _ in 0..(if single_op { 6000 } else { 800 }) {
                        let (a, b) = wide_pair(w, 64, &mut rng);
                        let (a, b) = if rng.next() % 2 == 0 { (a, b) } else { (random_hint(&a, &mut rng), random_hint(&b, &mut rng)) };
                        v!(IvCase::binary(twin, &a, &b).with_op(name));
                    }
                }
            }
        }
        "c02.domain_un_op" => {
            for (name, op) in UN_OPS {
                if !f.op(name) {
                    continue;
                }
                for w in [8u32, 16, 32, 64] {
                    if !f.w(w) || (*op == UnOpType::BoolNegate && w != 8) {
                        continue;
                    }
                    let l = if w == 8 { ops8(&B8, 150, &mut rng) } else { wide_ops(w, 1500, 256, &mut rng) };
                    for a in &l {
                        for a in &hint_variants(a) {
                            v!(IvCase::unary(twin, a).with_op(name));
                        }
                    }
                }
            }
        }
        "c02.domain_cast" => {
            for (name, kind) in CAST_OPS {
                if !f.op(name) {
                    continue;
                }
                let ext = matches!(kind, CastOpType::IntZExt | CastOpType::IntSExt);
                for w in [8u32, 16, 32, 64] {
                    if !f.w(w) {
                        continue;
                    }
                    let l = if w == 8 { ops8(&B8, 100, &mut rng) } else { wide_ops(w, 600, 256, &mut rng) };
                    for a in &l {
                        for a in &hint_variants(a) {
                            for t in [8u32, 16, 32, 64, 128] {
                                if ext && t < w {
                                    continue;
                                }
                                v!(IvCase::unary(twin, a).with_op(name).with_p(t as u64, 0));
                            }
                        }
                    }
                }
            }
        }
        // ---- merges -----------------------------------------------------------------------------
        "c03.domain_merge" | "c04.intersect" => {
            if f.w(8) {
                let l = ops8(&B8, 60, &mut rng);
                for a in &l {
                    for b in &l {
                        v!(IvCase::binary(twin, a, b));
                        // two seeded hint combinations per pair
                        for _ in 0..2 {
                            let (ha, hb) = (random_hint(a, &mut rng), random_hint(b, &mut rng));
                            if ha.d != a.d || hb.d != b.d {
                                v!(IvCase::binary(twin, &ha, &hb));
                            }
                        }
                    }
                }
                // all hint combinations on a smaller set
                let l = ops8(&B8_SMALL, 20, &mut rng);
                for a in &l {
                    for b in &l {
                        for ha in &hint_variants(a) {
                            for hb in &hint_variants(b) {
                                v!(IvCase::binary(twin, ha, hb));
                            }
                        }
                    }
                }
            }
            for w in WIDE {
                if !f.w(w) {
                    continue;
                }
                for _ in 0..3000 {
                    let (a, b) = wide_pair(w, 64, &mut rng);
                    v!(IvCase::binary(twin, &a, &b));
                    let (ha, hb) = (random_hint(&a, &mut rng), random_hint(&b, &mut rng));
                    v!(IvCase::binary(twin, &ha, &hb));
                }
            }
        }
        "c03.bitvector_merge" => {
            if f.w(8) {
                let all: Vec<Option<u128>> = std::iter::once(None).chain((0..256).map(Some)).collect();
                for a in &all {
                    for b in &all {
                        if visit(&Case::Bv { w: 8, a: *a, b: *b }) {
                            return;
                        }
                    }
                }
            }
            for w in WIDE {
                if !f.w(w) {
                    continue;
                }
                for _ in 0..5000 {
                    let a = if rng.next() % 4 == 0 { None } else { Some(rng.interesting(w)) };
                    let b = match rng.next() % 4 { 0 => None, 1 => a, _ => Some(rng.interesting(w)) };
                    if visit(&Case::Bv { w, a, b }) {
                        return;
                    }
                }
            }
        }
        // ---- specialisation by a conditional ----------------------------------------------------
        "c04.sle" | "c04.sge" | "c04.ule" | "c04.uge" | "c04.ne" => {
            if f.w(8) {
                for a in &ops8(&B8, 100, &mut rng) {
                    for a in &hint_variants(a) {
                        for x in 0..256u128 {
                            v!(IvCase::unary(twin, a).with_v(x));
                        }
                    }
                }
            }
            for w in WIDE {
                if !f.w(w) {
                    continue;
                }
                for a in &wide_ops(w, 1500, 64, &mut rng) {
                    let bounds = bounds_for(&a.d, &a.m, &mut rng);
                    for a in &hint_variants(a) {
                        for &x in &bounds {
                            v!(IvCase::unary(twin, a).with_v(x));
                        }
                    }
                }
            }
        }
        _ => (),
    }
}

// ---------------------------------------------------------------------------------------------
// entry points
// ---------------------------------------------------------------------------------------------

/// `c02.selftest`: the reference against itself on 8 bit (no real code involved):
/// nth/count enumerate exactly the values accepted by in_gamma; subset_of agrees with enumeration.
fn selftest(seed: u64) -> Stats {
    let mut st = Stats::default();
    let mut rng = Rng(seed);
    let l = ops8(&B8, 300, &mut rng);
    let bad = |st: &mut Stats, what: &str, a: &Dom, b: Option<&Dom>| {
        st.fails += 1;
        if st.first.is_none() {
            st.first = Some(json!({"input": {"fn": "c02.selftest", "w": 8, "a": a.json(), "b": b.map(|b| b.json())}, "observed": what, "expected": "reference is self-consistent"}));
        }
    };
    for a in &l {
        st.evals += 1;
        let by_gamma: Vec<u128> = (0..256u128).filter(|v| a.d.has(*v)).collect();
        let mut by_nth: Vec<u128> = a.m.to_vec();
        by_nth.sort();
        if !a.d.inv() || by_gamma != by_nth || a.d.count() != by_nth.len() as u128 {
            bad(&mut st, "members enumerated by nth() differ from in_gamma()", &a.d, None);
        }
        for b in &l {
            st.evals += 1;
            let by_enum = b.m.iter().all(|v| a.d.has(*v));
            if b.d.subset_of(&a.d) != by_enum {
                bad(&mut st, "subset_of differs from enumeration", &a.d, Some(&b.d));
            }
        }
    }
    st
}

/// The machine-arithmetic preconditions of the contracts (contracts/interval_*.vc): an executable twin of a contract
/// only judges inputs the contract speaks about.  They only bind 8-byte values:
///  * `(end - start) as u64` is computed on i64 in the stride rounding: stride >= 2 ==> span <= i64::MAX, where the
///    span includes the widening hints (a merge may widen to a hint) and, for binary operations, both operands;
///  * the CRT computation of an intersection needs lcm(stride_a, stride_b) <= u64::MAX.
/// Outside them the real code panics in builds with overflow checks (and wraps correctly without) or returns the
/// documented overflow error; DESIGN.md section 11 lists these as observations.
fn machine_pre(c: &Case) -> bool {
    let Case::Iv(c) = c else { return true };
    let mut doms: Vec<&Dom> = vec![&c.a.d];
    if let Some(b) = &c.b { doms.push(&b.d); }
    if doms.iter().all(|d| d.w < 64) { return true; }
    let mut lo = i128::MAX;
    let mut hi = i128::MIN;
    for d in &doms {
        for v in [Some(d.start), Some(d.end), d.lo, d.hi].into_iter().flatten() {
            lo = lo.min(sval(d.w, v));
            hi = hi.max(sval(d.w, v));
        }
    }
    let any_stride = doms.iter().any(|d| d.stride >= 2);
    if any_stride && hi - lo > i64::MAX as i128 { return false; }
    if let Some(b) = &c.b {
        let (sa, sb) = (c.a.d.stride as u128, b.d.stride as u128);
        if sa > 0 && sb > 0 {
            fn gcd(a: u128, b: u128) -> u128 { if b == 0 { a } else { gcd(b, a % b) } }
            if (sa / gcd(sa, sb)).saturating_mul(sb) > u64::MAX as u128 { return false; }
        }
    }
    // the bound of a refinement may become the new interval end / start
    if let Some(v) = c.v {
        let d = &c.a.d;
        if d.stride >= 2 && (hi.max(sval(d.w, v)) - lo.min(sval(d.w, v))) > i64::MAX as i128 { return false; }
    }
    true
}

fn drive(twin: &str, case: Option<&str>, seed: u64, stop_at_first: bool) -> Stats {
    quiet_panics();
    if twin == "c02.selftest" {
        return selftest(seed);
    }
    let mut st = Stats::default();
    let dump: u64 = std::env::var("VERIF_DUMP").ok().and_then(|s| s.parse().ok()).unwrap_or(0);
    enumerate(twin, case, seed, &mut |c| {
        if !machine_pre(c) {
            return false;
        }
        if let Some(v) = check(c, &mut st) {
            st.fails += 1;
            let kind = kind_of(&v);
            let seen = st.kinds.entry(kind).or_insert(0);
            *seen += 1;
            // VERIF_DUMP=n: print the first n disagreements of every kind to stderr
            if *seen <= dump {
                eprintln!("{}", v);
            }
            if st.first.is_none() {
                st.first = Some(v);
            }
            return stop_at_first;
        }
        false
    });
    st
}

pub fn search(twin: &str, case: Option<&str>, seed: u64) -> Option<Value> {
    drive(twin, case, seed, true).first
}

pub fn replay(twin: &str, input: &Value) -> Value {
    quiet_panics();
    let twin = input["fn"].as_str().filter(|f| f.starts_with("c0")).unwrap_or(twin);
    let mut st = Stats::default();
    let c = case_from_json(twin, input);
    match check(&c, &mut st) {
        Some(v) => json!({"agrees": false, "input": input, "observed": v["observed"], "expected": v["expected"]}),
        None => json!({"agrees": true, "input": input}),
    }
}

pub fn sweep(twin: &str, seed: u64) -> Value {
    let st = drive(twin, None, seed, false);
    json!({"twin": twin, "evaluations": st.evals, "member_checks": st.members, "disagreements": st.fails, "kinds": st.kinds, "first": st.first})
}
