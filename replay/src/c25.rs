//! C25 twin: the log collector of `utils::log`, run on the REAL crate (real crossbeam channel, real threads).
//!
//!   "Log collection delivers every message sent before collection. For any interleaving of threads sending log
//!    messages and warnings to the log collector, every message whose send completed before collection was requested
//!    is returned, address-less logs keep their send order, and for each reporting address exactly the last warning
//!    sent for it is kept."
//!
//! Both twins are BOUNDED (an enumeration / a sample of schedules, not a proof); the proof is the Verus unit `logcollect`.
//!
//! Twin `c25.collect` -- ONE sending thread, so the delivery history of the channel is the send order and is known exactly:
//!   `LogThread::spawn(LogThread::collect_and_deduplicate)`, the messages are sent through `get_msg_sender()`, then
//!   `collect()`.  Alphabet: address-less log, log at address A/B, warning with addresses [A], [B], [A,B], [B,A], [] and
//!   an explicit `Terminate` in the middle.  ALL sequences up to length 4 over the alphabet without the empty warning,
//!   seeded random sequences up to length 40 over 5 addresses, and a few sequences with an address-less warning.
//!   Reference (from the property statement, clauses a-d of the unit): h = the messages before the first Terminate;
//!   logs = [last log of every address, ascending by address] ++ [address-less logs of h in order];
//!   warnings = [last warning of every first address, ascending]; a warning without address in h: the collector panics
//!   and so does `collect()` (clause d).  "Last" is decided by a quadratic scan for a later message with the same key.
//!
//! Twin `c25.threads` -- SEVERAL sending threads (2..=4), all joined before `collect()` is called, i.e. every send has
//!   completed before collection is requested.  The interleaving is whatever the scheduler does, so the reference only uses what
//!   holds for EVERY interleaving: thread t only uses addresses of its own (`t<t>_..`), hence "last per address" is the last
//!   one of that thread; every address-less log of every thread must be returned and those of one thread must keep their order.
//!   This twin exercises the TRUSTED half of the Verus unit (crossbeam: per-sender order, nothing lost, Terminate of `collect`
//!   ordered after completed sends).
use crate::util::Rng;
use cwe_checker_lib::intermediate_representation::Tid;
use cwe_checker_lib::utils::log::{CweWarning, LogMessage, LogThread, LogThreadMsg};
use serde_json::{json, Value};
use std::panic::{catch_unwind, AssertUnwindSafe};

#[derive(Clone, Debug, PartialEq, Eq)]
pub enum Msg {
    /// address-less log
    Gen,
    /// log with a location at this address
    Log(String),
    /// warning with these addresses (possibly none)
    Cwe(Vec<String>),
    /// explicit `LogThreadMsg::Terminate`
    Term,
}

/// The text that identifies message number `k` of sender `t` (unique per message).
fn text(t: usize, k: usize) -> String {
    format!("m{}_{}", t, k)
}

fn build(m: &Msg, t: usize, k: usize) -> LogThreadMsg {
    match m {
        Msg::Gen => LogMessage::new_info(text(t, k)).into(),
        Msg::Log(a) => {
            // the id differs per message: only `address` may be the deduplication key
            let mut tid = Tid::new(format!("tid_{}_{}", t, k));
            tid.address = a.clone();
            LogMessage::new_debug(text(t, k)).location(tid).source("twin").into()
        }
        Msg::Cwe(addrs) => CweWarning::new(format!("CWE{}", k % 3), "0.1", text(t, k))
            .addresses(addrs.clone())
            .tids(vec![format!("tid_{}_{}", t, k)])
            .into(),
        Msg::Term => LogThreadMsg::Terminate,
    }
}

fn msg_to_json(m: &Msg) -> Value {
    match m {
        Msg::Gen => json!(["gen"]),
        Msg::Log(a) => json!(["log", a]),
        Msg::Cwe(v) => json!(["cwe", v]),
        Msg::Term => json!(["term"]),
    }
}
fn msg_from_json(v: &Value) -> Msg {
    match v[0].as_str().unwrap_or("") {
        "log" => Msg::Log(v[1].as_str().unwrap_or("").to_string()),
        "cwe" => Msg::Cwe(v[1].as_array().map(|a| a.iter().map(|s| s.as_str().unwrap_or("").to_string()).collect()).unwrap_or_default()),
        "term" => Msg::Term,
        _ => Msg::Gen,
    }
}

/// What came back, reduced to the identifying texts (plus the address the collector must have keyed on).
#[derive(Debug, PartialEq, Eq, Clone)]
pub enum Outcome {
    Returned { logs: Vec<String>, cwes: Vec<String> },
    Panicked,
}
impl Outcome {
    fn to_json(&self) -> Value {
        match self {
            Outcome::Returned { logs, cwes } => json!({"logs": logs, "cwes": cwes}),
            Outcome::Panicked => json!("panic"),
        }
    }
}

/// Run the REAL code: one sender thread per list, all joined, then `collect()`.
fn run_real(threads: &[Vec<Msg>]) -> Outcome {
    let r = catch_unwind(AssertUnwindSafe(|| {
        let log_thread = LogThread::spawn(LogThread::collect_and_deduplicate);
        if threads.len() == 1 {
            let sender = log_thread.get_msg_sender();
            for (k, m) in threads[0].iter().enumerate() {
                // a send after an explicit Terminate may fail (receiver gone): that is part of the scenario
                let _ = sender.send(build(m, 0, k));
            }
        } else {
            let mut handles = Vec::new();
            for (t, list) in threads.iter().enumerate() {
                let sender = log_thread.get_msg_sender();
                let list = list.clone();
                handles.push(std::thread::spawn(move || {
                    for (k, m) in list.iter().enumerate() {
                        let _ = sender.send(build(m, t, k));
                        if k % 3 == t % 3 {
                            std::thread::yield_now();
                        }
                    }
                }));
            }
            for h in handles {
                h.join().unwrap();
            }
        }
        log_thread.collect()
    }));
    match r {
        Ok((logs, cwes)) => Outcome::Returned {
            logs: logs.into_iter().map(|l| l.text).collect(),
            cwes: cwes.into_iter().map(|c| c.description).collect(),
        },
        Err(_) => Outcome::Panicked,
    }
}

fn key(m: &Msg, cwe: bool) -> Option<&String> {
    match m {
        Msg::Log(a) if !cwe => Some(a),
        Msg::Cwe(v) if cwe => v.first(),
        _ => None,
    }
}

/// The reference for ONE sender (history = send order), from the property statement.
fn expected_single(msgs: &[Msg]) -> Outcome {
    let n = msgs.iter().position(|m| *m == Msg::Term).unwrap_or(msgs.len());
    let h = &msgs[..n];
    if h.iter().any(|m| matches!(m, Msg::Cwe(v) if v.is_empty())) {
        return Outcome::Panicked;
    }
    let dedup = |cwe: bool| -> Vec<String> {
        let mut kept: Vec<(&String, String)> = Vec::new();
        for i in 0..h.len() {
            if let Some(a) = key(&h[i], cwe) {
                let later = (i + 1..h.len()).any(|j| key(&h[j], cwe) == Some(a));
                if !later {
                    kept.push((a, text(0, i)));
                }
            }
        }
        kept.sort();
        kept.into_iter().map(|(_, t)| t).collect()
    };
    let mut logs = dedup(false);
    for i in 0..h.len() {
        if h[i] == Msg::Gen {
            logs.push(text(0, i));
        }
    }
    Outcome::Returned { logs, cwes: dedup(true) }
}

fn check_single(msgs: &[Msg]) -> Option<Value> {
    let got = run_real(&[msgs.to_vec()]);
    let exp = expected_single(msgs);
    if got == exp {
        None
    } else {
        Some(json!({
            "input": {"fn": "collect", "msgs": msgs.iter().map(msg_to_json).collect::<Vec<_>>()},
            "expected": exp.to_json(), "got": got.to_json(),
        }))
    }
}

/// Several senders: what must hold under every interleaving (see the module comment).  Returns a description of the
/// first violated clause.
fn check_threads(threads: &[Vec<Msg>]) -> Option<Value> {
    let got = run_real(threads);
    let fail = |why: &str, got: &Outcome| {
        Some(json!({
            "input": {"fn": "threads", "threads": threads.iter().map(|l| l.iter().map(msg_to_json).collect::<Vec<_>>()).collect::<Vec<_>>()},
            "expected": why, "got": got.to_json(),
        }))
    };
    let (logs, cwes) = match &got {
        Outcome::Returned { logs, cwes } => (logs.clone(), cwes.clone()),
        Outcome::Panicked => return fail("no panic", &got),
    };
    let mut exp_addressed = Vec::new();
    let mut exp_cwes = Vec::new();
    let mut exp_general_total = 0;
    for (t, list) in threads.iter().enumerate() {
        // per-thread expectations (addresses are private to the thread)
        let mut gen_positions = Vec::new();
        for (k, m) in list.iter().enumerate() {
            match m {
                Msg::Gen => {
                    exp_general_total += 1;
                    match logs.iter().position(|x| *x == text(t, k)) {
                        Some(p) => gen_positions.push(p),
                        None => return fail(&format!("address-less log {} returned", text(t, k)), &got),
                    }
                }
                Msg::Log(a) => {
                    if !(k + 1..list.len()).any(|j| key(&list[j], false) == Some(a)) {
                        exp_addressed.push((a.clone(), text(t, k)));
                    }
                }
                Msg::Cwe(v) => {
                    if !(k + 1..list.len()).any(|j| key(&list[j], true) == v.first()) {
                        exp_cwes.push((v[0].clone(), text(t, k)));
                    }
                }
                Msg::Term => {}
            }
        }
        if gen_positions.windows(2).any(|w| w[0] >= w[1]) {
            return fail(&format!("address-less logs of thread {} in send order", t), &got);
        }
    }
    exp_addressed.sort();
    exp_cwes.sort();
    let exp_addressed: Vec<String> = exp_addressed.into_iter().map(|(_, t)| t).collect();
    let exp_cwes: Vec<String> = exp_cwes.into_iter().map(|(_, t)| t).collect();
    if logs.len() != exp_addressed.len() + exp_general_total || logs[..exp_addressed.len()] != exp_addressed[..] {
        return fail(&format!("addressed logs {:?} first, then {} address-less logs", exp_addressed, exp_general_total), &got);
    }
    if cwes != exp_cwes {
        return fail(&format!("warnings {:?}", exp_cwes), &got);
    }
    None
}

fn alphabet(with_empty: bool) -> Vec<Msg> {
    let a = || "A".to_string();
    let b = || "B".to_string();
    let mut v = vec![
        Msg::Gen,
        Msg::Log(a()),
        Msg::Log(b()),
        Msg::Cwe(vec![a()]),
        Msg::Cwe(vec![b()]),
        Msg::Cwe(vec![a(), b()]),
        Msg::Cwe(vec![b(), a()]),
        Msg::Term,
    ];
    if with_empty {
        v.push(Msg::Cwe(vec![]));
    }
    v
}

fn random_msg(rng: &mut Rng, prefix: &str, n_addr: u64, allow_term: bool) -> Msg {
    let addr = |rng: &mut Rng| format!("{}{:02}", prefix, rng.next() % n_addr);
    match rng.next() % 10 {
        0..=2 => Msg::Gen,
        3..=5 => Msg::Log(addr(rng)),
        6..=7 => Msg::Cwe(vec![addr(rng)]),
        8 => Msg::Cwe(vec![addr(rng), addr(rng), addr(rng)]),
        _ => {
            if allow_term && rng.next() % 4 == 0 {
                Msg::Term
            } else {
                Msg::Cwe(vec![addr(rng), addr(rng)])
            }
        }
    }
}

fn enumerate_single(seed: u64, evaluations: &mut u64) -> Option<Value> {
    // all sequences up to length 4 (no address-less warning: those panic, tried separately below)
    let alpha = alphabet(false);
    for len in 0..=4usize {
        let mut idx = vec![0usize; len];
        loop {
            let msgs: Vec<Msg> = idx.iter().map(|&i| alpha[i].clone()).collect();
            *evaluations += 1;
            if let Some(v) = check_single(&msgs) {
                return Some(v);
            }
            let mut p = 0;
            while p < len {
                idx[p] += 1;
                if idx[p] < alpha.len() {
                    break;
                }
                idx[p] = 0;
                p += 1;
            }
            if p == len {
                break;
            }
        }
    }
    let mut rng = Rng(seed ^ 0xC25);
    for _ in 0..400 {
        let len = (rng.next() % 41) as usize;
        let msgs: Vec<Msg> = (0..len).map(|_| random_msg(&mut rng, "a", 5, true)).collect();
        *evaluations += 1;
        if let Some(v) = check_single(&msgs) {
            return Some(v);
        }
    }
    // address-less warnings: before / after a Terminate (the panic message of the collector thread is silenced)
    let hook = std::panic::take_hook();
    std::panic::set_hook(Box::new(|_| {}));
    let alpha = alphabet(true);
    let mut res = None;
    'outer: for a in 0..alpha.len() {
        for b in 0..alpha.len() {
            for c in 0..alpha.len() {
                let msgs = vec![alpha[a].clone(), alpha[b].clone(), alpha[c].clone()];
                if !msgs.iter().any(|m| matches!(m, Msg::Cwe(v) if v.is_empty())) {
                    continue;
                }
                *evaluations += 1;
                if let Some(v) = check_single(&msgs) {
                    res = Some(v);
                    break 'outer;
                }
            }
        }
    }
    std::panic::set_hook(hook);
    res
}

fn enumerate_threads(seed: u64, evaluations: &mut u64) -> Option<Value> {
    let mut rng = Rng(seed ^ 0xC25_7);
    for round in 0..300 {
        let nt = 2 + (rng.next() % 3) as usize;
        let threads: Vec<Vec<Msg>> = (0..nt)
            .map(|t| {
                let len = if round % 10 == 0 { 200 + (rng.next() % 300) as usize } else { (rng.next() % 30) as usize };
                let prefix = format!("t{}_", t);
                (0..len).map(|_| random_msg(&mut rng, &prefix, 4, false)).collect()
            })
            .collect();
        *evaluations += 1;
        if let Some(v) = check_threads(&threads) {
            return Some(v);
        }
    }
    None
}

pub fn search(twin: &str, _case: Option<&str>, seed: u64) -> Option<Value> {
    let mut evaluations = 0;
    match twin {
        "c25.collect" => enumerate_single(seed, &mut evaluations),
        "c25.threads" => enumerate_threads(seed, &mut evaluations),
        _ => None,
    }
}

pub fn replay(_twin: &str, input: &Value) -> Value {
    let r = if input["fn"].as_str() == Some("threads") {
        let threads: Vec<Vec<Msg>> = input["threads"].as_array().map(|a| {
            a.iter().map(|l| l.as_array().map(|m| m.iter().map(msg_from_json).collect()).unwrap_or_default()).collect()
        }).unwrap_or_default();
        check_threads(&threads)
    } else {
        let msgs: Vec<Msg> = input["msgs"].as_array().map(|a| a.iter().map(msg_from_json).collect()).unwrap_or_default();
        let hook = std::panic::take_hook();
        std::panic::set_hook(Box::new(|_| {}));
        let r = check_single(&msgs);
        std::panic::set_hook(hook);
        r
    };
    match r {
        Some(v) => json!({"agrees": false, "expected": v["expected"], "got": v["got"], "input": input}),
        None => json!({"agrees": true, "input": input}),
    }
}

pub fn sweep(twin: &str, seed: u64) -> Value {
    let mut evaluations = 0;
    let r = match twin {
        "c25.collect" => enumerate_single(seed, &mut evaluations),
        "c25.threads" => enumerate_threads(seed, &mut evaluations),
        _ => None,
    };
    json!({"twin": twin, "bounded": true, "cases": evaluations, "evaluations": evaluations,
           "disagreements": if r.is_some() { 1 } else { 0 }, "first": r})
}
